#!/usr/bin/env python3
"""Single entry point: python3 check.py <Cxx> [--tier quick|thorough] [--replay file]   (DESIGN.md §2.4)"""
import argparse, os, sys
sys.path.insert(0, os.path.dirname(os.path.abspath(__file__)))
from vlib.framework import run_check

def main():
    ap = argparse.ArgumentParser()
    ap.add_argument("prop")
    ap.add_argument("--tier", default=os.environ.get("VERIF_TIER", "quick"), choices=["quick", "thorough"])
    ap.add_argument("--replay")
    a = ap.parse_args()
    sys.exit(run_check(a.prop.upper(), a.tier, a.replay))

if __name__ == "__main__":
    main()
