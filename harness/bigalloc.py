"""Storage lengths of fields too large to allocate (2^31 .. 2^44 cells): what the storage-order layers ask the allocator
for, observed by replacing the global allocation functions (harness/cpp/bigalloc_harness.cpp; nothing large is allocated).
Used by C01 (`storage_len_ge`) and C18 (`curve_len`)."""
import random
from vlib import common as C
from harness import layoutlib as L

CPP = C.VERIF / "harness" / "cpp"
FIXED = [[65536, 65537], [65537, 65536], [3, 2 ** 30 + 1], [2 ** 31], [2 ** 31 + 1], [2 ** 32 + 5], [2 ** 32, 2], [1291, 1663, 1009],
         [256, 256, 256, 257], [2 ** 16, 2 ** 16, 3], [46341, 46341], [2 ** 11 + 1, 2 ** 11, 2 ** 11], [1, 2 ** 33 + 7, 1], [7, 1, 1, 2 ** 29]]


def boxes(rnd, n):
    out = [list(b) for b in FIXED]
    while len(out) < len(FIXED) + n:
        N = rnd.choice([1, 2, 2, 3, 3, 4])
        bits = rnd.randrange(31, 45)
        cut = sorted(rnd.randrange(0, bits + 1) for _ in range(N - 1))
        parts = [b - a for a, b in zip([0] + cut, cut + [bits])]
        sz = [max(1, (1 << p) + rnd.choice([-1, 0, 0, 1, 1, rnd.randrange(0, 1 << max(p - 1, 0)) if p > 1 else 0])) for p in parts]
        if 2 ** 31 <= L.prod(sz) < 2 ** 46:
            out.append(sz)
    return out


def run(ctx, corr, obligation, lays, n_random, seed_salt=0):
    """one line per (layout, box); `lays` from strided, stridedC, mortonT, mortonF, hilbert"""
    rnd = random.Random(ctx.seed * 1000003 + 77 + seed_salt)
    exe = ctx.work.path("bigalloc_rel")
    (rc, err), = C.compile_many([(CPP / "bigalloc_harness.cpp", exe, "rel", [])])
    if rc != 0:
        raise C.CompileError(CPP / "bigalloc_harness.cpp", "rel", err)
    cases = []
    for sz in boxes(rnd, n_random):
        for lay in lays:
            base = "strided" if lay.startswith("strided") else lay
            if base == "hilbert" and len(sz) != 2:
                continue
            want = L.curve_bound(base, sz)
            if want >= 2 ** 62 or want < 2 ** 27:
                continue
            cases.append((lay, sz, want))
    outs, _ = C.run_lines(exe, [f"{lay} {len(sz)} {' '.join(map(str, sz))}" for lay, sz, _ in cases], timeout_per_line=0.05)
    for (lay, sz, want), o in zip(cases, outs):
        corr.configs["rel"] += 1
        corr.case(("bigalloc", lay, sz), True)
        corr.dist[f"bigalloc/{lay}/N{len(sz)}"] += 1
        t = o.split()
        got = int(t[1]) if len(t) >= 2 and t[0] in ("trap", "built") and t[1].isdigit() else None
        ok = got == want
        corr.add_obl(obligation, 1, 0 if ok else 1)
        if not ok:
            how = "from the extents" if lay == "strided" else "by conversion from a row-major field"
            corr.violation(obligation, f"{lay.replace('stridedC', 'strided')} {sz} constructed {how}: the layer asks for {got if got is not None else o} cells of storage, "
                           f"the lattice needs {want}", {"bigalloc": [lay, sz], "cfg": "rel"}, impl=o, model=str(want),
                           oracle_fails=got is None or got < want, key={"kind": "bigalloc", "lay": lay, "sz": sz}, cfg="rel")
    if cases:
        corr.sample({"bigalloc": cases[0][0], "sz": cases[0][1], "impl": outs[0], "needs": cases[0][2]})
    return len(cases)
