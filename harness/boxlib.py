"""Shared pieces of the clamp / backup checks (C10, C11): extreme and bound-adjacent coordinates as bit patterns,
boxes, and a runner in which stacks of the same C++ type share one instantiation (configurations are run-time data)."""
import struct
from fractions import Fraction as Fr
from vlib import common as C
from harness import stackgen as G

INT_SK = ("i32", "u32", "i64", "u64")
ALL_SK = ("i32", "u32", "i64", "u64", "f32", "f64")
W = {sk: 8 * G.BYTES[sk] for sk in G.BYTES}


# ------------------------------------------------------------------------------------------ bit-pattern arithmetic
def fkey(sk, b):
    """monotone integer key of a non-NaN float bit pattern (-0 and +0 adjacent)"""
    w = W[sk]
    s = b >> (w - 1)
    m = b & ((1 << (w - 1)) - 1)
    return -m - 1 if s else m


def fbits(sk, k):
    w = W[sk]
    return k if k >= 0 else ((1 << (w - 1)) | (-k - 1))


def inf_key(sk):
    return fkey(sk, G.enc(sk, G.INF))


def step(sk, b, d):
    """the value d steps (integers: +-1; floats: ulps) away from bit pattern b, saturating at the type's extremes / infinities"""
    if G.isf(sk):
        k = fkey(sk, b) + d
        k = max(-inf_key(sk) - 1, min(inf_key(sk), k))
        return fbits(sk, k)
    lo, hi = G.IRANGE[sk]
    return G.enc(sk, max(lo, min(hi, G.dec(sk, b) + d)))


def val(sk, b):
    """exact value of a bit pattern (ints, Fractions, +-inf)"""
    return G.dec(sk, b)


def lt(sk, a, b):
    return val(sk, a) < val(sk, b)


def clamp_bits(sk, lo, hi, x):
    """std::clamp(x, lo, hi) on bit patterns: (x < lo) ? lo : (hi < x) ? hi : x"""
    return lo if lt(sk, x, lo) else hi if lt(sk, hi, x) else x


def outside_bits(sk, lo, hi, x):
    return lt(sk, x, lo) or lt(sk, hi, x)


def fenc(sk, f):
    """bit pattern of a Python float rounded to sk"""
    if sk == "f32":
        return struct.unpack("<I", struct.pack("<f", f))[0]
    return struct.unpack("<Q", struct.pack("<d", f))[0]


def extremes(sk):
    if G.isf(sk):
        mx = fbits(sk, inf_key(sk) - 1)
        return [G.enc(sk, G.INF), G.enc(sk, -G.INF), mx, mx | (1 << (W[sk] - 1)), 1, 1 | (1 << (W[sk] - 1)), 0, 1 << (W[sk] - 1)]
    lo, hi = G.IRANGE[sk]
    return [G.enc(sk, x) for x in (lo, hi, lo + 1, hi - 1, 0, hi // 2 + 1)]


def random_scalar(rnd, sk, finite=False):
    """any non-NaN value of the type"""
    if G.isf(sk):
        while True:
            b = rnd.getrandbits(W[sk])
            v = val(sk, b)
            if v is None or (finite and G.is_inf(v)):
                continue
            return b
    return rnd.getrandbits(W[sk])


def near(rnd, sk, lo, hi):
    """bit patterns equal to, and +-1 / +-1 ulp / +-1.0 adjacent to, the two bounds, and some inside"""
    out = [lo, hi]
    for b in (lo, hi):
        out += [step(sk, b, 1), step(sk, b, -1), step(sk, b, 2), step(sk, b, -2)]
        if G.isf(sk):
            v = val(sk, b)
            if not G.is_inf(v):
                out += [fenc(sk, float(v) + 1.0), fenc(sk, float(v) - 1.0), fenc(sk, float(v) + 0.125), fenc(sk, float(v) - 0.125)]
        else:
            # far away by a power of two: a range test done in a narrower type aliases these into the box
            r0, r1 = G.IRANGE[sk]
            v = G.dec(sk, b)
            for k in (8, 16, 31, 32, 33, 48, 63):
                for x in (v + (1 << k), v - (1 << k)):
                    if r0 <= x <= r1:
                        out.append(G.enc(sk, x))
    return out


def inside(rnd, sk, lo, hi):
    """a value in the closed box component [lo, hi] (lo <= hi)"""
    if G.isf(sk):
        a, b = fkey(sk, lo), fkey(sk, hi)
        if a > b:                                            # lo = +0, hi = -0
            a, b = b, a
        return fbits(sk, rnd.randrange(a, b + 1))
    a, b = val(sk, lo), val(sk, hi)
    return G.enc(sk, rnd.randrange(a, b + 1))


def coord_mix(rnd, sk, lo, hi, n, inside_bias=0.35):
    """n coordinates (bit-pattern lists) for a box: all-inside, one component pushed to / across a bound, extremes, random"""
    N = len(lo)
    out, seen = [], set()
    guard = 0
    ordered = all(not lt(sk, h, l) for l, h in zip(lo, hi))
    while len(out) < n and guard < 20 * n:
        guard += 1
        r = rnd.random()
        if r < inside_bias and ordered:
            c = [rnd.choice([l, h, inside(rnd, sk, l, h), inside(rnd, sk, l, h)]) for l, h in zip(lo, hi)]
            if r < inside_bias * 0.6:
                k = rnd.randrange(N)
                c[k] = rnd.choice(near(rnd, sk, lo[k], hi[k]))
        elif r < 0.75:
            c = [rnd.choice(near(rnd, sk, l, h) + ([inside(rnd, sk, l, h)] * 3 if ordered else [])) for l, h in zip(lo, hi)]
        elif r < 0.9:
            c = [rnd.choice(extremes(sk) + near(rnd, sk, l, h)[:6]) for l, h in zip(lo, hi)]
        else:
            c = [random_scalar(rnd, sk) for _ in range(N)]
        if any(val(sk, x) is None for x in c):
            continue
        t = tuple(c)
        if t in seen:
            continue
        seen.add(t)
        out.append(c)
    return out


def random_box(rnd, sk, N, mode=None):
    """box as bit patterns; modes: small, degenerate, wide, extreme, open, random"""
    lo, hi = [], []
    mode = mode or rnd.choice(["small", "small", "degenerate", "wide", "extreme", "random", "zero", "tiny"])
    for _ in range(N):
        if mode == "zero":
            # a face at zero (either sign of zero for floats) and a short edge: subnormal neighbours of the face, -0.0 on it
            if G.isf(sk):
                a = rnd.choice([G.enc(sk, Fr(0)), 1 << (W[sk] - 1)])
                b = rnd.choice([fenc(sk, 0.5), fenc(sk, 0.25), fenc(sk, 2.0 ** -20), 1, 5, fenc(sk, 3.0), G.enc(sk, Fr(0))])
            else:
                a, b = G.enc(sk, 0), G.enc(sk, rnd.choice([0, 1, 3, 7, 200]))
        elif mode == "tiny" and G.isf(sk):
            # both bounds of tiny magnitude (subnormal, or so small that products of distances underflow)
            k1 = rnd.choice([1, 2, 7, 1 << 10, 1 << (W[sk] - 12), fkey(sk, fenc(sk, 1e-30)), fkey(sk, fenc(sk, 2.0 ** -100))])
            k2 = k1 + rnd.choice([0, 1, 3, 1 << 8, k1])
            sgn = rnd.choice([1, 1, -1])
            a, b = (fbits(sk, k1), fbits(sk, k2)) if sgn > 0 else (fbits(sk, -k2 - 1), fbits(sk, -k1 - 1))
        elif mode in ("small", "tiny"):
            a = G.small(rnd, sk)
            b = a + (rnd.randrange(0, 6) if not G.isf(sk) else Fr(rnd.randrange(0, 40), 8))
            a, b = G.enc(sk, a), G.enc(sk, b)
        elif mode == "degenerate":
            a = G.enc(sk, G.small(rnd, sk))
            b = a
        elif mode == "open":
            # a box without a bound on one or both sides: the infinities (floats) / the extremes of the type (integers)
            if G.isf(sk):
                top, bot = G.enc(sk, G.INF), G.enc(sk, -G.INF)
            else:
                bot, top = G.enc(sk, G.IRANGE[sk][0]), G.enc(sk, G.IRANGE[sk][1])
            mid = G.enc(sk, G.small(rnd, sk))
            a, b = rnd.choice([(bot, mid), (mid, top), (bot, top), (mid, top), (bot, mid)])
        elif mode == "fullrange":
            # every finite value of the type on every axis ([lowest(), max()]): for floats the infinities are still outside
            if G.isf(sk):
                mx = fbits(sk, inf_key(sk) - 1)
                a, b = mx | (1 << (W[sk] - 1)), mx
            else:
                a, b = G.enc(sk, G.IRANGE[sk][0]), G.enc(sk, G.IRANGE[sk][1])
        elif mode == "extreme":
            ex = extremes(sk)
            a, b = rnd.choice(ex), rnd.choice(ex)
            if lt(sk, b, a):
                a, b = b, a
        else:
            a, b = random_scalar(rnd, sk, finite=(mode == "wide")), random_scalar(rnd, sk, finite=(mode == "wide"))
            if lt(sk, b, a):
                a, b = b, a
        lo.append(a)
        hi.append(b)
    return lo, hi


def vals(sk, bs):
    return [G.asv(sk, val(sk, b)) for b in bs]


# ------------------------------------------------------------------------------------------------------ runner
def at_bits(i, cb):
    return f"at S{i} {' '.join(map(str, cb))}"


def run_typed(ctx, cases, cfgs, tag, per_tu=8):
    """cases: list of dicts with `stack` and `cbs` (coordinate bit lists). Stacks with equal C++ type share an instantiation.
    Returns (outs: dict (case index, cfg) -> list of answer lines, failures: list of (case indices, cfg, diagnostic))"""
    inst, order = {}, []
    for k, cs in enumerate(cases):
        key = G.type_key(cs["stack"])
        if key not in inst:
            inst[key] = len(order)
            order.append(cs["stack"])
        cs["inst"] = inst[key]
    items = [(i, s, "") for i, s in enumerate(order)]
    exe, fails = G.build_tus(ctx, items, cfgs, per_tu, tag)
    failures = []
    for idxs, cfg, err, src in fails:
        failures.append(([k for k, cs in enumerate(cases) if cs["inst"] in idxs], cfg, err))

    def one(job):
        k, cfg = job
        cs = cases[k]
        lines = [at_bits(cs["inst"], cb) for cb in cs["cbs"]]
        outs, _ = C.run_lines(exe[(cs["inst"], cfg)], lines, setup=[G.setup_line(cs["inst"], cs["stack"])])
        return outs
    jobs = [(k, cfg) for k in range(len(cases)) for cfg in cfgs if (cases[k]["inst"], cfg) in exe]
    res = G.run_parallel(one, jobs)
    return dict(zip(jobs, res)), failures


def run_pb(lines):
    """verdicts of `pb …` lines from the evalcheck driver, in parallel chunks"""
    if not lines:
        return []
    n = max(1, min(C.NCPU, len(lines) // 500 + 1))
    parts = [lines[k::n] for k in range(n)]
    res = G.run_parallel(lambda p: C.run_driver("evalcheck", p, timeout_per_line=0.02, min_timeout=120), parts)
    out = [None] * len(lines)
    for k, r in enumerate(res):
        out[k::n] = r
    return out
