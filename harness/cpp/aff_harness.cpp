// Correspondence harness for C09 (affine algebra and the affine layer). One translation unit per dimension: -DAFF_N=<1..4>.
// One operation per line, one answer per line; every scalar crosses as a decimal integer bit pattern; groups separated by `|`.
//   apply <prec> | A (N*(N+1) words, row-major) | v (N words)          -> r                 covfie::algebra::affine * vector
//   layer <prec> | A | x                                               -> r                 field<affine<identity<TN>>>::view.at(x)
//   layermix 64 | A | x                                                  -> r (float results widened to f64 bits)  field<affine<covariant_cast<float, identity<doubleN>>>>
//   chain <prec> <k> | A1 | ... | Ak | v                               -> P | Pr | pv | nest
//        P = ((A1*A2)*...)*Ak   Pr = A1*(...*(Ak-1*Ak))   pv = P*v   nest = A1*(A2*(...(Ak*v)))
//   ctor <prec> <t|s|i> | args (N words; none for i) | v               -> Mx | r            translation / scaling / identity, Mx*v
#include "ambient.hpp"
#include <covfie/core/algebra/affine.hpp>
#include <covfie/core/algebra/matrix.hpp>
#include <covfie/core/algebra/vector.hpp>
#include <covfie/core/backend/primitive/identity.hpp>
#include <covfie/core/backend/transformer/affine.hpp>
#include <covfie/core/backend/transformer/covariant_cast.hpp>
#include <covfie/core/field.hpp>
#include <cmath>
#include <cstring>
#include <iostream>
#include <sstream>
#include <string>
#include <utility>
#include <vector>
using namespace covfie;
using u64 = std::uint64_t;
constexpr std::size_t N = AFF_N;

template <typename X> u64 bits(X v) {
  if constexpr (sizeof(X) == 4) { std::uint32_t b; std::memcpy(&b, &v, 4); return b; }
  else { u64 b; std::memcpy(&b, &v, 8); return b; }
}
template <typename X> X frombits(u64 b) {
  X v;
  if constexpr (sizeof(X) == 4) { std::uint32_t c = static_cast<std::uint32_t>(b); std::memcpy(&v, &c, 4); }
  else std::memcpy(&v, &b, 8);
  return v;
}
template <typename T> algebra::affine<N, T> matOf(const std::vector<u64> & w) {
  algebra::affine<N, T> m;
  for (std::size_t i = 0; i < N; ++i) for (std::size_t j = 0; j < N + 1; ++j) m(i, j) = frombits<T>(w.at(i * (N + 1) + j));
  return m;
}
template <typename T> algebra::vector<N, T> vecOf(const std::vector<u64> & w) {
  algebra::vector<N, T> v;
  for (std::size_t i = 0; i < N; ++i) v(i) = frombits<T>(w.at(i));
  return v;
}
template <typename T> std::string matStr(const algebra::affine<N, T> & m) {
  std::ostringstream os;
  for (std::size_t i = 0; i < N; ++i) for (std::size_t j = 0; j < N + 1; ++j) os << ((i + j) ? " " : "") << bits<T>(m(i, j));
  return os.str();
}
template <typename T> std::string vecStr(const algebra::vector<N, T> & v) {
  std::ostringstream os;
  for (std::size_t i = 0; i < N; ++i) os << (i ? " " : "") << bits<T>(v(i));
  return os.str();
}
template <typename T, std::size_t... Is> algebra::affine<N, T> mkTrans(const std::vector<u64> & a, std::index_sequence<Is...>) {
  return algebra::affine<N, T>::translation(frombits<T>(a.at(Is))...);
}
template <typename T, std::size_t... Is> algebra::affine<N, T> mkScale(const std::vector<u64> & a, std::index_sequence<Is...>) {
  return algebra::affine<N, T>::scaling(frombits<T>(a.at(Is))...);
}

// the factories called with arguments of DIFFERENT arithmetic types (each is converted to T on its own): small integers only;
// position k is passed as int (k % 3 == 0), as unsigned when it is >= 0 and long otherwise (k % 3 == 1), as double (k % 3 == 2)
template <typename T, bool Trans, std::size_t... Is> bool mixedFactoryAgrees(const std::vector<u64> & a, const algebra::affine<N, T> & want, std::index_sequence<Is...>) {
  for (std::size_t k = 0; k < N; ++k) { T x = frombits<T>(a.at(k)); if (!(x >= T(-30000) && x <= T(30000) && static_cast<T>(static_cast<long>(x)) == x) || (x == T(0) && std::signbit(x))) return true; }
  auto call = [&](auto... xs) { if constexpr (Trans) return algebra::affine<N, T>::translation(xs...); else return algebra::affine<N, T>::scaling(xs...); };
  // int next to unsigned (position 0 as int, the others as unsigned) when the others are non-negative; otherwise int / long / double
  bool othersNonNeg = true; for (std::size_t k = 1; k < N; ++k) if (frombits<T>(a.at(k)) < T(0)) othersNonNeg = false;
  algebra::affine<N, T> got = call(static_cast<long>(frombits<T>(a.at(Is)))...);
  if (othersNonNeg) {
    auto pick = [&](auto idx) { constexpr std::size_t K = decltype(idx)::value; T x = frombits<T>(a.at(K)); if constexpr (K == 0) return static_cast<int>(x); else return static_cast<unsigned>(x); };
    got = call(pick(std::integral_constant<std::size_t, Is>{})...);
  }
  for (std::size_t i = 0; i < N; ++i) for (std::size_t j = 0; j < N + 1; ++j) if (bits<T>(got(i, j)) != bits<T>(want(i, j))) return false;
  auto pick2 = [&](auto idx) { constexpr std::size_t K = decltype(idx)::value; T x = frombits<T>(a.at(K)); if constexpr (K % 2 == 0) return static_cast<double>(x); else return static_cast<long>(x); };
  algebra::affine<N, T> got2 = call(pick2(std::integral_constant<std::size_t, Is>{})...);
  for (std::size_t i = 0; i < N; ++i) for (std::size_t j = 0; j < N + 1; ++j) if (bits<T>(got2(i, j)) != bits<T>(want(i, j))) return false;
  return true;
}
template <typename T> std::string run(const std::string & op, const std::vector<std::string> & hd, const std::vector<std::vector<u64>> & g) {
  if (op == "apply") {
    if (g.size() != 2 || g[0].size() != N * (N + 1) || g[1].size() != N) return "bad-op";
    algebra::affine<N, T> a = matOf<T>(g[0]);
    algebra::vector<N, T> v = vecOf<T>(g[1]);
    algebra::vector<N, T> r = a * v;
    return vecStr<T>(r);
  }
  if (op == "layer") {
    if (g.size() != 2 || g[0].size() != N * (N + 1) || g[1].size() != N) return "bad-op";
    using I = backend::identity<vector::vector_d<T, N>>;
    using B = backend::affine<I>;
    field<B> f(make_parameter_pack(typename B::configuration_t(matOf<T>(g[0])), typename I::configuration_t{}));
    typename field<B>::view_t fv(f);
    typename field<B>::coordinate_t c;
    for (std::size_t i = 0; i < N; ++i) c[i] = frombits<T>(g[1][i]);
    auto r = fv.at(c);
    // the same layer reached through the other constructors (copy; reload of its own dump, which ends in the
    // `(configuration, backend&&)` constructor) must answer identically: whatever a layer caches must be filled on every path
    {
      field<B> fc(f);
      std::stringstream ss; f.dump(ss);
      field<B> fl(ss);
      typename field<B>::view_t vc(fc), vl(fl);
      auto rc = vc.at(c); auto rl = vl.at(c);
      for (std::size_t i = 0; i < N; ++i) if (bits<T>(rc[i]) != bits<T>(r[i]) || bits<T>(rl[i]) != bits<T>(r[i])) {
        std::cerr << "Assertion `copied and reloaded affine layer answer like the constructed one' failed" << std::endl; std::abort(); }
    }
    std::ostringstream os;
    for (std::size_t i = 0; i < N; ++i) os << (i ? " " : "") << bits<T>(r[i]);
    return os.str();
  }
  if (op == "layermix") {
    // double coordinates over a float-valued backend: the layer must compute A x + t in the COORDINATE scalar type.
    // answer: the float results widened (exactly) to double bit patterns
    if constexpr (std::is_same_v<T, double>) {
      if (g.size() != 2 || g[0].size() != N * (N + 1) || g[1].size() != N) return "bad-op";
      using I = backend::identity<vector::vector_d<double, N>>;
      using CC = backend::covariant_cast<float, I>;
      using B = backend::affine<CC>;
      field<B> f(make_parameter_pack(typename B::configuration_t(matOf<double>(g[0])), typename CC::configuration_t{}, typename I::configuration_t{}));
      typename field<B>::view_t fv(f);
      typename field<B>::coordinate_t c;
      for (std::size_t i = 0; i < N; ++i) c[i] = frombits<double>(g[1][i]);
      auto r = fv.at(c);
      std::ostringstream os;
      for (std::size_t i = 0; i < N; ++i) os << (i ? " " : "") << bits<double>(static_cast<double>(r[i]));
      return os.str();
    } else return "bad-op";
  }
  if (op == "chain") {
    if (g.size() < 2) return "bad-op";
    std::size_t k = g.size() - 1;
    for (std::size_t j = 0; j < k; ++j) if (g[j].size() != N * (N + 1)) return "bad-op";
    if (g[k].size() != N) return "bad-op";
    std::vector<algebra::affine<N, T>> ms;
    for (std::size_t j = 0; j < k; ++j) ms.push_back(matOf<T>(g[j]));
    algebra::vector<N, T> v = vecOf<T>(g[k]);
    algebra::affine<N, T> P = ms[0];
    for (std::size_t j = 1; j < k; ++j) P = P * ms[j];
    algebra::affine<N, T> Pr = ms[k - 1];
    for (std::size_t j = k - 1; j-- > 0;) Pr = ms[j] * Pr;
    algebra::vector<N, T> pv = P * v;
    algebra::vector<N, T> nest = v;
    for (std::size_t j = k; j-- > 0;) nest = ms[j] * nest;
    return matStr<T>(P) + " | " + matStr<T>(Pr) + " | " + vecStr<T>(pv) + " | " + vecStr<T>(nest);
  }
  if (op == "ctor") {
    if (hd.size() < 3 || g.size() != 2 || g[1].size() != N) return "bad-op";
    const std::string & kind = hd[2];
    algebra::affine<N, T> m;
    if (kind == "t") { if (g[0].size() != N) return "bad-op"; m = mkTrans<T>(g[0], std::make_index_sequence<N>{}); }
    else if (kind == "s") { if (g[0].size() != N) return "bad-op"; m = mkScale<T>(g[0], std::make_index_sequence<N>{}); }
    else m = algebra::affine<N, T>(algebra::matrix<N, N + 1, T>::identity());
    if (kind == "t" || kind == "s") {
      bool ok = kind == "t" ? mixedFactoryAgrees<T, true>(g[0], m, std::make_index_sequence<N>{}) : mixedFactoryAgrees<T, false>(g[0], m, std::make_index_sequence<N>{});
      if (!ok) { std::cerr << "Assertion `factory called with arguments of mixed arithmetic types builds the same matrix' failed" << std::endl; std::abort(); }
    }
    algebra::vector<N, T> v = vecOf<T>(g[1]);
    algebra::vector<N, T> r = m * v;
    return matStr<T>(m) + " | " + vecStr<T>(r);
  }
  return "bad-op";
}

int main() {
  std::ios::sync_with_stdio(false);
  std::string line;
  while (std::getline(std::cin, line)) {
    vf::ambient();
    std::istringstream is(line);
    std::vector<std::string> hd;
    std::vector<std::vector<u64>> g;
    std::string t;
    bool inhd = true;
    bool okp = true;
    while (is >> t) {
      if (t == "|") { inhd = false; g.emplace_back(); continue; }
      if (inhd) hd.push_back(t);
      else { try { g.back().push_back(std::stoull(t)); } catch (...) { okp = false; } }
    }
    if (!okp || hd.size() < 2) { std::cout << "bad-op" << std::endl; continue; }
    std::cout << (hd[1] == "32" ? run<float>(hd[0], hd, g) : run<double>(hd[0], hd, g)) << std::endl;
  }
  return 0;
}
