#pragma once
// Ambient per-thread state that an unrelated computation may have left behind and that a lookup must not depend on: the
// sticky IEEE status flags.  Every other input line runs with all of them raised, the others with all of them cleared
// (the rounding mode stays at the default: lrint legitimately follows it).
#include <cfenv>
namespace vf {
inline void ambient() {
  static unsigned long n = 0;
  if (++n & 1) std::feraiseexcept(FE_INVALID | FE_DIVBYZERO | FE_OVERFLOW | FE_UNDERFLOW | FE_INEXACT);
  else std::feclearexcept(FE_ALL_EXCEPT);
}
}
