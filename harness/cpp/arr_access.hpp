#pragma once
// Access to the storage of `array::owning_data_t` that does not depend on how its two data members are spelt: the cell
// count through the public get_configuration(), the owning pointer by name if it is still called m_ptr and otherwise as
// "whichever of the two members has get()".  (A rename of a data member is not a change of behaviour.)
#include <cstddef>
namespace vf {
template <typename O> std::size_t arr_size(const O & o) { return static_cast<std::size_t>(o.get_configuration()[0]); }
template <typename A, typename B> auto pick_ptr(const A & a, const B & b) {
  if constexpr (requires { a.get(); }) return a.get(); else return b.get();
}
template <typename O> auto arr_data(const O & o) {
  if constexpr (requires { o.m_ptr.get(); }) return o.m_ptr.get();
  else {
    const auto & [a, b] = o;
    return pick_ptr(a, b);
  }
}
template <typename O> bool arr_null(const O & o) { return arr_data(o) == nullptr; }
}
