// How many cells does a storage-order layer ask for when it is constructed from extents whose cell count is beyond what
// can be allocated here (2^31 .. 2^44 cells)?  The global allocation functions are replaced: a request of 2^27 bytes or
// more is recorded and refused with std::bad_alloc (which the harness catches), so nothing large is ever allocated.
// Cells are one byte wide, so the requested byte count is the cell count.  Built without sanitizers.
//   <lay> N s1..sN   (lay: strided = from the extents; stridedC | mortonT | mortonF | hilbert = by conversion from a row-major field over a
//                     constant)   ->   "trap <cells requested> <requests refused>"  |  "built <cells reported by the array>"  |  "threw <what>"
#include <covfie/core/backend/primitive/array.hpp>
#include <covfie/core/backend/primitive/constant.hpp>
#include <covfie/core/backend/transformer/hilbert.hpp>
#include <covfie/core/backend/transformer/morton.hpp>
#include <covfie/core/backend/transformer/strided.hpp>
#include <covfie/core/field.hpp>
#include <cstdlib>
#include <iostream>
#include <new>
#include <sstream>
#include <string>
#include <vector>
using namespace covfie;
using u64 = unsigned long long;
static bool g_trap = false;
static u64 g_req = 0;
static int g_hits = 0;
static void * take(std::size_t n) {
  if (g_trap && n >= (std::size_t(1) << 27)) { if (!g_hits) g_req = n; ++g_hits; throw std::bad_alloc(); }
  void * p = std::malloc(n ? n : 1);
  if (!p) throw std::bad_alloc();
  return p;
}
void * operator new(std::size_t n) { return take(n); }
void * operator new[](std::size_t n) { return take(n); }
void operator delete(void * p) noexcept { std::free(p); }
void operator delete[](void * p) noexcept { std::free(p); }
void operator delete(void * p, std::size_t) noexcept { std::free(p); }
void operator delete[](void * p, std::size_t) noexcept { std::free(p); }

template <int L, typename V, typename B> struct layer;
template <typename V, typename B> struct layer<0, V, B> { using type = backend::strided<V, B>; };
template <typename V, typename B> struct layer<1, V, B> { using type = backend::morton<V, B, true>; };
template <typename V, typename B> struct layer<2, V, B> { using type = backend::morton<V, B, false>; };
template <typename V, typename B> struct layer<3, V, B> { using type = backend::hilbert<V, B>; };

template <typename Make>
std::string trapped(Make && make) {
  g_req = 0; g_hits = 0; g_trap = true;
  std::string r;
  try {
    auto f = make();
    g_trap = false;
    r = "built " + std::to_string(static_cast<u64>(f.backend().get_backend().get_configuration()[0]));
  } catch (const std::bad_alloc &) {
    g_trap = false;
    r = g_hits ? "trap " + std::to_string(g_req) + " " + std::to_string(g_hits) : std::string("threw bad_alloc-without-request");
  } catch (const std::exception & e) {
    g_trap = false;
    r = std::string("threw ") + e.what();
  }
  return r;
}
// L: target layer; conv: by conversion from a row-major field over a constant (no storage) instead of from the extents alone
template <int L, std::size_t N>
std::string run(const std::vector<u64> & sz, bool conv) {
  using O = vector::vector_d<unsigned char, 1>;
  using A = backend::array<O>;
  using V = vector::vector_d<std::size_t, N>;
  using S = typename layer<L, V, A>::type;
  typename S::configuration_t cfg;
  for (std::size_t k = 0; k < N; ++k) cfg[k] = sz[k];
  if (!conv) {
    if constexpr (L == 0) return trapped([&] { return field<S>(make_parameter_pack(typename S::configuration_t(cfg))); });
    else return "unsupported";
  } else {
    using K = backend::constant<vector::size1, O>;
    using Src = backend::strided<V, K>;
    field<Src> src(make_parameter_pack(typename Src::configuration_t(cfg), typename K::configuration_t{7}));
    return trapped([&] { return field<S>(src); });
  }
}
template <int L>
std::string runN(std::size_t N, const std::vector<u64> & sz, bool conv) {
  if constexpr (L == 3) { return N == 2 ? run<L, 2>(sz, conv) : "unsupported"; }
  else {
    switch (N) { case 1: return run<L, 1>(sz, conv); case 2: return run<L, 2>(sz, conv); case 3: return run<L, 3>(sz, conv); case 4: return run<L, 4>(sz, conv); }
    return "unsupported";
  }
}
int main() {
  std::string line;
  while (std::getline(std::cin, line)) {
    std::istringstream is(line); std::string lay; std::size_t N = 0; is >> lay >> N;
    std::vector<u64> sz(N); for (auto & x : sz) is >> x;
    std::string r = lay == "strided" ? runN<0>(N, sz, false) : lay == "stridedC" ? runN<0>(N, sz, true) : lay == "mortonT" ? runN<1>(N, sz, true) :
                    lay == "mortonF" ? runN<2>(N, sz, true) : lay == "hilbert" ? runN<3>(N, sz, true) : std::string("unsupported");
    std::cout << r << std::endl;
  }
}
