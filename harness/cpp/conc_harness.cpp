// C16 `tsan_run`: T threads execute per-thread programs of lookups and view writes on ONE field, concurrently; the same
// programs are then executed one after the other on a fresh field. Built with -fsanitize=thread (config `tsan`).
// One run per line (Python starts one process per run so that a ThreadSanitizer report is attributable):
//   run <lay> <interp> <N> <s1..sN> <T> <mode> <reps> ; <tid> r <c1..cN> ; <tid> w <c1..cN> <v> ; ...
//     lay = strided | mortonT | mortonF | hilbert (compile time: -DLAY=0..3 selects one), interp = direct | nn | linear
//     mode = shared (all threads use one view object made by the main thread) | own (every thread makes its own views)
//          | two <reps> <s2_1..s2_N> (two fields of the same type, different extents: even threads use the first, odd the second)
//     r: lookup through the view of the whole stack (naturals for direct, f32 bit patterns for nn / linear)
//     w: write float(v) through a view of the storage-order layer at integer coordinates
// Answer: `seq d0 .. dT-1 | conc d0 .. dT-1 | conc ...` (one `conc` group per repetition); d = FNV-1a-64 over the bit
// patterns of every component of every value the thread obtained, in program order.
// Initial contents: the cell at row-major rank k holds float(1000 + k).
#include <covfie/core/backend/primitive/array.hpp>
#include <covfie/core/backend/transformer/hilbert.hpp>
#include <covfie/core/backend/transformer/linear.hpp>
#include <covfie/core/backend/transformer/morton.hpp>
#include <covfie/core/backend/transformer/nearest_neighbour.hpp>
#include <covfie/core/backend/transformer/strided.hpp>
#include <covfie/core/field.hpp>
#include <atomic>
#include <cstring>
#include <iostream>
#include <limits>
#include <optional>
#include <sstream>
#include <string>
#include <thread>
#include <vector>
using namespace covfie;
using u64 = std::uint64_t;
#ifndef LAY
#define LAY 0
#endif
template <int L, typename V, typename B> struct layer;
template <typename V, typename B> struct layer<0, V, B> { using type = backend::strided<V, B>; };
template <typename V, typename B> struct layer<1, V, B> { using type = backend::morton<V, B, true>; };
template <typename V, typename B> struct layer<2, V, B> { using type = backend::morton<V, B, false>; };
template <typename V, typename B> struct layer<3, V, B> { using type = backend::hilbert<V, B>; };
template <int I, typename S> struct interp;
template <typename S> struct interp<0, S> { using type = S; };
template <typename S> struct interp<1, S> { using type = backend::nearest_neighbour<S>; };
template <typename S> struct interp<2, S> { using type = backend::linear<S>; };

struct Act { bool write; u64 c[4]; u64 v; };
using Progs = std::vector<std::vector<Act>>;

static std::size_t prod(const std::vector<u64> & s) { std::size_t p = 1; for (auto x : s) p *= x; return p; }
static std::size_t curve_len(const std::vector<u64> & s) {
  u64 m = 0; for (auto x : s) m = std::max(m, x);
  u64 r = 1; while (r < m) r *= 2;
  std::size_t p = 1; for (std::size_t k = 0; k < s.size(); ++k) p *= r;
  return p;
}
static inline void fnv(u64 & h, float x) {
  std::uint32_t b; std::memcpy(&b, &x, 4);
  if (x != x) b = 0x7fc00000u;   // one canonical NaN: which operand's payload an arithmetic NaN inherits is up to the compiler
  for (int k = 0; k < 4; ++k) { h ^= (b >> (8 * k)) & 0xffu; h *= 1099511628211ull; }
}

template <int I, std::size_t N> struct Run {
  using A = backend::array<vector::float1>;
  using S = typename layer<LAY, vector::vector_d<std::size_t, N>, A>::type;
  using B = typename interp<I, S>::type;
  using F = field<B>;
  using View = typename F::view_t;
  using LView = typename S::non_owning_data_t;

  static const typename S::owning_data_t & layer_of(const F & f) {
    if constexpr (I == 0) return f.backend(); else return f.backend().get_backend();
  }
  // The field under test is obtained by the library's converting constructor from a row-major field that was filled
  // through ITS views: no view of the field under test exists before the threads start (a lazily initialised member of
  // the owning data would be initialised by the first concurrent views).
  using SA = typename layer<0, vector::vector_d<std::size_t, N>, A>::type;
  using BA = typename interp<I, SA>::type;
  static F make(const std::vector<u64> & sz, bool nans = false) {
    typename SA::configuration_t cfg;
    for (std::size_t k = 0; k < N; ++k) cfg[k] = sz[k];
    std::size_t n = prod(sz);
    auto build = [&]() {
      if constexpr (I == 0) return field<BA>(make_parameter_pack(std::move(cfg), typename A::configuration_t{n}));
      else return field<BA>(make_parameter_pack(typename BA::configuration_t{}, std::move(cfg), typename A::configuration_t{n}));
    };
    field<BA> src = build();
    {
      const typename SA::owning_data_t * lo;
      if constexpr (I == 0) lo = &src.backend(); else lo = &src.backend().get_backend();
      typename SA::non_owning_data_t lv(*lo);
      for (std::size_t k = 0; k < n; ++k) {
        typename SA::contravariant_input_t::vector_t c; std::size_t r = k;
        for (std::size_t d = N; d-- > 0;) { c[d] = r % sz[d]; r /= sz[d]; }
        // a few NaN samples on request (lookups must not write: a reader that "repairs" a cell races with other readers)
        lv.at(c)[0] = (nans && k % 5 == 3) ? std::numeric_limits<float>::quiet_NaN() : static_cast<float>(1000 + k);
      }
    }
    if constexpr (LAY == 0) return src;
    else return F(src);
  }
  static u64 exec(const std::vector<Act> & prog, const View & v, const LView & lv) {
    u64 h = 1469598103934665603ull;
    for (const Act & a : prog) {
      if (a.write) {
        typename S::contravariant_input_t::vector_t c;
        for (std::size_t d = 0; d < N; ++d) c[d] = a.c[d];
        lv.at(c)[0] = static_cast<float>(a.v);
      } else {
        typename F::coordinate_t c;
        for (std::size_t d = 0; d < N; ++d) {
          if constexpr (I == 0) c[d] = a.c[d];
          else { std::uint32_t b = static_cast<std::uint32_t>(a.c[d]); float x; std::memcpy(&x, &b, 4); c[d] = x; }
        }
        auto && r = v.at(c);
        fnv(h, r[0]);
      }
    }
    return h;
  }
  // mode `two`: two fields of the SAME type but different extents; even threads look up in the first, odd threads in the
  // second (every thread through its own views) — state shared between fields of one type must not exist
  static std::string go2(const std::vector<u64> & sz, const std::vector<u64> & sz2, std::size_t T, std::size_t reps, const Progs & progs) {
    std::ostringstream os;
    {
      F f = make(sz, true); F g = make(sz2, true);
      os << "seq";
      for (std::size_t t = 0; t < T; ++t) {
        const F & x = (t % 2) ? g : f;
        View v(x); LView lv(layer_of(x));
        os << " " << std::hex << exec(progs[t], v, lv);
      }
    }
    for (std::size_t rep = 0; rep < reps; ++rep) {
      std::vector<u64> dig(T, 0);
      std::atomic<std::size_t> ready{0};
      std::atomic<bool> start{false};
      std::vector<std::thread> th;
      // the fields are built by the threads that use them, concurrently with the other field's lookups
      F f = make(sz, true);
      std::optional<F> g;
      for (std::size_t t = 0; t < T; ++t) {
        th.emplace_back([&, t]() {
          ready.fetch_add(1);
          while (!start.load(std::memory_order_acquire)) std::this_thread::yield();
          const F & x = (t % 2) ? *g : f;
          View v(x); LView lv(layer_of(x));
          dig[t] = exec(progs[t], v, lv);
        });
      }
      while (ready.load() < T) std::this_thread::yield();
      g.emplace(make(sz2, true));
      start.store(true, std::memory_order_release);
      for (auto & x : th) x.join();
      os << " | conc";
      for (std::size_t t = 0; t < T; ++t) os << " " << std::hex << dig[t];
    }
    return os.str();
  }
  static std::string go(const std::vector<u64> & sz, std::size_t T, bool shared, std::size_t reps, const Progs & progs) {
    std::ostringstream os;
    {   // the same per-thread programs, one after the other, on a fresh field
      F f = make(sz);
      View v(f); LView lv(layer_of(f));
      os << "seq";
      for (std::size_t t = 0; t < T; ++t) os << " " << std::hex << exec(progs[t], v, lv);
    }
    for (std::size_t rep = 0; rep < reps; ++rep) {
      F f = make(sz);
      const F & cf = f;
      std::optional<View> sv; std::optional<LView> slv;
      if (shared) { sv.emplace(cf); slv.emplace(layer_of(cf)); }
      std::vector<u64> dig(T, 0);
      std::atomic<std::size_t> ready{0};
      std::atomic<bool> start{false};
      std::vector<std::thread> th;
      for (std::size_t t = 0; t < T; ++t) {
        th.emplace_back([&, t]() {
          ready.fetch_add(1);
          while (!start.load(std::memory_order_acquire)) std::this_thread::yield();
          if (shared) dig[t] = exec(progs[t], *sv, *slv);
          else { View v(cf); LView lv(layer_of(cf)); dig[t] = exec(progs[t], v, lv); }
        });
      }
      while (ready.load() < T) std::this_thread::yield();
      start.store(true, std::memory_order_release);
      for (auto & x : th) x.join();
      os << " | conc";
      for (std::size_t t = 0; t < T; ++t) os << " " << std::hex << dig[t];
    }
    return os.str();
  }
};

template <int I> std::string byN(std::size_t N, const std::vector<u64> & sz, const std::vector<u64> & sz2, std::size_t T, bool shared, std::size_t reps, const Progs & p) {
  if (!sz2.empty()) {
    if (N == 2) return Run<I, 2>::go2(sz, sz2, T, reps, p);
    if constexpr (LAY != 3) { if (N == 3) return Run<I, 3>::go2(sz, sz2, T, reps, p); }
    return "unsupported";
  }
  if (N == 2) return Run<I, 2>::go(sz, T, shared, reps, p);
  if constexpr (LAY != 3) { if (N == 3) return Run<I, 3>::go(sz, T, shared, reps, p); }
  return "unsupported";
}

int main() {
  static const char * lays[] = {"strided", "mortonT", "mortonF", "hilbert"};
  std::string line;
  while (std::getline(std::cin, line)) {
    std::vector<std::string> parts;
    { std::istringstream ls(line); std::string part; while (std::getline(ls, part, ';')) parts.push_back(part); }
    std::string r = "unsupported";
    if (!parts.empty()) {
      std::istringstream is(parts[0]);
      std::string op, lay, ip, mode; std::size_t N = 0, T = 0, reps = 1;
      is >> op >> lay >> ip >> N;
      std::vector<u64> sz(N <= 4 ? N : 0);
      for (auto & s : sz) is >> s;
      is >> T >> mode >> reps;
      std::vector<u64> sz2;
      if (mode == "two") { sz2.resize(sz.size()); for (auto & s : sz2) is >> s; }
      if (op == "run" && lay == lays[LAY] && T >= 1 && T <= 64 && (N == 2 || N == 3)) {
        Progs progs(T);
        bool ok = static_cast<bool>(is);
        for (std::size_t k = 1; k < parts.size(); ++k) {
          std::istringstream ps(parts[k]);
          std::size_t tid; std::string kind;
          if (!(ps >> tid >> kind)) continue;
          Act a{}; a.write = kind == "w";
          for (std::size_t d = 0; d < N; ++d) ps >> a.c[d];
          if (a.write) ps >> a.v;
          if (!ps || tid >= T) { ok = false; break; }
          progs[tid].push_back(a);
        }
        if (ok) {
          bool shared = mode == "shared";
          r = ip == "direct" ? byN<0>(N, sz, sz2, T, shared, reps, progs) : ip == "nn" ? byN<1>(N, sz, sz2, T, shared, reps, progs)
            : ip == "linear" ? byN<2>(N, sz, sz2, T, shared, reps, progs) : r;
        } else r = "bad-op";
      }
    }
    std::cout << r << std::endl;
  }
}
