// C05 correspondence harness: layout conversions and whole-stack conversions through field's converting constructors.
// Compiled once per (-DCV_N=1..4, -DCV_T=0|1 float|double storage, -DCV_M=1..4, -DCV_CT=0|1|2 size_t|unsigned|int
// coordinates, -DCV_STACK=0|1).  One operation per line, one answer per line:
//   conv  <L1> <L2> <h|full> s1..sN
//       orig (row-major, cell at c holds 4*id+q in component q, id = 1 + rowmajor(c)) -> field<L1> src(orig)
//       -> field<L2> dst(src) -> field<L1> back(dst); also field<L2> dst2(std::move(copy of src)).
//       answer: "ok <st1> ; <st2> ; <stb> | cfg s.. | oracle <n> | back <n> <0|1> | intact <0|1> | move <0|1> <n>"
//       where <st> = "<len> <fnv>" (h) or "<len> id id .." (full) is a storage decoded to cell ids (0 = value-initialised,
//       18446744073709551615 = a cell that holds something else), oracle/back = number of lattice coordinates whose value
//       differs between source and target / original and converted-back, back's flag = whole storage equal to src's,
//       intact = the source's storage and configuration are bytewise unchanged by the copying conversion,
//       move = the moving conversion produced the same storage as the copying one, and the number of lattice coordinates at
//       which its result differs from the original.
//   stack <I1> <L1> <I2> <L2> s1..sN | t1..tN          (only with -DCV_STACK=1; I in nn|lin)
//       affine(translation t)<I1<L1<array>>> -> affine<I2<L2<array>>>;
//       answer: "ok <st2> | cfg s.. | matrix <0|1> | lookups <queried> <mismatches> | intact <0|1> | move <0|1>"
#include "arr_access.hpp"
#include <covfie/core/backend/primitive/array.hpp>
#include <covfie/core/backend/transformer/hilbert.hpp>
#include <covfie/core/backend/transformer/morton.hpp>
#include <covfie/core/backend/transformer/strided.hpp>
#include <covfie/core/field.hpp>
#include <cmath>
#include <cstring>
#include <iostream>
#include <sstream>
#include <string>
#include <vector>
using namespace covfie;
using u64 = std::uint64_t;
#ifndef CV_N
#define CV_N 2
#endif
#ifndef CV_T
#define CV_T 0
#endif
#ifndef CV_M
#define CV_M 3
#endif
#ifndef CV_CT
#define CV_CT 0
#endif
#ifndef CV_STACK
#define CV_STACK 0
#endif
#if CV_STACK   // (clang 14 does not parse linear.hpp: the variants built with it leave the interpolation layers out)
#include <covfie/core/backend/transformer/affine.hpp>
#include <covfie/core/backend/transformer/linear.hpp>
#include <covfie/core/backend/transformer/nearest_neighbour.hpp>
#endif
constexpr std::size_t N = CV_N;
constexpr std::size_t M = CV_M;
#if CV_T == 0
using T = float;
#else
using T = double;
#endif
#if CV_CT == 0
using CT = std::size_t;
#elif CV_CT == 1
using CT = unsigned;
#else
using CT = int;
#endif
using V = vector::vector_d<CT, N>;
using A = backend::array<vector::vector_d<T, M>>;
template <int L> struct layer;
template <> struct layer<0> { using type = backend::strided<V, A>; };
template <> struct layer<1> { using type = backend::morton<V, A, true>; };
template <> struct layer<2> { using type = backend::morton<V, A, false>; };
#if CV_N == 2
template <> struct layer<3> { using type = backend::hilbert<V, A>; };
#endif
constexpr u64 BAD = ~u64(0);
constexpr u64 NEGZ = u64(1) << 62;        // id of a cell all of whose components are -0.0
// what the cell of row-major rank k holds in component q: 4*id+q with id = k+1, except that every seventh cell holds -0.0
// throughout (a conversion must carry the sign of zero: "the destination is zero-filled anyway" is not an argument)
static inline bool negz_cell(u64 k) { return k % 7 == 3; }
static inline T expected(u64 k, std::size_t q) { return negz_cell(k) ? -T(0) : static_cast<T>(4 * (k + 1) + q); }
static inline bool same_bits(T a, T b) { return std::memcmp(&a, &b, sizeof(T)) == 0; }

template <typename F> void forall(const std::vector<u64> & sz, F f) {
  std::vector<u64> c(N, 0); u64 total = 1; for (auto s : sz) total *= s;
  for (u64 k = 0; k < total; ++k) {
    f(c, k);
    for (std::size_t d = N; d-- > 0;) { if (++c[d] < sz[d]) break; c[d] = 0; }
  }
}
template <typename Coord> Coord mk(const std::vector<u64> & c) {
  Coord r; for (std::size_t d = 0; d < N; ++d) r[d] = static_cast<typename Coord::value_type>(c[d]); return r;
}
// storage of an array owning data decoded to cell ids
template <typename AO> std::vector<u64> decode(const AO & a) {
  std::vector<u64> ids(vf::arr_size(a));
  for (u64 i = 0; i < vf::arr_size(a); ++i) {
    const auto & cell = vf::arr_data(a)[i];
    bool zero = true; for (std::size_t q = 0; q < M; ++q) zero = zero && cell[q] == T(0) && !std::signbit(cell[q]);
    if (zero) { ids[i] = 0; continue; }
    bool nz = true; for (std::size_t q = 0; q < M; ++q) nz = nz && cell[q] == T(0) && std::signbit(cell[q]);
    if (nz) { ids[i] = NEGZ; continue; }
    T v0 = cell[0];
    u64 id = static_cast<u64>(v0) / 4;
    bool good = v0 > 0 && v0 == static_cast<T>(4 * id) && id > 0;
    for (std::size_t q = 0; q < M; ++q) good = good && cell[q] == static_cast<T>(4 * id + q);
    ids[i] = good ? id : BAD;
  }
  return ids;
}
template <typename AO> std::vector<unsigned char> raw(const AO & a) {
  std::vector<unsigned char> r(vf::arr_size(a) * sizeof(typename A::vector_t));
  if (!r.empty()) std::memcpy(r.data(), vf::arr_data(a), r.size());
  return r;
}
std::string show(const std::vector<u64> & ids, bool full) {
  std::ostringstream os; os << ids.size();
  if (full) { for (auto i : ids) os << " " << i; }
  else { u64 h = 14695981039346656037ull; for (auto i : ids) { h ^= i; h *= 1099511628211ull; } os << " " << h; }
  return os.str();
}
using SA = typename layer<0>::type;
field<SA> make_orig(const std::vector<u64> & sz) {
  u64 total = 1; for (auto s : sz) total *= s;
  typename SA::configuration_t scfg; for (std::size_t k = 0; k < N; ++k) scfg[k] = sz[k];
  field<SA> orig(make_parameter_pack(std::move(scfg), typename A::configuration_t{total}));
  typename field<SA>::view_t v(orig);
  forall(sz, [&](const std::vector<u64> & c, u64 k) {
    auto cc = mk<typename field<SA>::coordinate_t>(c);
    for (std::size_t q = 0; q < M; ++q) v.at(cc)[q] = expected(k, q);
  });
  return orig;
}
template <typename Cfg> bool sizes_eq(const Cfg & cfg, const std::vector<u64> & sz) {
  for (std::size_t k = 0; k < N; ++k) if (cfg[k] != sz[k]) return false; return true;
}
template <typename FA, typename FB> u64 lattice_diff(const FA & a, const FB & b, const std::vector<u64> & sz, bool expect_ids) {
  typename FA::view_t va(a); typename FB::view_t vb(b);
  u64 bad = 0;
  forall(sz, [&](const std::vector<u64> & c, u64 k) {
    auto ca = mk<typename FA::coordinate_t>(c); auto cb = mk<typename FB::coordinate_t>(c);
    bool ok = true;
    for (std::size_t q = 0; q < M; ++q) {
      T x = va.at(ca)[q], y = vb.at(cb)[q];
      ok = ok && same_bits(x, y) && (!expect_ids || same_bits(x, expected(k, q)));
    }
    if (!ok) ++bad;
  });
  return bad;
}

template <int L1, int L2> std::string run_conv(const std::vector<u64> & sz, bool full) {
  using B1 = typename layer<L1>::type; using B2 = typename layer<L2>::type;
  field<SA> orig = make_orig(sz);
  field<B1> src(orig);
  auto snap = raw(src.backend().get_backend());
  auto cfg1 = src.backend().get_configuration();
  field<B2> dst(src);                                     // the copying conversion under test
  bool intact = raw(src.backend().get_backend()) == snap && sizes_eq(src.backend().get_configuration(), sz) && sizes_eq(cfg1, sz);
  u64 orc = lattice_diff(src, dst, sz, true);
  auto cfg2 = dst.backend().get_configuration();
  field<B1> back(dst);
  u64 bk = lattice_diff(orig, back, sz, true);
  bool bs = raw(back.backend().get_backend()) == snap && sizes_eq(back.backend().get_configuration(), sz);
  field<B1> src2(src);
  field<B2> dst2(std::move(src2));                        // the moving conversion
  bool mv = raw(dst2.backend().get_backend()) == raw(dst.backend().get_backend()) && sizes_eq(dst2.backend().get_configuration(), sz);
  u64 mvbad = lattice_diff(orig, dst2, sz, true);
  if constexpr (L1 == 0) {
    // the same conversion from a row-major field whose (caller-supplied) array is LARGER than the lattice: the slack cells hold a
    // sentinel and must not reach the target's lattice
    u64 total = 1; for (auto s_ : sz) total *= s_;
    typename SA::configuration_t scfg; for (std::size_t k = 0; k < N; ++k) scfg[k] = sz[k];
    field<SA> big(make_parameter_pack(std::move(scfg), typename A::configuration_t{total + 5}));
    { typename field<SA>::view_t v(big);
      forall(sz, [&](const std::vector<u64> & c, u64 k) { auto cc = mk<typename field<SA>::coordinate_t>(c); for (std::size_t q = 0; q < M; ++q) v.at(cc)[q] = expected(k, q); });
      typename A::non_owning_data_t av(big.backend().get_backend());
      for (u64 i = 0; i < 5; ++i) for (std::size_t q = 0; q < M; ++q) av.at(total + i)[q] = static_cast<T>(7777); }
    field<B2> dbig(big);
    u64 wrong = lattice_diff(orig, dbig, sz, true);
    if (wrong != 0 || !sizes_eq(dbig.backend().get_configuration(), sz)) {
      std::cerr << "Assertion `conversion of a row-major field whose array is larger than its lattice' failed: " << wrong << " lattice coordinates differ" << std::endl;
      std::abort();
    }
  }
  std::ostringstream os;
  os << "ok " << show(decode(src.backend().get_backend()), full) << " ; " << show(decode(dst.backend().get_backend()), full) << " ; "
     << show(decode(back.backend().get_backend()), full) << " | cfg";
  for (std::size_t k = 0; k < N; ++k) os << " " << cfg2[k];
  os << " | oracle " << orc << " | back " << bk << " " << bs << " | intact " << intact << " | move " << mv << " " << mvbad;
  return os.str();
}
template <int L1> std::string conv2(int l2, const std::vector<u64> & sz, bool full) {
  switch (l2) {
    case 0: return run_conv<L1, 0>(sz, full); case 1: return run_conv<L1, 1>(sz, full); case 2: return run_conv<L1, 2>(sz, full);
#if CV_N == 2
    case 3: return run_conv<L1, 3>(sz, full);
#endif
  }
  return "unsupported";
}
std::string conv1(int l1, int l2, const std::vector<u64> & sz, bool full) {
  switch (l1) {
    case 0: return conv2<0>(l2, sz, full); case 1: return conv2<1>(l2, sz, full); case 2: return conv2<2>(l2, sz, full);
#if CV_N == 2
    case 3: return conv2<3>(l2, sz, full);
#endif
  }
  return "unsupported";
}

#if CV_STACK
using FV = vector::vector_d<float, N>;
template <int I, typename B> struct interp;
template <typename B> struct interp<0, B> { using type = backend::nearest_neighbour<B, FV>; };
template <typename B> struct interp<1, B> { using type = backend::linear<B, FV>; };
template <int I1, int L1, int I2, int L2> std::string run_stack(const std::vector<u64> & sz, const std::vector<long> & tr) {
  using B1 = typename layer<L1>::type; using B2 = typename layer<L2>::type;
  using S1 = backend::affine<typename interp<I1, B1>::type>; using S2 = backend::affine<typename interp<I2, B2>::type>;
  field<SA> orig = make_orig(sz);
  field<B1> lsrc(orig);
  typename B1::owning_data_t od(lsrc.backend());
  typename S1::configuration_t mat = S1::configuration_t::identity();
  for (std::size_t k = 0; k < N; ++k) mat(k, N) = static_cast<float>(tr[k]);
  field<S1> s(make_parameter_pack(typename S1::configuration_t(mat), std::monostate{}, std::move(od)));
  auto inner1 = [](const field<S1> & f) -> const auto & { return f.backend().get_backend().get_backend(); };
  auto inner2 = [](const field<S2> & f) -> const auto & { return f.backend().get_backend().get_backend(); };
  auto snap = raw(inner1(s).get_backend());
  field<S2> d(s);                                         // the whole-stack conversion under test
  bool intact = raw(inner1(s).get_backend()) == snap && sizes_eq(inner1(s).get_configuration(), sz);
  auto m1 = s.backend().get_configuration(); auto m2 = d.backend().get_configuration();
  bool meq = true;
  for (std::size_t i = 0; i < N; ++i) for (std::size_t j = 0; j <= N; ++j) {
    float a = m1(i, j), b = m2(i, j); meq = meq && std::memcmp(&a, &b, sizeof(float)) == 0 && a == ((i == j) ? 1.f : (j == N ? static_cast<float>(tr[i]) : 0.f));
  }
  auto cfg2 = inner2(d).get_configuration();
  // lookups at lattice points (a linear interpolator reads the neighbour at +1: only cells with a successor in every axis)
  typename field<S1>::view_t vs(s); typename field<S2>::view_t vd(d);
  bool lin = I1 == 1 || I2 == 1;
  u64 asked = 0, bad = 0;
  forall(sz, [&](const std::vector<u64> & c, u64 k) {
    for (std::size_t a = 0; a < N; ++a) if (lin && c[a] + 1 >= sz[a]) return;
    typename field<S1>::coordinate_t x;
    for (std::size_t a = 0; a < N; ++a) x[a] = static_cast<float>(c[a]) - static_cast<float>(tr[a]);
    ++asked;
    auto o1 = vs.at(x); auto o2 = vd.at(x);
    bool ok = true;
    for (std::size_t q = 0; q < M; ++q) { T p = o1[q], r = o2[q]; ok = ok && (std::memcmp(&p, &r, sizeof(T)) == 0 || (p == T(0) && r == T(0))) && p == expected(k, q); }
    if (!ok) ++bad;
  });
  field<S1> s2(s);
  field<S2> d2(std::move(s2));
  bool mv = raw(inner2(d2).get_backend()) == raw(inner2(d).get_backend()) && sizes_eq(inner2(d2).get_configuration(), sz);
  std::ostringstream os;
  os << "ok " << show(decode(inner2(d).get_backend()), false) << " | cfg";
  for (std::size_t k = 0; k < N; ++k) os << " " << cfg2[k];
  os << " | matrix " << meq << " | lookups " << asked << " " << bad << " | intact " << intact << " | move " << mv;
  return os.str();
}
template <int I1, int I2> std::string stackL(int l1, int l2, const std::vector<u64> & sz, const std::vector<long> & tr) {
#define PAIR(a, b) if (l1 == a && l2 == b) return run_stack<I1, a, I2, b>(sz, tr);
  PAIR(0, 2) PAIR(2, 0) PAIR(0, 1) PAIR(1, 2) PAIR(0, 0) PAIR(2, 2)
#if CV_N == 2
  PAIR(1, 3) PAIR(3, 0) PAIR(3, 3)
#endif
#undef PAIR
  return "unsupported";
}
std::string stackI(int i1, int i2, int l1, int l2, const std::vector<u64> & sz, const std::vector<long> & tr) {
  if (i1 == 0 && i2 == 0) return stackL<0, 0>(l1, l2, sz, tr);
  if (i1 == 0 && i2 == 1) return stackL<0, 1>(l1, l2, sz, tr);
  if (i1 == 1 && i2 == 0) return stackL<1, 0>(l1, l2, sz, tr);
  return stackL<1, 1>(l1, l2, sz, tr);
}
#endif

static int layId(const std::string & lay) {
  return lay == "strided" ? 0 : lay == "mortonT" ? 1 : lay == "mortonF" ? 2 : lay == "hilbert" ? 3 : -1;
}
int main() {
  std::string line;
  while (std::getline(std::cin, line)) {
    std::istringstream is(line);
    std::string op; is >> op;
    std::string r = "unsupported";
    if (op == "conv") {
      std::string a, b, mode; is >> a >> b >> mode;
      std::vector<u64> sz(N); for (auto & s : sz) is >> s;
      r = conv1(layId(a), layId(b), sz, mode == "full");
    }
#if CV_STACK
    else if (op == "stack") {
      std::string i1, a, i2, b, bar; is >> i1 >> a >> i2 >> b;
      std::vector<u64> sz(N); for (auto & s : sz) is >> s;
      is >> bar;
      std::vector<long> tr(N); for (auto & t : tr) is >> t;
      r = stackI(i1 == "lin", i2 == "lin", layId(a), layId(b), sz, tr);
    }
#endif
    std::cout << r << std::endl;
  }
}
