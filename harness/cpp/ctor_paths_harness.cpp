// C17: the same stack reached through the LESS USED constructors of the owning data -- the variadic
// owning_data_t(configuration, arguments of the layer beneath...) of backup, linear, shuffle, covariant_cast, dereference -- must
// report the configuration it was given and answer like the stack built from a parameter pack.  Self-checking: "ok <checks>" | "bad <what>".
#include <covfie/core/backend/primitive/array.hpp>
#include <covfie/core/backend/primitive/constant.hpp>
#include <covfie/core/backend/primitive/identity.hpp>
#include <covfie/core/backend/transformer/backup.hpp>
#include <covfie/core/backend/transformer/covariant_cast.hpp>
#include <covfie/core/backend/transformer/dereference.hpp>
#include <covfie/core/backend/transformer/linear.hpp>
#include <covfie/core/backend/transformer/shuffle.hpp>
#include <covfie/core/backend/transformer/strided.hpp>
#include <covfie/core/field.hpp>
#include <iostream>
#include <sstream>
#include <string>
using namespace covfie;
template <typename A, typename B> static bool eqv(const A & a, const B & b, std::size_t n) { for (std::size_t k = 0; k < n; ++k) if (!(a[k] == b[k])) return false; return true; }

static std::string backup_over_strided() {
  using A = backend::array<vector::float1>; using S = backend::strided<vector::size2, A>; using B = backend::backup<S>;
  long n = 0;
  // bounds beyond the extents on one axis, inside on the other; a box that does not contain the origin; the full range
  const std::size_t lo[3][2] = {{0, 1}, {2, 3}, {0, 0}}, hi[3][2] = {{3, 9}, {7, 4}, {3, 5}};
  for (int t = 0; t < 3; ++t) {
    typename B::configuration_t cfg; for (int k = 0; k < 2; ++k) { cfg.min[k] = lo[t][k]; cfg.max[k] = hi[t][k]; } cfg.default_value[0] = -5.f;
    typename S::configuration_t scfg; scfg[0] = 4; scfg[1] = 6;
    typename B::owning_data_t od(cfg, scfg);                                        // the variadic constructor
    auto c = od.get_configuration();
    if (!eqv(c.min, cfg.min, 2) || !eqv(c.max, cfg.max, 2) || !(c.default_value[0] == -5.f)) return "bad backup(configuration, extents): reported bounds differ from the given ones";
    auto sc = od.get_backend().get_configuration();
    if (!(sc[0] == 4 && sc[1] == 6)) return "bad backup(configuration, extents): inner extents";
    field<B> f(make_parameter_pack(std::move(od)));
    field<B> g(make_parameter_pack(typename B::configuration_t(cfg), typename S::configuration_t(scfg), typename A::configuration_t{24}));
    auto cf = f.backend().get_configuration(), cg = g.backend().get_configuration();
    if (!eqv(cf.min, cg.min, 2) || !eqv(cf.max, cg.max, 2)) return "bad two construction paths report different bounds";
    typename field<B>::view_t vf(f), vg(g);
    for (std::size_t i = 0; i < 12; ++i) for (std::size_t j = 0; j < 12; ++j) {
      bool inside = i >= lo[t][0] && i <= hi[t][0] && j >= lo[t][1] && j <= hi[t][1];
      if (inside && (i >= 4 || j >= 6)) continue;                                   // inside the box but outside the storage: not a lookup to make
      float a = vf.at(i, j)[0], b = vg.at(i, j)[0];
      if (a != b || (!inside && a != -5.f)) return "bad lookup differs between the construction paths";
      ++n;
    }
  }
  return "ok " + std::to_string(n);
}
static std::string thin_layers() {
  // linear / shuffle / covariant_cast / dereference: (configuration, arguments beneath...) down to the primitive's configuration
  using I = backend::identity<vector::float2>;
  long n = 0;
  { using B = backend::shuffle<I, std::index_sequence<1, 0>>;
    typename B::owning_data_t od(typename B::configuration_t{}, typename I::configuration_t{});
    field<B> f(make_parameter_pack(std::move(od))); typename field<B>::view_t v(f);
    auto r = v.at(3.f, 5.f); if (!(r[0] == 5.f && r[1] == 3.f)) return "bad shuffle built by the variadic constructor"; ++n; }
  { using B = backend::covariant_cast<double, I>;
    typename B::owning_data_t od(typename B::configuration_t{}, typename I::configuration_t{});
    field<B> f(make_parameter_pack(std::move(od))); typename field<B>::view_t v(f);
    auto r = v.at(0.5f, -2.f); if (!(r[0] == 0.5 && r[1] == -2.0)) return "bad covariant_cast built by the variadic constructor"; ++n; }
  { using C = backend::constant<vector::float2, vector::float3>; using B = backend::backup<C>;
    typename B::configuration_t cfg; cfg.min[0] = 1.f; cfg.min[1] = 1.f; cfg.max[0] = 2.f; cfg.max[1] = 2.f; cfg.default_value[0] = 7.f; cfg.default_value[1] = 8.f; cfg.default_value[2] = 9.f;
    typename C::configuration_t cc; cc[0] = 1.f; cc[1] = 2.f; cc[2] = 3.f;
    typename B::owning_data_t od(cfg, cc);
    auto c = od.get_configuration();
    if (!(c.default_value[2] == 9.f && c.max[1] == 2.f)) return "bad backup(configuration, constant) reports another configuration";
    field<B> f(make_parameter_pack(std::move(od))); typename field<B>::view_t v(f);
    auto a = v.at(1.5f, 1.5f), b = v.at(0.f, 1.5f);
    if (!(a[0] == 1.f && a[2] == 3.f && b[0] == 7.f && b[2] == 9.f)) return "bad backup over constant built by the variadic constructor"; ++n; }
  return "ok " + std::to_string(n);
}
int main() {
  std::string line;
  while (std::getline(std::cin, line))
    std::cout << (line == "backup" ? backup_over_strided() : line == "thin" ? thin_layers() : std::string("unsupported")) << std::endl;
}
