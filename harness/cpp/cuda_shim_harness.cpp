// C05 reduced-assurance sub-check: host array -> cuda_device_array storage, compiled on the host against harness/shim/cuda.
//   h2d <lay> N s1..sN  ->  "ok <number of lattice coordinates whose value differs between host source and 'device' target>"
#include <covfie/core/backend/primitive/array.hpp>
#include <covfie/core/backend/transformer/hilbert.hpp>
#include <covfie/core/backend/transformer/morton.hpp>
#include <covfie/core/backend/transformer/strided.hpp>
#include <covfie/core/field.hpp>
#include <covfie/cuda/backend/primitive/cuda_device_array.hpp>
#include <iostream>
#include <sstream>
#include <string>
#include <vector>
using namespace covfie;
using u64 = std::uint64_t;
using VT = vector::float3;
template <int L, typename V, typename B> struct layer;
template <typename V, typename B> struct layer<0, V, B> { using type = backend::strided<V, B>; };
template <typename V, typename B> struct layer<1, V, B> { using type = backend::morton<V, B, true>; };
template <typename V, typename B> struct layer<2, V, B> { using type = backend::morton<V, B, false>; };
template <typename V, typename B> struct layer<3, V, B> { using type = backend::hilbert<V, B>; };
template <std::size_t N, typename F> void forall(const std::vector<u64> & sz, F f) {
  std::vector<u64> c(N, 0); u64 total = 1; for (auto s : sz) total *= s;
  for (u64 k = 0; k < total; ++k) { f(c, k); for (std::size_t d = N; d-- > 0;) { if (++c[d] < sz[d]) break; c[d] = 0; } }
}
template <int L, std::size_t N> std::string run(const std::vector<u64> & sz) {
  using V = vector::vector_d<std::size_t, N>;
  using H = backend::array<VT>; using D = backend::cuda_device_array<VT>;
  using SH = backend::strided<V, H>;
  using LH = typename layer<L, V, H>::type; using LD = typename layer<L, V, D>::type;
  u64 total = 1; for (auto s : sz) total *= s;
  typename SH::configuration_t scfg; for (std::size_t k = 0; k < N; ++k) scfg[k] = sz[k];
  field<SH> orig(make_parameter_pack(std::move(scfg), typename H::configuration_t{total}));
  typename field<SH>::view_t vo(orig);
  forall<N>(sz, [&](const std::vector<u64> & c, u64 k) {
    typename field<SH>::coordinate_t cc; for (std::size_t d = 0; d < N; ++d) cc[d] = c[d];
    for (std::size_t q = 0; q < 3; ++q) vo.at(cc)[q] = static_cast<float>(4 * (k + 1) + q);
  });
  field<LH> host(orig);
  field<LD> dev(host);                 // host -> "device" storage, same storage order
  field<LD> dev2(orig);                // row-major host -> "device" in layout L
  typename field<LD>::view_t vd(dev), vd2(dev2);
  u64 bad = 0;
  forall<N>(sz, [&](const std::vector<u64> & c, u64 k) {
    typename field<LD>::coordinate_t cc; for (std::size_t d = 0; d < N; ++d) cc[d] = c[d];
    for (std::size_t q = 0; q < 3; ++q) {
      float want = static_cast<float>(4 * (k + 1) + q);
      if (vd.at(cc)[q] != want || vd2.at(cc)[q] != want) { ++bad; break; }
    }
  });
  bool cfg = true;
  for (std::size_t k = 0; k < N; ++k) cfg = cfg && dev.backend().get_configuration()[k] == sz[k];
  return "ok " + std::to_string(bad + (cfg ? 0 : 1));
}
template <int L> std::string runN(std::size_t N, const std::vector<u64> & sz) {
  if constexpr (L == 3) { if (N == 2) return run<L, 2>(sz); return "unsupported"; }
  else { switch (N) { case 1: return run<L, 1>(sz); case 2: return run<L, 2>(sz); case 3: return run<L, 3>(sz); } return "unsupported"; }
}
int main() {
  std::string line;
  while (std::getline(std::cin, line)) {
    std::istringstream is(line);
    std::string op, lay; std::size_t N = 0; is >> op >> lay >> N;
    std::vector<u64> sz(N); for (auto & s : sz) is >> s;
    std::string r = "unsupported";
    if (lay == "strided") r = runN<0>(N, sz); else if (lay == "mortonT") r = runN<1>(N, sz);
    else if (lay == "mortonF") r = runN<2>(N, sz); else if (lay == "hilbert") r = runN<3>(N, sz);
    std::cout << r << std::endl;
  }
}
