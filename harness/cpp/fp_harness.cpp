// C16 `footprint`: the flat indices a lookup asks the primitive backend for, recorded by the probe backend beneath
// interp(lay(probe)).  One operation per line:
//   fp <interp> <lay> N s1..sN | c1..cN     interp = direct | nn | linear (compile-time: -DINTERP=0|1|2 selects one)
//                                            lay = strided | mortonT | mortonF | hilbert
//                                            coordinates: naturals for `direct`, f32 bit patterns otherwise
// Answer: `k i1 .. ik` in the order the backend was asked.
#include <covfie/core/backend/transformer/hilbert.hpp>
#include <covfie/core/backend/transformer/linear.hpp>
#include <covfie/core/backend/transformer/morton.hpp>
#include <covfie/core/backend/transformer/nearest_neighbour.hpp>
#include <covfie/core/backend/transformer/strided.hpp>
#include <covfie/core/field.hpp>
#include "probe.hpp"
#include <cstring>
#include <iostream>
#include <sstream>
#include <string>
using namespace covfie;
using u64 = std::uint64_t;
#ifndef INTERP
#define INTERP 0
#endif
template <int L, typename V, typename B> struct layer;
template <typename V, typename B> struct layer<0, V, B> { using type = backend::strided<V, B>; };
template <typename V, typename B> struct layer<1, V, B> { using type = backend::morton<V, B, true>; };
template <typename V, typename B> struct layer<2, V, B> { using type = backend::morton<V, B, false>; };
template <typename V, typename B> struct layer<3, V, B> { using type = backend::hilbert<V, B>; };
template <int I, typename S> struct interp;
template <typename S> struct interp<0, S> { using type = S; };
template <typename S> struct interp<1, S> { using type = backend::nearest_neighbour<S>; };
template <typename S> struct interp<2, S> { using type = backend::linear<S>; };

template <int L, std::size_t N>
std::string run_fp(const std::vector<u64> & sz, const std::vector<u64> & co) {
  using P = vf::probe<vector::float1>;
  using S = typename layer<L, vector::vector_d<std::size_t, N>, P>::type;
  using B = typename interp<INTERP, S>::type;
  vf::probe_log log;
  typename S::configuration_t cfg;
  for (std::size_t k = 0; k < N; ++k) cfg[k] = sz[k];
  auto make = [&]() {
    if constexpr (INTERP == 0) return field<B>(make_parameter_pack(std::move(cfg), typename P::configuration_t{&log}));
    else return field<B>(make_parameter_pack(typename B::configuration_t{}, std::move(cfg), typename P::configuration_t{&log}));
  };
  field<B> f = make();
  typename field<B>::view_t v(f);
  typename field<B>::coordinate_t c;
  for (std::size_t k = 0; k < N; ++k) {
    if constexpr (INTERP == 0) c[k] = co[k];
    else { std::uint32_t b = static_cast<std::uint32_t>(co[k]); float x; std::memcpy(&x, &b, 4); c[k] = x; }
  }
  (void)v.at(c);
  std::ostringstream os;
  os << log.idx.size();
  for (auto i : log.idx) os << " " << i;
  return os.str();
}
template <int L> std::string byN(std::size_t N, const std::vector<u64> & sz, const std::vector<u64> & co) {
  if constexpr (L == 3) { if (N == 2) return run_fp<L, 2>(sz, co); return "unsupported"; }
  else {
    switch (N) { case 1: return run_fp<L, 1>(sz, co); case 2: return run_fp<L, 2>(sz, co);
                 case 3: return run_fp<L, 3>(sz, co); case 4: return run_fp<L, 4>(sz, co); }
    return "unsupported";
  }
}
int main() {
  static const char * names[] = {"direct", "nn", "linear"};
  std::string line;
  while (std::getline(std::cin, line)) {
    std::istringstream is(line);
    std::string op, ip, lay, bar; std::size_t N = 0;
    is >> op >> ip >> lay >> N;
    std::vector<u64> sz(N), co(N);
    for (auto & s : sz) is >> s;
    is >> bar;
    for (auto & c : co) is >> c;
    std::string r = "unsupported";
    if (op == "fp" && ip == names[INTERP] && N >= 1 && N <= 4) {
      int L = lay == "strided" ? 0 : lay == "mortonT" ? 1 : lay == "mortonF" ? 2 : lay == "hilbert" ? 3 : -1;
      r = L == 0 ? byN<0>(N, sz, co) : L == 1 ? byN<1>(N, sz, co) : L == 2 ? byN<2>(N, sz, co) : L == 3 ? byN<3>(N, sz, co) : r;
    }
    std::cout << r << std::endl;
  }
}
