// C12 correspondence harness: interprets an operation file over a pool of std::optional<field<T>> slots.
// One operation per line, one answer per line (the state of all slots after the operation):
//   reset                      destroy everything (end of a history / start of the next); answers `reset`, or
//                              `reset LEAK <bytes>` when (ASan builds) the allocator holds more or fewer bytes than after
//                              the previous reset, i.e. the history in between lost or over-released storage
//   ctor i T s0 [s1 [s2]]      if slot i is empty: construct a field of type T (0|1) with these extents
//   dtor i                     destroy slot i
//   copyCtor d s | moveCtor d s      if d is empty and s is not: construct d (same type as s) from s / std::move(s)
//   copyAssign d s | moveAssign d s  if both hold fields (of the same type): *d = *s / *d = std::move(*s)  (d == s allowed)
//   write i k v                if i holds storage and k < #cells: write v through a view at the k-th lattice coordinate
//   convert d s                if d is empty and s is readable: construct d as the *other* type of the family from s
//   dumpLoad d s               if s is readable: dump s to a stringstream; d empty: construct d from the stream,
//                              otherwise *d = field(stream)
// Answer: per slot `-` (empty) | `movedN` (moved-from object with N lattice cells, no storage) | `live[v0,v1,...]` = every
// lattice coordinate in row-major order read through a fresh view (or the get_backend() chain for interpolating stacks).
// An ill-typed request (the generator never emits one) answers `badtype`.
// The family of the two field types is chosen at compile time: -DFAM=0..3.
#include "arr_access.hpp"
#include <covfie/core/algebra/affine.hpp>
#include <covfie/core/backend/primitive/array.hpp>
#include <covfie/core/backend/transformer/affine.hpp>
#include <covfie/core/backend/transformer/linear.hpp>
#include <covfie/core/backend/transformer/morton.hpp>
#include <covfie/core/backend/transformer/nearest_neighbour.hpp>
#include <covfie/core/backend/transformer/strided.hpp>
#include <covfie/core/field.hpp>
#include <cstring>
#include <iostream>
#include <optional>
#include <sstream>
#include <string>
#include <vector>
using namespace covfie;
using u64 = std::uint64_t;
#if defined(__SANITIZE_ADDRESS__)
extern "C" std::size_t __sanitizer_get_current_allocated_bytes();   // ASan runtime (allocator_interface.h)
static long heap_now() { return static_cast<long>(__sanitizer_get_current_allocated_bytes()); }
#else
static long heap_now() { return 0; }
#endif
#ifndef FAM
#define FAM 0
#endif
#ifndef NSLOT
#define NSLOT 4
#endif

static std::size_t prod(const std::vector<u64> & s) { std::size_t p = 1; for (auto x : s) p *= x; return p; }
static std::size_t curve_len(const std::vector<u64> & s) {   // the harness's own arithmetic, not the library's
  u64 m = 0; for (auto x : s) m = std::max(m, x);
  u64 r = 1; while (r < m) r *= 2;
  std::size_t p = 1; for (std::size_t k = 0; k < s.size(); ++k) p *= r;
  return p;
}
// rank in row-major order -> coordinate
template <std::size_t N, typename S> static std::array<u64, N> unrank(std::size_t k, const S & sz) {
  std::array<u64, N> c{};
  for (std::size_t d = N; d-- > 0;) { c[d] = k % sz[d]; k /= sz[d]; }
  return c;
}
// a cell crosses the boundary as the small integer it encodes; anything else as its bit pattern (never equals a model value)
template <std::size_t M> static std::string cell_str(const float * p) {
  float v = p[0];
  bool ok = v >= 0.f && v < 16777216.f && v == static_cast<float>(static_cast<unsigned long>(v));
  for (std::size_t j = 1; ok && j < M; ++j) ok = p[j] == static_cast<float>(j + 1) * v;
  if (ok) return std::to_string(static_cast<unsigned long>(v));
  std::ostringstream os; os << "x";
  for (std::size_t j = 0; j < M; ++j) { std::uint32_t b; std::memcpy(&b, &p[j], 4); os << std::hex << b << (j + 1 < M ? "/" : ""); }
  return os.str();
}
template <std::size_t M, typename R> static void cell_put(R && ref, unsigned long v) {
  for (std::size_t j = 0; j < M; ++j) ref[j] = static_cast<float>(j + 1) * static_cast<float>(v);
}

// ---------------------------------------------------------------------------------------------------- type traits
template <typename B> struct Tr;
// plain array
template <typename V> struct Tr<backend::array<V>> {
  using B = backend::array<V>; using F = field<B>;
  static constexpr std::size_t N = 1, M = V::size;
  static F make(const std::vector<u64> & s) { return F(make_parameter_pack(typename B::configuration_t{s[0]})); }
  static const typename B::owning_data_t & store(const F & f) { return f.backend(); }
  static std::size_t cells(const F & f) { return f.backend().get_configuration()[0]; }
  static std::string read(const F & f, std::size_t k) { typename F::view_t v(f); return cell_str<M>(&v.at(k)[0]); }
  static std::string readv(const typename F::view_t & v, const F &, std::size_t k) { return cell_str<M>(&v.at(k)[0]); }
  static void write(F & f, std::size_t k, unsigned long x) { typename F::view_t v(f); cell_put<M>(v.at(k), x); }
  static std::string extra(const F &) { return ""; }
};
// storage order over array: view of the whole field with integer coordinates
template <typename S, std::size_t NN, std::size_t MM> struct TrLayout {
  using F = field<S>; using A = typename S::backend_t;
  static constexpr std::size_t N = NN, M = MM;
  static typename S::configuration_t conf(const std::vector<u64> & s) { typename S::configuration_t c; for (std::size_t k = 0; k < N; ++k) c[k] = s[k]; return c; }
  static const typename A::owning_data_t & store(const F & f) { return f.backend().get_backend(); }
  static std::size_t cells(const F & f) { auto c = f.backend().get_configuration(); std::size_t p = 1; for (std::size_t k = 0; k < N; ++k) p *= c[k]; return p; }
  static typename F::coordinate_t coord(const F & f, std::size_t k) {
    auto u = unrank<N>(k, f.backend().get_configuration()); typename F::coordinate_t c; for (std::size_t d = 0; d < N; ++d) c[d] = u[d]; return c; }
  static std::string read(const F & f, std::size_t k) { typename F::view_t v(f); return cell_str<M>(&v.at(coord(f, k))[0]); }
  static std::string readv(const typename F::view_t & v, const F & f, std::size_t k) { return cell_str<M>(&v.at(coord(f, k))[0]); }
  static void write(F & f, std::size_t k, unsigned long x) { typename F::view_t v(f); cell_put<M>(v.at(coord(f, k)), x); }
  static std::string extra(const F &) { return ""; }
};
template <typename V, typename O> struct Tr<backend::strided<V, backend::array<O>>> : TrLayout<backend::strided<V, backend::array<O>>, V::size, O::size> {
  using S = backend::strided<V, backend::array<O>>; using A = backend::array<O>;
  static field<S> make(const std::vector<u64> & s) {
    return field<S>(make_parameter_pack(TrLayout<S, V::size, O::size>::conf(s), typename A::configuration_t{prod(s)})); }
};
template <typename V, typename O> struct Tr<backend::morton<V, backend::array<O>>> : TrLayout<backend::morton<V, backend::array<O>>, V::size, O::size> {
  using S = backend::morton<V, backend::array<O>>; using A = backend::array<O>;
  static field<S> make(const std::vector<u64> & s) {
    return field<S>(make_parameter_pack(TrLayout<S, V::size, O::size>::conf(s), typename A::configuration_t{curve_len(s)})); }
};
// nearest neighbour over a storage order: the (reference-returning) view of the whole stack, at float coordinates
template <typename L> struct Tr<backend::nearest_neighbour<L>> {
  using B = backend::nearest_neighbour<L>; using F = field<B>; using TL = Tr<L>; using A = typename L::backend_t;
  static constexpr std::size_t N = TL::N, M = TL::M;
  static F make(const std::vector<u64> & s) {
    std::size_t n = std::is_same_v<L, backend::strided<typename L::contravariant_input_t::vector_d, A>> ? prod(s) : curve_len(s);
    return F(make_parameter_pack(typename B::configuration_t{}, TL::conf(s), typename A::configuration_t{n})); }
  static const typename A::owning_data_t & store(const F & f) { return f.backend().get_backend().get_backend(); }
  static auto sizes(const F & f) { return f.backend().get_backend().get_configuration(); }
  static std::size_t cells(const F & f) { auto c = sizes(f); std::size_t p = 1; for (std::size_t k = 0; k < N; ++k) p *= c[k]; return p; }
  static typename F::coordinate_t coord(const F & f, std::size_t k) {
    auto u = unrank<N>(k, sizes(f)); typename F::coordinate_t c; for (std::size_t d = 0; d < N; ++d) c[d] = static_cast<float>(u[d]); return c; }
  static std::string read(const F & f, std::size_t k) { typename F::view_t v(f); return cell_str<M>(&v.at(coord(f, k))[0]); }
  static std::string readv(const typename F::view_t & v, const F & f, std::size_t k) { return cell_str<M>(&v.at(coord(f, k))[0]); }
  static void write(F & f, std::size_t k, unsigned long x) { typename F::view_t v(f); cell_put<M>(v.at(coord(f, k)), x); }
  static std::string extra(const F &) { return ""; }
};
// affine over linear over a storage order: cells through the get_backend() chain; the matrix must survive every operation;
// one full lookup per live field as a sanity oracle (identity matrix + integer coordinate -> the stored cell)
template <typename L> struct Tr<backend::affine<backend::linear<L>>> {
  using B = backend::affine<backend::linear<L>>; using F = field<B>; using TL = Tr<L>; using A = typename L::backend_t;
  static constexpr std::size_t N = TL::N, M = TL::M;
  static typename B::configuration_t matrix() {
    typename B::configuration_t m;
    for (std::size_t i = 0; i < N; ++i) for (std::size_t j = 0; j <= N; ++j) m(i, j) = (i == j) ? 1.f : 0.f;
    return m; }
  static F make(const std::vector<u64> & s) {
    std::size_t n = std::is_same_v<L, backend::strided<typename L::contravariant_input_t::vector_d, A>> ? prod(s) : curve_len(s);
    return F(make_parameter_pack(matrix(), typename backend::linear<L>::configuration_t{}, TL::conf(s), typename A::configuration_t{n})); }
  static const typename L::owning_data_t & layer(const F & f) { return f.backend().get_backend().get_backend(); }
  static const typename A::owning_data_t & store(const F & f) { return layer(f).get_backend(); }
  static std::size_t cells(const F & f) { auto c = layer(f).get_configuration(); std::size_t p = 1; for (std::size_t k = 0; k < N; ++k) p *= c[k]; return p; }
  static typename L::contravariant_input_t::vector_t coord(const F & f, std::size_t k) {
    auto u = unrank<N>(k, layer(f).get_configuration()); typename L::contravariant_input_t::vector_t c; for (std::size_t d = 0; d < N; ++d) c[d] = u[d]; return c; }
  static std::string read(const F & f, std::size_t k) { typename L::non_owning_data_t v(layer(f)); return cell_str<M>(&v.at(coord(f, k))[0]); }
  static void write(F & f, std::size_t k, unsigned long x) { typename L::non_owning_data_t v(layer(f)); cell_put<M>(v.at(coord(f, k)), x); }
  static std::string extra(const F & f) {
    auto m = f.backend().get_configuration(); auto m0 = matrix();
    for (std::size_t i = 0; i < N; ++i) for (std::size_t j = 0; j <= N; ++j) if (m(i, j) != m0(i, j)) return "!matrix";
    auto sz = layer(f).get_configuration();
    for (std::size_t d = 0; d < N; ++d) if (sz[d] < 2) return "";
    if (vf::arr_null(store(f))) return "";
    typename F::view_t v(f);
    typename F::coordinate_t c; for (std::size_t d = 0; d < N; ++d) c[d] = 0.f;
    auto r = v.at(c);
    typename L::non_owning_data_t lv(layer(f));
    typename L::contravariant_input_t::vector_t z; for (std::size_t d = 0; d < N; ++d) z[d] = 0;
    for (std::size_t j = 0; j < M; ++j) if (r[j] != lv.at(z)[j]) return "!lookup";
    return ""; }
};

// ---------------------------------------------------------------------------------------------------- the family
#if FAM == 0
using B0 = backend::array<vector::float1>; using B1 = backend::array<vector::float3>;
constexpr bool CONVERTIBLE = false;
#elif FAM == 1
using B0 = backend::strided<vector::size2, backend::array<vector::float1>>; using B1 = backend::morton<vector::size2, backend::array<vector::float1>>;
constexpr bool CONVERTIBLE = true;
#elif FAM == 2
using B0 = backend::nearest_neighbour<backend::strided<vector::size2, backend::array<vector::float3>>>;
using B1 = backend::nearest_neighbour<backend::morton<vector::size2, backend::array<vector::float3>>>;
constexpr bool CONVERTIBLE = true;
#else
using B0 = backend::affine<backend::linear<backend::strided<vector::size3, backend::array<vector::float3>>>>;
using B1 = backend::affine<backend::linear<backend::morton<vector::size3, backend::array<vector::float3>>>>;
constexpr bool CONVERTIBLE = true;
#endif
using F0 = field<B0>; using F1 = field<B1>;
struct Slot { std::optional<F0> a; std::optional<F1> b; int type() const { return a ? 0 : b ? 1 : -1; } void reset() { a.reset(); b.reset(); } };
static Slot slot[NSLOT];

template <typename B> static bool readable(const field<B> & f) { return !vf::arr_null(Tr<B>::store(f)) || Tr<B>::cells(f) == 0; }
template <typename B> static std::string show_one(const field<B> & f) {
  using T = Tr<B>;
  std::size_t n = T::cells(f);
  if (vf::arr_null(T::store(f)) && n > 0) return "moved" + std::to_string(n);
  std::string r = "live[";
  for (std::size_t k = 0; k < n; ++k) { if (k) r += ","; r += T::read(f, k); }
  return r + "]" + T::extra(f);
}
static std::string show() {
  std::string r;
  for (int i = 0; i < NSLOT; ++i) {
    if (i) r += " ";
    if (slot[i].a) r += show_one<B0>(*slot[i].a); else if (slot[i].b) r += show_one<B1>(*slot[i].b); else r += "-";
  }
  return r;
}
// the copying conversion fills the slot; a second field obtained by a MOVING conversion from a temporary copy of the source
// (abstractly the same operation) must hold exactly the same cells — otherwise the harness dies with a message, which the
// runner reports against this operation
template <typename B> static std::string show_one(const field<B> & f);
template <typename BD, typename BS> static void do_convert(std::optional<field<BD>> & d, const field<BS> & s) {
  if constexpr (CONVERTIBLE) {
    d.emplace(s);
    field<BS> tmp(s);
    field<BD> moved(std::move(tmp));
    if (show_one<BD>(moved) != show_one<BD>(*d)) {
      std::cerr << "Assertion `moving conversion == copying conversion' failed: " << show_one<BD>(moved) << " vs " << show_one<BD>(*d) << std::endl;
      std::abort();
    }
  }
}
// A view taken before its field is moved keeps reading the same cells, now those of the destination: a view holds a pointer to
// the storage and copies of the configuration, nothing of the field object (model: Covfie.Heap.view_survives_moveCtor /
// view_survives_moveAssign).  `mv` performs the move; the harness dies with a message when the old view disagrees.
template <typename B, typename Mv> static void move_with_view(field<B> & src, std::optional<field<B>> & dst, Mv && mv) {
  if constexpr (requires(const typename field<B>::view_t & v, const field<B> & f) { Tr<B>::readv(v, f, 0); }) {
    if (&src != (dst ? &*dst : nullptr) && !vf::arr_null(Tr<B>::store(src)) && Tr<B>::cells(src) > 0) {
      std::size_t n = Tr<B>::cells(src);
      typename field<B>::view_t v(src);
      mv();
      for (std::size_t k = 0; k < n; ++k) if (Tr<B>::readv(v, *dst, k) != Tr<B>::read(*dst, k)) {
        std::cerr << "Assertion `a view taken before the move reads the moved cells' failed: cell " << k << ": "
                  << Tr<B>::readv(v, *dst, k) << " vs " << Tr<B>::read(*dst, k) << std::endl;
        std::abort();
      }
      return;
    }
  }
  mv();
}
template <typename B> static void load_into(std::optional<field<B>> & d, const field<B> & s) {
  std::stringstream ss;
  s.dump(ss);
  if (!d) d.emplace(ss); else *d = field<B>(ss);
}

int main() {
  std::string line;
  line.reserve(1 << 12);
  bool have_base = false; long base = 0;
  while (std::getline(std::cin, line)) {
    std::istringstream is(line); std::string op; is >> op;
    std::vector<u64> a; u64 x; while (is >> x) a.push_back(x);
    bool bad = false;
    auto ok = [&](std::size_t n) { if (a.size() < n) return false; return true; };
    if (op == "reset") {
      for (auto & s : slot) s.reset();
      { std::vector<u64>().swap(a); }
      long now = heap_now();
      if (have_base && now != base) std::cout << "reset LEAK " << (now - base) << std::endl; else std::cout << "reset" << std::endl;
      have_base = true; base = heap_now();   // after the answer: stdio allocates its buffer on first use
      continue;
    }
    if ((op == "ctor" && !ok(3)) || (op != "ctor" && op != "dtor" && !ok(2)) || !ok(1) || a[0] >= NSLOT ||
        (op != "ctor" && op != "dtor" && op != "write" && a[1] >= NSLOT)) { std::cout << "bad-op" << std::endl; continue; }
    Slot & D = slot[a[0]];
    if (op == "ctor") {
      std::vector<u64> sz(a.begin() + 2, a.end());
      if (D.type() < 0) {
        if (a[1] == 0 && sz.size() == Tr<B0>::N) D.a.emplace(Tr<B0>::make(sz));
        else if (a[1] == 1 && sz.size() == Tr<B1>::N) D.b.emplace(Tr<B1>::make(sz));
        else bad = true;
      }
    } else if (op == "dtor") { D.reset(); }
    else if (op == "write") {
      if (!ok(3)) bad = true;
      else if (D.a) { if (!vf::arr_null(Tr<B0>::store(*D.a)) && a[1] < Tr<B0>::cells(*D.a)) Tr<B0>::write(*D.a, a[1], a[2]); }
      else if (D.b) { if (!vf::arr_null(Tr<B1>::store(*D.b)) && a[1] < Tr<B1>::cells(*D.b)) Tr<B1>::write(*D.b, a[1], a[2]); }
    } else {
      Slot & S = slot[a[1]];
      int td = D.type(), ts = S.type();
      if (op == "copyCtor") { if (td < 0 && ts == 0) D.a.emplace(*S.a); else if (td < 0 && ts == 1) D.b.emplace(*S.b); }
      else if (op == "moveCtor") {
        if (td < 0 && ts == 0) move_with_view<B0>(*S.a, D.a, [&] { D.a.emplace(std::move(*S.a)); });
        else if (td < 0 && ts == 1) move_with_view<B1>(*S.b, D.b, [&] { D.b.emplace(std::move(*S.b)); }); }
      else if (op == "copyAssign") {
        if (td >= 0 && ts >= 0) { if (td != ts) bad = true; else if (td == 0) *D.a = *S.a; else *D.b = *S.b; } }
      else if (op == "moveAssign") {
        if (td >= 0 && ts >= 0) { if (td != ts) bad = true;
          else if (td == 0) move_with_view<B0>(*S.a, D.a, [&] { *D.a = std::move(*S.a); });
          else move_with_view<B1>(*S.b, D.b, [&] { *D.b = std::move(*S.b); }); } }
      else if (op == "convert") {
        if (td < 0 && ts >= 0) {
          if (!CONVERTIBLE) bad = true;
          else if (ts == 0) { if (readable<B0>(*S.a)) do_convert<B1, B0>(D.b, *S.a); }
          else { if (readable<B1>(*S.b)) do_convert<B0, B1>(D.a, *S.b); } } }
      else if (op == "dumpLoad") {
        if (ts == 0 && readable<B0>(*S.a)) { if (td == 1) bad = true; else load_into<B0>(D.a, *S.a); }
        else if (ts == 1 && readable<B1>(*S.b)) { if (td == 0) bad = true; else load_into<B1>(D.b, *S.b); } }
      else bad = true;
    }
    if (bad) std::cout << "badtype" << std::endl; else std::cout << show() << std::endl;
  }
  for (auto & s : slot) s.reset();
  return 0;
}
