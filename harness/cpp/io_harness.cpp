// Binary-IO correspondence harness (C06, C07, C08). One operation per input line, one answer line per operation.
// The set of field types is fixed per build by a generated include (-DIO_STACKS="<file>") that defines
//     #define IO_STACK_LIST(X) X(s0, <backend type>) X(s1, <backend type>) ...
// (written by harness/iolib.py from the layer grammar; all 14 layers, float and double storage, N and M varied).
//   dump   <stack> <Dat tokens>        -> hex of field::dump
//   show   <stack> <Dat tokens>        -> the tokens printed back from the built field (self-test)
//   load   <stack> <hex>               -> "ok <unread bytes> reads=<read calls>" | "error <exception class>"
//   reload <stack> <hex>               -> "ok <unread> | <Dat tokens of the loaded field>" | "error <class>"
//   redump <stack> <hex>               -> "ok <unread> | <hex of dump of the loaded field>" | "error <class>"
//   fload  <stack> cut|short|half|throw <arg> <hex>   (fault-injecting streambuf)
//   lookups <stack> <N> s1..sN | <dat>  -> "ok <coordinates compared> <coordinates at which the reloaded field differs>"
//   prefixes <stack> <hex>             -> one char per k in 0..len: E(xception) / F(ield returned)
//   xprefixes <stack> <hex>            -> the same with is.exceptions(failbit|badbit) enabled on the caller's stream
//   alts   <stack> <hex> off:word ...  -> one char per altered 4-byte word
//   nthall <stack> short|half|throw <hex> -> "<clean outcome> <reads> {E|F}<bytes delivered> ..." for n = 1..reads
//   narrow <u64 bit patterns...>       -> bits of static_cast<float>(double)
//   widen  <u32 bit patterns...>       -> bits of static_cast<double>(float)
#include "io_lib.hpp"
#ifndef IO_STACKS
#error "compile with -DIO_STACKS=\"<generated stack list>\""
#endif
#include IO_STACKS

using namespace vio;

static std::string dispatch(const std::string & op, const std::string & name, std::istringstream & is) {
#define X(NAME, ...) if (name == #NAME) return runOp<__VA_ARGS__>(op, is);
  IO_STACK_LIST(X)
#undef X
  return "unknown-stack";
}

int main() {
  std::string line;
  while (std::getline(std::cin, line)) {
    std::istringstream is(line); std::string op, name; is >> op;
    std::string out;
    try {
      if (op == "narrow") {
        u64 b; std::ostringstream os; bool first = true;
        while (is >> b) { volatile double d = fromb<double>(b); volatile float f = static_cast<float>(d); float g = f; os << (first ? "" : " ") << tob(g); first = false; }
        out = os.str();
      } else if (op == "widen") {
        u64 b; std::ostringstream os; bool first = true;
        while (is >> b) { volatile float f = fromb<float>(b); volatile double d = static_cast<double>(f); double g = d; os << (first ? "" : " ") << tob(g); first = false; }
        out = os.str();
      } else { is >> name; out = dispatch(op, name, is); }
    } catch (bad_tokens &) { out = "bad-tokens"; }
    catch (std::exception & e) { out = std::string("harness-exception ") + e.what(); }
    std::cout << out << std::endl;
  }
  return 0;
}
