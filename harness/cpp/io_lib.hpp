#pragma once
// Generic pieces of the binary-IO correspondence harness (C06, C07, C08).
//  * IOX<Backend>: builds the owning data of any serialisable layer stack from the model's `Dat` tokens and prints the
//    owning data of a (re)loaded field back as `Dat` tokens (every layer's configuration and every stored word, as
//    integer bit patterns) -- template recursion over the layer templates, so any stack of the grammar works.
//  * FaultBuf: a std::streambuf over a byte string that can end early ("cut k"), make the n-th read call come back
//    short / half-filled, or throw from inside the read.
#include "arr_access.hpp"
#include <covfie/core/backend/primitive/array.hpp>
#include <covfie/core/backend/primitive/constant.hpp>
#include <covfie/core/backend/primitive/identity.hpp>
#include <covfie/core/backend/transformer/affine.hpp>
#include <covfie/core/backend/transformer/backup.hpp>
#include <covfie/core/backend/transformer/clamp.hpp>
#include <covfie/core/backend/transformer/covariant_cast.hpp>
#include <covfie/core/backend/transformer/dereference.hpp>
#include <covfie/core/backend/transformer/hilbert.hpp>
#include <covfie/core/backend/transformer/linear.hpp>
#include <covfie/core/backend/transformer/morton.hpp>
#include <covfie/core/backend/transformer/nearest_neighbour.hpp>
#include <covfie/core/backend/transformer/shuffle.hpp>
#include <covfie/core/backend/transformer/strided.hpp>
#include <covfie/core/field.hpp>
#include <algorithm>
#include <cstdint>
#include <cstring>
#include <iostream>
#include <new>
#include <sstream>
#include <stdexcept>
#include <streambuf>
#include <type_traits>
#include <string>
#include <vector>

namespace vio {
using namespace covfie;
using u64 = std::uint64_t;

struct bad_tokens : std::exception {
  const char * what() const noexcept override { return "harness: malformed data tokens"; }
};

struct Tok {
  std::istringstream & is;
  u64 num() { u64 x = 0; if (!(is >> x)) throw bad_tokens(); return x; }
  std::vector<u64> list() { u64 n = num(); if (n > (1u << 26)) throw bad_tokens(); std::vector<u64> v(n); for (auto & x : v) x = num(); return v; }
  std::vector<u64> list(std::size_t want) { auto v = list(); if (v.size() != want) throw bad_tokens(); return v; }
  void expect(const char * s) { std::string w; if (!(is >> w) || w != s) throw bad_tokens(); }
};

template <typename T> T fromb(u64 b) { static_assert(sizeof(T) <= 8); T v; std::memcpy(&v, &b, sizeof(T)); return v; }
template <typename T> u64 tob(const T & v) { static_assert(sizeof(T) <= 8); u64 b = 0; std::memcpy(&b, &v, sizeof(T)); return b; }

template <typename Vec, typename T, std::size_t N> Vec vecOf(const std::vector<u64> & w) {
  if constexpr (std::is_arithmetic_v<Vec>) { return fromb<Vec>(w[0]); }   // scalar_d coordinates (1-D index backends)
  else { Vec v; for (std::size_t k = 0; k < N; ++k) v[k] = fromb<T>(w[k]); return v; }
}
template <typename Vec> void showVec(std::ostream & os, const Vec & v, std::size_t n) {
  os << " " << n;
  if constexpr (std::is_arithmetic_v<Vec>) os << " " << tob(v);
  else for (std::size_t k = 0; k < n; ++k) os << " " << tob(v[k]);
}

inline std::string hex(const std::string & s) {
  static const char * d = "0123456789abcdef"; std::string o; o.reserve(2 * s.size());
  for (unsigned char c : s) { o += d[c >> 4]; o += d[c & 15]; } return o;
}
inline std::string unhex(const std::string & h) {
  if (h == "-") return std::string();
  std::string o; auto v = [](char c) { return c <= '9' ? c - '0' : c - 'a' + 10; };
  for (std::size_t i = 0; i + 1 < h.size(); i += 2) o += char(v(h[i]) * 16 + v(h[i + 1])); return o;
}

// ------------------------------------------------------------------------------------------------ layer recursion
template <typename B> struct IOX;

template <typename V, typename I> struct IOX<backend::array<V, I>> {
  using L = backend::array<V, I>; using T = typename V::type; static constexpr std::size_t M = V::size;
  static typename L::owning_data_t make(Tok & t) {
    t.expect("A"); (void)t.num(); u64 count = t.num(); auto cells = t.list(count * M);
    typename L::owning_data_t o(static_cast<std::size_t>(count));
    for (u64 i = 0; i < count; ++i) for (std::size_t q = 0; q < M; ++q) vf::arr_data(o)[i][q] = fromb<T>(cells[i * M + q]);
    return o;
  }
  static void show(const typename L::owning_data_t & o, std::ostream & os) {
    const u64 n = vf::arr_size(o);
    os << "A " << sizeof(T) << " " << n << " " << n * M;
    for (u64 i = 0; i < n; ++i) for (std::size_t q = 0; q < M; ++q) os << " " << tob(vf::arr_data(o)[i][q]);
  }
};
template <typename VI, typename VO> struct IOX<backend::constant<VI, VO>> {
  using L = backend::constant<VI, VO>; using T = typename VO::type; static constexpr std::size_t M = VO::size;
  static typename L::owning_data_t make(Tok & t) {
    t.expect("C"); auto v = t.list(M);
    return typename L::owning_data_t(vecOf<typename L::configuration_t, T, M>(v));
  }
  static void show(const typename L::owning_data_t & o, std::ostream & os) { os << "C"; showVec(os, o.get_configuration(), M); }
};
template <typename V> struct IOX<backend::identity<V>> {
  using L = backend::identity<V>;
  static typename L::owning_data_t make(Tok & t) { t.expect("I"); return typename L::owning_data_t(typename L::configuration_t{}); }
  static void show(const typename L::owning_data_t &, std::ostream & os) { os << "I"; }
};
// how the storage-order layers are put together from the tokens: 0 = owning_data_t(configuration, backend &&) — the constructor
// read_binary itself uses —, 1 = the parameter-pack constructor (configuration first, the ready-made layer below as the rest of the pack):
// the `lookups` operation compares a reloaded field with originals built BOTH ways, so that whatever a layer derives from its sizes at
// construction is compared between constructors as well
inline int g_sized_route = 0;
// strided / morton / hilbert: N extents
template <typename L> struct Sized {
  using B = typename L::backend_t; static constexpr std::size_t N = L::contravariant_input_t::dimensions;
  static typename L::owning_data_t make(Tok & t) {
    t.expect("S"); auto cfg = t.list(N); typename L::configuration_t c; for (std::size_t k = 0; k < N; ++k) c[k] = cfg[k];
    if constexpr (std::is_constructible_v<typename L::owning_data_t, parameter_pack<typename L::configuration_t, typename B::owning_data_t> &&>) {
      if (g_sized_route == 1) return typename L::owning_data_t(make_parameter_pack(std::move(c), IOX<B>::make(t)));
    }
    return typename L::owning_data_t(c, IOX<B>::make(t));
  }
  static void show(const typename L::owning_data_t & o, std::ostream & os) {
    os << "S"; showVec(os, o.get_configuration(), N); os << " "; IOX<B>::show(o.get_backend(), os);
  }
};
template <typename V, typename B> struct IOX<backend::strided<V, B>> : Sized<backend::strided<V, B>> {};
template <typename V, typename B, bool b> struct IOX<backend::morton<V, B, b>> : Sized<backend::morton<V, B, b>> {};
template <typename V, typename B> struct IOX<backend::hilbert<V, B>> : Sized<backend::hilbert<V, B>> {};

template <typename B> struct IOX<backend::clamp<B>> {
  using L = backend::clamp<B>; using CI = typename L::contravariant_input_t; using T = typename CI::scalar_t;
  static constexpr std::size_t N = CI::dimensions;
  static typename L::owning_data_t make(Tok & t) {
    t.expect("K"); auto lo = t.list(N); auto hi = t.list(N);
    typename L::configuration_t c{vecOf<typename CI::vector_t, T, N>(lo), vecOf<typename CI::vector_t, T, N>(hi)};
    return typename L::owning_data_t(c, IOX<B>::make(t));
  }
  static void show(const typename L::owning_data_t & o, std::ostream & os) {
    auto c = o.get_configuration(); os << "K"; showVec(os, c.min, N); showVec(os, c.max, N); os << " "; IOX<B>::show(o.get_backend(), os);
  }
};
template <typename B> struct IOX<backend::backup<B>> {
  using L = backend::backup<B>; using CI = typename L::contravariant_input_t; using T = typename CI::scalar_t;
  using CO = typename L::covariant_output_t; using O = typename CO::scalar_t;
  static constexpr std::size_t N = CI::dimensions, M = CO::dimensions;
  static typename L::owning_data_t make(Tok & t) {
    t.expect("B"); auto lo = t.list(N); auto hi = t.list(N); auto df = t.list(M);
    typename L::configuration_t c{vecOf<typename CI::vector_t, T, N>(lo), vecOf<typename CI::vector_t, T, N>(hi),
                                  vecOf<typename CO::vector_t, O, M>(df)};
    return typename L::owning_data_t(c, IOX<B>::make(t));
  }
  static void show(const typename L::owning_data_t & o, std::ostream & os) {
    auto c = o.get_configuration(); os << "B"; showVec(os, c.min, N); showVec(os, c.max, N); showVec(os, c.default_value, M);
    os << " "; IOX<B>::show(o.get_backend(), os);
  }
};
template <typename B> struct IOX<backend::affine<B>> {
  using L = backend::affine<B>; using CI = typename L::contravariant_input_t; using T = typename CI::scalar_t;
  static constexpr std::size_t N = CI::dimensions;
  static typename L::owning_data_t make(Tok & t) {
    t.expect("F"); auto m = t.list(N * (N + 1)); algebra::matrix<N, N + 1, T> mm;
    for (std::size_t i = 0; i < N; ++i) for (std::size_t j = 0; j < N + 1; ++j) mm(i, j) = fromb<T>(m[i * (N + 1) + j]);
    return typename L::owning_data_t(typename L::configuration_t(mm), IOX<B>::make(t));
  }
  static void show(const typename L::owning_data_t & o, std::ostream & os) {
    auto c = o.get_configuration(); os << "F " << N * (N + 1);
    for (std::size_t i = 0; i < N; ++i) for (std::size_t j = 0; j < N + 1; ++j) { T x = c(i, j); os << " " << tob(x); }
    os << " "; IOX<B>::show(o.get_backend(), os);
  }
};
// footprint-free layers
template <typename L> struct Thin {
  using B = typename L::backend_t;
  static typename L::owning_data_t make(Tok & t) {
    t.expect("T"); return typename L::owning_data_t(typename L::configuration_t{}, IOX<B>::make(t));
  }
  static void show(const typename L::owning_data_t & o, std::ostream & os) { os << "T "; IOX<B>::show(o.get_backend(), os); }
};
template <typename B, typename S> struct IOX<backend::shuffle<B, S>> : Thin<backend::shuffle<B, S>> {};
template <typename T, typename B> struct IOX<backend::covariant_cast<T, B>> : Thin<backend::covariant_cast<T, B>> {};
template <typename B> struct IOX<backend::dereference<B>> : Thin<backend::dereference<B>> {};
template <typename B, typename V> struct IOX<backend::nearest_neighbour<B, V>> : Thin<backend::nearest_neighbour<B, V>> {};
template <typename B, typename V> struct IOX<backend::linear<B, V>> : Thin<backend::linear<B, V>> {};

// ------------------------------------------------------------------------------------------------ fault-injecting stream
struct injected_failure : std::exception {
  const char * what() const noexcept override { return "harness: injected stream failure"; }
};
struct FaultBuf : std::streambuf {
  enum Mode { NONE, CUT, NTH_SHORT, NTH_HALF, NTH_THROW };
  const char * d; std::size_t len, pos = 0, limit; Mode mode; u64 n; u64 calls = 0; bool fired = false; std::size_t fire_pos = 0;
  FaultBuf(const std::string & s, Mode m, u64 arg) : d(s.data()), len(s.size()), limit(s.size()), mode(m), n(arg) {
    if (m == CUT) limit = arg < len ? (std::size_t)arg : len;
  }
  std::streamsize xsgetn(char * out, std::streamsize want) override {
    ++calls;
    std::size_t w = want < 0 ? 0 : (std::size_t)want;
    if (mode != NONE && mode != CUT && calls == n && !fired) {
      fired = true; fire_pos = pos;
      if (mode == NTH_THROW) { limit = pos; throw injected_failure(); }
      if (mode == NTH_SHORT) { limit = pos; return 0; }
      std::size_t g = w / 2; if (g > limit - pos) g = limit - pos;
      std::memcpy(out, d + pos, g); pos += g; limit = pos; return (std::streamsize)g;
    }
    std::size_t g = w; if (g > limit - pos) g = limit - pos;
    if (g) std::memcpy(out, d + pos, g);
    pos += g; return (std::streamsize)g;
  }
  int_type underflow() override { return pos < limit ? traits_type::to_int_type(d[pos]) : traits_type::eof(); }
  int_type uflow() override { return pos < limit ? traits_type::to_int_type(d[pos++]) : traits_type::eof(); }
  std::streamsize showmanyc() override { return (std::streamsize)(limit - pos); }
};

// outcome of one load: 'E' exception (class in `cls`), 'F' a field was returned
struct Outcome { char kind; std::string cls; std::size_t consumed; u64 calls; std::size_t end; };  // end: bytes the stream delivered before it stopped

// when set, the caller's stream throws on failbit/badbit (is.exceptions(...)): a loader must still end in an exception,
// not in std::terminate
inline bool g_stream_throws = false;
template <typename F, typename Fn> Outcome loadWith(const std::string & bytes, FaultBuf::Mode m, u64 arg, Fn && onField) {
  FaultBuf fb(bytes, m, arg); std::istream is(&fb);
  if (g_stream_throws) is.exceptions(std::ios::failbit | std::ios::badbit);
  Outcome r{'E', "", 0, 0, 0};
  try { F f(is); r.kind = 'F'; onField(f); }
  catch (std::bad_alloc &) { r.cls = "bad_alloc"; }
  catch (std::logic_error &) { r.cls = "logic_error"; }
  catch (std::runtime_error &) { r.cls = "runtime_error"; }
  catch (bad_tokens &) { throw; }
  catch (std::exception &) { r.cls = "std_exception"; }
  catch (...) { r.cls = "non_std"; }
  r.consumed = fb.pos; r.calls = fb.calls; r.end = fb.limit;
  return r;
}
template <typename F> Outcome loadPlain(const std::string & bytes, FaultBuf::Mode m = FaultBuf::NONE, u64 arg = 0) {
  return loadWith<F>(bytes, m, arg, [](const F &) {});
}

template <typename B> field<B> fieldOf(Tok & t) { return field<B>(make_parameter_pack(IOX<B>::make(t))); }
// append-only, NON-SEEKABLE sink (a pipe, a socket, a compressing filter): tellp() is -1, seekp() fails
struct AppendBuf : std::streambuf {
  std::string data;
  int_type overflow(int_type ch) override { if (ch != traits_type::eof()) data.push_back(static_cast<char>(ch)); return ch; }
  std::streamsize xsputn(const char * s, std::streamsize n) override { data.append(s, static_cast<std::size_t>(n)); return n; }
};
// the two ends of one byte channel: a buffering writer whose sync() hands the bytes over, and a reader on the same bytes.
// The reader's stream is tied to the writer's (`in.tie(&out)`, as cin is to cout): an unformatted read flushes the writer first.
struct Channel { std::string bytes; std::size_t rd = 0; };
struct ChanOut : std::streambuf {
  Channel & c; char buf[509];
  explicit ChanOut(Channel & ch) : c(ch) { setp(buf, buf + sizeof buf); }
  void hand() { c.bytes.append(pbase(), static_cast<std::size_t>(pptr() - pbase())); setp(buf, buf + sizeof buf); }
  int_type overflow(int_type ch) override { hand(); if (ch != traits_type::eof()) { *pptr() = static_cast<char>(ch); pbump(1); } return traits_type::not_eof(ch); }
  int sync() override { hand(); return 0; }
};
struct ChanIn : std::streambuf {
  Channel & c; char buf[251];
  explicit ChanIn(Channel & ch) : c(ch) { setg(buf, buf, buf); }
  int_type underflow() override {
    if (gptr() < egptr()) return traits_type::to_int_type(*gptr());
    std::size_t n = std::min(sizeof buf, c.bytes.size() - c.rd);
    if (n == 0) return traits_type::eof();
    std::memcpy(buf, c.bytes.data() + c.rd, n); c.rd += n; setg(buf, buf, buf + n);
    return traits_type::to_int_type(*gptr());
  }
};
// the dump of a field; written once into a string stream and once into a non-seekable stream: the bytes do not depend on the sink;
// and once into the buffering end of a channel, from whose tied reading end the field is loaded without an explicit flush
template <typename F> std::string dumpOf(const F & f) {
  std::ostringstream os; f.dump(os);
  {   // formatting state pending on the stream (width, fill, adjustment, base) has no say in a binary dump
    std::ostringstream ws; ws.width(13); ws.fill('*'); ws.setf(std::ios::left, std::ios::adjustfield); ws << std::hex << std::showbase << std::uppercase;
    f.dump(ws);
    if (ws.str() != os.str()) {
      std::cerr << "Assertion `dump into a stream with pending width / fill writes the same bytes' failed: " << ws.str().size() << " vs " << os.str().size() << " bytes" << std::endl;
      std::abort();
    }
  }
  {
    Channel ch; ChanOut ob(ch); ChanIn ib(ch); std::ostream out(&ob); std::istream in(&ib); in.tie(&out);
    std::string again; bool bad = false;
    try { f.dump(out); F g(in); std::ostringstream o2; g.dump(o2); again = o2.str(); }
    catch (const std::exception & e) { bad = true; std::cerr << "Assertion `load from the reading end of a tied channel succeeds' failed: " << e.what() << std::endl; }
    if (bad || again != os.str()) {
      if (!bad) std::cerr << "Assertion `load from a tied channel yields the dumped field' failed" << std::endl;
      std::abort();
    }
  }
  AppendBuf ab; std::ostream ns(&ab);
  bool threw = false;
  try { f.dump(ns); } catch (const std::exception & e) { threw = true; std::cerr << "Assertion `dump into a non-seekable stream succeeds' failed: " << e.what() << std::endl; }
  if (threw || ab.data != os.str()) {
    if (!threw) std::cerr << "Assertion `dump into a non-seekable stream writes the same bytes' failed: " << ab.data.size() << " vs " << os.str().size() << " bytes" << std::endl;
    std::abort();
  }
  return os.str();
}

inline FaultBuf::Mode modeOf(const std::string & s) {
  if (s == "cut") return FaultBuf::CUT; if (s == "short") return FaultBuf::NTH_SHORT; if (s == "half") return FaultBuf::NTH_HALF;
  if (s == "throw") return FaultBuf::NTH_THROW; return FaultBuf::NONE;
}

// every operation on one stack type
template <typename B> std::string runOp(const std::string & op, std::istringstream & is) {
  using F = field<B>;
  Tok t{is};
  if (op == "dump") return hex(dumpOf(fieldOf<B>(t)));
  if (op == "show") {   // build from tokens, print the owning data back (self-test of the token reader/printer)
    auto f = fieldOf<B>(t); std::ostringstream os; IOX<B>::show(f.backend(), os); return os.str();
  }
  std::string h;
  if (op == "load" || op == "reload" || op == "redump") {
    is >> h; std::string b = unhex(h); std::ostringstream extra;
    Outcome r = loadWith<F>(b, FaultBuf::NONE, 0, [&](const F & f) {
      if (op == "reload") { extra << " | "; IOX<B>::show(f.backend(), extra); }
      if (op == "redump") extra << " | " << hex(dumpOf(f));
    });
    if (r.kind == 'E') return "error " + r.cls;
    return "ok " + std::to_string(b.size() - r.consumed) + (op == "load" ? " reads=" + std::to_string(r.calls) : extra.str());
  }
  if (op == "lookups") {  // lookups <N> s1..sN | <dat tokens>: build F, dump, load G; F.at(c) == G.at(c) bitwise at every lattice coordinate
    if constexpr (requires { typename F::coordinate_t; } && !std::is_arithmetic_v<std::decay_t<typename F::coordinate_t>>) {
      std::size_t N; is >> N; std::vector<u64> sz(N); for (auto & x : sz) is >> x; std::string bar; is >> bar;
      using CT = std::decay_t<typename F::coordinate_t>;
      using SC = std::decay_t<decltype(std::declval<CT>()[0])>;
      if (N != B::contravariant_input_t::dimensions) return "unsupported-dims";
      std::string rest; std::getline(is, rest);
      std::istringstream is0(rest), is1(rest); Tok t0{is0}, t1{is1};
      g_sized_route = 1; auto f = fieldOf<B>(t1);          // the original, its storage order built by the parameter-pack constructor
      g_sized_route = 0; auto f0 = fieldOf<B>(t0);         // ... and by the (configuration, backend &&) constructor
      std::string bytes = dumpOf(f);
      if (dumpOf(f0) != bytes) return "ok 1 1 dumps-of-the-two-constructions-differ";
      std::istringstream iss(bytes);
      F g(iss);
      typename F::view_t vf(f), vg(g), vf0(f0);
      std::vector<u64> c(N, 0); u64 total = 1;
      for (auto & x : sz) { x = x > 1 ? x - 1 : 1; total *= x; }     // stay one short of the last plane (linear reads the +1 neighbour)
      u64 bad = 0;
      for (u64 k = 0; k < total; ++k) {
        CT cc; for (std::size_t d = 0; d < N; ++d) cc[d] = static_cast<SC>(c[d]);
        auto rf = vf.at(cc); auto rg = vg.at(cc); auto r0 = vf0.at(cc);
        for (std::size_t q = 0; q < B::covariant_output_t::dimensions; ++q) {
          auto a = rf[q]; auto b = rg[q]; auto a0 = r0[q];
          // bitwise equal, or both NaN (which operand's payload an arithmetic NaN inherits is up to the compiler's operand order)
          if (std::memcmp(&a, &b, sizeof(a)) != 0 && !(a != a && b != b)) { ++bad; break; }
          if (std::memcmp(&a0, &b, sizeof(a0)) != 0 && !(a0 != a0 && b != b)) { ++bad; break; }
        }
        for (std::size_t d = N; d-- > 0;) { if (++c[d] < sz[d]) break; c[d] = 0; }
      }
      return "ok " + std::to_string(total) + " " + std::to_string(bad);
    } else return "unsupported-coords";
  }
  if (op == "fload") {  // fload <mode> <arg> <hex>
    std::string m; u64 arg; is >> m >> arg >> h; std::string b = unhex(h);
    Outcome r = loadPlain<F>(b, modeOf(m), arg);
    if (r.kind == 'E') return "error " + r.cls + " end=" + std::to_string(r.end);
    return "ok " + std::to_string(b.size() - r.consumed);
  }
  if (op == "prefixes" || op == "xprefixes") {  // every k in [0, len]: stream that ends after k bytes (x: stream with exceptions(failbit|badbit))
    is >> h; std::string b = unhex(h); std::string out;
    g_stream_throws = (op == "xprefixes");
    for (std::size_t k = 0; k <= b.size(); ++k) out += loadPlain<F>(b, FaultBuf::CUT, k).kind;
    g_stream_throws = false;
    return out;
  }
  if (op == "alts") {      // alts <hex> off:hexword(8 digits, value)...   4-byte little-endian word replaced at off
    is >> h; std::string b = unhex(h); std::string out, a, tail;
    while (is >> a) {
      auto c = a.find(':'); std::size_t off = std::stoull(a.substr(0, c)); std::uint32_t w = (std::uint32_t)std::stoull(a.substr(c + 1), nullptr, 16);
      std::string m = b; if (off + 4 > m.size()) throw bad_tokens(); std::memcpy(&m[off], &w, 4);
      char kind = loadPlain<F>(m).kind;
      // the same altered dump at the head of a long seekable stream that goes on with complete dumps (a load consumes one dump:
      // what follows it has no say): 'T' when that stream yields a field although the altered dump alone is rejected
      if (kind == 'E') {
        if (tail.empty()) { tail = b; while (tail.size() < (std::size_t(1) << 17)) tail += b; }
        std::istringstream ss(m + tail);
        try { F g(ss); kind = 'T'; } catch (const std::exception &) {}
      }
      out += kind;
    }
    return out.empty() ? "-" : out;
  }
  if (op == "nthall") {    // nthall <mode> <hex>: the n-th read call fails, for every n of a clean load
    std::string m; is >> m >> h; std::string b = unhex(h);
    Outcome clean = loadPlain<F>(b);
    std::ostringstream os; os << clean.kind << " " << clean.calls;
    if (clean.kind == 'F') for (u64 n = 1; n <= clean.calls; ++n) { Outcome r = loadPlain<F>(b, modeOf(m), n); os << " " << r.kind << r.end; }
    return os.str();
  }
  return "unsupported-op";
}
}  // namespace vio
