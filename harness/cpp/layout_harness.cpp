// Correspondence harness for the storage-order layers (C01, C14, C16 footprint, C18 curve_len).
// One operation per line, one answer per line:
//   idx    <lay> <ct> N s1..sN | c1..cN   -> flat index recorded by the probe backend beneath field_view::at
//   ident  <lay> N s1..sN | c1..cN        -> value returned by <lay><sizeN, identity<size1>> (the flat position)
//   static <lay> N s1..sN | c1..cN        -> the static calculate_index of the Morton / Hilbert layer
//   convpos <lay> N s1..sN | c1..cN       -> "<storage position of that coordinate after a converting construction> <matches>"
//   alloc  <lay> N s1..sN                 -> storage length allocated when converting a row-major field
//   allocct <lay> <ct> N s1..sN           -> "<storage length> <cells of the source not found in the target>" with coordinate type ct
#include <covfie/core/backend/primitive/array.hpp>
#include <covfie/core/backend/primitive/identity.hpp>
#include <covfie/core/backend/transformer/hilbert.hpp>
#include <covfie/core/backend/transformer/morton.hpp>
#include <covfie/core/backend/transformer/strided.hpp>
#include <covfie/core/field.hpp>
#include "probe.hpp"
#include <covfie/core/utility/numeric.hpp>
#include <algorithm>
#include <iostream>
#include <sstream>
#include <string>
using namespace covfie;
using u64 = std::uint64_t;
template <int L, typename V, typename B> struct layer;
template <typename V, typename B> struct layer<0, V, B> { using type = backend::strided<V, B>; };
template <typename V, typename B> struct layer<1, V, B> { using type = backend::morton<V, B, true>; };
template <typename V, typename B> struct layer<2, V, B> { using type = backend::morton<V, B, false>; };
template <typename V, typename B> struct layer<3, V, B> { using type = backend::hilbert<V, B>; };

template <int L, typename C, std::size_t N>
std::string run_idx(const std::vector<u64> & sz, const std::vector<u64> & co) {
  using V = vector::vector_d<C, N>;
  using P = vf::probe<vector::float1>;
  using S = typename layer<L, V, P>::type;
  vf::probe_log log;
  typename S::configuration_t cfg;
  for (std::size_t k = 0; k < N; ++k) cfg[k] = sz[k];
  field<S> f(make_parameter_pack(std::move(cfg), typename P::configuration_t{&log}));
  typename field<S>::view_t v(f);
  typename field<S>::coordinate_t c;
  for (std::size_t k = 0; k < N; ++k) c[k] = static_cast<C>(co[k]);
  (void)v.at(c);
  std::ostringstream os;
  os << log.idx.size();
  for (auto i : log.idx) os << " " << i;
  return os.str();
}
template <int L, std::size_t N>
std::string run_ident(const std::vector<u64> & sz, const std::vector<u64> & co) {
  using V = vector::vector_d<std::size_t, N>;
  using I = backend::identity<vector::size1>;
  using S = typename layer<L, V, I>::type;
  typename S::configuration_t cfg;
  for (std::size_t k = 0; k < N; ++k) cfg[k] = sz[k];
  field<S> f(make_parameter_pack(std::move(cfg), typename I::configuration_t{}));
  typename field<S>::view_t v(f);
  typename field<S>::coordinate_t c;
  for (std::size_t k = 0; k < N; ++k) c[k] = co[k];
  return std::to_string(v.at(c)[0]);
}
template <int L, std::size_t N>
std::string run_static(const std::vector<u64> & sz, const std::vector<u64> & co) {
  using V = vector::vector_d<std::size_t, N>;
  using A = backend::array<vector::float1>;
  using S = typename layer<L, V, A>::type;
  typename S::contravariant_input_t::vector_t c;
  for (std::size_t k = 0; k < N; ++k) c[k] = co[k];
  if constexpr (L == 3) {
    typename S::configuration_t cfg; for (std::size_t k = 0; k < N; ++k) cfg[k] = sz[k];
    // (calculate_index is not part of the field API: if the layer no longer offers it as a static member of this shape, the
    // position is observed through the layer over identity<size1> instead)
    if constexpr (requires { S::calculate_index(c, cfg); }) return std::to_string(S::calculate_index(c, cfg));
    else return run_ident<L, N>(sz, co);
  } else if constexpr (L == 0) {
    return "unsupported";
  } else {
    if constexpr (requires { S::calculate_index(c); }) return std::to_string(S::calculate_index(c));
    else return run_ident<L, N>(sz, co);
  }
}
template <int L, std::size_t N>
std::string run_alloc(const std::vector<u64> & sz) {
  using A = backend::array<vector::float1>;
  using SA = backend::strided<vector::vector_d<std::size_t, N>, A>;
  std::size_t total = 1; for (auto s : sz) total *= s;
  typename SA::configuration_t scfg; for (std::size_t k = 0; k < N; ++k) scfg[k] = sz[k];
  field<SA> src(make_parameter_pack(std::move(scfg), typename A::configuration_t{total}));
  using LA = typename layer<L, vector::vector_d<std::size_t, N>, A>::type;
  field<LA> dst(src);
  return std::to_string(dst.backend().get_backend().get_configuration()[0]);
}
// the same with the coordinate type C on both sides (narrow coordinate types: the storage length must not be computed in C)
template <int L, typename C, std::size_t N>
std::string run_allocct(const std::vector<u64> & sz) {
  using A = backend::array<vector::float1>;
  using V = vector::vector_d<C, N>;
  using SA = backend::strided<V, A>;
  std::size_t total = 1; for (auto s : sz) total *= s;
  typename SA::configuration_t scfg; for (std::size_t k = 0; k < N; ++k) scfg[k] = sz[k];
  field<SA> src(make_parameter_pack(std::move(scfg), typename A::configuration_t{total}));
  using LA = typename layer<L, V, A>::type;
  field<LA> dst(src);
  // every cell of the source must be found again in the target (written through the source view, read through the target's)
  typename field<SA>::view_t sv(src);
  std::vector<u64> c(N, 0);
  for (u64 k = 0; k < total; ++k) {
    typename field<SA>::coordinate_t cc; for (std::size_t d = 0; d < N; ++d) cc[d] = static_cast<C>(c[d]);
    sv.at(cc)[0] = static_cast<float>(k + 1);
    for (std::size_t d = N; d-- > 0;) { if (++c[d] < sz[d]) break; c[d] = 0; }
  }
  field<LA> dst2(src);
  typename field<LA>::view_t dv(dst2);
  std::fill(c.begin(), c.end(), 0);
  u64 wrong = 0;
  for (u64 k = 0; k < total; ++k) {
    typename field<LA>::coordinate_t cc; for (std::size_t d = 0; d < N; ++d) cc[d] = static_cast<C>(c[d]);
    if (dv.at(cc)[0] != static_cast<float>(k + 1)) ++wrong;
    for (std::size_t d = N; d-- > 0;) { if (++c[d] < sz[d]) break; c[d] = 0; }
  }
  return std::to_string(dst.backend().get_backend().get_configuration()[0]) + " " + std::to_string(wrong);
}
template <int L, typename C>
std::string allocctN(std::size_t N, const std::vector<u64> & sz) {
  if constexpr (L == 3) { if (N == 2) return run_allocct<L, C, 2>(sz); return "unsupported"; }
  else {
    switch (N) { case 1: return run_allocct<L, C, 1>(sz); case 2: return run_allocct<L, C, 2>(sz); case 3: return run_allocct<L, C, 3>(sz); }
    return "unsupported";
  }
}
template <int L>
std::string allocctC(const std::string & ct, std::size_t N, const std::vector<u64> & sz) {
  if (ct == "u64") return allocctN<L, std::size_t>(N, sz);
  if (ct == "u32") return allocctN<L, unsigned>(N, sz);
  if (ct == "u16") return allocctN<L, unsigned short>(N, sz);
  if (ct == "u8") return allocctN<L, unsigned char>(N, sz);
  return "unsupported";
}
// curve storage beneath an array whose INDEX type is narrow (size_t coordinates): the storage length must not be formed in the
// index type (2^bits cells are addressable with indices 0 .. 2^bits - 1)   -> "<storage length> <cells lost>"
template <int L, typename IX, std::size_t N>
std::string run_allocix(const std::vector<u64> & sz) {
  using A = backend::array<vector::float1, IX>;
  using V = vector::vector_d<std::size_t, N>;
  using SA = backend::strided<V, A>;
  std::size_t total = 1; for (auto s : sz) total *= s;
  typename SA::configuration_t scfg; for (std::size_t k = 0; k < N; ++k) scfg[k] = sz[k];
  field<SA> src(make_parameter_pack(std::move(scfg), typename A::configuration_t{total}));
  typename field<SA>::view_t sv(src);
  std::vector<u64> c(N, 0);
  for (u64 k = 0; k < total; ++k) {
    typename field<SA>::coordinate_t cc; for (std::size_t d = 0; d < N; ++d) cc[d] = c[d];
    sv.at(cc)[0] = static_cast<float>(k + 1);
    for (std::size_t d = N; d-- > 0;) { if (++c[d] < sz[d]) break; c[d] = 0; }
  }
  using LA = typename layer<L, V, A>::type;
  field<LA> dst(src);
  typename field<LA>::view_t dv(dst);
  std::fill(c.begin(), c.end(), 0);
  u64 wrong = 0;
  for (u64 k = 0; k < total; ++k) {
    typename field<LA>::coordinate_t cc; for (std::size_t d = 0; d < N; ++d) cc[d] = c[d];
    if (dv.at(cc)[0] != static_cast<float>(k + 1)) ++wrong;
    for (std::size_t d = N; d-- > 0;) { if (++c[d] < sz[d]) break; c[d] = 0; }
  }
  return std::to_string(dst.backend().get_backend().get_configuration()[0]) + " " + std::to_string(wrong);
}
template <int L, typename IX>
std::string allocixN(std::size_t N, const std::vector<u64> & sz) {
  if constexpr (L == 3) { if (N == 2) return run_allocix<L, IX, 2>(sz); return "unsupported"; }
  else {
    switch (N) { case 1: return run_allocix<L, IX, 1>(sz); case 2: return run_allocix<L, IX, 2>(sz); case 3: return run_allocix<L, IX, 3>(sz);
                 case 4: return run_allocix<L, IX, 4>(sz); }
    return "unsupported";
  }
}
template <int L>
std::string allocixC(const std::string & ct, std::size_t N, const std::vector<u64> & sz) {
  if (ct == "u8") return allocixN<L, unsigned char>(N, sz);
  if (ct == "u16") return allocixN<L, unsigned short>(N, sz);
  if (ct == "u32") return allocixN<L, unsigned>(N, sz);
  return "unsupported";
}
// where does the library's converting constructor put coordinate `co`? (storage position observed directly, not through at())
template <int L, std::size_t N>
std::string run_convpos(const std::vector<u64> & sz, const std::vector<u64> & co) {
  using V = vector::vector_d<std::size_t, N>;
  using A = backend::array<vector::float1>;
  using SA = backend::strided<V, A>;
  using MA = backend::morton<V, A, false>;
  using SRC = std::conditional_t<L == 0, MA, SA>;
  using LA = typename layer<L, V, A>::type;
  u64 total = 1, mx = 1; for (auto s : sz) { total *= s; mx = std::max<u64>(mx, s); }
  typename SA::configuration_t scfg; for (std::size_t k = 0; k < N; ++k) scfg[k] = sz[k];
  field<SRC> src(make_parameter_pack(std::move(scfg), typename A::configuration_t{
      L == 0 ? utility::ipow<u64>(utility::round_pow2<u64>(mx), N) : total}));
  typename field<SRC>::view_t sv(src);
  std::vector<u64> c(N, 0); float want = 0;
  for (u64 k = 0; k < total; ++k) {
    typename field<SRC>::coordinate_t cc; for (std::size_t d = 0; d < N; ++d) cc[d] = c[d];
    sv.at(cc)[0] = static_cast<float>(k + 1);
    if (c == co) want = static_cast<float>(k + 1);
    for (std::size_t d = N; d-- > 0;) { if (++c[d] < sz[d]) break; c[d] = 0; }
  }
  field<LA> dst(src);
  const auto & arr = dst.backend().get_backend();
  typename A::non_owning_data_t raw(arr);
  u64 len = arr.get_configuration()[0], pos = 0, cnt = 0;
  for (u64 p = 0; p < len; ++p) if (raw.at(p)[0] == want) { if (!cnt) pos = p; ++cnt; }
  return std::to_string(pos) + " " + std::to_string(cnt);
}
template <int L, typename C>
std::string idxN(std::size_t N, const std::vector<u64> & sz, const std::vector<u64> & co) {
  if constexpr (L == 3) { if (N == 2) return run_idx<L, C, 2>(sz, co); return "unsupported"; }
  else {
    switch (N) { case 1: return run_idx<L, C, 1>(sz, co); case 2: return run_idx<L, C, 2>(sz, co);
                 case 3: return run_idx<L, C, 3>(sz, co); case 4: return run_idx<L, C, 4>(sz, co); }
    return "unsupported";
  }
}
template <int L>
std::string idxC(const std::string & ct, std::size_t N, const std::vector<u64> & sz, const std::vector<u64> & co) {
  if (ct == "u64") return idxN<L, std::size_t>(N, sz, co);
  if (ct == "u32") return idxN<L, unsigned>(N, sz, co);
  if (ct == "i32") return idxN<L, int>(N, sz, co);
  if (ct == "u16") return idxN<L, unsigned short>(N, sz, co);
  return "unsupported";
}
template <int L>
std::string otherN(const std::string & op, std::size_t N, const std::vector<u64> & sz, const std::vector<u64> & co) {
#define DISPATCH(NN) \
  if (op == "ident") return run_ident<L, NN>(sz, co); \
  if (op == "static") return run_static<L, NN>(sz, co); \
  if (op == "alloc") return run_alloc<L, NN>(sz); \
  if (op == "convpos") return run_convpos<L, NN>(sz, co);
  if constexpr (L == 3) { if (N == 2) { DISPATCH(2) } return "unsupported"; }
  else {
    switch (N) { case 1: { DISPATCH(1) break; } case 2: { DISPATCH(2) break; } case 3: { DISPATCH(3) break; } case 4: { DISPATCH(4) break; } }
    return "unsupported";
  }
#undef DISPATCH
}
static int layId(const std::string & lay) {
  return lay == "strided" ? 0 : lay == "mortonT" ? 1 : lay == "mortonF" ? 2 : lay == "hilbert" ? 3 : -1;
}
int main() {
  std::string line;
  while (std::getline(std::cin, line)) {
    std::istringstream is(line);
    std::string op, lay, ct = "u64"; std::size_t N = 0;
    is >> op >> lay; if (op == "idx" || op == "allocct" || op == "allocix") is >> ct; is >> N;
    std::vector<u64> sz(N), co(N); std::string bar;
    for (auto & s : sz) is >> s;
    if (op != "alloc" && op != "allocct" && op != "allocix") { is >> bar; for (auto & c : co) is >> c; }
    std::string r = "unsupported";
    int L = layId(lay);
    if (op == "allocix") { r = L == 1 ? allocixC<1>(ct, N, sz) : L == 2 ? allocixC<2>(ct, N, sz) : L == 3 ? allocixC<3>(ct, N, sz) : r; }
    else if (op == "allocct") { r = L == 1 ? allocctC<1>(ct, N, sz) : L == 2 ? allocctC<2>(ct, N, sz) : L == 3 ? allocctC<3>(ct, N, sz) : r; }
    else if (op == "idx") { r = L == 0 ? idxC<0>(ct, N, sz, co) : L == 1 ? idxC<1>(ct, N, sz, co) : L == 2 ? idxC<2>(ct, N, sz, co) : L == 3 ? idxC<3>(ct, N, sz, co) : r; }
    else { r = L == 0 ? otherN<0>(op, N, sz, co) : L == 1 ? otherN<1>(op, N, sz, co) : L == 2 ? otherN<2>(op, N, sz, co) : L == 3 ? otherN<3>(op, N, sz, co) : r; }
    std::cout << r << std::endl;
  }
}
