// `long double` as the coordinate scalar (a floating coordinate type like any other; wider than what crosses the line protocol
// as a 64-bit pattern, hence self-checking operations that answer "ok <n checks>" or "bad <what>"):
//   clamp | backup | nn | linear | affine | config
// Expected values are the layers' one-line definitions evaluated in long double; bounds are chosen NOT to be representable as
// double (0.1L, 1 + LDBL_EPSILON, nextafter(3.5L, 0)).
#include "ambient.hpp"
#include <covfie/core/backend/primitive/array.hpp>
#include <covfie/core/backend/primitive/identity.hpp>
#include <covfie/core/backend/transformer/affine.hpp>
#include <covfie/core/backend/transformer/backup.hpp>
#include <covfie/core/backend/transformer/clamp.hpp>
#include <covfie/core/backend/transformer/linear.hpp>
#include <covfie/core/backend/transformer/nearest_neighbour.hpp>
#include <covfie/core/backend/transformer/strided.hpp>
#include <covfie/core/field.hpp>
#include <cfloat>
#include <cmath>
#include <iostream>
#include <limits>
#include <sstream>
#include <string>
#include <vector>
using namespace covfie;
using LD = long double;
using ld2 = vector::vector_d<LD, 2>;
static const LD INF = std::numeric_limits<LD>::infinity();
static std::vector<LD> probes(LD lo, LD hi) {
  std::vector<LD> p = {lo, hi, std::nextafter(lo, -INF), std::nextafter(lo, INF), std::nextafter(hi, -INF), std::nextafter(hi, INF), (lo + hi) / 2,
                       0.0L, -0.0L, 1.0L, -1.0L, 0.1L, 1.0L + LDBL_EPSILON, 3.5L, LDBL_MAX, -LDBL_MAX, LDBL_MIN, INF, -INF, 1e300L, -1e300L, 1e4000L};
  return p;
}
static std::string bad(const std::string & w, LD a, LD b) { std::ostringstream os; os.precision(25); os << "bad " << w << ": got " << a << " want " << b; return os.str(); }

static std::string op_clamp() {
  using I = backend::identity<ld2>; using B = backend::clamp<I>;
  const LD lo[2] = {0.1L, -3.0L}, hi[2] = {1.0L + LDBL_EPSILON, std::nextafter(3.5L, 0.0L)};
  typename B::configuration_t cfg; for (int k = 0; k < 2; ++k) { cfg.min[k] = lo[k]; cfg.max[k] = hi[k]; }
  field<B> f(make_parameter_pack(std::move(cfg), typename I::configuration_t{}));
  auto c = f.backend().get_configuration();
  for (int k = 0; k < 2; ++k) { if (!(c.min[k] == lo[k])) return bad("reported min", c.min[k], lo[k]); if (!(c.max[k] == hi[k])) return bad("reported max", c.max[k], hi[k]); }
  typename field<B>::view_t v(f);
  long n = 0;
  for (LD x : probes(lo[0], hi[0])) for (LD y : probes(lo[1], hi[1])) {
    auto r = v.at(x, y);
    LD wx = x < lo[0] ? lo[0] : (hi[0] < x ? hi[0] : x), wy = y < lo[1] ? lo[1] : (hi[1] < y ? hi[1] : y);
    if (!(r[0] == wx)) return bad("clamped x", r[0], wx);
    if (!(r[1] == wy)) return bad("clamped y", r[1], wy);
    ++n;
  }
  return "ok " + std::to_string(n);
}
static std::string op_backup() {
  using I = backend::identity<ld2>; using B = backend::backup<I>;
  const LD lo[2] = {0.1L, -3.0L}, hi[2] = {1.0L + LDBL_EPSILON, std::nextafter(3.5L, 0.0L)};
  typename B::configuration_t cfg; for (int k = 0; k < 2; ++k) { cfg.min[k] = lo[k]; cfg.max[k] = hi[k]; cfg.default_value[k] = -77.0L; }
  field<B> f(make_parameter_pack(std::move(cfg), typename I::configuration_t{}));
  auto c = f.backend().get_configuration();
  for (int k = 0; k < 2; ++k) { if (!(c.min[k] == lo[k])) return bad("reported min", c.min[k], lo[k]); if (!(c.max[k] == hi[k])) return bad("reported max", c.max[k], hi[k]); }
  typename field<B>::view_t v(f);
  long n = 0;
  for (LD x : probes(lo[0], hi[0])) for (LD y : probes(lo[1], hi[1])) {
    auto r = v.at(x, y);
    bool out = x < lo[0] || x > hi[0] || y < lo[1] || y > hi[1];
    LD wx = out ? -77.0L : x, wy = out ? -77.0L : y;
    if (!(r[0] == wx)) return bad("backup x", r[0], wx);
    if (!(r[1] == wy)) return bad("backup y", r[1], wy);
    ++n;
  }
  return "ok " + std::to_string(n);
}
using A1 = backend::array<vector::float1>;
using S2 = backend::strided<vector::size2, A1>;
static field<S2> grid(std::size_t nx, std::size_t ny) {
  typename S2::configuration_t s; s[0] = nx; s[1] = ny;
  field<S2> g(make_parameter_pack(std::move(s), typename A1::configuration_t{nx * ny}));
  typename field<S2>::view_t v(g);
  for (std::size_t i = 0; i < nx; ++i) for (std::size_t j = 0; j < ny; ++j) v.at(i, j)[0] = static_cast<float>(100 * i + j);
  return g;
}
static std::string op_nn() {
  using B = backend::nearest_neighbour<S2, ld2>;
  field<S2> g = grid(6, 5);
  field<B> f(make_parameter_pack(typename B::configuration_t{}, std::move(g.backend())));
  typename field<B>::view_t v(f);
  long n = 0;
  for (std::size_t i = 0; i < 6; ++i) for (std::size_t j = 0; j < 5; ++j)
    for (LD dx : {0.0L, 0.25L, -0.25L, 0.49L}) for (LD dy : {0.0L, -0.4L, 0.3L}) {
      LD x = static_cast<LD>(i) + dx, y = static_cast<LD>(j) + dy;
      if (x < -0.5L || y < -0.5L) continue;
      float r = v.at(x, y)[0], w = static_cast<float>(100 * i + j);
      if (r != w) return bad("nearest cell value", r, w);
      ++n;
    }
  // a clamp above it whose upper bound is the long double just below 3.5: everything beyond is answered from cell 3, not 4
  using C = backend::clamp<B>;
  field<S2> g2 = grid(6, 5);
  typename C::configuration_t cc; cc.min[0] = 0.0L; cc.min[1] = 0.0L; cc.max[0] = std::nextafter(3.5L, 0.0L); cc.max[1] = 4.0L;
  field<C> fc(make_parameter_pack(std::move(cc), typename B::configuration_t{}, std::move(g2.backend())));
  typename field<C>::view_t vc(fc);
  for (LD x : {3.5L, 4.0L, 5.0L, 1e30L, INF}) {
    float r = vc.at(x, 2.0L)[0];
    if (r != 302.0f) return bad("clamp just below 3.5 over nearest neighbour", r, 302.0f);
    ++n;
  }
  return "ok " + std::to_string(n);
}
static std::string op_linear() {
  using B = backend::linear<S2, ld2>;
  field<S2> g = grid(6, 5);
  field<B> f(make_parameter_pack(typename B::configuration_t{}, std::move(g.backend())));
  typename field<B>::view_t v(f);
  long n = 0;
  for (std::size_t i = 0; i + 1 < 6; ++i) for (std::size_t j = 0; j + 1 < 5; ++j) {
    float r = v.at(static_cast<LD>(i), static_cast<LD>(j))[0];
    if (r != static_cast<float>(100 * i + j)) return bad("lattice value", r, static_cast<float>(100 * i + j));
    float m = v.at(static_cast<LD>(i) + 0.5L, static_cast<LD>(j) + 0.5L)[0];
    if (m != static_cast<float>(100 * i + j) + 50.5f) return bad("cell centre", m, static_cast<float>(100 * i + j) + 50.5f);
    n += 2;
  }
  return "ok " + std::to_string(n);
}
static std::string op_affine() {
  using I = backend::identity<ld2>; using B = backend::affine<I>;
  algebra::affine<2, LD> m;
  const LD e[2][3] = {{2.0L, -1.0L, 0.5L}, {0.0L, 4.0L, -3.0L}};
  for (int i = 0; i < 2; ++i) for (int j = 0; j < 3; ++j) m(i, j) = e[i][j];
  field<B> f(make_parameter_pack(typename B::configuration_t(m), typename I::configuration_t{}));
  auto c = f.backend().get_configuration();
  for (int i = 0; i < 2; ++i) for (int j = 0; j < 3; ++j) if (!(c(i, j) == e[i][j])) return bad("reported matrix entry", c(i, j), e[i][j]);
  typename field<B>::view_t v(f);
  long n = 0;
  for (LD x : {0.0L, 1.0L, -7.0L, 1048576.0L, 0.25L}) for (LD y : {0.0L, 3.0L, -0.5L, 1e6L}) {
    auto r = v.at(x, y);
    LD wx = 2.0L * x - y + 0.5L, wy = 4.0L * y - 3.0L;
    if (!(r[0] == wx)) return bad("A x + t, component 0", r[0], wx);
    if (!(r[1] == wy)) return bad("A x + t, component 1", r[1], wy);
    ++n;
  }
  return "ok " + std::to_string(n);
}
int main() {
  std::string line;
  while (std::getline(std::cin, line)) {
    vf::ambient();
    std::string r = line == "clamp" ? op_clamp() : line == "backup" ? op_backup() : line == "nn" ? op_nn() : line == "linear" ? op_linear() :
                    line == "affine" ? op_affine() : std::string("unsupported");
    std::cout << r << std::endl;
  }
}
