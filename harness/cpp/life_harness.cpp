// C16 (no shared mutable state anywhere in the library): T threads, each working ONLY on objects of its own — build a field,
// convert it through every storage order and back, dump it, load it (same cell width and the other one), have altered dumps
// rejected, iterate its box — first one thread after the other, then all at once.  Built with -fsanitize=thread.
//   life <T> <reps>   ->   "life ok" | "life mismatch <thread> <rep>"  (a ThreadSanitizer report ends the process)
#include <covfie/core/backend/primitive/array.hpp>
#include <covfie/core/backend/transformer/hilbert.hpp>
#include <covfie/core/backend/transformer/morton.hpp>
#include <covfie/core/backend/transformer/strided.hpp>
#include <covfie/core/field.hpp>
#include <covfie/core/utility/nd_map.hpp>
#include <cstring>
#include <iostream>
#include <sstream>
#include <stdexcept>
#include <string>
#include <thread>
#include <vector>
using namespace covfie;
using u64 = std::uint64_t;
using AF = backend::array<vector::float2>;
using AD = backend::array<vector::double2>;
using S = backend::strided<vector::size2, AF>;
using MT = backend::morton<vector::size2, AF, true>;
using MF = backend::morton<vector::size2, AF, false>;
using H = backend::hilbert<vector::size2, AF>;
using SD = backend::strided<vector::size2, AD>;
using MD = backend::morton<vector::size2, AD, false>;

static inline void mix(u64 & h, u64 b) { for (int k = 0; k < 8; ++k) { h ^= (b >> (8 * k)) & 0xffu; h *= 1099511628211ull; } }
template <typename F> void digest(u64 & h, const F & f, u64 sx, u64 sy) {
  typename F::view_t v(f);
  for (u64 x = 0; x < sx; ++x) for (u64 y = 0; y < sy; ++y) {
    auto r = v.at(x, y);
    for (int q = 0; q < 2; ++q) { double d = static_cast<double>(r[q]); u64 b; std::memcpy(&b, &d, 8); mix(h, b); }
  }
}
template <typename F> bool rejected(std::string bytes, std::size_t off) {
  if (off + 4 > bytes.size()) return true;
  bytes[off] = static_cast<char>(bytes[off] ^ 0x5a);
  std::istringstream is(bytes);
  try { F g(is); return false; } catch (const std::runtime_error &) { return true; }
}
static u64 work(std::size_t t) {
  u64 sx = 3 + t % 5, sy = 2 + (t * 7) % 4, h = 1469598103934665603ull;
  field<S> f(make_parameter_pack(S::configuration_t{sx, sy}));
  {
    field<S>::view_t v(f);
    for (u64 x = 0; x < sx; ++x) for (u64 y = 0; y < sy; ++y) {
      v.at(x, y)[0] = static_cast<float>(1000 * t + 10 * x + y) + 0.25f;
      v.at(x, y)[1] = -static_cast<float>(t + 1) / static_cast<float>(x + y + 3);
    }
  }
  field<MT> a(f); field<H> b(a); field<MF> c(b); field<S> back(c);
  digest(h, a, sx, sy); digest(h, b, sx, sy); digest(h, c, sx, sy); digest(h, back, sx, sy);
  std::ostringstream o1, o2; c.dump(o1); back.dump(o2);
  { std::istringstream i(o1.str()); field<MF> g(i); digest(h, g, sx, sy); }
  { std::istringstream i(o1.str()); field<MD> g(i); digest(h, g, sx, sy); }      // file of float cells into double cells
  { std::istringstream i(o2.str()); field<SD> g(i); digest(h, g, sx, sy); field<S> n(make_parameter_pack(S::configuration_t{sx, sy})); }
  u64 rej = 0;
  for (std::size_t off : {std::size_t(0), std::size_t(4), std::size_t(8), std::size_t(12), o1.str().size() - 4, o1.str().size() - 8})
    rej += rejected<field<MF>>(o1.str(), off) ? 1 : 0;
  rej += rejected<field<H>>(o1.str(), 100000) ? 0 : 0;
  { std::istringstream i(o1.str()); try { field<H> g(i); } catch (const std::runtime_error &) { ++rej; } }   // a Morton file into a Hilbert field
  mix(h, rej);
  u64 cnt = 0;
  utility::nd_map<utility::nd_size<2>>([&cnt](utility::nd_size<2> q) { cnt += q[0] * 31 + q[1]; }, utility::nd_size<2>{sx, sy});
  mix(h, cnt);
  return h;
}
int main() {
  std::string line;
  while (std::getline(std::cin, line)) {
    std::istringstream is(line); std::string op; std::size_t T = 0, reps = 0; is >> op >> T >> reps;
    if (op != "life" || T < 1 || T > 64) { std::cout << "unsupported" << std::endl; continue; }
    std::vector<u64> seq(T);
    for (std::size_t t = 0; t < T; ++t) seq[t] = work(t);
    std::string r = "life ok";
    for (std::size_t rep = 0; rep < reps && r == "life ok"; ++rep) {
      std::vector<u64> got(T);
      std::vector<std::thread> th;
      for (std::size_t t = 0; t < T; ++t) th.emplace_back([&got, t] { got[t] = work(t); });
      for (auto & x : th) x.join();
      for (std::size_t t = 0; t < T; ++t) if (got[t] != seq[t]) { r = "life mismatch " + std::to_string(t) + " " + std::to_string(rep); break; }
    }
    std::cout << r << std::endl;
  }
}
