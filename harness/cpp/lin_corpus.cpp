// C03 corpus witnesses (always run): interpolation over a clamp layer at coordinates at / beyond the range of the
// index type. Values 10,20,30,40 on 4 cells; with a clamp [0,3] beneath, every x >= 3 must give 40 (both neighbours clamp
// to the last cell).
//   big   <f32 bits>  -> linear<clamp<strided<size1, array<float1>>>, float1>                       result bits (f32)
//   wrap32 <f64 bits> -> linear<clamp<strided<vector_d<unsigned,1>, array<float1>>>, double1>        result bits (f32)
#include <covfie/core/backend/primitive/array.hpp>
#include <covfie/core/backend/transformer/clamp.hpp>
#include <covfie/core/backend/transformer/linear.hpp>
#include <covfie/core/backend/transformer/strided.hpp>
#include <covfie/core/field.hpp>
#include <cstring>
#include <iostream>
#include <sstream>
using namespace covfie;
using u64 = std::uint64_t;
template <typename I, typename Cc> std::string go(u64 cb) {
  using A = backend::array<vector::float1>;
  using S = backend::strided<vector::vector_d<I, 1>, A>;
  using K = backend::clamp<S>;
  using L = backend::linear<K, vector::vector_d<Cc, 1>>;
  typename K::configuration_t box{{static_cast<I>(0)}, {static_cast<I>(3)}};
  typename S::configuration_t sz{4ul};
  field<L> f(make_parameter_pack(typename L::configuration_t{}, std::move(box), std::move(sz), typename A::configuration_t{4ul}));
  A::non_owning_data_t raw(f.backend().get_backend().get_backend().get_backend());
  for (std::size_t i = 0; i < 4; ++i) raw.at(i)[0] = 10.f * float(i + 1);
  typename field<L>::view_t v(f);
  Cc x; if constexpr (sizeof(Cc) == 4) { std::uint32_t b = (std::uint32_t)cb; std::memcpy(&x, &b, 4); } else std::memcpy(&x, &cb, 8);
  float r = v.at(x)[0];
  std::uint32_t rb; std::memcpy(&rb, &r, 4);
  return std::to_string(rb);
}
int main() {
  std::string line;
  while (std::getline(std::cin, line)) {
    std::istringstream is(line); std::string op; u64 b = 0; is >> op >> b;
    std::string r = "unsupported";
    if (op == "big") r = go<std::size_t, float>(b);
    else if (op == "wrap32") r = go<unsigned, double>(b);
    std::cout << r << std::endl;
  }
}
