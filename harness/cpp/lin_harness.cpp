// Correspondence harness for C03 (linear interpolation). One translation unit per type combination:
//   -DLN=<N 1..5> -DLM=<M 1..4> -DLT=<0 float | 1 double stored scalar> -DLC=<0 float | 1 double coordinate scalar>
// Stacks exercised (all through field / field_view::at):
//   linear<strided<sizeN, array<T M>>, C N>            (plain)
//   linear<clamp<strided<sizeN, array<T M>>>, C N>     (clamp box [0, extent-1])
//   the same two over the probe backend (records the flat indices the interpolator reads)
// One operation per line, one answer per line; floating values cross as decimal integer bit patterns only.
//   F <clamp 0|1> s1..sN | cells (row-major, M words per cell)   -> "set <number of cells>"
//   G <clamp 0|1> s1..sN                                         -> "set <number of cells>"  (large field, synthetic contents)
//   L c1..cN                                                     -> "r1..rM | i1..i(2^N)"   (result words | indices read)
#include "ambient.hpp"
#include <covfie/core/backend/primitive/array.hpp>
#include <covfie/core/backend/transformer/clamp.hpp>
#include <covfie/core/backend/transformer/linear.hpp>
#include <covfie/core/backend/transformer/strided.hpp>
#include <covfie/core/field.hpp>
#include "probe.hpp"
#include <cstring>
#include <iostream>
#include <memory>
#include <optional>
#include <sstream>
#include <string>
#include <vector>
using namespace covfie;
using u64 = std::uint64_t;
#if LT == 0
using T = float;
#else
using T = double;
#endif
#if LC == 0
using Cc = float;
#else
using Cc = double;
#endif
constexpr std::size_t N = LN;
constexpr std::size_t M = LM;

template <typename X> u64 bits(X v) {
  if constexpr (sizeof(X) == 4) { std::uint32_t b; std::memcpy(&b, &v, 4); return b; }
  else { u64 b; std::memcpy(&b, &v, 8); return b; }
}
template <typename X> X frombits(u64 b) {
  X v;
  if constexpr (sizeof(X) == 4) { std::uint32_t c = static_cast<std::uint32_t>(b); std::memcpy(&v, &c, 4); }
  else std::memcpy(&v, &b, 8);
  return v;
}

using VT = vector::vector_d<T, M>;
using IV = vector::vector_d<std::size_t, N>;
using CV = vector::vector_d<Cc, N>;
using A = backend::array<VT>;
using P = vf::probe<VT>;
using SA = backend::strided<IV, A>;
using SP = backend::strided<IV, P>;
using LA = backend::linear<SA, CV>;
using LP = backend::linear<SP, CV>;
using LCA = backend::linear<backend::clamp<SA>, CV>;
using LCP = backend::linear<backend::clamp<SP>, CV>;

struct State {
  bool clamp = false;
  vf::probe_log log;
  std::unique_ptr<field<LA>> fa;
  std::unique_ptr<field<LP>> fp;
  std::unique_ptr<field<LCA>> fca;
  std::unique_ptr<field<LCP>> fcp;
  std::optional<typename field<LA>::view_t> va;
  std::optional<typename field<LCA>::view_t> vca;
};

static typename A::owning_data_t filled(std::size_t total, const std::vector<u64> & cells) {
  using cell_t = typename A::vector_t;
  std::unique_ptr<cell_t[]> p = std::make_unique<cell_t[]>(total);
  for (std::size_t i = 0; i < total; ++i)
    for (std::size_t q = 0; q < M; ++q) p[i][q] = frombits<T>(cells.at(i * M + q));
  return typename A::owning_data_t(total, std::move(p));
}

template <typename F, typename V> std::string look(F & f, const V & c) {
  typename F::view_t v(f);
  auto r = v.at(c);
  std::ostringstream os;
  for (std::size_t q = 0; q < M; ++q) os << (q ? " " : "") << bits<T>(r[q]);
  return os.str();
}
// The same lookup through a LONG-LIVED view (made when the field was set, used for every lookup since): a view is a value
// without memory -- what it answers must not depend on the lookups it answered before.  Dies with a message otherwise.
template <typename VW, typename V> void look_persistent(VW & v, const V & c, const std::string & fresh) {
  auto r = v.at(c);
  std::ostringstream os;
  for (std::size_t q = 0; q < M; ++q) os << (q ? " " : "") << bits<T>(r[q]);
  if (os.str() != fresh) {
    std::cerr << "Assertion `a long-lived view answers like a fresh one' failed: " << os.str() << " vs " << fresh << std::endl;
    std::abort();
  }
}
// synthetic contents of a large field: word k (row-major, M words per cell) holds a small integer, see Driver/LinCheck.lean
static inline T synth_val(u64 k) { return static_cast<T>(static_cast<long>(((k * 2654435761ull) % 4294967296ull) % 1021ull) - 510); }
static typename A::owning_data_t filled_synth(std::size_t total) {
  using cell_t = typename A::vector_t;
  std::unique_ptr<cell_t[]> p = std::make_unique<cell_t[]>(total);
  for (std::size_t i = 0; i < total; ++i)
    for (std::size_t q = 0; q < M; ++q) p[i][q] = synth_val(i * M + q);
  return typename A::owning_data_t(total, std::move(p));
}

int main() {
  std::ios::sync_with_stdio(false);
  std::string line;
  State st;
  while (std::getline(std::cin, line)) {
    vf::ambient();
    std::istringstream is(line);
    std::string op;
    is >> op;
    if (op == "F" || op == "G") {
      const bool synth = op == "G";
      int cl; is >> cl;
      std::vector<u64> sz, cells; std::string t; bool second = false;
      while (is >> t) { if (t == "|") { second = true; continue; } (second ? cells : sz).push_back(std::stoull(t)); }
      if (sz.size() != N) { std::cout << "bad-op" << std::endl; continue; }
      std::size_t total = 1; for (auto s : sz) total *= s;
      if (!synth && cells.size() != total * M) { std::cout << "bad-op" << std::endl; continue; }
      auto storage = [&] { return synth ? filled_synth(total) : filled(total, cells); };
      typename SA::configuration_t scfg; for (std::size_t k = 0; k < N; ++k) scfg[k] = sz[k];
      st.clamp = cl != 0;
      st.va.reset(); st.vca.reset(); st.fa.reset(); st.fp.reset(); st.fca.reset(); st.fcp.reset();
      if (!st.clamp) {
        st.fa = std::make_unique<field<LA>>(make_parameter_pack(typename LA::configuration_t{}, typename SA::configuration_t(scfg), storage()));
        st.va.emplace(*st.fa);
        st.fp = std::make_unique<field<LP>>(make_parameter_pack(typename LP::configuration_t{}, typename SP::configuration_t(scfg), typename P::configuration_t{&st.log}));
      } else {
        typename backend::clamp<SA>::configuration_t ccfg;
        typename backend::clamp<SP>::configuration_t pcfg;
        for (std::size_t k = 0; k < N; ++k) { ccfg.min[k] = 0; ccfg.max[k] = sz[k] - 1; pcfg.min[k] = 0; pcfg.max[k] = sz[k] - 1; }
        st.fca = std::make_unique<field<LCA>>(make_parameter_pack(typename LCA::configuration_t{}, std::move(ccfg), typename SA::configuration_t(scfg), storage()));
        st.vca.emplace(*st.fca);
        st.fcp = std::make_unique<field<LCP>>(make_parameter_pack(typename LCP::configuration_t{}, std::move(pcfg), typename SP::configuration_t(scfg), typename P::configuration_t{&st.log}));
      }
      std::cout << "set " << total << std::endl;
    } else if (op == "L") {
      std::vector<u64> cb; u64 x; while (is >> x) cb.push_back(x);
      if (cb.size() != N || (!st.fa && !st.fca)) { std::cout << "bad-op" << std::endl; continue; }
      typename field<LA>::coordinate_t c;
      for (std::size_t k = 0; k < N; ++k) c[k] = frombits<Cc>(cb[k]);
      st.log.idx.clear();
      std::string r;
      if (!st.clamp) { r = look(*st.fa, c); look_persistent(*st.va, c, r); (void)look(*st.fp, c); }
      else { r = look(*st.fca, c); look_persistent(*st.vca, c, r); (void)look(*st.fcp, c); }
      std::ostringstream os;
      os << r << " |";
      for (auto i : st.log.idx) os << " " << i;
      std::cout << os.str() << std::endl;
    } else {
      std::cout << "bad-op" << std::endl;
    }
  }
  return 0;
}
