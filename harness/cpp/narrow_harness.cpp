// Narrow scalar types (8- and 16-bit), swept exhaustively: clamp / backup over identity for EVERY coordinate value of the type,
// nearest neighbour over a row-major array whose index type is narrow, on an axis longer than half the type's range.
//   clampall  <ty> <lo> <hi>          -> "n_lo n_id n_hi sum"   over all v of ty: how often the lookup returned lo / v itself / hi, sum of results
//   backupall <ty> <lo> <hi> <dflt>   -> "n_dflt n_id sum"      (dflt must lie outside [lo, hi] to be told apart)
//   nnall     <ty> <n>                -> "lookups wrong first_wrong_x"  cell k holds k; x = k, k + 0.25, k - 0.25 (inside the axis) must return round(x)
//   ty = i8 | u8 | i16 | u16
#include "ambient.hpp"
#include <covfie/core/backend/primitive/array.hpp>
#include <covfie/core/backend/primitive/identity.hpp>
#include <covfie/core/backend/transformer/backup.hpp>
#include <covfie/core/backend/transformer/clamp.hpp>
#include <covfie/core/backend/transformer/nearest_neighbour.hpp>
#include <covfie/core/backend/transformer/strided.hpp>
#include <covfie/core/field.hpp>
#include <cstdint>
#include <iostream>
#include <limits>
#include <sstream>
#include <string>
using namespace covfie;
using i64 = long long;

template <typename T> std::string clampall(i64 lo, i64 hi) {
  using I = backend::identity<vector::vector_d<T, 1>>;
  using B = backend::clamp<I>;
  typename B::configuration_t cfg; cfg.min[0] = static_cast<T>(lo); cfg.max[0] = static_cast<T>(hi);
  field<B> f(make_parameter_pack(std::move(cfg), typename I::configuration_t{}));
  typename field<B>::view_t v(f);
  i64 nlo = 0, nid = 0, nhi = 0, sum = 0;
  for (i64 x = std::numeric_limits<T>::min(); x <= std::numeric_limits<T>::max(); ++x) {
    typename field<B>::coordinate_t c; c[0] = static_cast<T>(x);
    i64 r = v.at(c)[0];
    sum += r;
    if (r == x) ++nid; else if (r == lo) ++nlo; else if (r == hi) ++nhi;
  }
  return std::to_string(nlo) + " " + std::to_string(nid) + " " + std::to_string(nhi) + " " + std::to_string(sum);
}
template <typename T> std::string backupall(i64 lo, i64 hi, i64 d) {
  using I = backend::identity<vector::vector_d<T, 1>>;
  using B = backend::backup<I>;
  typename B::configuration_t cfg; cfg.min[0] = static_cast<T>(lo); cfg.max[0] = static_cast<T>(hi); cfg.default_value[0] = static_cast<T>(d);
  field<B> f(make_parameter_pack(std::move(cfg), typename I::configuration_t{}));
  typename field<B>::view_t v(f);
  i64 nd = 0, nid = 0, sum = 0;
  for (i64 x = std::numeric_limits<T>::min(); x <= std::numeric_limits<T>::max(); ++x) {
    typename field<B>::coordinate_t c; c[0] = static_cast<T>(x);
    i64 r = v.at(c)[0];
    sum += r;
    if (r == x) ++nid; else if (r == d) ++nd;
  }
  return std::to_string(nd) + " " + std::to_string(nid) + " " + std::to_string(sum);
}
template <typename T, typename C> std::string nnall(i64 n) {
  using A = backend::array<vector::float1>;
  using S = backend::strided<vector::vector_d<T, 1>, A>;
  using B = backend::nearest_neighbour<S, vector::vector_d<C, 1>>;
  typename S::configuration_t scfg; scfg[0] = static_cast<T>(n);
  field<B> f(make_parameter_pack(typename B::configuration_t{}, std::move(scfg), typename A::configuration_t{static_cast<std::size_t>(n)}));
  { typename S::non_owning_data_t w(f.backend().get_backend());
    for (i64 k = 0; k < n; ++k) { typename S::contravariant_input_t::vector_t c; c[0] = static_cast<T>(k); w.at(c)[0] = static_cast<float>(k); } }
  typename field<B>::view_t v(f);
  i64 looks = 0, wrong = 0; double first = -1;
  for (i64 k = 0; k < n; ++k) for (double d : {0.0, 0.25, -0.25}) {
    double x = static_cast<double>(k) + d;
    if (x < -0.5 || x >= static_cast<double>(n) - 0.5) continue;
    typename field<B>::coordinate_t c; c[0] = static_cast<C>(x);
    float r = v.at(c)[0];
    ++looks;
    if (r != static_cast<float>(k)) { if (!wrong) first = x; ++wrong; }
  }
  std::ostringstream os; os << looks << " " << wrong << " " << first;
  return os.str();
}
#define BY_TY(F, ...) (ty == "i8" ? F<std::int8_t>(__VA_ARGS__) : ty == "u8" ? F<std::uint8_t>(__VA_ARGS__) : ty == "i16" ? F<std::int16_t>(__VA_ARGS__) : \
                       ty == "u16" ? F<std::uint16_t>(__VA_ARGS__) : std::string("unsupported"))
int main() {
  std::string line;
  while (std::getline(std::cin, line)) {
    vf::ambient();
    std::istringstream is(line); std::string op, ty; is >> op >> ty; std::string r = "unsupported";
    if (op == "clampall") { i64 lo, hi; is >> lo >> hi; r = BY_TY(clampall, lo, hi); }
    else if (op == "backupall") { i64 lo, hi, d; is >> lo >> hi >> d; r = BY_TY(backupall, lo, hi, d); }
    else if (op == "nnall") { i64 n; is >> n;
      r = ty == "u8" ? nnall<std::uint8_t, float>(n) : ty == "u16" ? nnall<std::uint16_t, float>(n) : ty == "u16d" ? nnall<std::uint16_t, double>(n) :
          ty == "i16" ? nnall<std::int16_t, float>(n) : ty == "i8" ? nnall<std::int8_t, double>(n) : "unsupported"; }
    std::cout << r << std::endl;
  }
}
