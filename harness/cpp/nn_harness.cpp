// Correspondence harness for C04 (nearest-neighbour lookup). One translation unit per dimension: -DNN_N=<1..4>.
// Stacks (all through field / field_view::at):
//   nearest_neighbour<identity<vector_d<int|long, N>>, vector_d<float|double, N>>     returns the chosen lattice point
//   nearest_neighbour<strided<sizeN, array<double1>>, vector_d<float|double, N>>      cell k stores k (the flat position)
// One operation per line, one answer per line; coordinates cross as decimal integer bit patterns.
//   I <cprec 32|64> <index type i|l> c1..cN   -> "r1 .. rN"   (signed decimal)
//   S s1..sN                                  -> "set <cells>"
//   A <cprec 32|64> c1..cN                    -> "<bit pattern of the double returned>"
#include "ambient.hpp"
#include <covfie/core/backend/primitive/array.hpp>
#include <covfie/core/backend/primitive/identity.hpp>
#include <covfie/core/backend/transformer/nearest_neighbour.hpp>
#include <covfie/core/backend/transformer/strided.hpp>
#include <covfie/core/field.hpp>
#include <cstring>
#include <iostream>
#include <memory>
#include <sstream>
#include <string>
#include <vector>
using namespace covfie;
using u64 = std::uint64_t;
constexpr std::size_t N = NN_N;

template <typename X> X frombits(u64 b) {
  X v;
  if constexpr (sizeof(X) == 4) { std::uint32_t c = static_cast<std::uint32_t>(b); std::memcpy(&v, &c, 4); }
  else std::memcpy(&v, &b, 8);
  return v;
}

template <typename IT, typename Cc> std::string ident(const std::vector<u64> & cb) {
  using B = backend::nearest_neighbour<backend::identity<vector::vector_d<IT, N>>, vector::vector_d<Cc, N>>;
  using F = field<B>;
  static F f(make_parameter_pack(typename B::configuration_t{}, typename B::backend_t::configuration_t{}));
  typename F::view_t v(f);
  typename F::coordinate_t c;
  for (std::size_t k = 0; k < N; ++k) c[k] = frombits<Cc>(cb[k]);
  auto r = v.at(c);
  std::ostringstream os;
  for (std::size_t k = 0; k < N; ++k) os << (k ? " " : "") << static_cast<long long>(r[k]);
  return os.str();
}

using A = backend::array<vector::vector_d<double, 1>>;
using SA = backend::strided<vector::vector_d<std::size_t, N>, A>;
template <typename Cc> using NA = backend::nearest_neighbour<SA, vector::vector_d<Cc, N>>;

template <typename Cc> std::unique_ptr<field<NA<Cc>>> mk(const std::vector<u64> & sz) {
  std::size_t total = 1; for (auto s : sz) total *= s;
  using cell_t = typename A::vector_t;
  std::unique_ptr<cell_t[]> p = std::make_unique<cell_t[]>(total);
  for (std::size_t i = 0; i < total; ++i) p[i][0] = static_cast<double>(i);
  typename SA::configuration_t scfg; for (std::size_t k = 0; k < N; ++k) scfg[k] = sz[k];
  return std::make_unique<field<NA<Cc>>>(make_parameter_pack(
      typename NA<Cc>::configuration_t{}, std::move(scfg), typename A::owning_data_t(total, std::move(p))));
}
template <typename Cc> std::string arr(field<NA<Cc>> & f, const std::vector<u64> & cb) {
  typename field<NA<Cc>>::view_t v(f);
  typename field<NA<Cc>>::coordinate_t c;
  for (std::size_t k = 0; k < N; ++k) c[k] = frombits<Cc>(cb[k]);
  double r = v.at(c)[0];
  u64 b; std::memcpy(&b, &r, 8);
  return std::to_string(b);
}

int main() {
  std::ios::sync_with_stdio(false);
  std::string line;
  std::unique_ptr<field<NA<float>>> ff;
  std::unique_ptr<field<NA<double>>> fd;
  while (std::getline(std::cin, line)) {
    vf::ambient();
    std::istringstream is(line);
    std::string op; is >> op;
    if (op == "I") {
      int cprec; std::string ity; is >> cprec >> ity;
      std::vector<u64> cb; u64 x; while (is >> x) cb.push_back(x);
      if (cb.size() != N) { std::cout << "bad-op" << std::endl; continue; }
      std::string r = cprec == 32 ? (ity == "i" ? ident<int, float>(cb) : ident<long, float>(cb))
                                  : (ity == "i" ? ident<int, double>(cb) : ident<long, double>(cb));
      std::cout << r << std::endl;
    } else if (op == "S") {
      std::vector<u64> sz; u64 x; while (is >> x) sz.push_back(x);
      if (sz.size() != N) { std::cout << "bad-op" << std::endl; continue; }
      ff = mk<float>(sz); fd = mk<double>(sz);
      std::size_t total = 1; for (auto s : sz) total *= s;
      std::cout << "set " << total << std::endl;
    } else if (op == "A") {
      int cprec; is >> cprec;
      std::vector<u64> cb; u64 x; while (is >> x) cb.push_back(x);
      if (cb.size() != N || !ff) { std::cout << "bad-op" << std::endl; continue; }
      std::cout << (cprec == 32 ? arr<float>(*ff, cb) : arr<double>(*fd, cb)) << std::endl;
    } else {
      std::cout << "bad-op" << std::endl;
    }
  }
  return 0;
}
