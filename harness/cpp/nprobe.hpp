#pragma once
// User-defined probe backend with an N-dimensional coordinate: counts the queries it receives, records the last
// coordinate, and returns a value derived from the coordinate: component q of the output is input component (q+1) mod N
// (same scalar type, so no arithmetic is involved and the answer is bit-exact).
#include <covfie/core/concepts.hpp>
#include <covfie/core/parameter_pack.hpp>
#include <covfie/core/vector.hpp>
#include <cstdint>
#include <cstring>
#include <iostream>
#include <vector>
namespace vf {
struct nprobe_log { std::uint64_t count = 0; std::vector<std::uint64_t> last; };
template <typename _in_vector_d, typename _out_vector_d>
struct nprobe {
  using this_t = nprobe<_in_vector_d, _out_vector_d>;
  static constexpr bool is_initial = true;
  using contravariant_input_t = covfie::vector::array_vector_d<_in_vector_d>;
  using covariant_output_t = covfie::vector::array_vector_d<_out_vector_d>;
  static_assert(std::is_same_v<typename _in_vector_d::type, typename _out_vector_d::type>, "nprobe echoes coordinate components");
  struct configuration_t { nprobe_log * log; };
  static constexpr uint32_t IO_MAGIC_HEADER = 0xAB01FFFE;
  struct owning_data_t {
    using parent_t = this_t;
    owning_data_t() : m_log(nullptr) {}
    explicit owning_data_t(configuration_t c) : m_log(c.log) {}
    explicit owning_data_t(covfie::parameter_pack<configuration_t> && p) : owning_data_t(p.x) {}
    explicit owning_data_t(covfie::parameter_pack<owning_data_t> && p) : owning_data_t(std::move(p.x)) {}
    configuration_t get_configuration() const { return {m_log}; }
    static owning_data_t read_binary(std::istream &) { return owning_data_t(); }
    static void write_binary(std::ostream &, const owning_data_t &) {}
    nprobe_log * m_log;
  };
  struct non_owning_data_t {
    using parent_t = this_t;
    non_owning_data_t(const owning_data_t & o) : m_log(o.m_log) {}
    typename covariant_output_t::vector_t at(typename contravariant_input_t::vector_t c) const {
      constexpr std::size_t N = contravariant_input_t::dimensions, M = covariant_output_t::dimensions;
      m_log->count++;
      m_log->last.clear();
      for (std::size_t k = 0; k < N; ++k) {
        std::uint64_t b = 0;
        typename contravariant_input_t::scalar_t x = c[k];
        std::memcpy(&b, &x, sizeof(x));
        m_log->last.push_back(b);
      }
      typename covariant_output_t::vector_t r;
      for (std::size_t q = 0; q < M; ++q) r[q] = c[(q + 1) % N];
      return r;
    }
    nprobe_log * m_log;
  };
};
}
