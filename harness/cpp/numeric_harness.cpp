// C18 / C19 harness: numeric.hpp templates at several widths, nd_map call sequences.
//   np2 <w> <i>            -> round_pow2<uintW>(i)                (caller keeps i <= 2^(w-1): beyond, the loop never ends)
//   np2s <w> <i>           -> round_pow2<intW>(i) (signed instantiation, i <= 2^(w-2))
//   ipow <w> <b> <e>       -> ipow<uintW>(b, e)
//   np2rle <w> <lo> <hi>   -> run-length encoding "lo hi val;..." of round_pow2<uintW> over [lo, hi] (every value evaluated)
//   ipowall8               -> all 65536 results of ipow<uint8_t>(b, e), b-major
//   ndmapt <u8|u16|u32|i32> N s1..sN -> the same for a tuple type with a narrower value type (N <= 4)
//   ndmap N s1..sN         -> the tuples handed to the callback, in call order: "a,b;c,d;..." ("-" when none)
#include <covfie/core/utility/nd_map.hpp>
#include <functional>
#include <type_traits>
#include <stdexcept>
#include <covfie/core/utility/nd_size.hpp>
#include <covfie/core/utility/numeric.hpp>
#include <cstdint>
#include <iostream>
#include <sstream>
#include <string>
#include <vector>
#include <set>
#include <array>
using namespace covfie;
using u64 = std::uint64_t;
template <typename T> std::string rle(u64 lo, u64 hi) {
  std::ostringstream os; u64 start = lo; T cur = utility::round_pow2<T>(static_cast<T>(lo));
  for (u64 i = lo + 1; i <= hi; ++i) {
    T v = utility::round_pow2<T>(static_cast<T>(i));
    if (v != cur) { os << start << " " << (i - 1) << " " << static_cast<u64>(cur) << ";"; start = i; cur = v; }
  }
  os << start << " " << hi << " " << static_cast<u64>(cur) << ";";
  return os.str();
}
// The two utilities called where the language evaluates constants if it can (initialisers of namespace-scope constants with
// constant arguments): whatever such a call yields must be what the run-time call yields. (With utilities that are not
// constexpr these are ordinary dynamic initialisations.)  inputs: 0 .. 2^(w-1) around every power of two; every value at 8 bit
template <typename T> constexpr T np2_in(std::size_t k) {
  constexpr unsigned w = 8 * sizeof(T);
  if (w == 8) return static_cast<T>(k);                       // k = 0 .. 128
  const unsigned e = static_cast<unsigned>(k / 5); const int d = static_cast<int>(k % 5) - 2;   // 2^e + d, e = 0 .. w-1, d = -2 .. 2
  const u64 v = (u64(1) << e) + static_cast<u64>(static_cast<long long>(d));
  const u64 half = u64(1) << (w - 1);
  return static_cast<T>((e == 0 && d < 0) ? 0 : (v > half ? half : v));
}
template <typename T> constexpr std::size_t np2_count() { return sizeof(T) == 1 ? 129 : 5 * 8 * sizeof(T); }
template <typename T, std::size_t... Is> constexpr std::array<T, sizeof...(Is)> np2_tab(std::index_sequence<Is...>) {
  return {{utility::round_pow2<T>(np2_in<T>(Is))...}};
}
template <typename T, std::size_t... Is> constexpr std::array<T, sizeof...(Is)> ipow_tab(std::index_sequence<Is...>) {
  return {{utility::ipow<T>(static_cast<T>(Is % 16 + (Is / 256) * 3), static_cast<T>((Is / 16) % 16))...}};
}
static const auto NP2C_8 = np2_tab<std::uint8_t>(std::make_index_sequence<np2_count<std::uint8_t>()>{});
static const auto NP2C_16 = np2_tab<std::uint16_t>(std::make_index_sequence<np2_count<std::uint16_t>()>{});
static const auto NP2C_32 = np2_tab<std::uint32_t>(std::make_index_sequence<np2_count<std::uint32_t>()>{});
static const auto NP2C_64 = np2_tab<std::uint64_t>(std::make_index_sequence<np2_count<std::uint64_t>()>{});
static const auto IPOWC_8 = ipow_tab<std::uint8_t>(std::make_index_sequence<512>{});
static const auto IPOWC_64 = ipow_tab<std::uint64_t>(std::make_index_sequence<512>{});
template <typename T, typename A> std::string np2_const(const A & tab) {     // "<input>:<constant>:<run-time>;" ...
  std::ostringstream os;
  for (std::size_t k = 0; k < tab.size(); ++k) {
    volatile T in = np2_in<T>(k);
    os << static_cast<u64>(np2_in<T>(k)) << ":" << static_cast<u64>(tab[k]) << ":" << static_cast<u64>(utility::round_pow2<T>(in)) << ";";
  }
  return os.str();
}
template <typename T, typename A> std::string ipow_const(const A & tab) {     // "<b>:<e>:<constant>:<run-time>;" ...
  std::ostringstream os;
  for (std::size_t k = 0; k < tab.size(); ++k) {
    volatile T b = static_cast<T>(k % 16 + (k / 256) * 3), e = static_cast<T>((k / 16) % 16);
    os << static_cast<u64>(b) << ":" << static_cast<u64>(e) << ":" << static_cast<u64>(tab[k]) << ":" << static_cast<u64>(utility::ipow<T>(b, e)) << ";";
  }
  return os.str();
}
// nd_map is called with three forms of callback, which must all see the same sequence of tuples:
//  (a) a closure capturing by reference (what the library itself passes), (b) an lvalue std::function,
//  (c) a temporary closure owning non-trivially-movable state (a vector and a string it needs at every call)
template <typename S, std::size_t N> std::string nd_forms(const S & s) {
  std::string out[3];
  try {
    { std::ostringstream os; bool any = false;
      utility::nd_map<S>([&](S t) { if (any) os << ";"; any = true; for (std::size_t k = 0; k < N; ++k) { if (k) os << ","; os << static_cast<u64>(t[k]); } }, s);
      out[0] = any ? os.str() : "-"; }
    { std::ostringstream os; bool any = false;
      std::function<void(S)> fn = [&](S t) { if (any) os << ";"; any = true; for (std::size_t k = 0; k < N; ++k) { if (k) os << ","; os << static_cast<u64>(t[k]); } };
      utility::nd_map<S>(fn, s);
      S z; for (std::size_t k = 0; k < N; ++k) z[k] = 0;
      utility::nd_map<S>(fn, z);                       // an empty box in between: no call
      out[1] = any ? os.str() : "-"; }
    { std::ostringstream os; bool any = false;
      utility::nd_map<S>([off = std::vector<u64>(N, 0), sep = std::string(","), &os, &any](S t) {
        if (any) os << ";"; any = true; for (std::size_t k = 0; k < N; ++k) { if (k) os << sep.at(0); os << static_cast<u64>(t[k]) + off.at(k); } }, s);
      out[2] = any ? os.str() : "-"; }
  } catch (const std::exception & e) { return std::string("bad callback form died: ") + e.what(); }
  { // (d) a plain function pointer (a static function writing into a thread-local sink)
    static thread_local std::ostringstream * sink = nullptr; static thread_local bool any4 = false;
    std::ostringstream os; sink = &os; any4 = false;
    void (*fp)(S) = +[](S t) { if (any4) *sink << ";"; any4 = true; for (std::size_t k = 0; k < N; ++k) { if (k) *sink << ","; *sink << static_cast<u64>(t[k]); } };
    try { utility::nd_map<S>(fp, s); } catch (const std::exception & e) { return std::string("bad function-pointer callback died: ") + e.what(); }
    std::string o4 = any4 ? os.str() : "-";
    if (o4 != out[0]) return "bad function-pointer callback saw " + o4.substr(0, 200) + " | closure saw " + out[0].substr(0, 200);
  }
  { // (e) a generic callback that takes a forwarding reference and scribbles on its argument after recording it (its own copy: the
    //     iteration must not depend on what a callback does to the tuple it was handed)
    std::ostringstream os; bool any5 = false;
    try {
      utility::nd_map<S>([&](auto && t) {
        if (any5) os << ";"; any5 = true;
        for (std::size_t k = 0; k < N; ++k) { if (k) os << ","; os << static_cast<u64>(t[k]); }
        if constexpr (!std::is_const_v<std::remove_reference_t<decltype(t)>>) { for (std::size_t k = 0; k < N; ++k) t[k] = static_cast<std::remove_reference_t<decltype(t[k])>>(t[k] + 3); }
      }, s);
    } catch (const std::exception & e) { return std::string("bad scribbling callback died: ") + e.what(); }
    std::string o5 = any5 ? os.str() : "-";
    if (o5 != out[0]) return "bad scribbling callback saw " + o5.substr(0, 200) + " | closure saw " + out[0].substr(0, 200);
  }
  if (out[1] != out[0]) return "bad std::function callback saw " + out[1].substr(0, 200) + " | closure saw " + out[0].substr(0, 200);
  if (out[2] != out[0]) return "bad owning temporary callback saw " + out[2].substr(0, 200) + " | closure saw " + out[0].substr(0, 200);
  return out[0];
}
// large boxes: every tuple is ranked (row-major) and ticked off in a bitmap -> "<calls> <cells never visited> <visited twice or more> <outside>"
template <std::size_t N> std::string nd_big(const std::vector<u64> & sz) {
  using S = utility::nd_size<N>;
  S s; u64 total = 1; for (std::size_t k = 0; k < N; ++k) { s[k] = sz[k]; total *= sz[k]; }
  std::vector<bool> seen(total, false);
  u64 calls = 0, dup = 0, outside = 0;
  utility::nd_map<S>([&](S t) {
    ++calls; u64 r = 0; bool in = true;
    for (std::size_t k = 0; k < N; ++k) { if (t[k] >= sz[k]) in = false; r = r * sz[k] + t[k]; }
    if (!in) { ++outside; return; }
    if (seen[r]) ++dup; else seen[r] = true;
  }, s);
  u64 missed = 0; for (u64 r = 0; r < total; ++r) if (!seen[r]) ++missed;
  return std::to_string(calls) + " " + std::to_string(missed) + " " + std::to_string(dup) + " " + std::to_string(outside);
}
// boxes too large to walk to the end: the callback stops the iteration (by an exception) after K calls
// -> "<calls> <outside the box> <tuples seen twice> <threw|returned>"
struct nd_stop {};
template <std::size_t N> std::string nd_huge(const std::vector<u64> & sz, u64 K) {
  using S = utility::nd_size<N>;
  S s; for (std::size_t k = 0; k < N; ++k) s[k] = sz[k];
  u64 calls = 0, outside = 0, dup = 0;
  std::set<std::array<u64, N>> seen;
  bool threw = false;
  try {
    utility::nd_map<S>([&](S t) {
      if (calls == K) throw nd_stop{};
      ++calls; std::array<u64, N> a{}; bool in = true;
      for (std::size_t k = 0; k < N; ++k) { a[k] = t[k]; if (t[k] >= sz[k]) in = false; }
      if (!in) ++outside;
      if (!seen.insert(a).second) ++dup;
    }, s);
  } catch (const nd_stop &) { threw = true; }
  return std::to_string(calls) + " " + std::to_string(outside) + " " + std::to_string(dup) + (threw ? " threw" : " returned");
}
template <typename T, std::size_t N> std::string ndmt(const std::vector<u64> & sz) {
  using S = covfie::array::array<T, N>;
  S s; for (std::size_t k = 0; k < N; ++k) s[k] = static_cast<T>(sz[k]);
  return nd_forms<S, N>(s);
}
template <typename T> std::string ndmtN(std::size_t N, const std::vector<u64> & sz) {
  switch (N) { case 1: return ndmt<T, 1>(sz); case 2: return ndmt<T, 2>(sz); case 3: return ndmt<T, 3>(sz); case 4: return ndmt<T, 4>(sz); }
  return "unsupported";
}
template <std::size_t N> std::string ndm(const std::vector<u64> & sz) {
  using S = utility::nd_size<N>;
  S s; for (std::size_t k = 0; k < N; ++k) s[k] = sz[k];
  return nd_forms<S, N>(s);
}
int main() {
  std::string line;
  while (std::getline(std::cin, line)) {
    std::istringstream is(line); std::string op; is >> op; std::string r = "unsupported";
    if (op == "np2") { int w; u64 i; is >> w >> i;
      if (w == 8) r = std::to_string(utility::round_pow2<std::uint8_t>(i)); else if (w == 16) r = std::to_string(utility::round_pow2<std::uint16_t>(i));
      else if (w == 32) r = std::to_string(utility::round_pow2<std::uint32_t>(i)); else if (w == 64) r = std::to_string(utility::round_pow2<std::uint64_t>(i));
    } else if (op == "np2s") { int w; u64 i; is >> w >> i;
      if (w == 8) r = std::to_string(utility::round_pow2<std::int8_t>(i)); else if (w == 16) r = std::to_string(utility::round_pow2<std::int16_t>(i));
      else if (w == 32) r = std::to_string(utility::round_pow2<std::int32_t>(i)); else if (w == 64) r = std::to_string(utility::round_pow2<std::int64_t>(i));
    } else if (op == "ipow") { int w; u64 b, e; is >> w >> b >> e;
      if (w == 8) r = std::to_string(utility::ipow<std::uint8_t>(b, e)); else if (w == 16) r = std::to_string(utility::ipow<std::uint16_t>(b, e));
      else if (w == 32) r = std::to_string(utility::ipow<std::uint32_t>(b, e)); else if (w == 64) r = std::to_string(utility::ipow<std::uint64_t>(b, e));
    } else if (op == "np2rle") { int w; u64 lo, hi; is >> w >> lo >> hi;
      if (w == 8) r = rle<std::uint8_t>(lo, hi); else if (w == 16) r = rle<std::uint16_t>(lo, hi);
      else if (w == 32) r = rle<std::uint32_t>(lo, hi); else if (w == 64) r = rle<std::uint64_t>(lo, hi);
    } else if (op == "ipowall8") {
      std::ostringstream os;
      for (unsigned b = 0; b < 256; ++b) for (unsigned e = 0; e < 256; ++e) os << unsigned(utility::ipow<std::uint8_t>(b, e)) << " ";
      r = os.str();
    } else if (op == "ndmapt") { std::string ty; std::size_t N; is >> ty >> N; std::vector<u64> sz(N); for (auto & s : sz) is >> s;
      if (ty == "u8") r = ndmtN<std::uint8_t>(N, sz); else if (ty == "u16") r = ndmtN<std::uint16_t>(N, sz);
      else if (ty == "u32") r = ndmtN<std::uint32_t>(N, sz); else if (ty == "i32") r = ndmtN<std::int32_t>(N, sz);
    } else if (op == "ndbig") { std::size_t N; is >> N; std::vector<u64> sz(N); for (auto & s : sz) is >> s;
      switch (N) { case 1: r = nd_big<1>(sz); break; case 2: r = nd_big<2>(sz); break; case 3: r = nd_big<3>(sz); break; case 4: r = nd_big<4>(sz); break; }
    } else if (op == "np2const") { unsigned w; is >> w;
      r = w == 8 ? np2_const<std::uint8_t>(NP2C_8) : w == 16 ? np2_const<std::uint16_t>(NP2C_16) : w == 32 ? np2_const<std::uint32_t>(NP2C_32) : np2_const<std::uint64_t>(NP2C_64);
    } else if (op == "ipowconst") { unsigned w; is >> w;
      r = w == 8 ? ipow_const<std::uint8_t>(IPOWC_8) : ipow_const<std::uint64_t>(IPOWC_64);
    } else if (op == "ndhuge") { std::size_t N; u64 K; is >> K >> N; std::vector<u64> sz(N); for (auto & s : sz) is >> s;
      switch (N) { case 1: r = nd_huge<1>(sz, K); break; case 2: r = nd_huge<2>(sz, K); break; case 3: r = nd_huge<3>(sz, K); break; case 4: r = nd_huge<4>(sz, K); break; case 5: r = nd_huge<5>(sz, K); break; }
    } else if (op == "ndmap") { std::size_t N; is >> N; std::vector<u64> sz(N); for (auto & s : sz) is >> s;
      switch (N) { case 1: r = ndm<1>(sz); break; case 2: r = ndm<2>(sz); break; case 3: r = ndm<3>(sz); break; case 4: r = ndm<4>(sz); break; case 5: r = ndm<5>(sz); break; }
    }
    std::cout << r << std::endl;
  }
}
