#pragma once
// User-defined probe backend: 1-D index -> reference to a cell; records every index it is asked for.
#include <covfie/core/concepts.hpp>
#include <covfie/core/parameter_pack.hpp>
#include <covfie/core/vector.hpp>
#include <vector>
#include <cstdint>
namespace vf {
struct probe_log { std::vector<std::uint64_t> idx; };
template <typename _out_vector_t, typename _index_t = std::size_t>
struct probe {
  using this_t = probe<_out_vector_t, _index_t>;
  static constexpr bool is_initial = true;
  using contravariant_input_t = covfie::vector::scalar_d<covfie::vector::vector_d<_index_t, 1>>;
  using covariant_output_t = covfie::vector::array_reference_vector_d<_out_vector_t>;
  using vector_t = std::decay_t<typename covariant_output_t::vector_t>;
  struct configuration_t { probe_log * log; };
  static constexpr uint32_t IO_MAGIC_HEADER = 0xAB01FFFF;
  struct owning_data_t {
    using parent_t = this_t;
    owning_data_t() : m_log(nullptr) {}
    explicit owning_data_t(configuration_t c) : m_log(c.log) {}
    explicit owning_data_t(covfie::parameter_pack<configuration_t> && p) : owning_data_t(p.x) {}
    explicit owning_data_t(covfie::parameter_pack<owning_data_t> && p) : owning_data_t(std::move(p.x)) {}
    configuration_t get_configuration() const { return {m_log}; }
    static owning_data_t read_binary(std::istream &) { return owning_data_t(); }
    static void write_binary(std::ostream &, const owning_data_t &) {}
    probe_log * m_log;
  };
  struct non_owning_data_t {
    using parent_t = this_t;
    non_owning_data_t(const owning_data_t & o) : m_log(o.m_log) {}
    typename covariant_output_t::vector_t at(typename contravariant_input_t::vector_t i) const {
      static vector_t dummy;
      m_log->idx.push_back(static_cast<std::uint64_t>(i));
      return dummy;
    }
    probe_log * m_log;
  };
};
}
