// C01 array semantics through a writable view: a field of layout L over array<T M> is obtained by the library's own
// converting constructor (so the library allocates the storage), every in-range coordinate is written with a distinct
// value through a view, then everything is read back.  Compiled once per (coordinate scalar, storage scalar):
//   -DRW_CT=0|1|2 (size_t, unsigned, int)   -DRW_T=0|1 (float, double)
//   rw <lay> N M s1..sN   ->  "ok <cells written> <storage length>" | "bad <description>"
#include <covfie/core/backend/primitive/array.hpp>
#include <covfie/core/backend/transformer/hilbert.hpp>
#include <covfie/core/backend/transformer/morton.hpp>
#include <covfie/core/backend/transformer/strided.hpp>
#include <covfie/core/field.hpp>
#include <covfie/core/utility/nd_map.hpp>
#include <covfie/core/utility/numeric.hpp>
#include <algorithm>
#include <iostream>
#include <sstream>
#include <type_traits>
#include <string>
using namespace covfie;
using u64 = std::uint64_t;
#if RW_CT == 0
using CT = std::size_t;
#elif RW_CT == 1
using CT = unsigned;
#else
using CT = int;
#endif
#if RW_T == 0
using T = float;
#else
using T = double;
#endif
template <int L, typename V, typename B> struct layer;
template <typename V, typename B> struct layer<0, V, B> { using type = backend::strided<V, B>; };
template <typename V, typename B> struct layer<1, V, B> { using type = backend::morton<V, B, true>; };
template <typename V, typename B> struct layer<2, V, B> { using type = backend::morton<V, B, false>; };
template <typename V, typename B> struct layer<3, V, B> { using type = backend::hilbert<V, B>; };

template <std::size_t N, typename F> void forall(const std::vector<u64> & sz, F f) {
  std::vector<u64> c(N, 0); u64 total = 1; for (auto s : sz) total *= s;
  for (u64 k = 0; k < total; ++k) {
    f(c, k);
    for (std::size_t d = N; d-- > 0;) { if (++c[d] < sz[d]) break; c[d] = 0; }
  }
}
template <int L, std::size_t N, std::size_t M>
std::string run(const std::vector<u64> & sz) {
  using V = vector::vector_d<CT, N>;
  using A = backend::array<vector::vector_d<T, M>>;
  using SA = backend::strided<V, A>;
  using LA = typename layer<L, V, A>::type;
  u64 total = 1; for (auto s : sz) total *= s;
  typename SA::configuration_t scfg; for (std::size_t k = 0; k < N; ++k) scfg[k] = sz[k];
  // a row-major target is converted from a portable-Morton source, every other target from a row-major source, so that
  // the target's storage is always allocated and laid out by the library's own converting constructor
  using MA = backend::morton<V, A, false>;
  u64 mx = 1; for (auto s : sz) mx = std::max<u64>(mx, s);
  using SRC = std::conditional_t<L == 0, MA, SA>;
  field<SRC> src(make_parameter_pack(std::move(scfg), typename A::configuration_t{
      L == 0 ? utility::ipow<u64>(utility::round_pow2<u64>(mx), N) : total}));
  field<LA> dst(src);
  u64 len = dst.backend().get_backend().get_configuration()[0];
  // one pass over a field: (optionally) write a distinct value at every in-range coordinate through a view, then read everything back
  auto pass = [&](field<LA> & fl, u64 off, bool write, const char * route) -> std::string {
    typename field<LA>::view_t v(fl);
    if (write)
      forall<N>(sz, [&](const std::vector<u64> & c, u64 k) {
        typename field<LA>::coordinate_t cc; for (std::size_t d = 0; d < N; ++d) cc[d] = static_cast<CT>(c[d]);
        for (std::size_t q = 0; q < M; ++q) v.at(cc)[q] = static_cast<T>(k * 4 + q + 1 + off);
      });
    std::string bad;
    forall<N>(sz, [&](const std::vector<u64> & c, u64 k) {
      if (!bad.empty()) return;
      typename field<LA>::coordinate_t cc; for (std::size_t d = 0; d < N; ++d) cc[d] = static_cast<CT>(c[d]);
      for (std::size_t q = 0; q < M; ++q) {
        T got = v.at(cc)[q];
        if (got != static_cast<T>(k * 4 + q + 1 + off)) {
          std::ostringstream os; os << "bad readback (" << route << ") at"; for (auto x : c) os << " " << x;
          os << " comp " << q << " got " << got << " want " << (k * 4 + q + 1 + off);
          bad = os.str(); return;
        }
      }
    });
    if (!bad.empty()) return bad;
    // the values are also visible through a second, independently created view (a view is just a handle)
    typename field<LA>::view_t v2(fl);
    typename field<LA>::coordinate_t c0; for (std::size_t d = 0; d < N; ++d) c0[d] = 0;
    if (v2.at(c0)[0] != static_cast<T>(1 + off)) return std::string("bad second view (") + route + ")";
    return "";
  };
  // the field the converting constructor made
  if (std::string b = pass(dst, 0, true, "converted"); !b.empty()) return b;
  // the same array semantics however the field came to be: loaded from its own dump, copied, built from its configurations,
  // built from a configuration and a ready-made backend
  {
    std::stringstream ss; dst.dump(ss); field<LA> r(ss);
    if (std::string b = pass(r, 0, false, "reloaded"); !b.empty()) return b;
    if (std::string b = pass(r, 7, true, "reloaded, rewritten"); !b.empty()) return b;
  }
  {
    field<LA> cpy(dst);
    if (std::string b = pass(cpy, 0, false, "copied"); !b.empty()) return b;
    if (std::string b = pass(cpy, 3, true, "copied, rewritten"); !b.empty()) return b;
    if (std::string b = pass(dst, 0, false, "original after writes to its copy"); !b.empty()) return b;
  }
  {
    typename LA::configuration_t lcfg = dst.backend().get_configuration();
    field<LA> p(make_parameter_pack(std::move(lcfg), typename A::configuration_t{len}));
    if (std::string b = pass(p, 5, true, "built from configurations"); !b.empty()) return b;
  }
  if constexpr (std::is_constructible_v<typename LA::owning_data_t, const typename LA::configuration_t &, typename A::owning_data_t &&>) {
    typename LA::configuration_t lcfg = dst.backend().get_configuration();
    typename LA::owning_data_t od(lcfg, typename A::owning_data_t(typename A::configuration_t{len}));
    field<LA> q(make_parameter_pack(std::move(od)));
    if (std::string b = pass(q, 9, true, "built from a configuration and a backend"); !b.empty()) return b;
  }
  return "ok " + std::to_string(total) + " " + std::to_string(len);
}
template <int L, std::size_t N>
std::string runM(std::size_t M, const std::vector<u64> & sz) {
  switch (M) { case 1: return run<L, N, 1>(sz); case 2: return run<L, N, 2>(sz); case 3: return run<L, N, 3>(sz); case 4: return run<L, N, 4>(sz); }
  return "unsupported";
}
template <int L>
std::string runN(std::size_t N, std::size_t M, const std::vector<u64> & sz) {
  if constexpr (L == 3) { if (N == 2) return runM<L, 2>(M, sz); return "unsupported"; }
  else {
    switch (N) { case 1: return runM<L, 1>(M, sz); case 2: return runM<L, 2>(M, sz); case 3: return runM<L, 3>(M, sz); case 4: return runM<L, 4>(M, sz); }
    return "unsupported";
  }
}
// plain array with a non-default index type IX: `arrix <bits> <n>` -> "ok <n> <reported size>" | "bad <description>"
// (n may be exactly 2^bits: every index 0..n-1 is representable, the count itself is not)
template <typename IX> std::string arrix(u64 n) {
  using A = backend::array<vector::vector_d<T, 1>, IX>;
  field<A> f(make_parameter_pack(typename A::configuration_t{n}));
  u64 len = f.backend().get_configuration()[0];
  if (len != n) return "bad reported size " + std::to_string(len) + " for " + std::to_string(n) + " constructed cells";
  typename field<A>::view_t v(f);
  for (u64 k = 0; k < n; ++k) v.at(static_cast<IX>(k))[0] = static_cast<T>(k + 1);
  field<A> g(f);
  std::stringstream ss; f.dump(ss); field<A> h(ss);
  for (const field<A> * p : {&f, &g, &h}) {
    if (p->backend().get_configuration()[0] != n) return std::string("bad size after ") + (p == &g ? "copy" : p == &h ? "dump/load" : "writes");
    typename field<A>::view_t w(*p);
    for (u64 k = 0; k < n; ++k) if (w.at(static_cast<IX>(k))[0] != static_cast<T>(k + 1))
      return std::string("bad readback at ") + std::to_string(k) + (p == &g ? " (copy)" : p == &h ? " (dump/load)" : "");
  }
  return "ok " + std::to_string(n) + " " + std::to_string(len);
}
int main() {
  std::string line;
  while (std::getline(std::cin, line)) {
    std::istringstream is(line);
    std::string op, lay; std::size_t N = 0, M = 0;
    is >> op;
    if (op == "arrix") {
      u64 bits = 0, n = 0; is >> bits >> n;
      std::cout << (bits == 8 ? arrix<std::uint8_t>(n) : bits == 16 ? arrix<std::uint16_t>(n) : bits == 32 ? arrix<std::uint32_t>(n) : arrix<std::size_t>(n)) << std::endl;
      continue;
    }
    is >> lay >> N >> M;
    std::vector<u64> sz(N); for (auto & s : sz) is >> s;
    std::string r = "unsupported";
    if (lay == "strided") r = runN<0>(N, M, sz);
    else if (lay == "mortonT") r = runN<1>(N, M, sz);
    else if (lay == "mortonF") r = runN<2>(N, M, sz);
    else if (lay == "hilbert") r = runN<3>(N, M, sz);
    std::cout << r << std::endl;
  }
}
