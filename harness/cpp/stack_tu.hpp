#pragma once
// Support code for generated stack translation units (C02, C17; written by harness/stackgen.py).
// Protocol (one operation per line, one answer per line, flushed):
//   setup <name> <cfg words…> ; <cell words…>     build the field from a parameter pack            -> ok
//   at    <name> <coordinate words…>              both forms of field_view::at                      -> bits… | bits…
//   (C17) chain / packfor / rebuild operations, see stackgen.py
// All words are decimal bit patterns.
#include "ambient.hpp"
#include <covfie/core/backend/primitive/array.hpp>
#include <covfie/core/backend/primitive/constant.hpp>
#include <covfie/core/backend/primitive/identity.hpp>
#include <covfie/core/backend/transformer/affine.hpp>
#include <covfie/core/backend/transformer/backup.hpp>
#include <covfie/core/backend/transformer/clamp.hpp>
#include <covfie/core/backend/transformer/covariant_cast.hpp>
#include <covfie/core/backend/transformer/dereference.hpp>
#include <covfie/core/backend/transformer/hilbert.hpp>
#include <covfie/core/backend/transformer/linear.hpp>
#include <covfie/core/backend/transformer/morton.hpp>
#include <covfie/core/backend/transformer/nearest_neighbour.hpp>
#include <covfie/core/backend/transformer/shuffle.hpp>
#include <covfie/core/backend/transformer/strided.hpp>
#include <covfie/core/field.hpp>
#include <covfie/core/parameter_pack.hpp>
#include <cmath>
#include <cstring>
#include <iostream>
#include <memory>
#include <atomic>
#include <sstream>
#include <thread>
#include <string>
#include <type_traits>
#include <vector>
using namespace covfie;
using u64 = std::uint64_t;

template <typename T> T fromb(u64 b) {
  T v;
  if constexpr (sizeof(T) == 4) { std::uint32_t c = static_cast<std::uint32_t>(b); std::memcpy(&v, &c, 4); }
  else { static_assert(sizeof(T) == 8); std::memcpy(&v, &b, 8); }
  return v;
}
template <typename T> u64 bits(T v) {
  if constexpr (sizeof(T) == 4) { std::uint32_t b; std::memcpy(&b, &v, 4); return b; }
  else { static_assert(sizeof(T) == 8); u64 b; std::memcpy(&b, &v, 8); return b; }
}
struct In { std::vector<u64> cfg, cells, coord; };
// a coordinate component that int, unsigned (when >= 0), long and double all represent exactly
// (not -0.0: an integer argument cannot carry the sign of zero)
template <typename T> bool small_int(T x) {
  if constexpr (std::is_floating_point_v<T>) { if (x == T(0) && std::signbit(x)) return false; }
  return x >= static_cast<T>(-30000) * (std::is_signed_v<T> || std::is_floating_point_v<T> ? 1 : 0) && x <= static_cast<T>(30000) && static_cast<T>(static_cast<long>(x)) == x;
}

template <typename T, std::size_t M>
typename backend::array<vector::vector_d<T, M>>::owning_data_t mkArr(const std::vector<u64> & cells) {
  using A = backend::array<vector::vector_d<T, M>>;
  u64 n = cells.size() / M;
  typename A::owning_data_t o(n);
  typename A::non_owning_data_t v(o);
  for (u64 i = 0; i < n; ++i) for (std::size_t q = 0; q < M; ++q) v.at(i)[q] = fromb<T>(cells[i * M + q]);
  return o;
}
template <typename V, typename T, std::size_t N> V vec(const std::vector<u64> & w, std::size_t off) {
  V v;
  for (std::size_t k = 0; k < N; ++k) v[k] = fromb<T>(w[off + k]);
  return v;
}
template <std::size_t N, typename T> algebra::matrix<N, N + 1, T> mkMat(const std::vector<u64> & w, std::size_t off) {
  algebra::matrix<N, N + 1, T> m;
  for (std::size_t i = 0; i < N; ++i) for (std::size_t j = 0; j < N + 1; ++j) m(i, j) = fromb<T>(w[off + i * (N + 1) + j]);
  return m;
}
template <typename R> std::string out(const R & r, std::size_t M) {
  std::ostringstream os;
  for (std::size_t q = 0; q < M; ++q) os << (q ? " " : "") << bits(r[q]);
  return os.str();
}
template <typename R>
  requires requires(const R & r, std::size_t q) { bits(r[q]); }
void words(std::ostringstream & os, const R & r, std::size_t M) {
  for (std::size_t q = 0; q < M; ++q) os << " " << bits(r[q]);
}
template <std::size_t N, typename T, typename Mx>
  requires requires(const Mx & m, std::size_t i) { static_cast<T>(m(i, i)); }
void matWords(std::ostringstream & os, const Mx & m) {
  for (std::size_t i = 0; i < N; ++i) for (std::size_t j = 0; j < N + 1; ++j) os << " " << bits(static_cast<T>(m(i, j)));
}

std::string run(const std::string & op, const std::string & name, const In & in);

#define VF_MAIN \
int main() { \
  std::string line; \
  while (std::getline(std::cin, line)) { \
    vf::ambient(); \
    std::istringstream is(line); std::string op, name; is >> op >> name; In in; \
    std::vector<u64> * cur = (op == "at") ? &in.coord : &in.cfg; std::string t; \
    while (is >> t) { if (t == ";") { cur = (cur == &in.cfg) ? &in.cells : &in.coord; continue; } cur->push_back(std::stoull(t)); } \
    std::cout << run(op, name, in) << std::endl; \
  } \
}
