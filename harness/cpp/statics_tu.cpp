// C16 `no_static_state`: a translation unit that instantiates every layer of the library (construction, copy, move,
// view construction, lookup, dump, load) and is compiled to an object file; `nm -C` on it must show no writable
// static / thread-local symbol (and no guard variable) that comes from namespace covfie::.
// Deliberately free of harness-side statics and of the probe backend (whose own `static dummy` would be noise).
#include <covfie/core/algebra/affine.hpp>
#include <covfie/core/backend/primitive/array.hpp>
#include <covfie/core/backend/primitive/constant.hpp>
#include <covfie/core/backend/primitive/identity.hpp>
#include <covfie/core/backend/transformer/affine.hpp>
#include <covfie/core/backend/transformer/backup.hpp>
#include <covfie/core/backend/transformer/clamp.hpp>
#include <covfie/core/backend/transformer/covariant_cast.hpp>
#include <covfie/core/backend/transformer/dereference.hpp>
#include <covfie/core/backend/transformer/hilbert.hpp>
#include <covfie/core/backend/transformer/linear.hpp>
#include <covfie/core/backend/transformer/morton.hpp>
#include <covfie/core/backend/transformer/nearest_neighbour.hpp>
#include <covfie/core/backend/transformer/shuffle.hpp>
#include <covfie/core/backend/transformer/strided.hpp>
#include <covfie/core/field.hpp>
#include <covfie/core/utility/nd_map.hpp>
#include <covfie/core/utility/numeric.hpp>
#include <sstream>
using namespace covfie;

template <typename B>
float use(const field<B> & f, typename field<B>::coordinate_t c, std::iostream & s) {
  typename field<B>::view_t v(f);
  auto && r = v.at(c);
  float acc = 0.f;
  if constexpr (std::is_arithmetic_v<std::decay_t<decltype(r)>>) acc += static_cast<float>(r);
  else acc += static_cast<float>(r[0]);
  f.dump(s);
  field<B> g(s);
  field<B> h(g);
  h = g;
  field<B> k(std::move(h));
  h = std::move(k);
  typename field<B>::view_t v2(h);
  auto && r2 = v2.at(c);
  if constexpr (std::is_arithmetic_v<std::decay_t<decltype(r2)>>) acc += static_cast<float>(r2);
  else acc += static_cast<float>(r2[0]);
  return acc;
}

using A1 = backend::array<vector::float1>;
using A3 = backend::array<vector::float3>;
using AD = backend::array<vector::double2>;
using S2 = backend::strided<vector::size2, A1>;
using S3 = backend::strided<vector::size3, A3>;
using S3i = backend::strided<vector::vector_d<int, 3>, A3>;
using MT2 = backend::morton<vector::size2, A1, true>;
using MF2 = backend::morton<vector::size2, A1, false>;
using MT3 = backend::morton<vector::size3, A3, true>;
using MF3 = backend::morton<vector::size3, A3, false>;
using H2 = backend::hilbert<vector::size2, A1>;
using H2d = backend::hilbert<vector::size2, AD>;

#define INST(...) template float use<__VA_ARGS__>(const field<__VA_ARGS__> &, typename field<__VA_ARGS__>::coordinate_t, std::iostream &);
INST(A1) INST(A3) INST(AD)
INST(backend::constant<vector::float3, vector::float3>)
INST(backend::identity<vector::float2>)
INST(S2) INST(S3) INST(S3i) INST(MT2) INST(MF2) INST(MT3) INST(MF3) INST(H2) INST(H2d)
INST(backend::nearest_neighbour<S2>) INST(backend::nearest_neighbour<S3>) INST(backend::nearest_neighbour<MT3>)
INST(backend::nearest_neighbour<MF2>) INST(backend::nearest_neighbour<H2>)
INST(backend::nearest_neighbour<S3, vector::double3>)
INST(backend::linear<S2>) INST(backend::linear<S3>) INST(backend::linear<MT2>) INST(backend::linear<MF3>) INST(backend::linear<H2>)
INST(backend::linear<backend::strided<vector::size1, A1>>)
INST(backend::linear<backend::strided<vector::size4, A1>>)
INST(backend::affine<backend::linear<S3>>) INST(backend::affine<backend::nearest_neighbour<MT3>>)
INST(backend::clamp<S3i>) INST(backend::clamp<backend::linear<S3>>)
INST(backend::backup<S3i>) INST(backend::backup<backend::nearest_neighbour<S3>>)
INST(backend::shuffle<S3, std::index_sequence<2, 0, 1>>)
INST(backend::covariant_cast<double, backend::linear<S3>>)
INST(backend::dereference<S3>)
INST(backend::affine<backend::clamp<backend::linear<backend::shuffle<S3, std::index_sequence<1, 2, 0>>>>>)

// free utilities with loops / static helper functions (the index functions only where the layer still offers them as static
// members of this shape: they are not part of the field API)
template <typename L, typename... A>
std::size_t static_index(A &&... a) {
  if constexpr (requires { L::calculate_index(std::forward<A>(a)...); }) return static_cast<std::size_t>(L::calculate_index(std::forward<A>(a)...));
  else return 0;
}
std::size_t utilities(std::size_t a, std::size_t b) {
  std::size_t n = 0;
  utility::nd_map<utility::nd_size<3>>([&n](utility::nd_size<3> t) { n += t[0] + t[1] + t[2]; }, utility::nd_size<3>{a, b, 2});
  return n + utility::round_pow2(a) + utility::ipow(a, b) + static_index<MT3>(typename MT3::contravariant_input_t::vector_t{a, b, a}) +
         static_index<MF2>(typename MF2::contravariant_input_t::vector_t{a, b}) +
         static_index<H2>(typename H2::contravariant_input_t::vector_t{a, b}, utility::nd_size<2>{8, 8});
}

// layout / storage conversions between every pair of orderings (the copy routines of strided, morton and hilbert)
template <typename To, typename From>
float conv(const field<From> & f) {
  field<To> g(f);
  typename field<To>::view_t v(g);
  auto && r = v.at(typename field<To>::coordinate_t{});
  return static_cast<float>(r[0]);
}
#define CONV(To, From) template float conv<To, From>(const field<From> &);
CONV(S2, MT2) CONV(S2, MF2) CONV(S2, H2) CONV(MT2, S2) CONV(MF2, S2) CONV(H2, S2) CONV(MT2, H2) CONV(H2, MF2) CONV(MT2, MF2)
CONV(S3, MT3) CONV(S3, MF3) CONV(MT3, S3) CONV(MF3, S3) CONV(MT3, MF3) CONV(S2, S2)
CONV(backend::linear<S2>, backend::linear<MT2>) CONV(backend::nearest_neighbour<MT3>, backend::nearest_neighbour<S3>)
CONV(backend::affine<backend::linear<S3>>, backend::affine<backend::linear<MF3>>)
using SD2 = backend::strided<vector::size2, AD>;
using SF2 = backend::strided<vector::size2, backend::array<vector::float2>>;
CONV(H2d, SD2) CONV(SD2, H2d)

// positional construction, storage hand-over, cross-width load
float build(std::iostream & s) {
  field<S2> a(make_parameter_pack(S2::configuration_t{2, 3}));
  field<backend::linear<S2>> b(make_parameter_pack(backend::linear<S2>::configuration_t{}, std::move(a.backend())));
  field<SD2> d(make_parameter_pack(SD2::configuration_t{2, 3}));
  d.dump(s);
  field<SF2> e(s);
  field<SF2>::view_t v(e);
  return v.at(0u, 1u)[0] + field<backend::linear<S2>>::view_t(b).at(0.f, 0.f)[0];
}
