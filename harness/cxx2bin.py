"""Recogniser for `utility/binary_io.hpp` (DESIGN.md §11.6): the statements of read_io_header / read_io_footer /
write_io_header / write_io_footer must be the sentences the script language of lean/CovfieModel/Model/BinScript.lean has a
meaning for; `read_binary<T>` must be "declare a local, read sizeof(T) bytes into it or throw, return it"; the magic
numbers are read off as well."""
import re
from pathlib import Path
from harness.cxx2imp import strip_comments, Untranslatable, CORE, find_function
from harness.cxx2own import split, norm

KERNELS = {"read_io_header": "utility/binary_io.hpp read_io_header", "read_io_footer": "utility/binary_io.hpp read_io_footer",
           "write_io_header": "utility/binary_io.hpp write_io_header", "write_io_footer": "utility/binary_io.hpp write_io_footer",
           "read_binary": "utility/binary_io.hpp read_binary<T>", "magic": "utility/binary_io.hpp MAGIC_HEADER / MAGIC_FOOTER / footer offset"}


def _text(repo):
    return strip_comments((Path(repo) / CORE / "utility/binary_io.hpp").read_text())


def _rw(repo, name):
    text = _text(repo)
    ptxt, body = find_function(text, r"\b" + name)
    arg = "hdr" if "header" in name else "ftr"
    want = ("std::istream & fs, uint32_t " if name.startswith("read") else "std::ostream & fs, uint32_t ") + arg
    if norm(ptxt) != want:
        raise Untranslatable(f"{name}: parameter list {ptxt!r}")
    magic = "MAGIC_HEADER" if "header" in name else "MAGIC_FOOTER"
    items, words = [], {}
    for t in split(body):
        if t == f"{arg} += 0x20000000":
            items.append("bump"); continue
        if t == "return fs":
            items.append("ret"); continue
        m = re.fullmatch(r"uint32_t (\w+)(?: = 0)?, (\w+)(?: = 0)?", t)
        if m:
            words[m.group(1)], words[m.group(2)] = 1, 2
            continue
        m = re.fullmatch(r"(\w+) = read_binary<uint32_t>\(fs\)", t)
        if m and m.group(1) in words:
            items.append(f"(read {words[m.group(1)]})"); continue
        m = re.fullmatch(r"if \((\w+) != (\w+)\) \{ std::stringstream err; err << .*; throw std::runtime_error\(err\.str\(\)\); \}", t)
        if m and m.group(1) in words and m.group(2) in (magic, arg):
            items.append(f"(check {words[m.group(1)]} {magic if m.group(2) == magic else 'tag'})"); continue
        m = re.fullmatch(r"fs\.write\( ?reinterpret_cast<const char \*>\(&(\w+)\), ?sizeof\(decltype\((\w+)\)\) ?\)", t)
        if m and m.group(1) == m.group(2) and m.group(1) in (magic, arg):
            items.append(f"(write {magic if m.group(1) == magic else 'tag'})"); continue
        raise Untranslatable(f"{name}: statement `{t[:90]}`")
    return "(bin " + " ".join(items) + ")"


def translate(repo, k):
    try:
        if k in ("read_io_header", "read_io_footer", "write_io_header", "write_io_footer"):
            return _rw(repo, k)
        text = _text(repo)
        if k == "magic":
            h = re.search(r"MAGIC_HEADER\s*=\s*(0x[0-9A-Fa-f]+)", text)
            f = re.search(r"MAGIC_FOOTER\s*=\s*(0x[0-9A-Fa-f]+)", text)
            offs = set(re.findall(r"ftr\s*\+=\s*(0x[0-9A-Fa-f]+)", text))
            if not h or not f or len(offs) != 1:
                raise Untranslatable("magic numbers not found")
            return f"(magic {int(h.group(1), 16)} {int(f.group(1), 16)} {int(offs.pop(), 16)})"
        if k == "read_binary":
            ptxt, body = find_function(text, r"\bT\s+read_binary")
            if norm(ptxt) != "std::istream & fs":
                raise Untranslatable(f"read_binary: parameter list {ptxt!r}")
            st = [t for t in split(body) if not t.startswith("static_assert")]
            ok = (len(st) == 3 and st[0] == "T rv" and st[2] == "return rv" and
                  re.fullmatch(r"if \(!fs\.read\(reinterpret_cast<char \*>\(&rv\), sizeof\(T\)\)\) \{ throw std::runtime_error\( ?\".*\" ?\); \}", st[1]))
            if not ok:
                raise Untranslatable(f"read_binary: body {st}")
            return "(read_binary local read-or-throw return)"
    except Untranslatable:
        raise
    except (IndexError, KeyError, ValueError, TypeError, AttributeError) as e:
        raise Untranslatable(f"{type(e).__name__}: {e}")
    raise Untranslatable(k)


if __name__ == "__main__":
    import sys
    repo = sys.argv[sys.argv.index("--repo") + 1] if "--repo" in sys.argv else "/repo"
    for k in KERNELS:
        try:
            print(k, translate(repo, k))
        except Untranslatable as e:
            print(k, "UNTRANSLATABLE:", e)
