"""Recogniser for the *context* of the translated kernels (DESIGN.md §11.6): what a subscript `c[j]`, an element access `m(i, j)` /
`v(i)` and `nd_size` mean.  The kernel translators read `c[j]` as "element j of c" and `m(i, j)` as "entry (i, j) of m"; that is
only right if the accessors of `covfie::array::array`, `algebra::matrix`, `algebra::vector` are the plain element accesses they
are at the pinned revision.  Each accessor must match its sentence; the result is the list of sentence names."""
import re
from pathlib import Path
from harness.cxx2imp import strip_comments, Untranslatable, CORE


def norm(s):
    return re.sub(r"\s+", " ", s).strip()


SENTENCES = [
    ("array.hpp", "array-at-mut", r"COVFIE_DEVICE constexpr scalar_t & at\(const std::size_t & n\) \{ assert\(n < dimensions\); return m_data\[n\]; \}"),
    ("array.hpp", "array-at-const", r"COVFIE_DEVICE constexpr const scalar_t & at\(const std::size_t & n\) const \{ assert\(n < dimensions\); return m_data\[n\]; \}"),
    ("array.hpp", "array-index-mut", r"COVFIE_DEVICE constexpr scalar_t & operator\[\]\(const std::size_t & n\) \{ assert\(n < dimensions\); return m_data\[n\]; \}"),
    ("array.hpp", "array-index-const", r"COVFIE_DEVICE constexpr const scalar_t & operator\[\]\(const std::size_t & n ?\) const \{ assert\(n < dimensions\); return m_data\[n\]; \}"),
    ("array.hpp", "array-data", r"scalar_t m_data\[dimensions\];"),
    ("algebra/matrix.hpp", "matrix-elem-const", r"COVFIE_DEVICE T operator\(\)\(const I i, const I j\) const \{ return m_elems\[i\]\[j\]; \}"),
    ("algebra/matrix.hpp", "matrix-elem-mut", r"COVFIE_DEVICE T & operator\(\)\(const I i, const I j\) \{ return m_elems\[i\]\[j\]; \}"),
    ("algebra/matrix.hpp", "matrix-data", r"T m_elems\[N\]\[M\];"),
    ("algebra/vector.hpp", "vector-elem-const", r"COVFIE_DEVICE T operator\(\)\(const I & i\) const \{ return matrix<N, 1, T, I>::operator\(\)\(i, 0\); \}"),
    ("algebra/vector.hpp", "vector-elem-mut", r"COVFIE_DEVICE T & operator\(\)\(const I & i\) \{ return matrix<N, 1, T, I>::operator\(\)\(i, 0\); \}"),
    ("utility/nd_size.hpp", "nd-size", r"template <std::size_t N> using nd_size = array::array<std::size_t, N>;"),
]


def translate(repo, k="context"):
    got = []
    texts = {}
    for f, name, pat in SENTENCES:
        if f not in texts:
            try:
                texts[f] = norm(strip_comments((Path(repo) / CORE / f).read_text()))
            except OSError as e:
                raise Untranslatable(f"{f}: {e}")
        if len(re.findall(pat, texts[f])) != 1:
            raise Untranslatable(f"{f}: the sentence `{name}` does not occur exactly once")
        got.append(name)
    return "(context " + " ".join(got) + ")"


if __name__ == "__main__":
    import sys
    repo = sys.argv[sys.argv.index("--repo") + 1] if "--repo" in sys.argv else "/repo"
    try:
        print(translate(repo))
    except Untranslatable as e:
        print("UNTRANSLATABLE:", e)
