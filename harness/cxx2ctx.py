"""Recogniser for the *context* of the translated kernels (DESIGN.md §11.6): what a subscript `c[j]`, an element access `m(i, j)` /
`v(i)` and `nd_size` mean.  The kernel translators read `c[j]` as "element j of c" and `m(i, j)` as "entry (i, j) of m"; that is
only right if the accessors of `covfie::array::array`, `algebra::matrix`, `algebra::vector` are the plain element accesses they
are at the pinned revision.  Each accessor must match its sentence; the result is the list of sentence names."""
import re
from pathlib import Path
from harness.cxx2imp import strip_comments, Untranslatable, CORE


def norm(s):
    return re.sub(r"\s+", " ", s).strip()


SENTENCES = [
    ("array.hpp", "array-at-mut", r"COVFIE_DEVICE constexpr scalar_t & at\(const std::size_t & n\) \{ assert\(n < dimensions\); return m_data\[n\]; \}"),
    ("array.hpp", "array-at-const", r"COVFIE_DEVICE constexpr const scalar_t & at\(const std::size_t & n\) const \{ assert\(n < dimensions\); return m_data\[n\]; \}"),
    ("array.hpp", "array-index-mut", r"COVFIE_DEVICE constexpr scalar_t & operator\[\]\(const std::size_t & n\) \{ assert\(n < dimensions\); return m_data\[n\]; \}"),
    ("array.hpp", "array-index-const", r"COVFIE_DEVICE constexpr const scalar_t & operator\[\]\(const std::size_t & n ?\) const \{ assert\(n < dimensions\); return m_data\[n\]; \}"),
    ("array.hpp", "array-data", r"scalar_t m_data\[dimensions\];"),
    ("algebra/matrix.hpp", "matrix-elem-const", r"COVFIE_DEVICE T operator\(\)\(const I i, const I j\) const \{ return m_elems\[i\]\[j\]; \}"),
    ("algebra/matrix.hpp", "matrix-elem-mut", r"COVFIE_DEVICE T & operator\(\)\(const I i, const I j\) \{ return m_elems\[i\]\[j\]; \}"),
    ("algebra/matrix.hpp", "matrix-data", r"T m_elems\[N\]\[M\];"),
    ("algebra/vector.hpp", "vector-elem-const", r"COVFIE_DEVICE T operator\(\)\(const I & i\) const \{ return matrix<N, 1, T, I>::operator\(\)\(i, 0\); \}"),
    ("algebra/vector.hpp", "vector-elem-mut", r"COVFIE_DEVICE T & operator\(\)\(const I & i\) \{ return matrix<N, 1, T, I>::operator\(\)\(i, 0\); \}"),
    ("utility/nd_size.hpp", "nd-size", r"template <std::size_t N> using nd_size = array::array<std::size_t, N>;"),
]


PDEP = [
    ("shiftl", r"template <Ox S> struct shiftl \{ static constexpr Ox value = static_cast<Ox>\(1\) << S; \};"),
    ("mask-bits-J-mod-N", r"static constexpr Ox value = \(\(std::conditional_t< Js % N == 0, std::integral_constant<Ox, shiftl<Js>::value>, "
                          r"std::integral_constant<Ox, 0>>::value\) \| \.\.\.\);"),
    ("mask-over-all-bits-shifted-by-I", r"static constexpr Ox value = get_mask_helper< std::make_index_sequence<CHAR_BIT \* sizeof\(Ox\)>>::value << I;"),
    ("or-of-pdep", r"template <typename C, std::size_t\.\.\. Idxs> static constexpr Ox compute\(C c, std::index_sequence<Idxs\.\.\.>\) "
                   r"\{ return \(_pdep_u64\(c\[Idxs\], get_mask<Idxs>::value\) \| \.\.\.\); \}"),
    ("over-N-coordinates", r"template <typename C, typename Ids = std::make_index_sequence<N>> static constexpr Ox compute\(C c\) "
                           r"\{ return compute\(std::forward<C>\(c\), Ids\{\}\); \}"),
    ("selected-iff-bmi2", r"#ifdef HAVE_BMI2 if constexpr \(use_bmi2\) \{ return morton_pdep_mask< typename contravariant_input_t::scalar_t, "
                          r"typename contravariant_output_t::scalar_t, contravariant_input_t::dimensions>::compute\(c\); \} else \{"),
]


def translate_pdep(repo):
    """the BMI2 path of morton::calculate_index: a template metaprogram, recognised sentence by sentence
    (model: `mortonMask N I` = bits J < 64 with J mod N = 0, shifted by I; `mortonPdep` = OR over the coordinates of pdep)"""
    try:
        text = norm(strip_comments((Path(repo) / CORE / "backend/transformer/morton.hpp").read_text()))
    except OSError as e:
        raise Untranslatable(str(e))
    got = []
    for name, pat in PDEP:
        if len(re.findall(pat, text)) != 1:
            raise Untranslatable(f"morton.hpp: the sentence `{name}` does not occur exactly once")
        got.append(name)
    return "(pdep " + " ".join(got) + ")"


def translate(repo, k="context"):
    if k == "morton_pdep":
        return translate_pdep(repo)
    got = []
    texts = {}
    for f, name, pat in SENTENCES:
        if f not in texts:
            try:
                texts[f] = norm(strip_comments((Path(repo) / CORE / f).read_text()))
            except OSError as e:
                raise Untranslatable(f"{f}: {e}")
        if len(re.findall(pat, texts[f])) != 1:
            raise Untranslatable(f"{f}: the sentence `{name}` does not occur exactly once")
        got.append(name)
    return "(context " + " ".join(got) + ")"


if __name__ == "__main__":
    import sys
    repo = sys.argv[sys.argv.index("--repo") + 1] if "--repo" in sys.argv else "/repo"
    for k in ("context", "morton_pdep"):
        try:
            print(translate(repo, k))
        except Untranslatable as e:
            print(k, "UNTRANSLATABLE:", e)
