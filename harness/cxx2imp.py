"""Kernel translator: C++ source text of the small integer kernels of covfie  ->  the `Covfie.Imp` language
(lean/CovfieModel/Model/Imp.lean).  DESIGN.md §11.6.

The translator reads the *current* source text under <repo>/lib/core/covfie/core, cuts out one function body per
kernel, parses the C++ subset those bodies are written in (declarations, for / while / if, compound assignment,
++, return, calls of another translated function with pointer out-parameters, subscripts, static_cast, the usual
operators) and prints a canonical s-expression.  The Lean library holds the same s-expression as a term
(`Covfie.Imp.Ref.*`, printed back by `impcheck print`) and proves theorems about *that term* under the semantics
`Covfie.Imp.exec`.  Equal text => the theorems speak about the code as written.  Anything the translator does not
understand raises `Untranslatable`: the tie through translation is then lost (the behavioural tie remains).

Width classes: `T` = the kernel's own scalar type (template parameter), `S` = std::size_t / unsigned long (64 bit).
An arithmetic node is computed at `S` if either operand is `S`, else at `T` if either is `T`, else at `S`
(integer literals adapt to the other operand; the kernels never mix a narrower-than-int `T` with a literal in a way
the promotion to `int` would show, apart from `ipow`'s `i *= i`, DESIGN.md §11.3).
"""
import re
from pathlib import Path


class Untranslatable(Exception):
    pass


# ------------------------------------------------------------------------------------------------ tokens
TOK = re.compile(r"""
    (?P<ws>\s+)
  | (?P<num>0[xX][0-9a-fA-F]+[uUlL]*|\d+[uUlL]*)
  | (?P<id>[A-Za-z_][A-Za-z_0-9]*(?:::[A-Za-z_][A-Za-z_0-9]*)*)
  | (?P<op><<=|>>=|\+\+|--|\|\||&&|<=|>=|==|!=|\+=|-=|\*=|/=|%=|\|=|&=|\^=|<<|>>|->|[-+*/%&|^~!<>=?:;,.(){}\[\]])
""", re.X)


def tokenize(src):
    out, i = [], 0
    while i < len(src):
        m = TOK.match(src, i)
        if not m:
            raise Untranslatable(f"cannot tokenize at: {src[i:i+30]!r}")
        i = m.end()
        if m.lastgroup == "ws":
            continue
        out.append((m.lastgroup, m.group(m.lastgroup)))
    return out


def strip_comments(s):
    s = re.sub(r"/\*.*?\*/", " ", s, flags=re.S)
    return re.sub(r"//[^\n]*", " ", s)


def preprocess(text, defined=()):
    """Evaluates #ifdef / #ifndef / #else / #endif for the given set of defined macros; drops other directives."""
    out, stack = [], []
    text = re.sub(r"\\\n", " ", text)
    for line in text.splitlines():
        s = line.strip()
        if s.startswith("#"):
            d = s[1:].strip()
            if d.startswith("ifdef"):
                stack.append(d.split()[1] in defined)
            elif d.startswith("ifndef"):
                stack.append(d.split()[1] not in defined)
            elif d.startswith("if "):  # only the feature test that defines HAVE_BMI2 (decided by `defined`)
                if "HAVE_BMI2" not in "".join(text.splitlines()[text.splitlines().index(line) + 1:][:1]):
                    raise Untranslatable("#if expression")
                stack.append(False)
            elif d.startswith("else"):
                stack[-1] = not stack[-1]
            elif d.startswith("endif"):
                stack.pop()
            continue
        if all(stack):
            out.append(line)
    return "\n".join(out)


def find_function(text, name_re, after=None):
    """Returns (parameter text, body text) of the first function whose declarator matches `name_re` followed by '('
    and which has a body.  `after`: only look behind the first match of that regex."""
    start = 0
    if after:
        m = re.search(after, text)
        if not m:
            raise Untranslatable(f"anchor {after!r} not found")
        start = m.end()
    for m in re.finditer(name_re + r"\s*\(", text[start:]):
        i = start + m.end()
        depth, j = 1, i
        while depth and j < len(text):
            depth += {"(": 1, ")": -1}.get(text[j], 0)
            j += 1
        params = text[i:j - 1]
        k = j
        while k < len(text) and text[k] not in "{;":
            k += 1
        if k >= len(text) or text[k] == ";":
            continue
        depth, e = 1, k + 1
        while depth and e < len(text):
            depth += {"{": 1, "}": -1}.get(text[e], 0)
            e += 1
        return params, text[k + 1:e - 1]
    raise Untranslatable(f"function {name_re!r} not found")


# ------------------------------------------------------------------------------------------------ parser
BINPREC = [  # lowest first
    ["||"], ["&&"], ["|"], ["^"], ["&"], ["==", "!="], ["<", "<=", ">", ">="], ["<<", ">>"], ["+", "-"], ["*", "/", "%"],
]
OPNAME = {"||": "lor", "&&": "land", "|": "bor", "^": "bxor", "&": "band", "==": "eq", "!=": "ne", "<": "lt", "<=": "le",
          ">": "gt", ">=": "ge", "<<": "shl", ">>": "shr", "+": "add", "-": "sub", "*": "mul", "/": "div", "%": "mod"}
CMP = {"lt", "le", "gt", "ge", "eq", "ne", "land", "lor"}


class Ctx:
    """Per-kernel symbol tables: scalar variables (name -> (index, width class)), arrays (name -> (index, element class)),
    symbolic constants (source spelling -> scalar variable), type spellings (-> width class), inlinable callees."""

    def __init__(self, types, consts, callees=None):
        self.types = dict(types)
        self.sc, self.ar = {}, {}
        self.consts = dict(consts)
        self.callees = callees or {}
        self.fresh = 0

    def scalar(self, name, wd):
        if name in self.sc or name in self.ar:
            raise Untranslatable(f"redeclaration of {name}")
        self.sc[name] = (len(self.sc), wd)

    def array(self, name, wd):
        self.ar[name] = (len(self.ar), wd)


class Parser:
    def __init__(self, toks, ctx, rename=None):
        self.t, self.i, self.c = toks, 0, ctx
        self.rename = rename or {}

    # -- token helpers
    def peek(self, k=0):
        return self.t[self.i + k] if self.i + k < len(self.t) else ("eof", "")

    def eat(self, val=None):
        tok = self.peek()
        if val is not None and tok[1] != val:
            raise Untranslatable(f"expected {val!r}, found {tok[1]!r}")
        self.i += 1
        return tok

    def at(self, val):
        return self.peek()[1] == val

    # -- types
    def try_type(self):
        """If a type spelling known to this kernel starts here, consumes it and returns its width class."""
        save = self.i
        words = []
        if self.at("const"):
            self.eat()
        if self.at("typename"):
            self.eat()
        while self.peek()[0] == "id":
            words.append(self.eat()[1])
            sp = " ".join(words)
            if sp in self.c.types and not (self.peek()[0] == "id" and " ".join(words + [self.peek()[1]]) in self.c.types):
                return self.c.types[sp]
            if len(words) >= 3:
                break
        self.i = save
        return None

    # -- expressions: returns (sexp, class) with class in T, S, lit, bool
    def name(self, n):
        return self.rename.get(n, n)

    def primary(self):
        kind, v = self.peek()
        if kind == "num":
            self.eat()
            digits = v.rstrip("uUlL")
            n = int(digits, 16) if digits.lower().startswith("0x") else int(digits)
            cls = "S" if "l" in v.lower() else "lit"
            return f"(lit {n})", cls
        if v == "(":
            self.eat()
            e = self.expr()
            self.eat(")")
            return e
        if v == "static_cast":
            self.eat()
            self.eat("<")
            wd = self.try_type()
            if wd is None:
                raise Untranslatable("static_cast to an unknown type")
            self.eat(">")
            self.eat("(")
            e, cls = self.expr()
            self.eat(")")
            if e.startswith("(lit "):
                return e, wd
            return f"(cast {wd} {e})", wd
        if kind == "id":
            self.eat()
            n = self.name(v)
            if n in self.c.consts:
                n = self.c.consts[n]
            if self.at("["):
                if n not in self.c.ar:
                    raise Untranslatable(f"subscript of {n}")
                self.eat("[")
                e, _ = self.expr()
                self.eat("]")
                a, wd = self.c.ar[n]
                return f"(idx {a} {e})", wd
            if n in self.c.sc:
                i, wd = self.c.sc[n]
                return f"(var {i})", wd
            raise Untranslatable(f"unknown identifier {v}")
        raise Untranslatable(f"unexpected token {v!r}")

    def unary(self):
        v = self.peek()[1]
        if v == "*":  # dereference of a pointer parameter: the variable itself
            self.eat()
            return self.unary()
        if v == "!":
            self.eat()
            e, _ = self.unary()
            return f"(lnot {e})", "bool"
        if v in ("-", "~", "&", "+"):
            raise Untranslatable(f"unary {v}")
        return self.primary()

    def binary(self, level):
        if level == len(BINPREC):
            return self.unary()
        l, lc = self.binary(level + 1)
        while self.peek()[0] == "op" and self.peek()[1] in BINPREC[level]:
            op = OPNAME[self.eat()[1]]
            r, rc = self.binary(level + 1)
            wd = "S" if "S" in (lc, rc) else "T" if "T" in (lc, rc) else "S"
            l = f"(bin {op} {wd} {l} {r})"
            lc = "bool" if op in CMP else wd
        return l, lc

    def expr(self):
        e = self.binary(0)
        if self.at("?"):
            raise Untranslatable("conditional expression")
        return e

    # -- statements
    def assign_to(self, n, e):
        i, wd = self.c.sc[n]
        return f"(assign {i} {wd} {e})"

    def simple(self):
        """expression statement without the terminating ';' / ')' : assignment, compound assignment, ++, call"""
        kind, v = self.peek()
        if v == "++" or v == "--":
            self.eat()
            tgt = self.lvalue()
            i, wd = self.c.sc[tgt]
            return f"(assign {i} {wd} (bin {'add' if v == '++' else 'sub'} {wd} (var {i}) (lit 1)))"
        if kind == "id" and self.name(v) in self.c.callees and self.peek(1)[1] == "(":
            return self.call()
        tgt = self.lvalue()
        op = self.eat()[1]
        i, wd = self.c.sc[tgt]
        if op in ("++", "--"):
            return f"(assign {i} {wd} (bin {'add' if op == '++' else 'sub'} {wd} (var {i}) (lit 1)))"
        if op == "=":
            e, _ = self.expr()
            return f"(assign {i} {wd} {e})"
        if op.endswith("=") and op[:-1] in OPNAME:
            e, ec = self.expr()
            w2 = "S" if "S" in (wd, ec) else "T" if "T" in (wd, ec) else "S"
            return f"(assign {i} {wd} (bin {OPNAME[op[:-1]]} {w2} (var {i}) {e}))"
        raise Untranslatable(f"statement operator {op!r}")

    def lvalue(self):
        while self.at("*"):
            self.eat()
        kind, v = self.eat()
        n = self.name(v)
        if kind != "id" or n not in self.c.sc:
            raise Untranslatable(f"assignment to {v!r}")
        return n

    def call(self):
        fname = self.name(self.eat()[1])
        params, body = self.c.callees[fname]
        self.eat("(")
        args = []
        while not self.at(")"):
            if self.at("&"):
                self.eat()
            kind, v = self.eat()
            if kind != "id" or self.name(v) not in self.c.sc:
                raise Untranslatable("call argument that is not a plain variable")
            args.append(self.name(v))
            if self.at(","):
                self.eat()
        self.eat(")")
        pnames = [re.sub(r".*[\s*&]", "", p.strip()) for p in params.split(",")]
        if len(pnames) != len(args):
            raise Untranslatable("arity of an inlined call")
        ren = dict(zip(pnames, args))
        sub = Parser(tokenize(body), self.c, ren)
        sub.inl = fname
        return sub.block_items()

    def decl(self, wd):
        out = []
        while True:
            while self.at("*"):
                self.eat()
            n = self.eat()[1]
            if self.rename:  # a local of an inlined callee
                key = n
                n = f"{getattr(self, 'inl', 'f')}.{n}"
                self.rename[key] = n
                if n in self.c.sc:  # second inlining of the same callee re-uses its locals
                    pass
                else:
                    self.c.scalar(n, wd)
            else:
                self.c.scalar(n, wd)
            if self.at("="):
                self.eat()
                e, _ = self.expr()
                out.append(self.assign_to(n, e))
            if self.at(","):
                self.eat()
                continue
            break
        return out

    def statement(self):
        kind, v = self.peek()
        if v == "{":
            self.eat()
            s = self.block_items()
            self.eat("}")
            return s
        if v == ";":
            self.eat()
            return "skip"
        if v == "for":
            self.eat()
            self.eat("(")
            init = "skip"
            if not self.at(";"):
                wd = self.try_type()
                init = seq(self.decl(wd)) if wd else self.simple()
            self.eat(";")
            cond = "(lit 1)" if self.at(";") else self.expr()[0]
            self.eat(";")
            step = "skip" if self.at(")") else self.simple()
            self.eat(")")
            body = self.statement()
            return seq([init, f"(while {cond} {seq([body, step])})"])
        if v == "while":
            self.eat()
            self.eat("(")
            cond = self.expr()[0]
            self.eat(")")
            return f"(while {cond} {self.statement()})"
        if v == "if":
            self.eat()
            if self.at("constexpr"):
                raise Untranslatable("if constexpr")
            self.eat("(")
            cond = self.expr()[0]
            self.eat(")")
            th = self.statement()
            el = "skip"
            if self.at("else"):
                self.eat()
                el = self.statement()
            return f"(ite {cond} {th} {el})"
        if v == "return":
            self.eat()
            if self.i + 1 < len(self.t) and any(t[1] == "}" for t in self.t[self.i:]) and self.rename:
                raise Untranslatable("return inside an inlined callee")
            e = self.return_expr()
            self.eat(";")
            if self.peek()[0] != "eof":
                raise Untranslatable("return that is not the last statement")
            return self.assign_to("ret", e)
        if v == "assert":
            depth = 0
            while True:
                t = self.eat()[1]
                depth += {"(": 1, ")": -1}.get(t, 0)
                if depth == 0 and t == ")":
                    break
            self.eat(";")
            return "skip"
        wd = self.try_type()
        if wd:
            s = seq(self.decl(wd))
            self.eat(";")
            return s
        s = self.simple()
        self.eat(";")
        return s

    def return_expr(self):
        # `return m_storage.at({idx});` : the flat index handed to the backend is the kernel's result
        if self.peek()[1] == "m_storage" and self.peek(1)[1] == ".":
            for v in ("m_storage", ".", "at", "(", "{"):
                self.eat(v)
            e, _ = self.expr()
            self.eat("}")
            self.eat(")")
            return e
        return self.expr()[0]

    def block_items(self):
        items = []
        while self.peek()[0] != "eof" and not self.at("}"):
            items.append(self.statement())
        return seq(items)


def seq(items):
    items = [x for x in items if x != "skip"] or ["skip"]
    s = items[-1]
    for x in reversed(items[:-1]):
        s = f"(seq {x} {s})"
    return s


# ------------------------------------------------------------------------------------------------ kernels
CORE = "lib/core/covfie/core"
SCALAR_T = "contravariant_input_t::scalar_t"


def _numeric(repo, fn, params):
    text = strip_comments((Path(repo) / CORE / "utility/numeric.hpp").read_text())
    ptxt, body = find_function(text, r"\bT\s+" + fn)
    if [p.strip() for p in ptxt.split(",")] != [f"T {p}" for p in params]:
        raise Untranslatable(f"{fn}: parameter list {ptxt!r}")
    c = Ctx({"T": "T"}, {})
    for p in params:
        c.scalar(p, "T")
    c.scalar("ret", "T")
    return Parser(tokenize(body), c).block_items(), c


def k_round_pow2(repo):
    return _numeric(repo, "round_pow2", ["i"])


def k_ipow(repo):
    return _numeric(repo, "ipow", ["i", "p"])


def k_hilbert_index(repo):
    text = strip_comments((Path(repo) / CORE / "backend/transformer/hilbert.hpp").read_text())
    text = preprocess(text)
    rparams, rbody = find_function(text, r"\brot")
    ptxt, body = find_function(text, r"\bcalculate_index")
    if not re.fullmatch(r"\s*coordinate_t\s+c\s*,\s*utility::nd_size<\s*contravariant_input_t::dimensions\s*>\s+sizes\s*", ptxt):
        raise Untranslatable(f"hilbert calculate_index: parameter list {ptxt!r}")
    c = Ctx({"std::size_t": "S", "size_t": "S"}, {}, {"rot": (rparams, rbody)})
    c.array("c", "T")
    c.array("sizes", "S")
    c.scalar("ret", "S")
    return Parser(tokenize(body), c).block_items(), c


def _morton(repo, defined, pick):
    text = strip_comments((Path(repo) / CORE / "backend/transformer/morton.hpp").read_text())
    text = preprocess(text, defined)
    ptxt, body = find_function(text, r"\bcalculate_index", after=r"struct\s+morton\s*\{")
    if not re.fullmatch(r"\s*typename\s+contravariant_input_t::vector_t\s+c\s*", ptxt):
        raise Untranslatable(f"morton calculate_index: parameter list {ptxt!r}")
    if pick == "else":  # the `else` branch of `if constexpr (use_bmi2)`
        m = re.search(r"if\s+constexpr\s*\(\s*use_bmi2\s*\)\s*\{", body)
        if not m:
            raise Untranslatable("morton: no `if constexpr (use_bmi2)`")
        depth, e = 1, m.end()
        while depth:
            depth += {"{": 1, "}": -1}.get(body[e], 0)
            e += 1
        rest = body[e:].strip()
        if not rest.startswith("else"):
            raise Untranslatable("morton: no else branch")
        rest = rest[4:].strip()
        depth, e = 1, 1
        while depth:
            depth += {"{": 1, "}": -1}.get(rest[e], 0)
            e += 1
        if rest[e:].strip():
            raise Untranslatable("morton: code after the else branch")
        body = rest[1:e - 1]
    body = re.sub(r"CHAR_BIT\s*\*\s*sizeof\s*\(\s*typename\s+contravariant_output_t::scalar_t\s*\)", "OBITS", body)
    c = Ctx({"std::size_t": "S", "size_t": "S"}, {"contravariant_input_t::dimensions": "N"})
    c.array("c", "T")
    c.scalar("N", "S")
    c.scalar("OBITS", "S")
    c.scalar("ret", "S")
    return Parser(tokenize(body), c).block_items(), c


def k_morton_index(repo):
    return _morton(repo, (), None)


def k_morton_index_bmi2_off(repo):
    return _morton(repo, ("HAVE_BMI2",), "else")


def k_strided_index(repo):
    text = strip_comments((Path(repo) / CORE / "backend/transformer/strided.hpp").read_text())
    text = preprocess(text, ("NDEBUG",))
    ptxt, body = find_function(text, r"\bat", after=r"struct\s+non_owning_data_t\s*\{")
    if not re.fullmatch(r"\s*coordinate_t\s+c\s*", ptxt):
        raise Untranslatable(f"strided at: parameter list {ptxt!r}")
    c = Ctx({"std::size_t": "S", "size_t": "S", SCALAR_T: "T"}, {"contravariant_input_t::dimensions": "N"})
    c.array("c", "T")
    c.array("m_sizes", "S")
    c.scalar("N", "S")
    c.scalar("ret", "T")
    return Parser(tokenize(body), c).block_items(), c


def k_strided_copy_index(repo):
    """the flat position `make_strided_copy` writes to: the index loop inside the lambda handed to nd_map (result: `idx`)"""
    text = strip_comments((Path(repo) / CORE / "backend/transformer/strided.hpp").read_text())
    text = preprocess(text, ("NDEBUG",))
    ptxt, body = find_function(text, r"\bmake_strided_copy")
    m = re.search(r"\[&sizes, &nother, &res\]\(decltype\(sizes\) t\) \{", re.sub(r"\s+", " ", body))
    if not m:
        raise Untranslatable("make_strided_copy: lambda not found")
    flat = re.sub(r"\s+", " ", body)
    rest = flat[m.end():]
    stop = rest.find("typename contravariant_input_t::vector_t c;")
    if stop < 0:
        raise Untranslatable("make_strided_copy: end of the index loop not found")
    c = Ctx({"std::size_t": "S", "size_t": "S", SCALAR_T: "T"}, {"contravariant_input_t::dimensions": "N"})
    c.array("t", "S")
    c.array("sizes", "S")
    c.scalar("N", "S")
    return Parser(tokenize(rest[:stop]), c).block_items(), c


KERNELS = {
    "round_pow2": (k_round_pow2, "utility/numeric.hpp round_pow2"),
    "ipow": (k_ipow, "utility/numeric.hpp ipow"),
    "hilbert_index": (k_hilbert_index, "backend/transformer/hilbert.hpp calculate_index (rot inlined)"),
    "morton_index": (k_morton_index, "backend/transformer/morton.hpp calculate_index, build without BMI2"),
    "morton_index_bmi2_off": (k_morton_index_bmi2_off, "backend/transformer/morton.hpp calculate_index, BMI2 build, use_bmi2 = false"),
    "strided_index": (k_strided_index, "backend/transformer/strided.hpp non_owning_data_t::at, flat index"),
    "strided_copy_index": (k_strided_copy_index, "backend/transformer/strided.hpp make_strided_copy, flat index written to (variable idx)"),
}


def translate(repo, kernel):
    """-> (s-expression, {'scalars': [...names by index], 'arrays': [...]})  or raises Untranslatable"""
    try:
        sexp, c = KERNELS[kernel][0](repo)
    except Untranslatable:
        raise
    except (IndexError, KeyError, AttributeError, ValueError, TypeError) as e:
        raise Untranslatable(f"{type(e).__name__}: {e}")
    return sexp, {"scalars": [n for n, _ in sorted(c.sc.items(), key=lambda kv: kv[1][0])],
                  "arrays": [n for n, _ in sorted(c.ar.items(), key=lambda kv: kv[1][0])]}


# ------------------------------------------------------------------------------------------------ Lean emitter
def parse_sexp(s):
    toks = re.findall(r"\(|\)|[^\s()]+", s)
    pos = 0

    def go():
        nonlocal pos
        t = toks[pos]
        pos += 1
        if t == "(":
            lst = []
            while toks[pos] != ")":
                lst.append(go())
            pos += 1
            return lst
        return t
    r = go()
    assert pos == len(toks)
    return r


def to_lean(x, ind=2):
    """Lean term of type Covfie.Imp.Stmt / Expr for a parsed s-expression"""
    if x == "skip":
        return ".skip"
    h = x[0]
    if h == "lit":
        return f"(.lit {x[1]})"
    if h == "var":
        return f"(.var {x[1]})"
    if h == "idx":
        return f"(.idx {x[1]} {to_lean(x[2])})"
    if h == "bin":
        return f"(.bin .{x[1]} .{x[2]} {to_lean(x[3])} {to_lean(x[4])})"
    if h == "lnot":
        return f"(.lnot {to_lean(x[1])})"
    if h == "cast":
        return f"(.cast .{x[1]} {to_lean(x[2])})"
    if h == "assign":
        return f"(.assign {x[1]} .{x[2]} {to_lean(x[3])})"
    pad = "\n" + " " * ind
    if h == "seq":
        return f"(.seq{pad}{to_lean(x[1], ind + 2)}{pad}{to_lean(x[2], ind + 2)})"
    if h == "ite":
        return f"(.ite {to_lean(x[1])}{pad}{to_lean(x[2], ind + 2)}{pad}{to_lean(x[3], ind + 2)})"
    if h == "while":
        return f"(.while {to_lean(x[1])}{pad}{to_lean(x[2], ind + 2)})"
    raise ValueError(h)


def emit_ref(repo):
    out = ["import CovfieModel.Model.Imp",
           "/-! GENERATED by `python3 -m harness.cxx2imp --emit-ref` from the kernels of the tree the proofs were written against.",
           "Do not edit: `Props/Translated.lean` proves theorems about these terms, and every check compares the translation of the",
           "*current* source text with them (`impcheck print`). -/",
           "namespace Covfie.Imp.Ref", ""]
    for k, (_, where) in KERNELS.items():
        sexp, names = translate(repo, k)
        out.append(f"/-- `{where}`; scalars {names['scalars']}, arrays {names['arrays']} -/")
        out.append(f"def {k} : Stmt :=\n  {to_lean(parse_sexp(sexp), 4)}\n")
    out.append("def all : List (String × Stmt) :=\n  [" + ",\n   ".join(f'("{k}", {k})' for k in KERNELS) + "]\n")
    out.append("end Covfie.Imp.Ref")
    return "\n".join(out) + "\n"


if __name__ == "__main__":
    import sys
    repo = "/repo"
    if "--repo" in sys.argv:
        repo = sys.argv[sys.argv.index("--repo") + 1]
    if "--emit-ref" in sys.argv:
        sys.stdout.write(emit_ref(repo))
    else:
        for k in KERNELS:
            try:
                s, names = translate(repo, k)
                print(k, names, "\n  ", s)
            except Untranslatable as e:
                print(k, "UNTRANSLATABLE:", e)
