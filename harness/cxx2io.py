"""Recogniser for the `write_binary` / `read_binary` members of the layers (DESIGN.md §11.6): each statement must be one of the
sentences the IO-script language of lean/CovfieModel/Model/IOScript.lean has a meaning for — header, footer, a raw write of one
data member / a typed read of one, the inner layer's writer / reader, the final `return owning_data_t(…)`.  Result:
   (io <tag> (write H (coord) (coord) I F) (read H (coord) (coord) I F))
with the tag taken from the struct's `IO_MAGIC_HEADER`.  The array layer's members (width word, count, element loop with
conversion) are not scripts of this kind; they are tied behaviourally only."""
import re
from pathlib import Path
from harness.cxx2imp import strip_comments, Untranslatable, CORE, find_function

LAYERS = {
    "io_constant": "backend/primitive/constant.hpp", "io_identity": "backend/primitive/identity.hpp",
    "io_strided": "backend/transformer/strided.hpp", "io_morton": "backend/transformer/morton.hpp", "io_hilbert": "backend/transformer/hilbert.hpp",
    "io_clamp": "backend/transformer/clamp.hpp", "io_backup": "backend/transformer/backup.hpp", "io_affine": "backend/transformer/affine.hpp",
    "io_linear": "backend/transformer/linear.hpp", "io_nearest_neighbour": "backend/transformer/nearest_neighbour.hpp",
    "io_shuffle": "backend/transformer/shuffle.hpp", "io_covariant_cast": "backend/transformer/covariant_cast.hpp",
    "io_dereference": "backend/transformer/dereference.hpp",
}
# data member (as written) / type read -> kind of serialised field
MEMBER_KIND = {"m_min": "coord", "m_max": "coord", "m_default": "out", "m_sizes": "sizes", "m_transform": "matrix", "m_value": "value"}
TYPE_KIND = {"decltype(m_min)": "coord", "decltype(m_max)": "coord", "decltype(m_default)": "out", "decltype(m_sizes)": "sizes",
             "configuration_t": "matrix", "decltype(m_transform)": "matrix", "typename covariant_output_t::vector_t": "value",
             "decltype(m_value)": "value"}
INNER = r"(?:backend_t::owning_data_t|decltype\(m_(?:storage|backend)\))"


def norm(s):
    return re.sub(r"\s+", " ", s).strip()


def stmts(body):
    return [norm(x) for x in body.split(";") if x.strip()]


def translate(repo, layer):
    path = Path(repo) / CORE / LAYERS[layer]
    text = strip_comments(path.read_text())
    m = re.search(r"struct\s+owning_data_t\s*\{", text)
    if not m:
        raise Untranslatable("owning_data_t not found")
    own = text[m.end():]
    try:
        _, wbody = find_function(own, r"static\s+void\s+write_binary")
        _, rbody = find_function(own, r"static\s+owning_data_t\s+read_binary")
        tm = re.search(r"IO_MAGIC_HEADER\s*=\s*(0x[0-9A-Fa-f]+)", text)
        w = []
        for t in stmts(wbody):
            if t == "utility::write_io_header(fs, IO_MAGIC_HEADER)":
                w.append("H")
            elif t == "utility::write_io_footer(fs, IO_MAGIC_HEADER)":
                w.append("F")
            elif re.fullmatch(INNER + r"::write_binary\(fs, o\.m_(?:storage|backend)\)", t):
                w.append("I")
            else:
                mm = re.fullmatch(r"fs\.write\( ?reinterpret_cast<const char \*>\(&o\.(m_\w+)\), sizeof\(decltype\((?:o\.)?(m_\w+)\)\) ?\)", t)
                if not mm or mm.group(1) != mm.group(2) or mm.group(1) not in MEMBER_KIND:
                    raise Untranslatable(f"writer statement `{t[:90]}`")
                w.append(f"({MEMBER_KIND[mm.group(1)]})")
        r = []
        rs = stmts(rbody)
        if not rs or not re.fullmatch(r"return owning_data_t\(.*\)", rs[-1]):
            raise Untranslatable("reader does not end in `return owning_data_t(…)`")
        for t in rs[:-1]:
            if t == "utility::read_io_header(fs, IO_MAGIC_HEADER)":
                r.append("H")
            elif t == "utility::read_io_footer(fs, IO_MAGIC_HEADER)":
                r.append("F")
            elif re.fullmatch(r"(?:auto|typename backend_t::owning_data_t) \w+ = " + INNER + r"::read_binary\(fs\)", t):
                r.append("I")
            else:
                mm = re.fullmatch(r"(?:auto|configuration_t) \w+ = utility::read_binary<(.+)>\(fs\)", t)
                if not mm or mm.group(1) not in TYPE_KIND:
                    raise Untranslatable(f"reader statement `{t[:90]}`")
                r.append(f"({TYPE_KIND[mm.group(1)]})")
        has_fp = "H" in w or "H" in r
        if has_fp and not tm:
            raise Untranslatable("no IO_MAGIC_HEADER")
        tag = int(tm.group(1), 16) if has_fp else 0
        return f"(io {tag} (write {' '.join(w)}) (read {' '.join(r)}))"
    except Untranslatable:
        raise
    except (IndexError, KeyError, ValueError, TypeError, AttributeError) as e:
        raise Untranslatable(f"{type(e).__name__}: {e}")


if __name__ == "__main__":
    import sys
    repo = sys.argv[sys.argv.index("--repo") + 1] if "--repo" in sys.argv else "/repo"
    for k in LAYERS:
        try:
            print(k, translate(repo, k))
        except Untranslatable as e:
            print(k, "UNTRANSLATABLE:", e)
