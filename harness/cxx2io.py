"""Recogniser for the `write_binary` / `read_binary` members of the layers (DESIGN.md §11.6): each statement must be one of the
sentences the IO-script language of lean/CovfieModel/Model/IOScript.lean has a meaning for — header, footer, a raw write of one
data member / a typed read of one, the inner layer's writer / reader, the final `return owning_data_t(…)`.  Result:
   (io <tag> (write H (coord) (coord) I F) (read H (coord) (coord) I F))
with the tag taken from the struct's `IO_MAGIC_HEADER`.  The array layer's members (`io_array`) have their own, richer sentences
(width word chosen from the scalar type, raw cell count, the double loop over cells and components with the width-dependent
read, lean/CovfieModel/Model/ArrScript.lean); the result there is
   (arrio <tag> (write hdr widthOfType rawWidth rawSize cellLoop ftr) (read hdr readWidth checkWidth readSize alloc cellLoop ftr ret))."""
import re
from pathlib import Path
from harness.cxx2imp import strip_comments, Untranslatable, CORE, find_function

LAYERS = {
    "io_constant": "backend/primitive/constant.hpp", "io_identity": "backend/primitive/identity.hpp",
    "io_strided": "backend/transformer/strided.hpp", "io_morton": "backend/transformer/morton.hpp", "io_hilbert": "backend/transformer/hilbert.hpp",
    "io_clamp": "backend/transformer/clamp.hpp", "io_backup": "backend/transformer/backup.hpp", "io_affine": "backend/transformer/affine.hpp",
    "io_linear": "backend/transformer/linear.hpp", "io_nearest_neighbour": "backend/transformer/nearest_neighbour.hpp",
    "io_shuffle": "backend/transformer/shuffle.hpp", "io_covariant_cast": "backend/transformer/covariant_cast.hpp",
    "io_dereference": "backend/transformer/dereference.hpp",
}
# data member (as written) / type read -> kind of serialised field
MEMBER_KIND = {"m_min": "coord", "m_max": "coord", "m_default": "out", "m_sizes": "sizes", "m_transform": "matrix", "m_value": "value"}
TYPE_KIND = {"decltype(m_min)": "coord", "decltype(m_max)": "coord", "decltype(m_default)": "out", "decltype(m_sizes)": "sizes",
             "configuration_t": "matrix", "decltype(m_transform)": "matrix", "typename covariant_output_t::vector_t": "value",
             "decltype(m_value)": "value"}
INNER = r"(?:backend_t::owning_data_t|decltype\(m_(?:storage|backend)\))"


# ---- the array layer: sentences over the text with all white space removed (clang-format breaks these lines in odd places)
_S = r'"(?:[^"\\]|\\.)*"'
_THROW = lambda ex: r"throwstd::" + ex + r"\((?:" + _S + r")+\);"
ARR_WRITE = [
    (r"utility::write_io_header\(fs,IO_MAGIC_HEADER\);", "hdr"),
    (r"uint32_tfloat_width;ifconstexpr\(std::is_same_v<typename_output_vector_t::type,float>\)\{float_width=4;\}"
     r"elseifconstexpr\(std::is_same_v<typename_output_vector_t::type,double>\)\{float_width=8;\}else\{" + _THROW("logic_error") + r"\}", "widthOfType"),
    (r"fs\.write\(reinterpret_cast<constchar\*>\(&float_width\),sizeof\(std::decay_t<decltype\(float_width\)>\)\);", "rawWidth"),
    (r"fs\.write\(reinterpret_cast<constchar\*>\(&o\.m_size\),sizeof\(std::decay_t<decltype\(o\.m_size\)>\)\);", "rawSize"),
    (r"for\(std::size_ti=0;i<o\.m_size;\+\+i\)\{for\(std::size_tj=0;j<_output_vector_t::size;\+\+j\)\{"
     r"fs\.write\(reinterpret_cast<constchar\*>\(&o\.m_ptr\[i\]\[j\]\),sizeof\(typename_output_vector_t::type\)\);\}\}", "cellLoop"),
    (r"utility::write_io_footer\(fs,IO_MAGIC_HEADER\);", "ftr"),
]
ARR_READ = [
    (r"utility::read_io_header\(fs,IO_MAGIC_HEADER\);", "hdr"),
    (r"uint32_tfloat_width=utility::read_binary<uint32_t>\(fs\);", "readWidth"),
    (r"if\(float_width!=4&&float_width!=8\)\{" + _THROW("runtime_error") + r"\}", "checkWidth"),
    (r"autosize=utility::read_binary<std::decay_t<decltype\(m_size\)>>\(fs\);", "readSize"),
    (r"std::unique_ptr<vector_t\[\]>ptr=std::make_unique<vector_t\[\]>\(size\);", "alloc"),
    (r"for\(std::size_ti=0;i<size;\+\+i\)\{for\(std::size_tj=0;j<_output_vector_t::size;\+\+j\)\{usingscalar_t=typename_output_vector_t::type;"
     r"if\(float_width==4\)\{ptr\[i\]\[j\]=static_cast<scalar_t>\(utility::read_binary<float>\(fs\)\);\}"
     r"elseif\(float_width==8\)\{ptr\[i\]\[j\]=static_cast<scalar_t>\(utility::read_binary<double>\(fs\)\);\}"
     r"else\{" + _THROW("logic_error") + r"\}\}\}", "cellLoop"),
    (r"utility::read_io_footer\(fs,IO_MAGIC_HEADER\);", "ftr"),
    (r"returnowning_data_t\(size,std::move\(ptr\)\);", "ret"),
]


def _squash(body):
    """remove white space outside string literals"""
    out, i = [], 0
    for m in re.finditer(_S, body):
        out.append(re.sub(r"\s+", "", body[i:m.start()]))
        out.append(m.group(0))
        i = m.end()
    out.append(re.sub(r"\s+", "", body[i:]))
    return "".join(out)


def _sentences(body, table, what):
    t, names = _squash(body), []
    while t:
        for pat, name in table:
            m = re.match(pat, t)
            if m:
                names.append(name)
                t = t[m.end():]
                break
        else:
            raise Untranslatable(f"array {what}: statement `{t[:90]}`")
    return names


def translate_array(repo):
    text = strip_comments((Path(repo) / CORE / "backend/primitive/array.hpp").read_text())
    m = re.search(r"struct\s+owning_data_t\s*\{", text)
    if not m:
        raise Untranslatable("owning_data_t not found")
    own = text[m.end():]
    end = re.search(r"struct\s+non_owning_data_t", own)
    own = own[:end.start()] if end else own
    try:
        _, wbody = find_function(own, r"static\s+void\s+write_binary")
        _, rbody = find_function(own, r"static\s+owning_data_t\s+read_binary")
        tm = re.search(r"IO_MAGIC_HEADER\s*=\s*(0x[0-9A-Fa-f]+)", text)
        if not tm:
            raise Untranslatable("no IO_MAGIC_HEADER")
        # the constructor the reader's last statement calls must store exactly its two arguments
        if not re.search(r"owning_data_t\(\s*std::size_t\s+size\s*,\s*std::unique_ptr<vector_t\[\]>\s*&&\s*ptr\s*\)\s*:\s*m_size\(size\)\s*,\s*m_ptr\(std::move\(ptr\)\)\s*\{\s*\}", own):
            raise Untranslatable("owning_data_t(size, ptr) does not just store its arguments")
        # rawSize / readSize move sizeof(decltype(m_size)) bytes; the model's count word has 8
        ms = re.findall(r"\n\s*([\w:<>\[\] ]+?)\s+m_size\s*;", own)
        if [norm(x) for x in ms] not in (["uint64_t"], ["std::uint64_t"], ["std::size_t"]):
            raise Untranslatable(f"m_size is declared as {ms}, not as a 64-bit unsigned integer")
        w = _sentences(wbody, ARR_WRITE, "writer")
        r = _sentences(rbody, ARR_READ, "reader")
        return f"(arrio {int(tm.group(1), 16)} (write {' '.join(w)}) (read {' '.join(r)}))"
    except Untranslatable:
        raise
    except (IndexError, KeyError, ValueError, TypeError, AttributeError) as e:
        raise Untranslatable(f"{type(e).__name__}: {e}")


def norm(s):
    return re.sub(r"\s+", " ", s).strip()


def stmts(body):
    return [norm(x) for x in body.split(";") if x.strip()]


def translate_field(repo):
    """field.hpp: `dump` (header, the stack's writer, footer) and the stream constructor (header inside the member initialiser,
    whose result is the stream handed to the stack's reader; footer in the body)"""
    text = strip_comments((Path(repo) / CORE / "field.hpp").read_text())
    try:
        tm = re.search(r"IO_MAGIC_HEADER\s*=\s*(0x[0-9A-Fa-f]+)", text)
        if not tm:
            raise Untranslatable("no IO_MAGIC_HEADER")
        _, dbody = find_function(text, r"void\s+dump")
        w = []
        for t in stmts(dbody):
            if t == "utility::write_io_header(fs, IO_MAGIC_HEADER)":
                w.append("H")
            elif t == "utility::write_io_footer(fs, IO_MAGIC_HEADER)":
                w.append("F")
            elif t == "backend_t::owning_data_t::write_binary(fs, m_backend)":
                w.append("I")
            else:
                raise Untranslatable(f"dump statement `{t[:90]}`")
        m = re.search(r"explicit\s+field\s*\(\s*std::istream\s*&\s*fs\s*\)\s*:(.*?)\{(.*?)\}", text, re.S)
        if not m:
            raise Untranslatable("stream constructor not found")
        init = re.sub(r"\s+", "", m.group(1))
        if init != "m_backend(decltype(m_backend)::read_binary(utility::read_io_header(fs,IO_MAGIC_HEADER)))":
            raise Untranslatable(f"stream constructor initialiser `{init[:100]}`")
        r = ["H", "I"]
        for t in stmts(m.group(2)):
            if t == "utility::read_io_footer(fs, IO_MAGIC_HEADER)":
                r.append("F")
            else:
                raise Untranslatable(f"stream constructor statement `{t[:90]}`")
        return f"(io {int(tm.group(1), 16)} (write {' '.join(w)}) (read {' '.join(r)}))"
    except Untranslatable:
        raise
    except (IndexError, KeyError, ValueError, TypeError, AttributeError) as e:
        raise Untranslatable(f"{type(e).__name__}: {e}")


def translate(repo, layer):
    if layer == "io_array":
        return translate_array(repo)
    if layer == "io_field":
        return translate_field(repo)
    path = Path(repo) / CORE / LAYERS[layer]
    text = strip_comments(path.read_text())
    m = re.search(r"struct\s+owning_data_t\s*\{", text)
    if not m:
        raise Untranslatable("owning_data_t not found")
    own = text[m.end():]
    try:
        _, wbody = find_function(own, r"static\s+void\s+write_binary")
        _, rbody = find_function(own, r"static\s+owning_data_t\s+read_binary")
        tm = re.search(r"IO_MAGIC_HEADER\s*=\s*(0x[0-9A-Fa-f]+)", text)
        w = []
        for t in stmts(wbody):
            if t == "utility::write_io_header(fs, IO_MAGIC_HEADER)":
                w.append("H")
            elif t == "utility::write_io_footer(fs, IO_MAGIC_HEADER)":
                w.append("F")
            elif re.fullmatch(INNER + r"::write_binary\(fs, o\.m_(?:storage|backend)\)", t):
                w.append("I")
            else:
                mm = re.fullmatch(r"fs\.write\( ?reinterpret_cast<const char \*>\(&o\.(m_\w+)\), sizeof\(decltype\((?:o\.)?(m_\w+)\)\) ?\)", t)
                if not mm or mm.group(1) != mm.group(2) or mm.group(1) not in MEMBER_KIND:
                    raise Untranslatable(f"writer statement `{t[:90]}`")
                w.append(f"({MEMBER_KIND[mm.group(1)]})")
        r = []
        rs = stmts(rbody)
        if not rs or not re.fullmatch(r"return owning_data_t\(.*\)", rs[-1]):
            raise Untranslatable("reader does not end in `return owning_data_t(…)`")
        for t in rs[:-1]:
            if t == "utility::read_io_header(fs, IO_MAGIC_HEADER)":
                r.append("H")
            elif t == "utility::read_io_footer(fs, IO_MAGIC_HEADER)":
                r.append("F")
            elif re.fullmatch(r"(?:auto|typename backend_t::owning_data_t) \w+ = " + INNER + r"::read_binary\(fs\)", t):
                r.append("I")
            else:
                mm = re.fullmatch(r"(?:auto|configuration_t) \w+ = utility::read_binary<(.+)>\(fs\)", t)
                if not mm or mm.group(1) not in TYPE_KIND:
                    raise Untranslatable(f"reader statement `{t[:90]}`")
                r.append(f"({TYPE_KIND[mm.group(1)]})")
        has_fp = "H" in w or "H" in r
        if has_fp and not tm:
            raise Untranslatable("no IO_MAGIC_HEADER")
        tag = int(tm.group(1), 16) if has_fp else 0
        return f"(io {tag} (write {' '.join(w)}) (read {' '.join(r)}))"
    except Untranslatable:
        raise
    except (IndexError, KeyError, ValueError, TypeError, AttributeError) as e:
        raise Untranslatable(f"{type(e).__name__}: {e}")


if __name__ == "__main__":
    import sys
    repo = sys.argv[sys.argv.index("--repo") + 1] if "--repo" in sys.argv else "/repo"
    for k in ["io_array", "io_field"] + list(LAYERS):
        try:
            print(k, translate(repo, k))
        except Untranslatable as e:
            print(k, "UNTRANSLATABLE:", e)
