"""Formula translator for the specialised branches (1-D, 2-D, 3-D) of `linear<…>::non_owning_data_t::at` (DESIGN.md §11.6).

Each branch is straight-line code of a fixed shape:
    index i_k   = static_cast<index scalar>(coord[k])                      (integer part by truncation)
    fraction a_k = coord[k] - std::trunc(coord[k]);  complement ra_k = static_cast<T>(1.) - a_k
    for (n = 0; n < 2^D; ++n) pc[n] = m_backend.at({static_cast<…>(i_0 + ((n & MASK_0) ? 1 : 0)), …});
    for (q …) rv[q] = <sum of products of fractions / complements and static_cast<T>(pc[n][q])>;
The translator checks every statement against that shape and prints
    (lin D (masks MASK_0 … MASK_{D-1}) (sum E))     E ::= (add E E) | (mul E E) | (w k c) | (pc n)
where (w k 0) is the fraction of axis k and (w k 1) its complement.  The Lean library holds the same term
(`Covfie.Lin.Ref.lin1/2/3`) with theorems that its value is the model's `lin1` / `lin2` / `lin3`, hence (C03) the
D-linear interpolant, and that corner n is the lattice point `trunc(coord) + bits`.
"""
import re
from pathlib import Path
from harness.cxx2imp import tokenize, strip_comments, Untranslatable, CORE

PREC = [["||"], ["&&"], ["|"], ["^"], ["&"], ["==", "!="], ["<", "<=", ">", ">="], ["<<", ">>"], ["+", "-"], ["*", "/", "%"]]


class Raw:
    """a small general expression parser: nested tuples"""

    def __init__(self, toks):
        self.t, self.i = toks, 0

    def peek(self, k=0):
        return self.t[self.i + k] if self.i + k < len(self.t) else ("eof", "")

    def eat(self, v=None):
        tok = self.peek()
        if v is not None and tok[1] != v:
            raise Untranslatable(f"expected {v!r}, found {tok[1]!r}")
        self.i += 1
        return tok

    def at(self, v):
        return self.peek()[1] == v

    def skip_angle(self):
        self.eat("<")
        depth = 1
        words = []
        while depth:
            t = self.eat()[1]
            if t == "<":
                depth += 1
            elif t == ">":
                depth -= 1
            elif t == ">>":
                depth -= 2
            elif t == "eof" or t == "":
                raise Untranslatable("unbalanced <>")
            if depth > 0:
                words.append(t)
        return " ".join(words)

    def primary(self):
        kind, v = self.peek()
        if kind == "num":
            self.eat()
            if self.at("."):          # 1.  /  1.f
                self.eat()
                if self.peek()[0] in ("id", "num"):
                    self.eat()
            return ("num", v.rstrip("uUlLfF"))
        if v == "(":
            self.eat()
            e = self.expr()
            self.eat(")")
            return self.postfix(e)
        if v == "{":
            self.eat()
            items = []
            while not self.at("}"):
                items.append(self.expr())
                if self.at(","):
                    self.eat()
            self.eat("}")
            return ("init", tuple(items))
        if v == "static_cast":
            self.eat()
            ty = self.skip_angle()
            self.eat("(")
            e = self.expr()
            self.eat(")")
            return self.postfix(("cast", ty, e))
        if kind == "id":
            self.eat()
            e = ("id", v)
            if v == "typename":
                raise Untranslatable("typename in expression")
            return self.postfix(e)
        raise Untranslatable(f"unexpected token {v!r}")

    def postfix(self, e):
        while True:
            if self.at("["):
                self.eat()
                ix = self.expr()
                self.eat("]")
                e = ("sub", e, ix)
            elif self.at("("):
                self.eat()
                args = []
                while not self.at(")"):
                    args.append(self.expr())
                    if self.at(","):
                        self.eat()
                self.eat(")")
                e = ("call", e, tuple(args))
            elif self.at("."):
                self.eat()
                e = ("mem", e, self.eat()[1])
            else:
                return e

    def binary(self, level):
        if level == len(PREC):
            return self.primary()
        l = self.binary(level + 1)
        while self.peek()[0] == "op" and self.peek()[1] in PREC[level]:
            op = self.eat()[1]
            r = self.binary(level + 1)
            l = ("bin", op, l, r)
        return l

    def expr(self):
        c = self.binary(0)
        if self.at("?"):
            self.eat()
            a = self.expr()
            self.eat(":")
            b = self.expr()
            return ("cond", c, a, b)
        return c


def branch_text(text, D):
    """the block of `if constexpr (contravariant_input_t::dimensions == D) { … }` inside non_owning_data_t::at"""
    m = re.search(r"if\s+constexpr\s*\(\s*contravariant_input_t::dimensions\s*==\s*%d\s*\)\s*\{" % D, text)
    if not m:
        raise Untranslatable(f"no branch for dimension {D}")
    depth, e = 1, m.end()
    while depth:
        depth += {"{": 1, "}": -1}.get(text[e], 0)
        e += 1
    return text[m.end():e - 1]


def statements(body):
    """splits a block into top-level statements (text up to ';' at depth 0, or a `for (...) {...}` block)"""
    out, i, n = [], 0, len(body)
    while i < n:
        while i < n and body[i].isspace():
            i += 1
        if i >= n:
            break
        if body.startswith("for", i) and re.match(r"for\s*\(", body[i:]):
            j = body.index("(", i)
            d, k = 1, j + 1
            while d:
                d += {"(": 1, ")": -1}.get(body[k], 0)
                k += 1
            head = body[j + 1:k - 1]
            while body[k].isspace():
                k += 1
            if body[k] != "{":
                raise Untranslatable("for without a block")
            d, e = 1, k + 1
            while d:
                d += {"{": 1, "}": -1}.get(body[e], 0)
                e += 1
            out.append(("for", head, body[k + 1:e - 1]))
            i = e
        else:
            d, k = 0, i
            while k < n and not (body[k] == ";" and d == 0):
                d += {"(": 1, "{": 1, "[": 1, ")": -1, "}": -1, "]": -1}.get(body[k], 0)
                k += 1
            out.append(("stmt", body[i:k].strip()))
            i = k + 1
    return out


def parse(s):
    p = Raw(tokenize(s))
    e = p.expr()
    if p.peek()[0] != "eof":
        raise Untranslatable(f"trailing tokens in `{s[:60]}`")
    return e


def is_one(e):
    return e[0] == "cast" and e[1].strip() == "input_scalar_type" and e[2] == ("num", "1")


def translate_branch(text, D):
    body = branch_text(text, D)
    st = statements(body)
    idx, frac, compl = {}, {}, {}
    masks, P, summ = None, None, None
    for s in st:
        if s[0] == "stmt":
            t = s[1]
            if not t:
                continue
            m = re.fullmatch(r"typename\s+contravariant_output_t::scalar_t\s+(\w+)\s*=\s*(.*)", t, re.S)
            if m:
                e = parse(m.group(2))
                if not (e[0] == "cast" and re.sub(r"\s+", " ", e[1]).strip() == "typename contravariant_output_t::scalar_t"
                        and e[2][0] == "sub" and e[2][1] == ("id", "coord") and e[2][2][0] == "num"):
                    raise Untranslatable(f"index declaration `{t[:80]}`")
                idx[m.group(1)] = int(e[2][2][1])
                continue
            m = re.fullmatch(r"input_scalar_type\s+(\w+)\s*=\s*(.*)", t, re.S)
            if m:
                e = parse(m.group(2))
                if e[0] == "bin" and e[1] == "-" and e[2][0] == "sub" and e[2][1] == ("id", "coord") and \
                        e[3] == ("call", ("id", "std::trunc"), (e[2],)):
                    frac[m.group(1)] = int(e[2][2][1])
                    continue
                if e[0] == "bin" and e[1] == "-" and is_one(e[2]) and e[3][0] == "id" and e[3][1] in frac:
                    compl[m.group(1)] = frac[e[3][1]]
                    continue
                raise Untranslatable(f"scalar declaration `{t[:80]}`")
            if re.fullmatch(r"std::remove_reference_t\s*<\s*typename\s+covariant_output_t::vector_t\s*>\s*pc\s*\[\s*(\d+)\s*\]", t, re.S):
                P = int(re.search(r"\[\s*(\d+)\s*\]", t).group(1))
                continue
            if re.fullmatch(r"typename\s+covariant_output_t::vector_t\s+rv", t):
                continue
            if re.fullmatch(r"return\s+rv", t):
                continue
            raise Untranslatable(f"statement `{t[:80]}`")
        _, head, blk = s
        hm = re.fullmatch(r"\s*std::size_t\s+(\w+)\s*=\s*0\s*;\s*(\w+)\s*<\s*([\w:]+)\s*;\s*\+\+(\w+)\s*", head)
        if not hm or len({hm.group(1), hm.group(2), hm.group(4)}) != 1:
            raise Untranslatable(f"loop header `{head[:80]}`")
        var, bound = hm.group(1), hm.group(3)
        inner = [x for x in statements(blk) if x != ("stmt", "")]
        if len(inner) != 1 or inner[0][0] != "stmt":
            raise Untranslatable("loop body")
        if bound.isdigit():          # the corner loop
            if P is None or int(bound) != P:
                raise Untranslatable("corner loop bound")
            m2 = re.fullmatch(r"\s*pc\s*\[\s*%s\s*\]\s*=\s*(.*)" % var, inner[0][1], re.S)
            if not m2:
                raise Untranslatable("corner loop body")
            c = parse(m2.group(1))
            if not (c[0] == "call" and c[1] == ("mem", ("id", "m_backend"), "at") and len(c[2]) == 1 and c[2][0][0] == "init"):
                raise Untranslatable("corner fetch")
            ms = {}
            for k, comp in enumerate(c[2][0][1]):
                # static_cast<…>( i + ((n & MASK) ? 1 : 0) )
                if not (comp[0] == "cast" and comp[2][0] == "bin" and comp[2][1] == "+" and comp[2][2][0] == "id" and comp[2][2][1] in idx):
                    raise Untranslatable("corner coordinate")
                cd = comp[2][3]
                if not (cd[0] == "cond" and cd[1][0] == "bin" and cd[1][1] == "&" and cd[1][2] == ("id", var) and cd[1][3][0] == "num"
                        and cd[2] == ("num", "1") and cd[3] == ("num", "0")):
                    raise Untranslatable("corner offset")
                if idx[comp[2][2][1]] != k:
                    raise Untranslatable("corner coordinate order")
                ms[k] = int(cd[1][3][1])
            masks = [ms[k] for k in range(len(ms))]
        else:                         # the output loop
            if bound != "covariant_output_t::dimensions":
                raise Untranslatable("output loop bound")
            m2 = re.fullmatch(r"\s*rv\s*\[\s*%s\s*\]\s*=\s*(.*)" % var, inner[0][1], re.S)
            if not m2:
                raise Untranslatable("output loop body")

            def conv(x):
                if x[0] == "bin" and x[1] in "+*":
                    return f"({'add' if x[1] == '+' else 'mul'} {conv(x[2])} {conv(x[3])})"
                if x[0] == "id" and x[1] in frac:
                    return f"(w {frac[x[1]]} 0)"
                if x[0] == "id" and x[1] in compl:
                    return f"(w {compl[x[1]]} 1)"
                if x[0] == "cast" and x[1].strip() == "input_scalar_type" and x[2][0] == "sub" and x[2][2] == ("id", var) \
                        and x[2][1][0] == "sub" and x[2][1][1] == ("id", "pc") and x[2][1][2][0] == "num":
                    return f"(pc {int(x[2][1][2][1])})"
                raise Untranslatable(f"term {x}")
            summ = conv(parse(m2.group(1).replace("\n", " ")))
    if masks is None or summ is None or len(masks) != D or sorted(idx.values()) != list(range(D)) or sorted(frac.values()) != list(range(D)) \
            or sorted(compl.values()) != list(range(D)) or P != 2 ** D:
        raise Untranslatable("branch incomplete")
    return f"(lin {D} (masks {' '.join(map(str, masks))}) (sum {summ}))"


def translate(repo, D):
    text = strip_comments((Path(repo) / CORE / "backend/transformer/linear.hpp").read_text())
    try:
        return translate_branch(text, D)
    except Untranslatable:
        raise
    except (IndexError, KeyError, ValueError, TypeError, AttributeError) as e:
        raise Untranslatable(f"{type(e).__name__}: {e}")


if __name__ == "__main__":
    import sys
    repo = sys.argv[sys.argv.index("--repo") + 1] if "--repo" in sys.argv else "/repo"
    for D in (1, 2, 3):
        try:
            print(D, translate(repo, D))
        except Untranslatable as e:
            print(D, "UNTRANSLATABLE:", e)
