"""Recogniser for the special members of `backend::array::owning_data_t` (DESIGN.md §11.6): every statement of the copy
constructor and of the copy assignment must be one of the few sentences the ownership-script language of
lean/CovfieModel/Model/OwnScript.lean has a meaning for; the result is the list of their names.  The move members must be
defaulted and the data members must be `m_size` then `m_ptr` (a `std::unique_ptr<vector_t[]>`): the defaulted moves then
steal the pointer and copy the size, which is what the machine's `moveCtor` / `moveAssign` do."""
import re
from pathlib import Path
from harness.cxx2imp import strip_comments, Untranslatable, CORE, find_function
from harness.cxx2lin import statements

STMTS = [
    (r"if \(this == &o\) \{ return \*this; \}", "selfReturn"),
    (r"m_size = o\.m_size", "sizeFromSrc"),
    (r"m_ptr = std::make_unique<vector_t\[\]>\(m_size\)", "allocAssign"),
    (r"assert\(m_size == 0 \|\| m_ptr\)", "assertBuf"),
    (r"if \(o\.m_ptr && m_size > 0\) \{ std::memcpy\( ?m_ptr\.get\(\), o\.m_ptr\.get\(\), m_size \* sizeof\(vector_t\) ?\); \}", "copyCells"),
    (r"return \*this", "returnThis"),
]


def norm(s):
    return re.sub(r"\s+", " ", s).strip()


def split(body):
    """top-level statements of a function body: `if (...) {...}` blocks and ';'-terminated statements"""
    out, i, n = [], 0, len(body)
    while i < n:
        while i < n and body[i].isspace():
            i += 1
        if i >= n:
            break
        if re.match(r"if\s*\(", body[i:]):
            j = body.index("(", i)
            d, k = 1, j + 1
            while d:
                d += {"(": 1, ")": -1}.get(body[k], 0)
                k += 1
            while body[k].isspace():
                k += 1
            if body[k] != "{":
                raise Untranslatable("if without a block")
            d, e = 1, k + 1
            while d:
                d += {"{": 1, "}": -1}.get(body[e], 0)
                e += 1
            rest = body[e:].lstrip()
            if rest.startswith("else"):
                raise Untranslatable("else branch")
            out.append(norm(body[i:e]))
            i = e
        else:
            k = body.index(";", i) if ";" in body[i:] else n
            out.append(norm(body[i:k]))
            i = k + 1
    return [x for x in out if x]


def recognise(stmts):
    names = []
    for t in stmts:
        for pat, name in STMTS:
            if re.fullmatch(pat, t):
                names.append(name)
                break
        else:
            raise Untranslatable(f"statement `{t[:90]}`")
    return names


def translate(repo, which):
    text = strip_comments((Path(repo) / CORE / "backend/primitive/array.hpp").read_text())
    m = re.search(r"struct\s+owning_data_t\s*\{", text)
    if not m:
        raise Untranslatable("owning_data_t not found")
    own = text[m.end():]
    own = own[:re.search(r"struct\s+non_owning_data_t", own).start()]
    try:
        if which == "copy_assign":
            ptxt, body = find_function(own, r"owning_data_t\s*&\s*operator\s*=", None)
            if norm(ptxt) != "const owning_data_t & o":
                # the first operator= is the defaulted move assignment (no body): find_function skips declarations without one
                raise Untranslatable(f"copy assignment: parameter list {ptxt!r}")
            return "(script " + " ".join(recognise(split(body))) + ")"
        if which == "copy_ctor":
            m2 = re.search(r"owning_data_t\s*\(\s*const\s+owning_data_t\s*&\s*o\s*\)\s*:(.*?)\{", own, re.S)
            if not m2:
                raise Untranslatable("copy constructor not found")
            inits = [norm(x) for x in re.split(r",(?![^()]*\))", m2.group(1)) if x.strip()]
            names = []
            for it in inits:
                if it == "m_size(o.m_size)":
                    names.append("sizeFromSrc")
                elif it == "m_ptr(std::make_unique<vector_t[]>(m_size))":
                    names.append("allocInit")
                else:
                    raise Untranslatable(f"initialiser `{it}`")
            d, e = 1, m2.end()
            while d:
                d += {"{": 1, "}": -1}.get(own[e], 0)
                e += 1
            return "(script " + " ".join(names + recognise(split(own[m2.end():e - 1]))) + ")"
        if which == "members":
            ok_mc = re.search(r"owning_data_t\s*\(\s*owning_data_t\s*&&\s*\)\s*=\s*default\s*;", own)
            ok_ma = re.search(r"owning_data_t\s*&\s*operator\s*=\s*\(\s*owning_data_t\s*&&\s*\)\s*=\s*default\s*;", own)
            mem = re.findall(r"\n\s*([\w:<>\[\] ]+?)\s+(m_\w+)\s*;", own)
            mem = [(norm(t), n) for t, n in mem]
            if not ok_mc or not ok_ma:
                raise Untranslatable("a move member is not defaulted")
            if [n for _, n in mem] != ["m_size", "m_ptr"] or mem[1][0] != "std::unique_ptr<vector_t[]>" or mem[0][0] not in ("uint64_t", "std::uint64_t", "std::size_t"):
                raise Untranslatable(f"data members {mem}")
            if re.search(r"~\s*owning_data_t", own):
                raise Untranslatable("a user-provided destructor")
            return "(members size unique_ptr default_moves)"
    except Untranslatable:
        raise
    except (IndexError, KeyError, ValueError, TypeError, AttributeError) as e:
        raise Untranslatable(f"{type(e).__name__}: {e}")
    raise Untranslatable(which)


KERNELS = {"copy_assign": "backend/primitive/array.hpp owning_data_t::operator=(const owning_data_t &)",
           "copy_ctor": "backend/primitive/array.hpp owning_data_t(const owning_data_t &)",
           "members": "backend/primitive/array.hpp owning_data_t: data members, defaulted moves, no destructor"}

if __name__ == "__main__":
    import sys
    repo = sys.argv[sys.argv.index("--repo") + 1] if "--repo" in sys.argv else "/repo"
    for k in KERNELS:
        try:
            print(k, translate(repo, k))
        except Untranslatable as e:
            print(k, "UNTRANSLATABLE:", e)
