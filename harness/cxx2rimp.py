"""Kernel translator for the floating-point kernels of `algebra/matrix.hpp` and `algebra/affine.hpp`  ->  `Covfie.RImp`
(lean/CovfieModel/Model/RImp.lean): integer loop counters as in `Covfie.Imp`, scalars and arrays over an abstract scalar.
DESIGN.md §11.6.  Same contract as harness/cxx2imp.py: canonical s-expression or `Untranslatable`.

  matmul          matrix<N,M>::operator*(matrix<M,P>)         ints N M P i j k        reals t        arrays this o r
  identity        matrix<N,M>::identity()                     ints N M i j                           arrays result
  affine_apply    affine<N>::operator*(vector<N>)             ints N M P mm.i mm.j mm.k i  reals mm.t   arrays this r mm.r v
                  (the call of matrix<N,N+1>::operator* is inlined: M := N+1, P := 1)
  translation     affine<N>::translation(args...)             ints N M id.i id.j i                   arrays result arr
  scaling         affine<N>::scaling(args...)                 (identity() inlined: M := N+1)
"""
import re
from pathlib import Path
from harness.cxx2imp import tokenize, strip_comments, Untranslatable, CORE, find_function, seq
from harness.cxx2lin import Raw, statements

def statements2(body):
    """top-level statements: `for (...) {...}`, `if (...) {...} [else {...}]`, and ';'-terminated statements"""
    out, i, n = [], 0, len(body)

    def block_end(k):
        d, e = 1, k + 1
        while d:
            d += {"{": 1, "}": -1}.get(body[e], 0)
            e += 1
        return e
    while i < n:
        while i < n and body[i].isspace():
            i += 1
        if i >= n:
            break
        m = re.match(r"(for|if)\s*\(", body[i:])
        if m:
            j = body.index("(", i)
            d, k = 1, j + 1
            while d:
                d += {"(": 1, ")": -1}.get(body[k], 0)
                k += 1
            head = body[j + 1:k - 1]
            while body[k].isspace():
                k += 1
            if body[k] != "{":
                raise Untranslatable(f"{m.group(1)} without a block")
            e = block_end(k)
            if m.group(1) == "for":
                out.append(("for", head, body[k + 1:e - 1]))
                i = e
            else:
                rest = body[e:]
                m2 = re.match(r"\s*else\s*\{", rest)
                if m2:
                    k2 = e + m2.end() - 1
                    e2 = block_end(k2)
                    out.append(("if", head, body[k + 1:e - 1], body[k2 + 1:e2 - 1]))
                    i = e2
                else:
                    out.append(("if", head, body[k + 1:e - 1], ""))
                    i = e
        else:
            d, k = 0, i
            while k < n and not (body[k] == ";" and d == 0):
                d += {"(": 1, "{": 1, "[": 1, ")": -1, "}": -1, "]": -1}.get(body[k], 0)
                k += 1
            out.append(("stmt", body[i:k].strip()))
            i = k + 1
    return out


IOPS = {"+": "add", "-": "sub", "*": "mul", "<": "lt", "<=": "le", ">": "gt", ">=": "ge", "==": "eq", "!=": "ne", "<<": "shl", "&": "band"}


class K:
    def __init__(self):
        self.ints, self.reals, self.arrs = [], [], []
        self.vec = set()        # arrays addressed with one index (vectors: element (i, 0); plain arrays: [i])
        self.plain = set()

    def i(self, n):
        if n not in self.ints:
            self.ints.append(n)
        return self.ints.index(n)

    def r(self, n):
        if n not in self.reals:
            self.reals.append(n)
        return self.reals.index(n)

    def a(self, n):
        if n not in self.arrs:
            self.arrs.append(n)
        return self.arrs.index(n)


def iexpr(k, e, ren):
    if e[0] == "num":
        return f"(lit {int(e[1])})"
    if e[0] == "id":
        n = ren.get(e[1], e[1])
        if n not in k.ints:
            raise Untranslatable(f"integer variable {e[1]}")
        return f"(var {k.ints.index(n)})"
    if e[0] == "bin" and e[1] in IOPS:
        return f"(bin {IOPS[e[1]]} S {iexpr(k, e[2], ren)} {iexpr(k, e[3], ren)})"
    if e[0] == "call" and e[1] == ("id", "std::size_t") and len(e[2]) == 1 and e[2][0][0] == "num":
        return f"(lit {int(e[2][0][1])})"
    raise Untranslatable(f"integer expression {e}")


def is_const(e, val):
    if e[0] == "num":
        return e[1].rstrip(".") == str(val)
    if e[0] == "cast" and e[1].strip() in ("T", "input_scalar_type") and e[2][0] == "num":
        return e[2][1].rstrip(".") == str(val)
    return False


def element(k, e, ren):
    """array element access -> (array index, [index expressions]) or None"""
    if e[0] == "call" and e[1][0] == "id":
        n = ren.get(e[1][1], e[1][1])
        if n in k.arrs:
            ix = [iexpr(k, x, ren) for x in e[2]]
            if n in k.vec and len(ix) == 1:
                ix.append("(lit 0)")
            if len(ix) != (1 if n in k.plain else 2):
                raise Untranslatable(f"arity of {n}(…)")
            return k.arrs.index(n), ix
    if e[0] == "sub" and e[1][0] == "id":
        n = ren.get(e[1][1], e[1][1])
        if n in k.arrs and n in k.plain:
            return k.arrs.index(n), [iexpr(k, e[2], ren)]
    if e[0] == "sub" and e[1][0] == "sub" and e[1][1][0] == "id":
        n = ren.get(e[1][1][1], e[1][1][1])
        if n in k.arrs and n in getattr(k, "plain2", set()):
            return k.arrs.index(n), [iexpr(k, e[1][2], ren), iexpr(k, e[2], ren)]
    return None


def rexpr(k, e, ren):
    if is_const(e, 0):
        return "zero"
    if is_const(e, 1):
        return "one"
    if e[0] == "id":
        n = ren.get(e[1], e[1])
        if n in k.reals:
            return f"(rvar {k.reals.index(n)})"
        raise Untranslatable(f"scalar variable {e[1]}")
    if e[0] == "cast" and e[1].strip() == "input_scalar_type" and not is_const(e, 0) and not is_const(e, 1):
        return rexpr(k, e[2], ren)       # conversion of a stored value to the working precision: the scalar type is abstract
    el = element(k, e, ren)
    if el:
        return f"(get {el[0]} ({' '.join(el[1])}))"
    if e[0] == "bin" and e[1] in "+-*":
        return f"({ {'+': 'add', '-': 'sub', '*': 'mul'}[e[1]] } {rexpr(k, e[2], ren)} {rexpr(k, e[3], ren)})"
    if e[0] == "cond":
        return f"(sel {iexpr(k, e[1], ren)} {rexpr(k, e[2], ren)} {rexpr(k, e[3], ren)})"
    raise Untranslatable(f"scalar expression {e}")


def pexpr(s):
    p = Raw(tokenize(s))
    e = p.expr()
    if p.peek()[0] != "eof":
        raise Untranslatable(f"trailing tokens in `{s[:60]}`")
    return e


def block(k, body, ren, pre, hooks):
    out = []
    for st in statements2(body):
        if st[0] == "if":
            c = iexpr(k, pexpr(st[1]), ren)
            out.append(f"(ite {c} {block(k, st[2], dict(ren), pre, hooks)} {block(k, st[3], dict(ren), pre, hooks)})")
            continue
        if st[0] == "for":
            hm = re.fullmatch(r"\s*(?:I|std::size_t)\s+(\w+)\s*=\s*0\s*;\s*(\w+)\s*<\s*(.+?)\s*;\s*\+\+(\w+)\s*", st[1], re.S)
            if not hm or len({hm.group(1), hm.group(2), hm.group(4)}) != 1:
                raise Untranslatable(f"loop header `{st[1][:80]}`")
            v = pre + hm.group(1)
            r2 = dict(ren); r2[hm.group(1)] = v
            vi = k.i(v)
            bound = iexpr(k, pexpr(hm.group(3)), r2)
            inner = block(k, st[2], r2, pre, hooks)
            out.append(f"(iassign {vi} (lit 0))")
            out.append(f"(while (bin lt S (var {vi}) {bound}) {seq([inner, f'(iassign {vi} (bin add S (var {vi}) (lit 1)))'])})")
            continue
        t = re.sub(r"\s+", " ", st[1]).strip()
        if not t:
            continue
        done = False
        for pat, fn in hooks:
            m = re.fullmatch(pat, t)
            if m:
                r = fn(m, ren)
                if r:
                    out += r
                done = True
                break
        if done:
            continue
        m = re.fullmatch(r"T (\w+) = (.*)", t)
        if m:
            n = pre + m.group(1)
            ren[m.group(1)] = n
            out.append(f"(rassign {k.r(n)} {rexpr(k, pexpr(m.group(2)), ren)})")
            continue
        m = re.fullmatch(r"input_scalar_type (\w+)\{1\.\}", t)
        if m:
            n = pre + m.group(1)
            ren[m.group(1)] = n
            out.append(f"(rassign {k.r(n)} one)")
            continue
        m = re.fullmatch(r"(\w+) \*= (.*)", t)
        if m and ren.get(m.group(1), m.group(1)) in k.reals:
            n = ren.get(m.group(1), m.group(1))
            out.append(f"(rassign {k.reals.index(n)} (mul (rvar {k.reals.index(n)}) {rexpr(k, pexpr(m.group(2)), ren)}))")
            continue
        m = re.fullmatch(r"(\w+\[\w+\]) \+= (.*)", t)
        if m:
            el = element(k, pexpr(m.group(1)), ren)
            if not el:
                raise Untranslatable(f"assignment target `{m.group(1)}`")
            out.append(f"(rset {el[0]} ({' '.join(el[1])}) (add (get {el[0]} ({' '.join(el[1])})) {rexpr(k, pexpr(m.group(2)), ren)}))")
            continue
        m = re.fullmatch(r"(\w+) \+= (.*)", t)
        if m and ren.get(m.group(1), m.group(1)) in k.reals:
            n = ren.get(m.group(1), m.group(1))
            out.append(f"(rassign {k.reals.index(n)} (add (rvar {k.reals.index(n)}) {rexpr(k, pexpr(m.group(2)), ren)}))")
            continue
        m = re.fullmatch(r"(.+?) = (.*)", t)
        if m and "==" not in m.group(1):
            el = element(k, pexpr(m.group(1)), ren)
            if not el:
                raise Untranslatable(f"assignment target `{m.group(1)}`")
            out.append(f"(rset {el[0]} ({' '.join(el[1])}) {rexpr(k, pexpr(m.group(2)), ren)})")
            continue
        if t.startswith("if ") or t.startswith("if("):
            raise Untranslatable("if statement")
        raise Untranslatable(f"statement `{t[:80]}`")
    return seq(out)


def norm(body):
    body = re.sub(r"this\s*->\s*operator\s*\(\s*\)\s*\(", "THIS(", body)
    body = re.sub(r"(\w+)\s*\.\s*operator\s*\(\s*\)\s*\(", r"\1(", body)
    return body


def _src(repo, f):
    return strip_comments((Path(repo) / CORE / f).read_text())


def matmul_body(repo):
    text = _src(repo, "algebra/matrix.hpp")
    ptxt, body = find_function(text, r"operator\s*\*")
    if not re.fullmatch(r"\s*const\s+matrix<M,\s*P,\s*T,\s*I>\s*&\s*o\s*", ptxt):
        raise Untranslatable(f"matrix operator*: parameter list {ptxt!r}")
    return norm(body)


def identity_body(repo):
    text = _src(repo, "algebra/matrix.hpp")
    ptxt, body = find_function(text, r"\bidentity")
    if ptxt.strip():
        raise Untranslatable("identity(): parameters")
    return norm(body)


def k_matmul(repo, k=None, pre="", names=("THIS", "o", "r")):
    k = k or K()
    for n in ("N", "M", "P"):
        k.i(n)
    for n in names:
        k.a(n)
    ren = {"THIS": names[0], "o": names[1], "r": names[2]}
    hooks = [(r"matrix<N, P, T, I> r", lambda m, r: []), (r"return r", lambda m, r: [])]
    return block(k, matmul_body(repo), ren, pre, hooks), k


def k_identity(repo, k=None, pre="", name="result"):
    k = k or K()
    for n in ("N", "M"):
        k.i(n)
    k.a(name)
    hooks = [(r"matrix<N, M, T, I> result", lambda m, r: []), (r"return result", lambda m, r: [])]
    return block(k, identity_body(repo), {"result": name}, pre, hooks), k


def k_affine_apply(repo):
    text = _src(repo, "algebra/affine.hpp")
    ptxt, body = find_function(text, r"operator\s*\*", after=r"affine\(const matrix<N, N \+ 1, T, I> & o\)")
    if not re.fullmatch(r"\s*const\s+vector<N,\s*T,\s*I>\s*&\s*v\s*", ptxt):
        raise Untranslatable(f"affine operator*(vector): parameter list {ptxt!r}")
    k = K()
    # the callee's variables first, in the callee's own order: the inlined product is then literally the term of `matmul`
    for n in ("N", "M", "P", "mm.i", "mm.j", "mm.k"):
        k.i(n)
    for n in ("THIS", "r", "mm.r", "v"):
        k.a(n)
    k.vec |= {"v", "r"}

    def call(m, ren):
        if m.group(1) != "r":
            raise Untranslatable("argument of the matrix product")
        s, _ = k_matmul(repo, k, "mm.", ("THIS", "r", "mm.r"))
        return ["(iassign 1 (bin add S (var 0) (lit 1)))", "(iassign 2 (lit 1))", s]
    hooks = [(r"vector<N \+ 1, T, I> r", lambda m, r: []),
             (r"return matrix<N, N \+ 1, T, I>::operator\*\((\w+)\)", call)]
    return block(k, norm(body), {}, "", hooks), k


def k_affine_compose(repo):
    text = _src(repo, "algebra/affine.hpp")
    ptxt, body = find_function(text, r"operator\s*\*", after=r"return matrix<N, N \+ 1, T, I>::operator\*\(r\);")
    if not re.fullmatch(r"\s*const\s+affine<N,\s*T,\s*I>\s*&\s*m\s*", ptxt):
        raise Untranslatable(f"affine operator*(affine): parameter list {ptxt!r}")
    k = K()
    # the callee's variables first (rows, inner, columns of the (N+1) x (N+1) product), then the caller's own N
    for n in ("N", "M", "P", "mm.i", "mm.j", "mm.k", "n"):
        k.i(n)
    for n in ("m1", "m2", "r", "THIS", "m", "o"):
        k.a(n)

    def prod(mt, ren):
        if (mt.group(1), mt.group(2)) != ("m1", "m2"):
            raise Untranslatable("factors of the matrix product")
        s, _ = k_matmul(repo, k, "mm.", ("m1", "m2", "r"))
        dim = "(bin add S (var 6) (lit 1))"
        return [f"(iassign 0 {dim})", f"(iassign 1 {dim})", f"(iassign 2 {dim})", s]
    hooks = [(r"matrix<N \+ 1, N \+ 1, T, I> m1, m2", lambda mt, r: []),
             (r"matrix<N \+ 1, N \+ 1, T, I> r = (\w+) \* (\w+)", prod),
             (r"matrix<N, N \+ 1, T, I> o", lambda mt, r: []),
             (r"return o", lambda mt, r: [])]
    return block(k, norm(body), {"N": "n"}, "", hooks), k


def k_lin_generic(repo):
    """the generic (N >= 4) branch of linear<…>::at: the prelude is recognised sentence by sentence, the complement loop and the
    weighted-sum nest are translated"""
    from harness.cxx2lin import statements as st1
    text = _src(repo, "backend/transformer/linear.hpp")
    m = re.search(r"\}\s*else\s*\{\s*typename\s+contravariant_output_t::vector_t\s+is\s*;", text)
    if not m:
        raise Untranslatable("generic branch not found")
    start = text.index("{", m.start() + 1)
    d, e = 1, start + 1
    while d:
        d += {"{": 1, "}": -1}.get(text[e], 0)
        e += 1
    body = text[start + 1:e - 1]
    # the index helper: axis m of corner n is offset iff bit m of n is set
    hp, hb = find_function(text, r"_backend_index_helper")
    if re.sub(r"\s+", " ", hb).strip() != ("return {static_cast<typename decltype(m_backend )::parent_t::contravariant_input_t::scalar_t>( "
                                           "coord[Is] + ((n & (std::size_t(1) << Is)) ? 1 : 0) )...};"):
        raise Untranslatable("_backend_index_helper: " + re.sub(r"\s+", " ", hb).strip()[:120])
    k = K()
    for n in ("D", "M"):
        k.i(n)
    for n in ("vs", "rs", "pc", "rv"):
        k.a(n)
    k.plain |= {"vs", "rs", "rv"}
    k.plain2 = {"pc"}
    ren = {"contravariant_output_t::dimensions": "D", "contravariant_input_t::dimensions": "D", "covariant_output_t::dimensions": "M"}
    sents = []

    def sentence(name):
        return lambda mt, r: sents.append(name) or []
    W = r"\s*"
    loopD = r"for \(std::size_t n = 0; n < contravariant_output_t::dimensions; \+\+n\) \{ "
    pre_txt = re.sub(r"\s+", " ", body)
    pats = [
        (r"typename contravariant_output_t::vector_t is; ", "decl-is"),
        (loopD + r"is\[n\] = static_cast<contravariant_output_t::scalar_t>\(coord\[n\]\); \} ", "trunc-index"),
        (r"input_scalar_type vs\[contravariant_output_t::dimensions\]; ", "decl-vs"),
        (loopD + r"vs\[n\] = coord\[n\] - std::trunc\(coord\[n\]\); \} ", "frac"),
        (r"input_scalar_type rs\[contravariant_output_t::dimensions\]; ", "decl-rs"),
    ]
    pos = 0
    pre_txt = pre_txt.strip() + " "
    for pat, name in pats:
        mm = re.match(pat, pre_txt[pos:])
        if not mm:
            raise Untranslatable(f"generic branch prelude: expected {name} at `{pre_txt[pos:pos + 80]}`")
        sents.append(name); pos += mm.end()
    rest = pre_txt[pos:]
    # rs loop (translated), pc declaration + fetch loop (sentence), rv declaration, nest (translated), return
    mm = re.match(r"(for \(std::size_t n = 0; n < contravariant_output_t::dimensions; \+\+n\) \{ rs\[n\] = .*?; \} )", rest)
    if not mm:
        raise Untranslatable("complement loop")
    rs_loop = mm.group(1); rest = rest[mm.end():]
    fetch = (r"std::remove_reference_t<typename covariant_output_t::vector_t> pc\[std::size_t\(1\) << contravariant_input_t::dimensions\]; "
             r"for \(std::size_t n = 0; n < std::size_t\(1\) << contravariant_input_t::dimensions; \+\+n\) \{ "
             r"pc\[n\] = m_backend\.at\(_backend_index_helper\( is, n, std::make_index_sequence< contravariant_input_t::dimensions>\{\} \)\); \} "
             r"typename covariant_output_t::vector_t rv; ")
    mm = re.match(fetch, rest)
    if not mm:
        raise Untranslatable(f"corner fetch: `{rest[:120]}`")
    sents.append("corner-bit-m"); rest = rest[mm.end():]
    if not rest.strip().endswith("return rv;"):
        raise Untranslatable("generic branch does not end in `return rv`")
    nest = rest.strip()[:-len("return rv;")]
    # names that stand for template constants inside expressions
    def conv(txt):
        return txt.replace("contravariant_output_t::dimensions", "D").replace("contravariant_input_t::dimensions", "D").replace("covariant_output_t::dimensions", "M")
    s1 = block(k, conv(rs_loop), {}, "", [])
    s2 = block(k, conv(nest), {}, "", [])
    return f"(lingen ({' '.join(sents)}) {seq([s1, s2])})", k


def _with_identity(repo, fn):
    text = _src(repo, "algebra/affine.hpp")
    ptxt, body = find_function(text, r"\b" + fn)
    if not re.fullmatch(r"\s*const\s+Args\s*&\s*\.\.\.\s*args\s*", ptxt):
        raise Untranslatable(f"{fn}: parameter list {ptxt!r}")
    body = re.sub(r"static_assert\s*\((?:[^;]|\n)*?\)\s*;", "", body)
    k = K()
    for n in ("N", "M", "id.i", "id.j"):          # the callee's variables first (see k_affine_apply)
        k.i(n)
    k.a("result"); k.a("arr")
    k.plain.add("arr")

    def ident(m, ren):
        s, _ = k_identity(repo, k, "id.", "result")
        return ["(iassign 1 (bin add S (var 0) (lit 1)))", s]
    hooks = [(r"array::array<T, N> arr\{args\.\.\.\}", lambda m, r: []),
             (r"matrix<N, N \+ 1, T, I> result = matrix<N, N \+ 1, T, I>::identity\(\)", ident),
             (r"return result", lambda m, r: [])]
    return block(k, norm(body), {}, "", hooks), k


KERNELS = {
    "matmul": (lambda repo: k_matmul(repo), "algebra/matrix.hpp operator*"),
    "identity": (lambda repo: k_identity(repo), "algebra/matrix.hpp identity()"),
    "affine_apply": (k_affine_apply, "algebra/affine.hpp operator*(vector), matrix product inlined"),
    "affine_compose": (k_affine_compose, "algebra/affine.hpp operator*(affine), matrix product inlined"),
    "lin_generic": (k_lin_generic, "backend/transformer/linear.hpp at(), generic branch (N >= 4): complement loop and weighted-sum nest"),
    "translation": (lambda repo: _with_identity(repo, "translation"), "algebra/affine.hpp translation(), identity() inlined"),
    "scaling": (lambda repo: _with_identity(repo, "scaling"), "algebra/affine.hpp scaling(), identity() inlined"),
}


def translate(repo, kernel):
    try:
        s, k = KERNELS[kernel][0](repo)
    except Untranslatable:
        raise
    except (IndexError, KeyError, ValueError, TypeError, AttributeError) as e:
        raise Untranslatable(f"{type(e).__name__}: {e}")
    return s, {"ints": k.ints, "reals": k.reals, "arrays": k.arrs}


if __name__ == "__main__":
    import sys
    repo = sys.argv[sys.argv.index("--repo") + 1] if "--repo" in sys.argv else "/repo"
    for kn in KERNELS:
        try:
            s, names = translate(repo, kn)
            print(kn, names, "\n  ", s)
        except Untranslatable as e:
            print(kn, "UNTRANSLATABLE:", e)
