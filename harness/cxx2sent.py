"""Function-level sentences (DESIGN.md §11.6): the bodies of the per-layer lookups (`at`) and of the conversion helpers, as
normalised text.  These are not translated into a kernel language — they are one-liners or glue around calls the other translators
cover — but each is compared on every run with the text recorded next to the model clause it stands for
(`lean/CovfieModel/Model/Sentences.lean`, printed by `impcheck print`): the layer functions of `Model/Stack.lean` were written
from exactly these bodies.  A changed body loses the tie for that layer (and escalates); it is never by itself a violation."""
import re
from pathlib import Path
from harness.cxx2imp import strip_comments, Untranslatable, CORE, find_function

# key: (file, function-name regex, anchor regex or None, model clause it stands for)
SENTENCES = {
    "at_clamp": ("backend/transformer/clamp.hpp", r"\bat", r"struct\s+non_owning_data_t\s*\{", "Covfie.clampL"),
    "at_clamp_adjust": ("backend/transformer/clamp.hpp", r"\badjust", r"struct\s+non_owning_data_t\s*\{", "Covfie.clampL (component-wise std::clamp)"),
    "at_backup": ("backend/transformer/backup.hpp", r"\bat", r"struct\s+non_owning_data_t\s*\{", "Covfie.backupL / Covfie.outside"),
    "at_shuffle": ("backend/transformer/shuffle.hpp", r"\bat", r"struct\s+non_owning_data_t\s*\{", "Covfie.shuffleL"),
    "at_shuffle_helper": ("backend/transformer/shuffle.hpp", r"\bshuffle", r"struct\s+non_owning_data_t\s*\{", "Covfie.shuffleL (c.at(idx)...)"),
    "at_cast": ("backend/transformer/covariant_cast.hpp", r"\bat", r"struct\s+non_owning_data_t\s*\{", "Covfie.castL"),
    "at_cast_helper": ("backend/transformer/covariant_cast.hpp", r"\bat_helper", r"struct\s+non_owning_data_t\s*\{", "Covfie.castL (one conversion per OUTPUT component)"),
    "at_dereference": ("backend/transformer/dereference.hpp", r"\bat", r"struct\s+non_owning_data_t\s*\{", "Covfie.derefL"),
    "at_nearest_neighbour": ("backend/transformer/nearest_neighbour.hpp", r"\bat", r"struct\s+non_owning_data_t\s*\{", "Covfie.nnL / Covfie.lrintIdx"),
    "at_constant": ("backend/primitive/constant.hpp", r"\bat", r"struct\s+non_owning_data_t\s*\{", "Covfie.constantB"),
    "at_identity": ("backend/primitive/identity.hpp", r"\bat", r"struct\s+non_owning_data_t\s*\{", "Covfie.identityB"),
    "at_affine": ("backend/transformer/affine.hpp", r"\bat", r"struct\s+non_owning_data_t\s*\{", "Covfie.affineL (m_transform * v: Covfie.RImp.Ref.affine_apply)"),
    "at_array": ("backend/primitive/array.hpp", r"\bat", r"struct\s+non_owning_data_t\s*\{", "Covfie.arrayB"),
    "at_morton": ("backend/transformer/morton.hpp", r"\bat", r"struct\s+non_owning_data_t\s*\{", "Covfie.layoutL mortonLoop / mortonPdep"),
    "at_hilbert": ("backend/transformer/hilbert.hpp", r"\bat", r"struct\s+non_owning_data_t\s*\{", "Covfie.layoutL hilbertIdx"),
    "conv_strided": ("backend/transformer/strided.hpp", r"\bmake_strided_copy", None, "Covfie.convert (row-major target: product of the extents cells, nd_map, component copy)"),
    "conv_morton": ("backend/transformer/morton.hpp", r"\bmake_morton_copy", None, "Covfie.convert (Morton target: ipow(round_pow2(max extent), N) cells)"),
    "conv_hilbert": ("backend/transformer/hilbert.hpp", r"\bmake_hilbert_copy", None, "Covfie.convert (Hilbert target: ipow(round_pow2(max extent), 2) cells)"),
    "nd_map": ("utility/nd_map.hpp", r"\bnd_map", None, "Covfie.ndMap (peel the first extent, prepend)"),
    "field_view_at": ("field_view.hpp", r"\bat", None, "field_view::at (variadic form: builds the coordinate vector and delegates)"),
}

# C17: what every layer hands back as its configuration, and what its parameter-pack constructor stores (Covfie.Config.construct / getConfig)
_OWN = r"struct\s+owning_data_t\s*\{"
_LAYER_FILES = {
    "array": "backend/primitive/array.hpp", "constant": "backend/primitive/constant.hpp", "identity": "backend/primitive/identity.hpp",
    "strided": "backend/transformer/strided.hpp", "morton": "backend/transformer/morton.hpp", "hilbert": "backend/transformer/hilbert.hpp",
    "clamp": "backend/transformer/clamp.hpp", "backup": "backend/transformer/backup.hpp", "affine": "backend/transformer/affine.hpp",
    "linear": "backend/transformer/linear.hpp", "nearest_neighbour": "backend/transformer/nearest_neighbour.hpp",
    "shuffle": "backend/transformer/shuffle.hpp", "covariant_cast": "backend/transformer/covariant_cast.hpp",
    "dereference": "backend/transformer/dereference.hpp",
}
for _l, _f in _LAYER_FILES.items():
    SENTENCES["cfg_" + _l] = (_f, r"configuration_t\s+get_configuration", _OWN, "Covfie.Config.getConfig (the layer's own configuration, as stored)")
    if _l != "identity":      # identity has no configuration to construct from
        SENTENCES["packctor_" + _l] = (_f, "PACKCTOR", _OWN, "Covfie.Config.construct (head of the pack is this layer's configuration, the rest goes to the layer below)")
CFG_KEYS = tuple(k for k in SENTENCES if k.startswith(("cfg_", "packctor_")))


def _pack_ctor(text, anchor):
    """the constructor from `parameter_pack<configuration_t[, Args...]> &&`: parameter, member initialisers and body"""
    m = re.search(anchor, text)
    if not m:
        raise Untranslatable("owning_data_t not found")
    t = text[m.end():]
    m = re.search(r"owning_data_t\s*\(\s*(parameter_pack\s*<\s*configuration_t\s*(?:,\s*Args\s*\.\.\.\s*)?>\s*&&\s*\w+)\s*\)", t)
    if not m:
        raise Untranslatable("no constructor from parameter_pack<configuration_t, ...> &&")
    k = t.index("{", m.end())
    d, e = 1, k + 1
    while d:
        d += {"{": 1, "}": -1}.get(t[e], 0)
        e += 1
    return m.group(1), t[m.end():e]


def norm(s):
    return re.sub(r"\s+", " ", s).strip()


def translate(repo, key):
    f, fn, anchor, _ = SENTENCES[key]
    try:
        text = strip_comments((Path(repo) / CORE / f).read_text())
    except OSError as e:
        raise Untranslatable(str(e))
    try:
        ptxt, body = _pack_ctor(text, anchor) if fn == "PACKCTOR" else find_function(text, fn, after=anchor)
    except Untranslatable:
        raise
    except (IndexError, ValueError) as e:
        raise Untranslatable(f"{type(e).__name__}: {e}")
    return "(sentence " + norm(ptxt).replace("(", "<").replace(")", ">") + " :: " + norm(body).replace("(", "<").replace(")", ">") + ")"


if __name__ == "__main__":
    import sys
    repo = sys.argv[sys.argv.index("--repo") + 1] if "--repo" in sys.argv else "/repo"
    if "--emit-lean" in sys.argv:
        out = ["/-! GENERATED by `python3 -m harness.cxx2sent --emit-lean` from the tree the model was written against. Do not edit.",
               "The bodies of the per-layer lookups and of the conversion helpers, as normalised text, each with the model clause that was",
               "written from it. `impcheck print` prints them; every check compares the current text (harness/cxx2sent.py). -/",
               "namespace Covfie.Sentences", "", "/-- (key, model clause, normalised text) -/", "def all : List (String × String × String) := ["]
        rows = []
        for k, (f, fn, a, model) in SENTENCES.items():
            t = translate(repo, k).replace("\\", "\\\\").replace('"', '\\"')
            rows.append(f'  ("{k}", "{model}",\n   "{t}")')
        out.append(",\n".join(rows) + "]")
        out += ["", "end Covfie.Sentences"]
        sys.stdout.write("\n".join(out) + "\n")
    else:
        for k in SENTENCES:
            try:
                print(k, translate(repo, k)[:160])
            except Untranslatable as e:
                print(k, "UNTRANSLATABLE:", e)
