"""Recogniser for `utility/static_permutation.hpp` (DESIGN.md §11.6): every template specialisation in the header must be one of the
equations lean/CovfieModel/Model/TmplScript.lean gives a meaning to (a partial specialisation read as a rewrite rule on index
sequences); the primary templates without a body are skipped.  Result: (tmpl concat ltNil ltCons geqNil geqCons sortNil sortCons
permOther permSeq) — the names in the order of declaration."""
import re
from pathlib import Path
from harness.cxx2imp import strip_comments, Untranslatable, CORE

SZ = r"std::size_t"
IC = lambda n: r"std::integral_constant<std::size_t," + n + r">"
SEQ = lambda inner: r"std::index_sequence<" + inner + r">"


def _filter(name, cmp_):
    return (r"template<" + SZ + r"N," + SZ + r"V," + SZ + r"\.\.\.Vs>struct" + name + r"<" + IC("N") + r"," + SEQ(r"V,Vs\.\.\.") + r">\{"
            r"usingtype=typenameconcat_index_sequence<std::conditional_t<V" + cmp_ + r"N," + SEQ("V") + r"," + SEQ("") + r">,"
            r"typename" + name + r"<" + IC("N") + r"," + SEQ(r"Vs\.\.\.") + r">::type>::type;\};")


EQNS = [
    (r"template<" + SZ + r"\.\.\.L," + SZ + r"\.\.\.H>structconcat_index_sequence<" + SEQ(r"L\.\.\.") + r"," + SEQ(r"H\.\.\.") + r">\{"
     r"usingtype=" + SEQ(r"L\.\.\.,H\.\.\.") + r";\};", "concat"),
    (r"template<" + SZ + r"N>structfilter_index_sequence_lt<" + IC("N") + r"," + SEQ("") + r">\{usingtype=" + SEQ("") + r";\};", "ltNil"),
    (_filter("filter_index_sequence_lt", "<"), "ltCons"),
    (r"template<" + SZ + r"N>structfilter_index_sequence_geq<" + IC("N") + r"," + SEQ("") + r">\{usingtype=" + SEQ("") + r";\};", "geqNil"),
    (_filter("filter_index_sequence_geq", ">="), "geqCons"),
    (r"template<>structsort_index_sequence<" + SEQ("") + r">\{usingtype=" + SEQ("") + r";\};", "sortNil"),
    (r"template<" + SZ + r"N," + SZ + r"\.\.\.Ns>structsort_index_sequence<" + SEQ(r"N,Ns\.\.\.") + r">\{"
     r"usingtype=typenameconcat_index_sequence<typenamesort_index_sequence<typenamefilter_index_sequence_lt<" + IC("N") + r"," + SEQ(r"Ns\.\.\.") + r">::type>::type,"
     r"typenameconcat_index_sequence<" + SEQ("N") + r",typenamesort_index_sequence<typenamefilter_index_sequence_geq<" + IC("N") + r"," + SEQ(r"Ns\.\.\.")
     + r">::type>::type>::type>::type;\};", "sortCons"),
    (r"template<typename,typename>structis_permutation:std::false_type\{\};", "permOther"),
    (r"template<" + SZ + r"\.\.\.Us," + SZ + r"\.\.\.Vs>structis_permutation<" + SEQ(r"Us\.\.\.") + r"," + SEQ(r"Vs\.\.\.") + r">:std::is_same<"
     r"typenamesort_index_sequence<" + SEQ(r"Us\.\.\.") + r">::type,typenamesort_index_sequence<" + SEQ(r"Vs\.\.\.") + r">::type>\{\};", "permSeq"),
]
# primary templates that only declare the name (no members): no equation
PRIMARY = r"template<typename(?:,typename)?>struct(?:concat_index_sequence|filter_index_sequence_lt|filter_index_sequence_geq|sort_index_sequence)\{\};"


def translate(repo):
    try:
        text = strip_comments((Path(repo) / CORE / "utility/static_permutation.hpp").read_text())
    except OSError as e:
        raise Untranslatable(str(e))
    m = re.search(r"namespace\s+covfie::utility\s*\{", text)
    if not m:
        raise Untranslatable("namespace covfie::utility not found")
    t = re.sub(r"\s+", "", text[m.end():])
    names = []
    while t and t != "}":
        mm = re.match(PRIMARY, t)
        if mm:
            t = t[mm.end():]
            continue
        for pat, name in EQNS:
            mm = re.match(pat, t)
            if mm:
                names.append(name)
                t = t[mm.end():]
                break
        else:
            raise Untranslatable(f"declaration `{t[:110]}`")
    return "(tmpl " + " ".join(names) + ")"


if __name__ == "__main__":
    import sys
    repo = sys.argv[sys.argv.index("--repo") + 1] if "--repo" in sys.argv else "/repo"
    try:
        print("static_permutation", translate(repo))
    except Untranslatable as e:
        print("static_permutation UNTRANSLATABLE:", e)
