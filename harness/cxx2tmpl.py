"""Recogniser for `utility/static_permutation.hpp` (DESIGN.md §11.6): every template specialisation in the header must be one of the
equations lean/CovfieModel/Model/TmplScript.lean gives a meaning to (a partial specialisation read as a rewrite rule on index
sequences); the primary templates without a body are skipped.  Result: (tmpl concat ltNil ltCons geqNil geqCons sortNil sortCons
permOther permSeq) — the names in the order of declaration."""
import re
from pathlib import Path
from harness.cxx2imp import strip_comments, Untranslatable, CORE

SZ = r"std::size_t"
IC = lambda n: r"std::integral_constant<std::size_t," + n + r">"
SEQ = lambda inner: r"std::index_sequence<" + inner + r">"


def _filter(name, cmp_):
    return (r"template<" + SZ + r"N," + SZ + r"V," + SZ + r"\.\.\.Vs>struct" + name + r"<" + IC("N") + r"," + SEQ(r"V,Vs\.\.\.") + r">\{"
            r"usingtype=typenameconcat_index_sequence<std::conditional_t<V" + cmp_ + r"N," + SEQ("V") + r"," + SEQ("") + r">,"
            r"typename" + name + r"<" + IC("N") + r"," + SEQ(r"Vs\.\.\.") + r">::type>::type;\};")


EQNS = [
    (r"template<" + SZ + r"\.\.\.L," + SZ + r"\.\.\.H>structconcat_index_sequence<" + SEQ(r"L\.\.\.") + r"," + SEQ(r"H\.\.\.") + r">\{"
     r"usingtype=" + SEQ(r"L\.\.\.,H\.\.\.") + r";\};", "concat"),
    (r"template<" + SZ + r"N>structfilter_index_sequence_lt<" + IC("N") + r"," + SEQ("") + r">\{usingtype=" + SEQ("") + r";\};", "ltNil"),
    (_filter("filter_index_sequence_lt", "<"), "ltCons"),
    (r"template<" + SZ + r"N>structfilter_index_sequence_geq<" + IC("N") + r"," + SEQ("") + r">\{usingtype=" + SEQ("") + r";\};", "geqNil"),
    (_filter("filter_index_sequence_geq", ">="), "geqCons"),
    (r"template<>structsort_index_sequence<" + SEQ("") + r">\{usingtype=" + SEQ("") + r";\};", "sortNil"),
    (r"template<" + SZ + r"N," + SZ + r"\.\.\.Ns>structsort_index_sequence<" + SEQ(r"N,Ns\.\.\.") + r">\{"
     r"usingtype=typenameconcat_index_sequence<typenamesort_index_sequence<typenamefilter_index_sequence_lt<" + IC("N") + r"," + SEQ(r"Ns\.\.\.") + r">::type>::type,"
     r"typenameconcat_index_sequence<" + SEQ("N") + r",typenamesort_index_sequence<typenamefilter_index_sequence_geq<" + IC("N") + r"," + SEQ(r"Ns\.\.\.")
     + r">::type>::type>::type>::type;\};", "sortCons"),
    (r"template<typename,typename>structis_permutation:std::false_type\{\};", "permOther"),
    (r"template<" + SZ + r"\.\.\.Us," + SZ + r"\.\.\.Vs>structis_permutation<" + SEQ(r"Us\.\.\.") + r"," + SEQ(r"Vs\.\.\.") + r">:std::is_same<"
     r"typenamesort_index_sequence<" + SEQ(r"Us\.\.\.") + r">::type,typenamesort_index_sequence<" + SEQ(r"Vs\.\.\.") + r">::type>\{\};", "permSeq"),
]
# primary templates that only declare the name (no members): no equation
PRIMARY = r"template<typename(?:,typename)?>struct(?:concat_index_sequence|filter_index_sequence_lt|filter_index_sequence_geq|sort_index_sequence)\{\};"


def translate(repo):
    try:
        text = strip_comments((Path(repo) / CORE / "utility/static_permutation.hpp").read_text())
    except OSError as e:
        raise Untranslatable(str(e))
    m = re.search(r"namespace\s+covfie::utility\s*\{", text)
    if not m:
        raise Untranslatable("namespace covfie::utility not found")
    t = re.sub(r"\s+", "", text[m.end():])
    names = []
    while t and t != "}":
        mm = re.match(PRIMARY, t)
        if mm:
            t = t[mm.end():]
            continue
        for pat, name in EQNS:
            mm = re.match(pat, t)
            if mm:
                names.append(name)
                t = t[mm.end():]
                break
        else:
            raise Untranslatable(f"declaration `{t[:110]}`")
    return "(tmpl " + " ".join(names) + ")"


# ---- utility/nd_map.hpp: tail, cat and the three branches of nd_map (lean/CovfieModel/Model/NdScript.lean)
def _lit(x):
    return re.escape(x)


_FOR = _lit("for(typenameTuple::value_typei=static_cast<typenameTuple::value_type>(0);i<s.at(0);++i)")
ND = [
    (_lit("template<typenameT,std::size_tN,std::size_t...Ns>autotail_impl(std::index_sequence<Ns...>,[[maybe_unused]]constarray::array<T,N>&t)"
          "{returnarray::array<T,N-1>{t.at(Ns+1u)...};}"), "tailImpl"),
    (_lit("template<typenameT,std::size_tN>autotail(constarray::array<T,N>&t){returntail_impl(std::make_index_sequence<N-1u>(),t);}"), "tail"),
    (_lit("template<typenameT,std::size_tN1,std::size_tN2,std::size_t...Is1,std::size_t...Is2>array::array<T,N1+N2>cat_impl("
          "constarray::array<T,N1>&a1,constarray::array<T,N2>&a2,std::index_sequence<Is1...>,std::index_sequence<Is2...>)"
          "{return{a1.at(Is1)...,a2.at(Is2)...};}"), "catImpl"),
    (_lit("template<typenameT,std::size_tN1,std::size_tN2>array::array<T,N1+N2>cat(constarray::array<T,N1>&a1,constarray::array<T,N2>&a2)"
          "{returncat_impl(a1,a2,std::make_index_sequence<N1>(),std::make_index_sequence<N2>());}"), "cat"),
    (_lit("template<typenameTuple>voidnd_map(std::function<void(Tuple)>f,Tuples){"), "ndMap"),
    (_lit("ifconstexpr(Tuple::dimensions==0u){f({});}"), "nd0"),
    (_lit("elseifconstexpr(Tuple::dimensions==1u){") + _FOR + _lit("{f(array::array<typenameTuple::value_type,1>{i});}}"), "nd1"),
    (_lit("else{usingtail_t=decltype(tail(std::declval<Tuple>()));") + _FOR
     + _lit("{nd_map<tail_t>([f,i](tail_tr){f(cat(array::array<typenameTuple::value_type,1>{i},r));},tail(s));}}}"), "ndN"),
]


def translate_ndmap(repo):
    try:
        text = strip_comments((Path(repo) / CORE / "utility/nd_map.hpp").read_text())
    except OSError as e:
        raise Untranslatable(str(e))
    m = re.search(r"namespace\s+covfie::utility\s*\{", text)
    if not m:
        raise Untranslatable("namespace covfie::utility not found")
    t = re.sub(r"\s+", "", text[m.end():])
    names = []
    while t and t != "}":
        for pat, name in ND:
            mm = re.match(pat, t)
            if mm:
                names.append(name)
                t = t[mm.end():]
                break
        else:
            raise Untranslatable(f"declaration `{t[:110]}`")
    return "(ndmap " + " ".join(names) + ")"


if __name__ == "__main__":
    import sys
    repo = sys.argv[sys.argv.index("--repo") + 1] if "--repo" in sys.argv else "/repo"
    for nm, fn in (("static_permutation", translate), ("nd_map_equations", translate_ndmap)):
        try:
            print(nm, fn(repo))
        except Untranslatable as e:
            print(nm, "UNTRANSLATABLE:", e)
