"""Shared pieces of the binary-IO correspondence (C06, C07, C08): the layer grammar for serialisable stacks, generated
stack lists for `harness/cpp/io_harness.cpp`, data generation, an independent Python reader of the file format,
positions of the checked words, float narrowing oracle, parallel harness/driver runs."""
import itertools, random, struct
from concurrent.futures import ThreadPoolExecutor
from fractions import Fraction
from vlib import common as C

import shutil
CPP = C.VERIF / "harness" / "cpp"
PRLIMIT = shutil.which("prlimit")
MAGH, MAGF, FOOT = 0xC04F1EAB, 0xC04F1E70, 0x20000000
TAG = {"field": 0xAB000000, "array": 0xAB010000, "constant": 0xAB010001, "identity": 0xAB010002, "affine": 0xAB020000,
       "backup": 0xAB020001, "clamp": 0xAB020002, "hilbert": 0xAB020004, "morton": 0xAB020006, "strided": 0xAB020010}
UNUSED_TAGS = [0xAB020003, 0xAB020005, 0xAB020007, 0xAB020008, 0xAB020009]   # dereference, linear, nn, cast, shuffle: never written
ALL_LAYERS = ["array", "constant", "identity", "strided", "morton", "hilbert", "clamp", "backup", "affine", "shuffle",
              "cast", "deref", "nn", "linear"]
# scalar name -> (C++ type, bytes, is floating point)
SC = {"f32": ("float", 4, True), "f64": ("double", 8, True), "u64": ("std::size_t", 8, False), "ul": ("unsigned long", 8, False),
      "i64": ("long", 8, False), "u32": ("unsigned int", 4, False), "i32": ("int", 4, False), "u16": ("unsigned short", 2, False)}


SC_RANDOM = [k for k in SC if k != "u16"]      # scalar kinds drawn for random constant / identity backends


def prod(xs):
    p = 1
    for x in xs:
        p *= x
    return p


def pow2ceil(n):
    r = 1
    while r < n:
        r *= 2
    return r


# --------------------------------------------------------------------------------------------------- stack grammar
class Info:
    pass


def V(sc, n):
    return f"vector::vector_d<{SC[sc][0]}, {n}>"


def analyse(stack):
    """stack: list of layers, outermost first (JSON-able). Returns Info with the C++ type, the model's `Ty` (nested tuple
    and tokens), the per-layer kinds (for data generation). Raises ValueError for an ill-kinded composition."""
    cur = None
    for lay in reversed(stack):
        k = lay[0]
        if cur is None:
            if k == "array":
                sc, M = lay[1], lay[2]
                ix = lay[3] if len(lay) > 3 else None          # optional non-default index type (the file format does not know it)
                if not SC[sc][2]:
                    raise ValueError("array storage must be float or double for binary IO")
                cur = dict(N=1, ins=ix or "u64", M=M, outs=sc, cpp=f"backend::array<{V(sc, M)}" + (f", {SC[ix][0]}>" if ix else ">"),
                           ty=("A", M), gen=[("A", sc, M)], store=sc, idx=True)
            elif k == "constant":
                _, si, N, so, M = lay
                cur = dict(N=N, ins=si, M=M, outs=so, cpp=f"backend::constant<{V(si, N)}, {V(so, M)}>", ty=("C", SC[so][1], M),
                           gen=[("C", so, M)], store=None, idx=False)
            elif k == "identity":
                _, sc, N = lay
                cur = dict(N=N, ins=sc, M=N, outs=sc, cpp=f"backend::identity<{V(sc, N)}>", ty=("I",), gen=[("I",)], store=None, idx=False)
            else:
                raise ValueError("innermost layer must be a primitive")
            continue
        n = dict(cur)
        n["gen"] = list(cur["gen"])
        if k in ("strided", "morton", "hilbert"):
            if not cur["idx"] or cur["N"] != 1:
                raise ValueError("storage order needs a 1-D index backend")
            sc = lay[1]
            if SC[sc][2]:
                raise ValueError("storage order coordinates are integers")
            N = 2 if k == "hilbert" else lay[2]
            if k == "strided":
                n["cpp"] = f"backend::strided<{V(sc, N)}, {cur['cpp']}>"
            elif k == "morton":
                n["cpp"] = f"backend::morton<{V(sc, N)}, {cur['cpp']}, {'true' if lay[3] else 'false'}>"
            else:
                n["cpp"] = f"backend::hilbert<{V(sc, 2)}, {cur['cpp']}>"
            n.update(N=N, ins=sc, idx=False, ty=("S", TAG[k], N, cur["ty"]))
            n["gen"].insert(0, ("S", k, N))
        elif k == "clamp":
            n["cpp"] = f"backend::clamp<{cur['cpp']}>"
            n["ty"] = ("K", SC[cur["ins"]][1], cur["N"], cur["ty"])
            n["gen"].insert(0, ("K", cur["ins"], cur["N"]))
        elif k == "backup":
            n["cpp"] = f"backend::backup<{cur['cpp']}>"
            n["ty"] = ("B", SC[cur["ins"]][1], cur["N"], SC[cur["outs"]][1], cur["M"], cur["ty"])
            n["gen"].insert(0, ("B", cur["ins"], cur["N"], cur["outs"], cur["M"]))
        elif k == "affine":
            if not SC[cur["ins"]][2]:
                raise ValueError("affine needs floating-point coordinates")
            n["cpp"] = f"backend::affine<{cur['cpp']}>"
            n["ty"] = ("F", SC[cur["ins"]][1], cur["N"], cur["ty"])
            n["gen"].insert(0, ("F", cur["ins"], cur["N"]))
        elif k == "shuffle":
            perm = lay[1]
            if sorted(perm) != list(range(cur["N"])):
                raise ValueError("shuffle needs a permutation of the input dimensions")
            n["cpp"] = f"backend::shuffle<{cur['cpp']}, std::index_sequence<{', '.join(map(str, perm))}>>"
            n["ty"] = ("T", cur["ty"]); n["gen"].insert(0, ("T",))
        elif k == "cast":
            n["cpp"] = f"backend::covariant_cast<{SC[lay[1]][0]}, {cur['cpp']}>"
            n["outs"] = lay[1]
            n["ty"] = ("T", cur["ty"]); n["gen"].insert(0, ("T",))
        elif k == "deref":
            n["cpp"] = f"backend::dereference<{cur['cpp']}>"
            n["ty"] = ("T", cur["ty"]); n["gen"].insert(0, ("T",))
        elif k in ("nn", "linear"):
            sc = lay[1]
            if not SC[sc][2]:
                raise ValueError("interpolator coordinates are floating point")
            if SC[cur["ins"]][2] or cur["idx"]:
                raise ValueError("interpolators sit on integer N-d coordinates")
            if k == "linear" and not SC[cur["outs"]][2]:
                raise ValueError("linear needs floating-point values")
            t = "nearest_neighbour" if k == "nn" else "linear"
            n["cpp"] = f"backend::{t}<{cur['cpp']}, {V(sc, cur['N'])}>"
            n["ins"] = sc
            n["ty"] = ("T", cur["ty"]); n["gen"].insert(0, ("T",))
        else:
            raise ValueError(f"unknown layer {k}")
        if k not in ("strided", "morton", "hilbert"):
            n["idx"] = cur["idx"] if k in ("clamp", "backup", "shuffle", "cast", "deref") else False
        cur = n
    inf = Info()
    inf.stack = stack
    inf.cpp = cur["cpp"]
    inf.ty = cur["ty"]
    inf.tytok = " ".join(map(str, flat_ty(cur["ty"])))
    inf.gen = cur["gen"]
    inf.store = cur["store"]
    inf.strip = tuple(flat_ty(strip_ty(cur["ty"])))
    inf.layers = [l[0] for l in stack]
    inf.label = label(stack)
    inf.depth = len(stack)
    inf.N, inf.ins, inf.M, inf.outs = cur["N"], cur["ins"], cur["M"], cur["outs"]
    return inf


def view_bytes(stack):
    """upper estimate of sizeof(non-owning data) of a stack (field_view asserts <= 256): the members of every layer plus
    8 bytes of alignment slack per layer"""
    total = 0
    for i, lay in enumerate(stack):
        k = lay[0]
        below = analyse(stack[i + 1:]) if i + 1 < len(stack) else None
        if k == "array":
            total += 16
        elif k == "constant":
            total += SC[lay[3]][1] * lay[4]
        elif k == "identity":
            total += 1
        elif k in ("strided", "morton"):
            total += 8 * lay[2]
        elif k == "hilbert":
            total += 16
        elif k == "clamp":
            total += 2 * SC[below.ins][1] * below.N
        elif k == "backup":
            total += 2 * SC[below.ins][1] * below.N + SC[below.outs][1] * below.M
        elif k == "affine":
            total += SC[below.ins][1] * below.N * (below.N + 1)
        total += 8
    return total


def label(stack):
    out = []
    for l in stack:
        k = l[0]
        if k == "array":
            out.append(f"array<{l[1]}x{l[2]}" + (f",{l[3]}>" if len(l) > 3 else ">"))
        elif k == "constant":
            out.append(f"constant<{l[1]}x{l[2]}->{l[3]}x{l[4]}>")
        elif k == "identity":
            out.append(f"identity<{l[1]}x{l[2]}>")
        elif k in ("strided", "morton"):
            out.append(f"{k}<{l[1]}x{l[2]}>" + ("" if k == "strided" or l[3] else "[portable]"))
        elif k == "hilbert":
            out.append(f"hilbert<{l[1]}x2>")
        elif k == "shuffle":
            out.append("shuffle<" + "".join(map(str, l[1])) + ">")
        elif k in ("cast", "nn", "linear"):
            out.append(f"{k}<{l[1]}>")
        else:
            out.append(k)
    return "/".join(out)


def flat_ty(ty):
    k = ty[0]
    if k in ("A", "C", "I"):
        return list(ty)
    return list(ty[:-1]) + flat_ty(ty[-1])


def strip_ty(ty):
    k = ty[0]
    if k in ("A", "C", "I"):
        return ty
    if k == "T":
        return strip_ty(ty[1])
    return ty[:-1] + (strip_ty(ty[-1]),)


def tags_of(ty):
    """tags a stack writes, outermost first (Lean: C07.tags)"""
    k = ty[0]
    if k == "A":
        return [TAG["array"]]
    if k == "C":
        return [TAG["constant"]]
    if k == "I":
        return [TAG["identity"]]
    if k == "T":
        return tags_of(ty[1])
    t = {"S": ty[1], "K": TAG["clamp"], "B": TAG["backup"], "F": TAG["affine"]}[k]
    return [t] + tags_of(ty[-1])


def tag_of(ty):
    return {"A": TAG["array"], "C": TAG["constant"], "I": TAG["identity"], "K": TAG["clamp"], "B": TAG["backup"], "F": TAG["affine"],
            "T": 0}.get(ty[0], ty[1] if ty[0] == "S" else 0)


def diverge(a, b):
    """Lean: C08.Diverge a b (the hypothesis of load_incompatible_rejects), decided on the nested Ty tuples"""
    if a[0] == "T":
        return diverge(a[1], b)
    if b[0] == "T":
        return diverge(a, b[1])
    if tag_of(a) != tag_of(b):
        return True
    if a[0] in ("A", "C", "I"):
        return False
    if a[:-1] == b[:-1]:
        return diverge(a[-1], b[-1])
    return False


# --------------------------------------------------------------------------------------------------- the stack sets
def _fam():
    S = []
    # 3-D row-major float3 / double3 field under an affine map, both interpolators (the shape of the library's examples)
    for interp in ("linear", "nn"):
        for st in ("f32", "f64"):
            S.append([["affine"], [interp, "f32"], ["strided", "u64", 3], ["array", st, 3]])
    # 2-D row-major scalar field: bare, interpolated, cast / dereferenced / permuted
    S += [[["strided", "u64", 2], ["array", "f64", 1]],
          [["strided", "u64", 2], ["array", "f32", 1]],
          [["linear", "f32"], ["strided", "u64", 2], ["array", "f32", 1]],
          [["nn", "f64"], ["strided", "u64", 2], ["array", "f64", 1]],
          [["shuffle", [1, 0]], ["cast", "f64"], ["deref"], ["strided", "u64", 2], ["array", "f32", 1]],
          [["linear", "f64"], ["strided", "ul", 2], ["array", "f64", 1]],
          [["cast", "f32"], ["linear", "f32"], ["strided", "u64", 2], ["array", "f64", 1]]]
    # Morton under a clamp
    S += [[["clamp"], ["morton", "u64", 2, 1], ["array", "f32", 1]],
          [["clamp"], ["morton", "u64", 2, 0], ["array", "f64", 1]],
          [["clamp"], ["deref"], ["morton", "u64", 2, 1], ["array", "f32", 1]]]
    # Hilbert under an interpolator and an out-of-range default
    S += [[["backup"], ["nn", "f32"], ["hilbert", "u64"], ["array", "f64", 2]],
          [["backup"], ["linear", "f32"], ["hilbert", "u64"], ["array", "f64", 2]],
          [["backup"], ["nn", "f32"], ["hilbert", "u64"], ["array", "f32", 2]]]
    # Hilbert and Morton bare and under interpolators only (the stacks whose reloaded lookups are compared at every coordinate:
    # whatever a layout layer derives from its sizes at construction must also be there after a load)
    S += [[["hilbert", "u64"], ["array", "f64", 1]],
          [["nn", "f32"], ["hilbert", "u64"], ["array", "f32", 2]],
          [["linear", "f32"], ["hilbert", "u64"], ["array", "f64", 1]],
          [["morton", "u64", 2, 1], ["array", "f32", 1]],
          [["linear", "f32"], ["morton", "u64", 2, 0], ["array", "f64", 2]]]
    # bare arrays
    S += [[["array", "f32", 3]], [["array", "f64", 3]], [["array", "f64", 1]], [["array", "f32", 1]], [["array", "f32", 4]],
          [["array", "f64", 2]], [["array", "f32", 2]], [["cast", "f32"], ["array", "f64", 1]], [["deref"], ["array", "f64", 4]]]
    # constants and identities, bare and wrapped
    S += [[["constant", "f32", 2, "f64", 3]], [["constant", "u64", 3, "f32", 1]],
          [["affine"], ["constant", "f32", 3, "f32", 3]], [["clamp"], ["constant", "f64", 1, "f64", 2]],
          [["backup"], ["constant", "f32", 2, "f64", 2]],
          [["identity", "u64", 3]], [["identity", "f32", 2]], [["affine"], ["identity", "f64", 2]], [["clamp"], ["identity", "f32", 1]]]
    # 1-D, 3-D and 4-D storage orders, other coordinate scalars
    S += [[["strided", "u64", 1], ["array", "f32", 2]],
          [["linear", "f32"], ["strided", "u64", 1], ["array", "f64", 2]],
          [["nn", "f32"], ["strided", "u64", 1], ["array", "f32", 2]],
          [["morton", "u64", 3, 1], ["array", "f32", 1]],
          [["nn", "f64"], ["morton", "u32", 3, 0], ["array", "f64", 1]],
          [["strided", "u32", 4], ["array", "f64", 1]],
          [["morton", "i32", 4, 0], ["array", "f32", 2]],
          [["shuffle", [2, 0, 1]], ["strided", "u64", 3], ["array", "f64", 3]],
          [["backup"], ["strided", "i32", 2], ["array", "f32", 3]],
          [["clamp"], ["linear", "f64"], ["strided", "u64", 2], ["array", "f32", 1]],
          [["affine"], ["clamp"], ["nn", "f32"], ["hilbert", "u64"], ["array", "f32", 1]],
          [["backup"], ["affine"], ["linear", "f32"], ["strided", "u64", 2], ["array", "f64", 2]]]
    # the same layer twice with the same configuration type (each level must keep its own configuration through dump / load)
    S += [[["affine"], ["affine"], ["identity", "f64", 2]],
          [["affine"], ["affine"], ["linear", "f32"], ["strided", "u64", 2], ["array", "f32", 1]],
          [["clamp"], ["clamp"], ["identity", "f32", 2]],
          [["backup"], ["backup"], ["strided", "u64", 2], ["array", "f32", 2]]]
    # arrays with a non-default index type: the file image (8-byte count) does not depend on it
    S += [[["array", "f32", 3, "u32"]], [["linear", "f32"], ["strided", "u64", 2], ["array", "f64", 1, "u32"]],
          [["nn", "f32"], ["strided", "u64", 2], ["array", "f32", 1, "u32"]]]
    # a 16-bit coordinate scalar (a field of exactly 2^16 cells is legal: the largest index is 2^16 - 1)
    S += [[["strided", "u16", 2], ["array", "f32", 1]]]
    # configuration blocks whose members are not adjacent in memory (an odd number of narrow coordinates before a wider default
    # value: padding inside the owning data; the file has none)
    S += [[["backup"], ["strided", "u16", 3], ["array", "f64", 1]],
          [["backup"], ["strided", "u16", 1], ["array", "f64", 2]],
          [["clamp"], ["strided", "u16", 3], ["array", "f32", 1]]]
    return S


QUICK_STACKS = _fam()

# one stack per serialisable layer for the committed golden files (C07)
GOLDEN_STACKS = [
    ("array_f32x3", [["array", "f32", 3]]),
    ("array_f64x1", [["array", "f64", 1]]),
    ("constant", [["constant", "f32", 2, "f64", 3]]),
    ("identity", [["identity", "u64", 3]]),
    ("strided", [["strided", "u64", 2], ["array", "f64", 1]]),
    ("morton", [["morton", "u64", 3, 1], ["array", "f32", 1]]),
    ("hilbert", [["hilbert", "u64"], ["array", "f64", 2]]),
    ("clamp", [["clamp"], ["morton", "u64", 2, 0], ["array", "f64", 1]]),
    ("backup", [["backup"], ["nn", "f32"], ["hilbert", "u64"], ["array", "f64", 2]]),
    ("affine", [["affine"], ["linear", "f32"], ["strided", "u64", 3], ["array", "f32", 3]]),
    ("shuffle_cast_deref", [["shuffle", [1, 0]], ["cast", "f64"], ["deref"], ["strided", "u64", 2], ["array", "f32", 1]]),
    ("nearest_neighbour", [["nn", "f64"], ["strided", "u64", 2], ["array", "f64", 1]]),
    ("linear", [["linear", "f32"], ["strided", "u64", 1], ["array", "f64", 2]]),
    ("affine_constant", [["affine"], ["constant", "f32", 3, "f32", 3]]),
    ("clamp_identity", [["clamp"], ["identity", "f32", 1]]),
    # added later (same pinned format): configurations whose in-memory layout could change independently of the file image
    ("affine_1d_f32", [["affine"], ["nn", "f32"], ["strided", "u64", 1], ["array", "f32", 1]]),
    ("affine_2d_f32", [["affine"], ["linear", "f32"], ["strided", "u64", 2], ["array", "f32", 2]]),
    ("affine_2d_f64", [["affine"], ["nn", "f64"], ["strided", "u64", 2], ["array", "f64", 1]]),
    ("affine_1d_f64_identity", [["affine"], ["identity", "f64", 1]]),
    ("backup_f64_coords_f32x3", [["backup"], ["nn", "f64"], ["strided", "u64", 2], ["array", "f32", 3]]),
    ("backup_u64_coords_f32x1", [["backup"], ["strided", "u64", 3], ["array", "f32", 1]]),
    ("clamp_i32_2d", [["clamp"], ["strided", "i32", 2], ["array", "f32", 1]]),
    ("clamp_f64_3d", [["clamp"], ["linear", "f64"], ["strided", "u64", 3], ["array", "f64", 1]]),
    ("strided_u32_4d", [["strided", "u32", 4], ["array", "f32", 2]]),
    ("constant_f64x1_f32x3", [["constant", "f64", 1, "f32", 3]]),
]


def random_stack(rnd):
    """a random well-kinded serialisable stack from the layer grammar"""
    for _ in range(200):
        prim = rnd.choice(["array"] * 6 + ["constant", "identity"])
        if prim == "array":
            st = [["array", rnd.choice(["f32", "f64"]), rnd.randrange(1, 5)]]
            if rnd.random() < 0.25:
                st.insert(0, rnd.choice([["deref"], ["cast", rnd.choice(["f32", "f64"])]]))
            if rnd.random() < 0.85:
                so = rnd.choice(["strided"] * 3 + ["morton"] * 2 + ["hilbert"])
                ct = rnd.choice(["u64"] * 4 + ["ul", "u32", "i32", "i64"])
                if so == "hilbert":
                    st.insert(0, ["hilbert", ct])
                elif so == "morton":
                    st.insert(0, ["morton", ct, rnd.randrange(1, 5), rnd.randrange(2)])
                else:
                    st.insert(0, ["strided", ct, rnd.randrange(1, 5)])
        elif prim == "constant":
            st = [["constant", rnd.choice(SC_RANDOM), rnd.randrange(1, 4), rnd.choice(SC_RANDOM), rnd.randrange(1, 5)]]
        else:
            st = [["identity", rnd.choice(SC_RANDOM), rnd.randrange(1, 5)]]
        for _ in range(rnd.choice([0, 1, 1, 2, 2, 3, 4])):
            k = rnd.choice(["clamp", "backup", "affine", "shuffle", "cast", "deref", "nn", "linear", "nn", "linear"])
            try:
                cur = analyse(st)
            except ValueError:
                break
            N = _dims(st)
            if k == "shuffle":
                p = list(range(N)); rnd.shuffle(p); lay = ["shuffle", p]
            elif k == "cast":
                lay = ["cast", rnd.choice(["f32", "f64"])]
            elif k in ("nn", "linear"):
                lay = [k, rnd.choice(["f32", "f64"])]
            else:
                lay = [k]
            try:
                analyse([lay] + st)
                if view_bytes([lay] + st) <= 256:          # field_view refuses larger views (a static_assert of the library)
                    st = [lay] + st
            except ValueError:
                pass
        try:
            analyse(st)
            if view_bytes(st) > 256:
                continue
            return st
        except ValueError:
            continue
    return [["array", "f32", 1]]


def _dims(stack):
    N = 1
    for lay in reversed(stack):
        if lay[0] in ("constant", "identity", "strided", "morton"):
            N = lay[2]
        elif lay[0] == "hilbert":
            N = 2
    return N


# --------------------------------------------------------------------------------------------------- data
F32_SPECIAL = [0, 0x80000000, 1, 0x80000001, 0x007fffff, 0x00800000, 0x7f7fffff, 0xff7fffff, 0x7f800000, 0xff800000, 0x7fc00000,
               0x7fc00123, 0xffc00001, 0x7fa00001, 0x7f800001, 0xffbfffff, 0x3f800000, 0xbf800000, 0x3f800001, 0x34000000]
F64_SPECIAL = [0, 1 << 63, 1, (1 << 63) | 1, 0x000fffffffffffff, 0x0010000000000000, 0x7fefffffffffffff, 0xffefffffffffffff,
               0x7ff0000000000000, 0xfff0000000000000, 0x7ff8000000000000, 0x7ff8000000000abc, 0xfff8000000000001,
               0x7ff4000000000001, 0x7ff0000000000001, 0xfff7ffffffffffff, 0x3ff0000000000000, 0xbff0000000000000,
               0x3ff0000000000001, 0x3e80000000000000]


def f32_of(x):
    return struct.unpack("<I", struct.pack("<f", x))[0]


def f64_of(x):
    return struct.unpack("<Q", struct.pack("<d", x))[0]


def scalar_bits(rnd, sc, profile):
    cpp, size, isf = SC[sc]
    bits = 8 * size
    if isf:
        spec = F32_SPECIAL if size == 4 else F64_SPECIAL
        conv = f32_of if size == 4 else f64_of
        if profile == "small":
            return conv(float(rnd.randrange(-8, 64)) / rnd.choice([1, 1, 2, 8]))
        if profile == "special":
            return rnd.choice(spec)
        if profile == "random":
            return rnd.getrandbits(bits)
        return rnd.choice([rnd.choice(spec), rnd.getrandbits(bits), conv(float(rnd.randrange(-100, 100)) / 4)])
    if profile == "small":
        return rnd.randrange(0, 16)
    return rnd.choice([0, 1, 2, (1 << bits) - 1, 1 << (bits - 1), (1 << (bits - 1)) - 1, rnd.getrandbits(bits), rnd.randrange(0, 100),
                       rnd.getrandbits(rnd.randrange(1, bits + 1))])


def narrowing_cells(rnd, n):
    """double bit patterns whose conversion to float is interesting: ties, near ties, subnormal results, near FLT_MAX"""
    return [narrow_value(rnd, finite_in_range=True) for _ in range(n)]


def narrow_value(rnd, finite_in_range=False):
    c = rnd.randrange(12 if finite_in_range else 16)
    sign = rnd.getrandbits(1) << 63
    if c == 0:      # a float, exactly
        return sign | f64_of(struct.unpack("<f", struct.pack("<I", rnd.getrandbits(31) % 0x7f800000))[0])
    if c in (1, 2):  # midpoint of two adjacent floats (tie), and its double neighbours
        f = rnd.getrandbits(31) % 0x7f7fffff
        a = Fraction(struct.unpack("<f", struct.pack("<I", f))[0]); b = Fraction(struct.unpack("<f", struct.pack("<I", f + 1))[0])
        mid = f64_of(float((a + b) / 2))
        return sign | max(0, mid + (0 if c == 1 else rnd.choice([-1, 1, -2, 2, -3, 3])))
    if c == 3:      # normal double with random low bits
        e = rnd.randrange(1023 - 126, 1023 + 127)
        return sign | (e << 52) | rnd.getrandbits(52)
    if c == 4:      # 29 low bits patterned around the rounding position
        e = rnd.randrange(1023 - 126, 1023 + 127)
        hi = rnd.getrandbits(23) << 29
        lo = rnd.choice([0, 1, (1 << 28) - 1, 1 << 28, (1 << 28) + 1, (1 << 29) - 1, 3 << 27, 1 << 27])
        return sign | (e << 52) | hi | lo
    if c in (5, 6):  # result subnormal in float: exponent in [-150-3, -126]
        e = rnd.randrange(1023 - 153, 1023 - 125)
        m = rnd.choice([0, 1, rnd.getrandbits(52), 1 << 51, (1 << 51) + 1, (1 << 51) - 1, (1 << 52) - 1, rnd.getrandbits(8) << 44])
        return sign | (e << 52) | m
    if c == 7:      # near FLT_MAX, below the overflow threshold
        return sign | rnd.choice([0x47efffffe0000000, 0x47efffffefffffff, 0x47efffffe0000001, 0x47efffffdfffffff, 0x47efffffd0000000,
                                  0x47efffffc0000000, 0x47dfffffffffffff])
    if c == 8:      # tiny: double subnormals and the smallest float subnormal's neighbourhood
        return sign | rnd.choice([0, 1, 0x000fffffffffffff, 0x36a0000000000000, 0x36a0000000000001, 0x369fffffffffffff, 0x3690000000000000,
                                  0x3690000000000001, 0x36b0000000000000, 0x36a8000000000000, 0x36b8000000000000, 0x36b4000000000000])
    if c == 9:      # small integers and dyadic fractions (exact)
        return f64_of(rnd.randrange(-1024, 1024) / rnd.choice([1, 2, 4, 1024]))
    if c == 10:     # carry out of the significand: 1.11…1 rounds up to the next binade
        e = rnd.randrange(1023 - 126, 1023 + 126)
        return sign | (e << 52) | ((1 << 52) - 1 - rnd.choice([0, 1, (1 << 28) - 1, 1 << 28, (1 << 28) + 1]))
    if c == 11:
        return sign | f64_of(rnd.uniform(-4.0, 4.0))
    if c == 12:     # at and beyond the overflow threshold
        return sign | rnd.choice([0x47effffff0000000, 0x47effffff0000001, 0x47f0000000000000, 0x7fefffffffffffff, 0x47efffffffffffff])
    if c == 13:     # NaNs
        return sign | 0x7ff0000000000000 | rnd.choice([1, 1 << 51, (1 << 51) | 5, rnd.getrandbits(52) or 1, 1 << 28, 1 << 29, (1 << 29) - 1])
    if c == 14:
        return sign | 0x7ff0000000000000
    return rnd.getrandbits(64)


def f64_frac(b):
    s = -1 if b >> 63 else 1
    e = (b >> 52) & 0x7ff; m = b & ((1 << 52) - 1)
    if e == 0x7ff:
        return None
    if e == 0:
        return s * Fraction(m, 1 << 1074)
    return s * Fraction((1 << 52) | m) * (Fraction(2) ** (e - 1075))


def f32_frac(b):
    s = -1 if b >> 31 else 1
    e = (b >> 23) & 0xff; m = b & ((1 << 23) - 1)
    if e == 0xff:
        return None
    if e == 0:
        return s * Fraction(m, 1 << 149)
    return s * Fraction((1 << 23) | m) * (Fraction(2) ** (e - 150))


FLT_MAX = f32_frac(0x7f7fffff)


def narrow_oracle(b64, r32):
    """property oracle, independent of the model: r32 is a nearest float to the double b64 (ties to even), sign kept.
    Returns None if fine, a string if refuted, 'skip' outside the property's domain (non-finite, beyond float range)."""
    y = f64_frac(b64)
    if y is None or abs(y) > FLT_MAX:
        return "skip"
    r = f32_frac(r32)
    if r is None:
        return "finite value within float range became non-finite"
    if (r32 >> 31) != (b64 >> 63):
        return "sign changed"
    mag = r32 & 0x7fffffff
    err = abs(r - y)
    for nb in (mag - 1, mag + 1):
        if nb < 0 or nb >= 0x7f800000:
            continue
        z = f32_frac(nb)
        dz = abs(z - abs(y))
        if dz < err:
            return f"not nearest: |result - value| = {float(err):.3g} but neighbouring float is at {float(dz):.3g}"
        if dz == err and (mag & 1):
            return "tie not rounded to even"
    return None


def widen_oracle(b32, r64):
    x = f32_frac(b32)
    if x is None:
        return "skip"
    r = f64_frac(r64)
    if r is None or r != x or (r64 >> 63) != (b32 >> 31):
        return "widening changed the value"
    return None


def gen_dat(info, rnd, profile="mixed", maxcells=24, cells=None, ext_pool=None):
    """content for a stack as the nested `Dat` tuple. profile: mixed | special | random | small | edge | narrowing"""
    ext = None
    order = None
    # extents first (they decide the array's cell count)
    for g in info.gen:
        if g[0] == "S":
            _, order, N = g
            pool = ext_pool or ([1, 2, 3, 4, 5, 7, 8] if profile != "edge" else [1, 1, 2])
            ext = [rnd.choice(pool) for _ in range(N)]
            def count(e):
                return prod(e) if order == "strided" else pow2ceil(max(e)) ** len(e)
            guard = 0
            while count(ext) * _cellM(info) > maxcells and guard < 64:
                i = max(range(N), key=lambda j: ext[j]); ext[i] = max(1, ext[i] // 2); guard += 1
    def build(gens):
        g = gens[0]
        k = g[0]
        if k == "A":
            _, sc, M = g
            wd = SC[sc][1]
            if ext is not None:
                n = prod(ext) if order == "strided" else pow2ceil(max(ext)) ** len(ext)
                if profile == "edge" and rnd.random() < 0.5:
                    n = rnd.choice([0, 1, n + 1])
            else:
                n = rnd.choice([0, 1, 2, 3, 5, 8]) if profile != "edge" else rnd.choice([0, 0, 1])
                if ext_pool:
                    n = rnd.choice([90, 200, 345, 520] if max(ext_pool) < 1000 else ext_pool)      # pool values >= 1000: cell counts
                n = min(n, max(0, maxcells // M))
            if cells is not None:
                vals = cells(n * M)
            elif profile == "narrowing" and sc == "f64":
                vals = narrowing_cells(rnd, n * M)
            else:
                vals = [scalar_bits(rnd, sc, "mixed" if profile in ("edge", "narrowing") else profile) for _ in range(n * M)]
            return ("A", wd, n, vals)
        if k == "C":
            return ("C", [scalar_bits(rnd, g[1], _p(profile)) for _ in range(g[2])])
        if k == "I":
            return ("I",)
        inner = build(gens[1:])
        if k == "S":
            return ("S", list(ext), inner)
        if k == "K":
            return ("K", [scalar_bits(rnd, g[1], _p(profile)) for _ in range(g[2])], [scalar_bits(rnd, g[1], _p(profile)) for _ in range(g[2])], inner)
        if k == "B":
            return ("B", [scalar_bits(rnd, g[1], _p(profile)) for _ in range(g[2])], [scalar_bits(rnd, g[1], _p(profile)) for _ in range(g[2])],
                    [scalar_bits(rnd, g[3], _p(profile)) for _ in range(g[4])], inner)
        if k == "F":
            return ("F", [scalar_bits(rnd, g[1], _p(profile)) for _ in range(g[2] * (g[2] + 1))], inner)
        return ("T", inner)
    return build(info.gen)


def _p(profile):
    return "mixed" if profile in ("edge", "narrowing") else profile


def _cellM(info):
    for g in info.gen:
        if g[0] == "A":
            return g[2] * (SC[g[1]][1] // 4)
    return 1


def nums(xs):
    return " ".join([str(len(xs))] + [str(x) for x in xs])


def fmt_dat(d):
    k = d[0]
    if k == "A":
        return f"A {d[1]} {d[2]} {nums(d[3])}"
    if k == "C":
        return f"C {nums(d[1])}"
    if k == "I":
        return "I"
    if k == "S":
        return f"S {nums(d[1])} {fmt_dat(d[2])}"
    if k == "K":
        return f"K {nums(d[1])} {nums(d[2])} {fmt_dat(d[3])}"
    if k == "B":
        return f"B {nums(d[1])} {nums(d[2])} {nums(d[3])} {fmt_dat(d[4])}"
    if k == "F":
        return f"F {nums(d[1])} {fmt_dat(d[2])}"
    return f"T {fmt_dat(d[1])}"


def parse_dat(s):
    t = s.split()
    pos = [0]

    def word():
        w = t[pos[0]]; pos[0] += 1
        return w

    def lst():
        n = int(word())
        v = [int(x) for x in t[pos[0]:pos[0] + n]]
        if len(v) != n:
            raise ValueError("short list")
        pos[0] += n
        return v

    def rec():
        k = word()
        if k == "A":
            wd = int(word()); n = int(word())
            return ("A", wd, n, lst())
        if k == "C":
            return ("C", lst())
        if k == "I":
            return ("I",)
        if k == "S":
            c = lst(); return ("S", c, rec())
        if k == "K":
            a = lst(); b = lst(); return ("K", a, b, rec())
        if k == "B":
            a = lst(); b = lst(); c = lst(); return ("B", a, b, c, rec())
        if k == "F":
            m = lst(); return ("F", m, rec())
        if k == "T":
            return ("T", rec())
        raise ValueError("bad token " + k)
    d = rec()
    if pos[0] != len(t):
        raise ValueError("trailing tokens")
    return d


def strip_dat(d):
    """configuration of every footprint layer and the array/constant content, footprint-free layers removed"""
    k = d[0]
    if k == "T":
        return strip_dat(d[1])
    if k in ("A", "C", "I"):
        return d
    return d[:-1] + (strip_dat(d[-1]),)


def array_of(d):
    while d[0] not in ("A", "C", "I"):
        d = d[-1]
    return d if d[0] == "A" else None


def config_of(d):
    """everything except the array cells (and the array's width word)"""
    k = d[0]
    if k == "A":
        return ("A", d[2])
    if k in ("C", "I"):
        return d
    if k == "T":
        return config_of(d[1])
    return d[:-1] + (config_of(d[-1]),)


def nontrivial_dat(d):
    """C06 rule: some layer has a non-default configuration or the array is non-empty"""
    k = d[0]
    if k == "A":
        return d[2] > 0
    if k == "C":
        return any(d[1])
    if k == "I":
        return False
    if k == "T":
        return nontrivial_dat(d[1])
    return any(any(x) for x in d[1:-1]) or nontrivial_dat(d[-1])


# --------------------------------------------------------------------------------------------------- independent format reader
class FormatError(Exception):
    pass


def py_load(ty, bs):
    """type-directed reader of the published grammar (DESIGN.md Appendix B), written independently of the Lean model and of
    the C++ code: returns (Dat tuple, bytes consumed, checked-word list). Raises FormatError."""
    checked = []
    pos = [0]

    def rd(k):
        if pos[0] + k > len(bs):
            raise FormatError(f"truncated at {pos[0]} (+{k})")
        v = int.from_bytes(bs[pos[0]:pos[0] + k], "little"); pos[0] += k
        return v

    def expect(w, role, layer):
        off = pos[0]
        v = rd(4)
        checked.append({"off": off, "role": role, "layer": layer, "value": v})
        if v != w:
            raise FormatError(f"{role} of {layer} at {off}: {v:08X}, expected {w:08X}")

    def bracket(tag, layer, body):
        expect(MAGH, "hmagic", layer); expect(tag, "htag", layer)
        r = body()
        expect(MAGF, "fmagic", layer); expect((tag + FOOT) & 0xFFFFFFFF, "ftag", layer)
        return r

    def rec(t):
        k = t[0]
        if k == "A":
            def body():
                off = pos[0]
                wd = rd(4)
                checked.append({"off": off, "role": "width", "layer": "array", "value": wd})
                if wd not in (4, 8):
                    raise FormatError(f"float width {wd}")
                n = rd(8)
                if n * t[1] * wd > len(bs) - pos[0]:
                    raise FormatError("truncated payload")
                return ("A", wd, n, [rd(wd) for _ in range(n * t[1])])
            return bracket(TAG["array"], "array", body)
        if k == "C":
            return bracket(TAG["constant"], "constant", lambda: ("C", [rd(t[1]) for _ in range(t[2])]))
        if k == "I":
            return bracket(TAG["identity"], "identity", lambda: ("I",))
        if k == "S":
            name = {v: n for n, v in TAG.items()}.get(t[1], hex(t[1]))
            return bracket(t[1], name, lambda: ("S", [rd(8) for _ in range(t[2])], rec(t[3])))
        if k == "K":
            return bracket(TAG["clamp"], "clamp", lambda: ("K", [rd(t[1]) for _ in range(t[2])], [rd(t[1]) for _ in range(t[2])], rec(t[3])))
        if k == "B":
            return bracket(TAG["backup"], "backup", lambda: ("B", [rd(t[1]) for _ in range(t[2])], [rd(t[1]) for _ in range(t[2])],
                                                              [rd(t[3]) for _ in range(t[4])], rec(t[5])))
        if k == "F":
            return bracket(TAG["affine"], "affine", lambda: ("F", [rd(t[1]) for _ in range(t[2] * (t[2] + 1))], rec(t[3])))
        return ("T", rec(t[1]))
    d = bracket(TAG["field"], "field", lambda: rec(ty))
    return d, pos[0], checked


def payload_len(ty, d):
    """closed form (Lean: C07.payloadLen / dump_length): file size = 16 per tag + payloads"""
    k = ty[0]
    if k == "A":
        return 4 + 8 + d[1] * len(d[3])
    if k == "C":
        return ty[1] * len(d[1])
    if k == "I":
        return 0
    if k == "S":
        return 8 * len(d[1]) + payload_len(ty[3], d[2])
    if k == "K":
        return ty[1] * (len(d[1]) + len(d[2])) + payload_len(ty[3], d[3])
    if k == "B":
        return ty[1] * (len(d[1]) + len(d[2])) + ty[3] * len(d[3]) + payload_len(ty[5], d[4])
    if k == "F":
        return ty[1] * len(d[1]) + payload_len(ty[3], d[2])
    return payload_len(ty[1], d[1])


def file_len(ty, d):
    return 16 * (1 + len(tags_of(ty))) + payload_len(ty, d)


def alterations(checked, rnd):
    """replacement values for every checked word: bit flips, 0, ~w, neighbouring tags, swapped header/footer magic.
    returns list of (off, new word, role, layer, class); the 4<->8 width swap is classed 'widthswap'"""
    out = []
    tags = sorted(TAG.values()) + UNUSED_TAGS
    for c in checked:
        w = c["value"]; role = c["role"]
        cand = [("zero", 0), ("inv", w ^ 0xFFFFFFFF), ("flip", w ^ 1), ("flip", w ^ (1 << 31)), ("flip", w ^ (1 << rnd.randrange(32)))]
        if role in ("hmagic", "fmagic"):
            cand += [("swapmagic", MAGF if role == "hmagic" else MAGH), ("flip", w ^ (1 << 8)), ("flip", w ^ (1 << 17)), ("near", (w + 1) & 0xFFFFFFFF)]
        elif role == "htag":
            cand += [("hf", w + FOOT), ("flip", w ^ (1 << 16)), ("near", w + 1), ("near", (w - 1) & 0xFFFFFFFF)]
            cand += [("othertag", t) for t in rnd.sample(tags, 3)]
        elif role == "ftag":
            cand += [("hf", w - FOOT), ("flip", w ^ (1 << 16)), ("near", w + 1), ("near", (w - 1) & 0xFFFFFFFF)]
            cand += [("othertag", t + FOOT) for t in rnd.sample(tags, 3)]
        elif role == "width":
            cand += [("flip", w ^ 2), ("flip", w ^ 4), ("flip", w ^ 8), ("badwidth", 2), ("badwidth", 16), ("badwidth", 12), ("badwidth", 6),
                     ("widthswap", 12 - w if w in (4, 8) else 4)]
        seen = set()
        for cls, v in cand:
            v &= 0xFFFFFFFF
            if v == w or v in seen:
                continue
            if role == "width" and cls != "widthswap" and v in (4, 8):
                continue
            seen.add(v)
            out.append((c["off"], v, role, c["layer"], cls))
    return out


def patch(bs, off, w):
    return bs[:off] + struct.pack("<I", w) + bs[off + 4:]


def hx(bs):
    return bs.hex() if bs else "-"


# --------------------------------------------------------------------------------------------------- builds and runs
class Impl:
    """the harness built for a list of stacks; stacks are spread over several TUs that compile and run in parallel"""

    def __init__(self, ctx, stacks, cfgs, chunk=4, tag="io"):
        self.infos = [analyse(s) for s in stacks]
        self.names = [f"s{i}" for i in range(len(stacks))]
        self.cfgs = list(cfgs)
        self.chunk_of = {}
        jobs, keys = [], []
        nchunks = max(1, (len(stacks) + chunk - 1) // chunk)
        self.nchunks = nchunks
        for c in range(nchunks):
            idx = [i for i in range(len(stacks)) if i % nchunks == c]
            inc = ctx.work.path(f"{tag}_stacks_{c}.inc")
            body = ["// generated by harness/iolib.py", "using namespace covfie;"]
            for i in idx:
                self.chunk_of[i] = c
                body.append(f"using s{i}_t = {self.infos[i].cpp};   // {self.infos[i].label}")
            body.append("#define IO_STACK_LIST(X) " + " ".join(f"X(s{i}, s{i}_t)" for i in idx))
            inc.write_text("\n".join(body) + "\n")
            for cfg in cfgs:
                keys.append((c, cfg))
                jobs.append((CPP / "io_harness.cpp", ctx.work.path(f"{tag}_{c}_{cfg}"), cfg, [f'-DIO_STACKS="{inc}"']))
        res = C.compile_many(jobs)
        self.exe = {}
        for k, j, (rc, err) in zip(keys, jobs, res):
            if rc != 0:
                c = k[0]
                which = ", ".join(self.infos[i].label for i in range(len(stacks)) if self.chunk_of[i] == c)
                raise C.CompileError(f"{j[0]} [stacks: {which}]", j[2], err)
            self.exe[k] = j[1]

    def run(self, cfg, ops, timeout_per_line=0.25, pre=None):
        """ops: list of (stack index or None, line with `{s}` standing for the stack's name). returns outputs in order"""
        per = {}
        for pos, (i, line) in enumerate(ops):
            c = self.chunk_of[i] if i is not None else 0
            per.setdefault(c, []).append((pos, line.replace("{s}", self.names[i]) if i is not None else line))
        outs = [None] * len(ops)
        crashes = []
        if pre is None and "rel" in cfg and PRLIMIT:
            pre = [PRLIMIT, "--as=4294967296"]   # a reader that trusts a garbage count must fail to allocate, not swallow the machine

        def one(c):
            lines = [l for _, l in per[c]]
            o, cr = C.run_lines(self.exe[(c, cfg)], lines, timeout_per_line=timeout_per_line, min_timeout=60, pre=pre)
            return c, o, cr
        with ThreadPoolExecutor(max_workers=C.NCPU) as ex:
            for c, o, cr in ex.map(one, list(per)):
                for (pos, _), a in zip(per[c], o):
                    outs[pos] = a
                crashes += cr
        self.crashes = crashes
        return outs


def run_model(lines, par=8, timeout_per_line=0.05):
    """the model's answers through the compiled Lean driver `iocheck`, in parallel slices"""
    if not lines:
        return []
    n = len(lines)
    k = max(1, min(par, n // 50 or 1))
    cuts = [(n * i) // k for i in range(k + 1)]
    parts = [lines[cuts[i]:cuts[i + 1]] for i in range(k)]
    with ThreadPoolExecutor(max_workers=k) as ex:
        res = list(ex.map(lambda p: C.run_driver("iocheck", p, timeout_per_line=timeout_per_line, min_timeout=120) if p else [], parts))
    return [x for r in res for x in r]
