"""Layer grammar for C13 (and the stack shapes of C05): stack descriptors for the Lean `kindcheck` driver, C++ types,
configuration expressions and translation units.  The grammar here only *emits* stacks and propagates shapes so that
configuration expressions can be written down; whether a stack is well-kinded, how large its view is and which API
operations it supports is always asked of the Lean model (Covfie.Kinds) through the driver."""
from vlib import common as C

CPP = {"f32": "float", "f64": "double", "u64": "std::size_t", "u32": "unsigned", "i32": "int", "i64": "long"}
LAYCPP = {"strided": "covfie::backend::strided<%s, %s>", "mortonT": "covfie::backend::morton<%s, %s, true>",
          "mortonF": "covfie::backend::morton<%s, %s, false>", "hilbert": "covfie::backend::hilbert<%s, %s>"}
LAYS = list(LAYCPP)
BASE_OPS = ["concept", "fromPack", "view", "at", "copy", "move", "copyAssign", "moveAssign", "dump", "load", "viewTrivial"]

HDR = """#include <covfie/core/backend/primitive/array.hpp>
#include <covfie/core/backend/primitive/constant.hpp>
#include <covfie/core/backend/primitive/identity.hpp>
#include <covfie/core/backend/transformer/affine.hpp>
#include <covfie/core/backend/transformer/backup.hpp>
#include <covfie/core/backend/transformer/clamp.hpp>
#include <covfie/core/backend/transformer/covariant_cast.hpp>
#include <covfie/core/backend/transformer/dereference.hpp>
#include <covfie/core/backend/transformer/hilbert.hpp>
#include <covfie/core/backend/transformer/linear.hpp>
#include <covfie/core/backend/transformer/morton.hpp>
#include <covfie/core/backend/transformer/nearest_neighbour.hpp>
#include <covfie/core/backend/transformer/shuffle.hpp>
#include <covfie/core/backend/transformer/strided.hpp>
#include <covfie/core/field.hpp>
#include <sstream>
#include <type_traits>
"""


def vd(sk, n):
    return f"covfie::vector::vector_d<{CPP[sk]}, {n}>"


class St:
    """one stack; `tag` in array|constant|identity|<layout>|clamp|backup|affine|shuffle|cast|deref|nn|linear"""

    def __init__(self, tag, params=(), child=None):
        self.tag, self.params, self.child = tag, tuple(params), child
        self._shape = None
        self._desc = None

    # ---- structure
    def depth(self):
        return 1 + (self.child.depth() if self.child else 0)

    def layers(self):
        return [self] + (self.child.layers() if self.child else [])

    def with_child(self, c):
        return St(self.tag, self.params, c)

    def desc(self):
        """token string understood by lean/Driver/KindCheck.lean"""
        if self._desc is None:
            if self.tag == "shuffle":
                own = f"shuffle {len(self.params)} " + " ".join(map(str, self.params))
            else:
                own = " ".join([self.tag] + [str(p) for p in self.params])
            self._desc = (own + " " + self.child.desc()) if self.child else own
        return self._desc

    def label(self):
        own = self.tag + ("(" + ",".join(map(str, self.params)) + ")" if self.params else "")
        return own + ("<" + self.child.label() + ">" if self.child else "")

    def __eq__(self, o):
        return isinstance(o, St) and self.desc() == o.desc()

    def __hash__(self):
        return hash(self.desc())

    # ---- shape propagation (for writing down configurations only; validity is the Lean model's business)
    def shape(self):
        """(in_sk, in_dim, bare, out_sk, out_dim, ref)"""
        if self._shape is None:
            t, p = self.tag, self.params
            if t == "array":
                s = ("u64", 1, True, p[0], p[1], True)
            elif t == "constant":
                s = (p[0], p[1], False, p[2], p[3], False)
            elif t == "identity":
                s = (p[0], p[1], False, p[0], p[1], False)
            else:
                c = self.child.shape()
                if t in LAYCPP:
                    s = (p[0], p[1], False, c[3], c[4], c[5])
                elif t in ("clamp", "affine", "shuffle"):
                    s = c
                elif t in ("backup", "deref"):
                    s = c[:5] + (False,)
                elif t == "cast":
                    s = c[:3] + (p[0], c[4], False)
                elif t == "nn":
                    s = (p[0], p[1], False, c[3], c[4], c[5])
                elif t == "linear":
                    s = (p[0], p[1], False, c[3], c[4], False)
                else:
                    raise ValueError(t)
            self._shape = s
        return self._shape

    # ---- C++
    def cpp(self):
        t, p = self.tag, self.params
        if t == "array":
            return f"covfie::backend::array<{vd(p[0], p[1])}>"
        if t == "constant":
            return f"covfie::backend::constant<{vd(p[0], p[1])}, {vd(p[2], p[3])}>"
        if t == "identity":
            return f"covfie::backend::identity<{vd(p[0], p[1])}>"
        c = self.child.cpp()
        if t in LAYCPP:
            return LAYCPP[t] % (vd(p[0], p[1]), c)
        if t in ("clamp", "backup", "affine"):
            return f"covfie::backend::{t}<{c}>"
        if t == "deref":
            return f"covfie::backend::dereference<{c}>"
        if t == "cast":
            return f"covfie::backend::covariant_cast<{CPP[p[0]]}, {c}>"
        if t == "shuffle":
            return f"covfie::backend::shuffle<{c}, std::index_sequence<{', '.join(map(str, p))}>>"
        if t in ("nn", "linear"):
            n = {"nn": "nearest_neighbour", "linear": "linear"}[t]
            return f"covfie::backend::{n}<{c}, {vd(p[0], p[1])}>"
        raise ValueError(t)

    def cfg(self):
        """an expression of this layer's configuration_t (written with the layer's own typedefs wherever possible, so
        that it stays meaningful for ill-kinded stacks too)"""
        T = self.cpp()
        t, p = self.tag, self.params
        cv = lambda x: f"typename {T}::contravariant_input_t::vector_t(static_cast<typename {T}::contravariant_input_t::scalar_t>({x}))"
        if t == "array":
            return f"typename {T}::configuration_t{{8ul}}"
        if t == "constant":
            return f"typename {T}::configuration_t{{" + ", ".join(f"static_cast<{CPP[p[2]]}>({i + 1})" for i in range(p[3])) + "}"
        if t in LAYCPP:
            return f"typename {T}::configuration_t{{" + ", ".join("2ul" for _ in range(p[1])) + "}"
        if t == "clamp":
            return f"typename {T}::configuration_t{{{cv(0)}, {cv(1)}}}"
        if t == "backup":
            return (f"typename {T}::configuration_t{{{cv(0)}, {cv(1)}, typename {T}::covariant_output_t::vector_t("
                    f"static_cast<typename {T}::covariant_output_t::scalar_t>(9))}}")
        if t == "affine":
            return f"typename {T}::configuration_t()"
        return f"typename {T}::configuration_t{{}}"

    def pack(self):
        return "covfie::make_parameter_pack(" + ", ".join(l.cfg() for l in self.layers()) + ")"

    def pack_for(self):
        return f"covfie::make_parameter_pack_for<covfie::field<{self.cpp()}>>(" + ", ".join(l.cfg() for l in self.layers()) + ")"


def parse_desc(toks):
    """inverse of St.desc (for replays)"""
    def rec(i):
        t = toks[i]
        if t == "array":
            return St(t, (toks[i + 1], int(toks[i + 2]))), i + 3
        if t == "constant":
            return St(t, (toks[i + 1], int(toks[i + 2]), toks[i + 3], int(toks[i + 4]))), i + 5
        if t == "identity":
            return St(t, (toks[i + 1], int(toks[i + 2]))), i + 3
        if t in ("clamp", "backup", "affine", "deref"):
            c, j = rec(i + 1)
            return St(t, (), c), j
        if t == "cast":
            c, j = rec(i + 2)
            return St(t, (toks[i + 1],), c), j
        if t == "shuffle":
            k = int(toks[i + 1])
            c, j = rec(i + 2 + k)
            return St(t, tuple(int(x) for x in toks[i + 2:i + 2 + k]), c), j
        if t in LAYCPP or t in ("nn", "linear"):
            c, j = rec(i + 3)
            return St(t, (toks[i + 1], int(toks[i + 2])), c), j
        raise ValueError(t)
    s, j = rec(0)
    if j != len(toks):
        raise ValueError("trailing tokens")
    return s


# ------------------------------------------------------------------------------------------------- the Lean model
class Verdict:
    def __init__(self, line):
        self.raw = line
        parts = [x.strip() for x in line.split("|")]
        h = parts[0].split()
        self.kind_ok = h[0] == "ok"
        self.err = None if self.kind_ok else h[1]
        self.kind = tuple(h[1:7]) if self.kind_ok else None
        self.lookup = None
        vi = 1
        if self.kind_ok:
            lk = parts[1].split()[1]
            self.lookup = None if lk == "none" else lk
            vi = 2
        v = parts[vi].split()
        self.view_size = int(v[1]) if v[1] != "-" else None
        self.view_align = int(v[2]) if v[2] != "-" else None
        self.view_fits = v[3] == "1"
        bits = parts[vi + 1].split()[1]
        self.ops = {op: b == "1" for op, b in zip(BASE_OPS, bits)}
        self.well_kinded = self.kind_ok and self.lookup is None
        # False: a storage order over something not indexed by one natural number -- outside the stated kinds without
        # violating a stated one; the property claims nothing (Covfie.Kinds.stated)
        self.stated = parts[vi + 2].split()[1] == "1" if len(parts) > vi + 2 else True

    def why(self):
        return self.err or self.lookup or ("viewTooLarge" if not self.view_fits else None)


def model(stacks):
    """Lean verdicts for a list of stacks"""
    if not stacks:
        return []
    outs = C.run_driver("kindcheck", ["k " + s.desc() for s in stacks], timeout_per_line=0.002)
    bad = [o for o in outs if o == "bad-op"]
    if bad:
        raise RuntimeError("kindcheck could not parse a stack descriptor")
    return [Verdict(o) for o in outs]


def model_conv(pairs):
    """[(dst, src)] -> [(supports, applicable, compatible, convertible)]"""
    if not pairs:
        return []
    outs = C.run_driver("kindcheck", [f"conv {d.desc()} ; {s.desc()}" for d, s in pairs], timeout_per_line=0.002)
    return [tuple(x == "1" for x in o.split()) for o in outs]


# ------------------------------------------------------------------------------------------------- grammar
def prims(rich=False):
    out = [St("array", ("f32", 1)), St("array", ("f32", 3)), St("array", ("f64", 2)),
           St("constant", ("f32", 2, "f32", 3)), St("constant", ("u64", 3, "f64", 1)), St("constant", ("u64", 1, "f32", 2)),
           St("identity", ("f32", 2)), St("identity", ("u64", 3)), St("identity", ("u64", 1))]
    if rich:
        out += [St("array", ("f64", 4)), St("array", ("i32", 2)), St("constant", ("f64", 1, "f64", 2)),
                St("constant", ("i32", 2, "i32", 1)), St("identity", ("f64", 1)), St("identity", ("u32", 2))]
    return out


LAYOUT_PARAMS = [("u64", 2), ("u64", 3), ("u32", 2)]
LAYOUT_PARAMS_RICH = LAYOUT_PARAMS + [("u64", 1), ("u64", 4), ("i32", 3), ("i64", 2), ("f32", 2), ("f64", 3)]


def wrappers(c, rich=False):
    """every layer placed on top of `c` (well-kinded or not — the model decides)"""
    sh = c.shape()
    n = sh[1]
    for lay in LAYS:
        for (sk, k) in (LAYOUT_PARAMS_RICH if rich else LAYOUT_PARAMS):
            yield St(lay, (sk, k), c)
    yield St("clamp", (), c)
    yield St("backup", (), c)
    yield St("affine", (), c)
    yield St("shuffle", tuple((i + 1) % n for i in range(n)), c)
    if rich:
        yield St("shuffle", tuple(reversed(range(n))), c)
        yield St("shuffle", tuple(0 for _ in range(n)), c)          # not a permutation: nothing in the code asks for one
    yield St("cast", ("f64",), c)
    yield St("cast", ("f32",), c)
    if rich:
        yield St("cast", ("i32",), c)
    yield St("deref", (), c)
    for w in ("nn", "linear"):
        for sk in ("f32", "f64"):
            yield St(w, (sk, n), c)


def convert_partners(s):
    """stacks of the same shape with another storage order / another interpolator (candidates for `convertFrom`)"""
    def rec(x):
        if x.tag in LAYCPP:
            if x.child.tag != "array":
                return []
            return [St(l, x.params, x.child) for l in LAYS if l != x.tag and (l != "hilbert" or x.params[1] == 2)]
        if x.tag in ("nn", "linear"):
            other = "linear" if x.tag == "nn" else "nn"
            subs = rec(x.child)
            return [St(other, x.params, x.child)] + [St(x.tag, x.params, c) for c in subs] + [St(other, x.params, c) for c in subs]
        if x.tag == "affine":
            return [St("affine", (), c) for c in rec(x.child)]
        return []
    return rec(s)


# ------------------------------------------------------------------------------------------------- translation units
def op_body(s, op, src=None):
    """(namespace-scope declarations, function body) exercising one API operation of field<B>"""
    P = s.pack()
    if op == "concept":
        return "static_assert(covfie::concepts::field_backend<B>);", ""
    if op == "fromPack":
        extra = f" F g({s.pack_for()}); (void)g;" if s.depth() <= 10 else ""
        return "", f"F f({P}); (void)f;{extra}"
    if op == "view":
        return "", f"F f({P}); typename F::view_t v(f); (void)v; static_assert(std::is_trivially_copyable_v<typename F::view_t>);"
    if op == "at":
        sh = s.shape()
        var = ""
        if not sh[2]:
            var = " (void)v.at(" + ", ".join("0" for _ in range(sh[1])) + ");"
            # the same overload with class-type arguments that convert implicitly to the coordinate scalar, and with built-in
            # arguments of mixed types
            var += " (void)v.at(" + ", ".join("std::integral_constant<int, 0>{}" for _ in range(sh[1])) + ");"
            var += " (void)v.at(" + ", ".join(("0", "0u", "0l", "short(0)")[k % 4] for k in range(sh[1])) + ");"
        return "", (f"F f({P}); typename F::view_t v(f); typename F::coordinate_t c{{}}; "
                    f"typename F::output_t o = v.at(c); (void)o;{var}")
    if op == "copy":
        return "", f"F f({P}); F g(f); (void)g;"
    if op == "move":
        return "", f"F f({P}); F g(std::move(f)); (void)g;"
    if op == "copyAssign":
        return "", f"F f({P}); F g({P}); g = f;"
    if op == "moveAssign":
        return "", f"F f({P}); F g({P}); g = std::move(f);"
    if op == "dump":
        return "", f"F f({P}); std::stringstream ss; f.dump(ss);"
    if op == "load":
        return "", "std::stringstream ss; F g(ss); (void)g;"
    if op == "viewTrivial":
        return ("static_assert(std::is_trivially_copyable_v<typename B::non_owning_data_t>);\n"
                "static_assert(std::is_trivially_destructible_v<typename B::non_owning_data_t>);"), ""
    if op == "convertFrom":
        return "", (f"using FS = covfie::field<{src.cpp()}>; FS s({src.pack()}); F d(s); (void)d; F e(std::move(s)); (void)e;")
    raise ValueError(op)


def tu(s, ops):
    """one translation unit exercising the listed operations ((op, src) pairs; src only for convertFrom)"""
    decls, funs = [], []
    for k, (op, src) in enumerate(ops):
        d, b = op_body(s, op, src)
        if d:
            decls.append(d)
        if b:
            funs.append(f"void op_{k}_{op}() {{ {b} }}")
    return HDR + f"using B = {s.cpp()};\nusing F = covfie::field<B>;\n" + "\n".join(decls + funs) + "\n"


def sizeof_tu(stacks):
    body = "\n".join(f'  std::printf("%zu %zu\\n", sizeof(typename {s.cpp()}::non_owning_data_t), alignof(typename {s.cpp()}::non_owning_data_t));'
                     for s in stacks)
    return HDR + "#include <cstdio>\nint main() {\n" + body + "\n}\n"
