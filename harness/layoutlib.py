"""Shared pieces of the storage-order correspondence (C01, C14, C16, C18): case generation, harness builds,
model queries through the `driver` executable."""
import itertools, random
from vlib import common as C

LAYS = ["strided", "mortonT", "mortonF", "hilbert"]
CTW = {"u64": 64, "u32": 32, "i32": 32, "u16": 16}
CPP = C.VERIF / "harness" / "cpp"


def prod(xs):
    p = 1
    for x in xs:
        p *= x
    return p


def boxes(N, maxprod, maxext=None):
    """all extent vectors (every extent >= 1) of dimension N with product <= maxprod"""
    out = []

    def rec(pre, p):
        if len(pre) == N:
            out.append(tuple(pre))
            return
        s = 1
        while p * s <= maxprod and (maxext is None or s <= maxext):
            rec(pre + [s], p * s)
            s += 1
    rec([], 1)
    return out


def coords(sz):
    return itertools.product(*[range(s) for s in sz])


def model_line(lay, ct, sz, co):
    a = f"{' '.join(map(str, sz))} | {' '.join(map(str, co))}"
    return {"strided": f"strided {CTW[ct]} {a}", "mortonT": f"mortonpdep {a}", "mortonF": f"morton {a}",
            "hilbert": f"hilbert {a}"}[lay]


def impl_line(op, lay, ct, sz, co=None):
    if op == "idx":
        return f"idx {lay} {ct} {len(sz)} {' '.join(map(str, sz))} | {' '.join(map(str, co))}"
    if op == "alloc":
        return f"alloc {lay} {len(sz)} {' '.join(map(str, sz))}"
    return f"{op} {lay} {len(sz)} {' '.join(map(str, sz))} | {' '.join(map(str, co))}"


def curve_k(sz):
    k = 0
    while (1 << k) < max(sz):
        k += 1
    return k


def curve_bound(lay, sz):
    """least storage length that covers every curve position of the box (Lean: C01.morton_in_storage, hilbert_in_storage)"""
    if lay == "strided":
        return prod(sz)
    return 1 << (curve_k(sz) * len(sz))


def random_shape(rnd, N, lay, big=False):
    cap = {1: 2 ** 20, 2: 2 ** 10, 3: 2 ** 6, 4: 2 ** 4}[N]
    if big:
        cap = {1: 2 ** 24, 2: 2 ** 12, 3: 2 ** 8, 4: 2 ** 6}[N]
    pool = [1, 2, 3, 5, 7, 8, 9, 15, 16, 17, 31, 32, 33, cap - 1, cap]
    sz = [min(cap, rnd.choice(pool + [rnd.randrange(1, cap + 1)])) for _ in range(N)]
    return sz


def random_coord(rnd, sz):
    return [rnd.choice([0, s - 1, s // 2, rnd.randrange(s), (1 << (s - 1).bit_length()) // 2 if s > 1 else 0]) % s for s in sz]


OPTIONAL_CFGS = ("clang", "bmi2macro")   # bmi2macro: bmi2 + every unknown guard macro defined (vlib.common.guard_macros)
SKIPPED = []     # (translation unit, configuration, first diagnostic) left out of this run


def build(ctx, cfgs, what=("layout",), rw_variants=None):
    """compile the harness TUs from /repo's working tree; returns dict (name, cfg) -> exe"""
    jobs, keys = [], []
    for cfg in cfgs:
        if "layout" in what:
            keys.append(("layout", cfg)); jobs.append((CPP / "layout_harness.cpp", ctx.work.path(f"layout_{cfg}"), cfg, []))
        if "numeric" in what:
            keys.append(("numeric", cfg)); jobs.append((CPP / "numeric_harness.cpp", ctx.work.path(f"numeric_{cfg}"), cfg, []))
        if "rw" in what:
            for (ct, t) in rw_variants:
                keys.append((f"rw{ct}{t}", cfg))
                jobs.append((CPP / "rw_harness.cpp", ctx.work.path(f"rw{ct}{t}_{cfg}"), cfg, [f"-DRW_CT={ct}", f"-DRW_T={t}"]))
    res = C.compile_many(jobs)
    exes = {}
    for k, j, (rc, err) in zip(keys, jobs, res):
        if rc != 0:
            if j[2] in OPTIONAL_CFGS and any(r[0] == 0 for kk, jj, r in zip(keys, jobs, res) if jj[0] == j[0] and jj[2] not in OPTIONAL_CFGS):
                # the auxiliary compiler (clang 14 cannot parse all of the library as it is) rejects what g++ accepts: that
                # configuration is left out of this run, it is not a statement about the property
                SKIPPED.append((str(j[0].name), j[2], C.first_diag(err)))
                continue
            raise C.CompileError(j[0], j[2], err)
        exes[k] = j[1]
    return exes
