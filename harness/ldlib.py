"""`long double` as the coordinate scalar (harness/cpp/ld_harness.cpp): self-checking operations, one per layer; the expected
values are the layers' one-line definitions evaluated in long double, with bounds that are not representable as double."""
from vlib import common as C

WHAT = {"clamp": "clamp<identity<long double 2>>: reported bounds and the clamped coordinate for 22 x 22 probe coordinates per axis",
        "backup": "backup<identity<long double 2>>: reported bounds, default outside the closed box, pass-through inside",
        "nn": "nearest_neighbour<strided<array>, long double 2> at cell +- fractions; clamp with upper bound nextafter(3.5L, 0) above it",
        "linear": "linear<strided<array>, long double 2> at lattice points and cell centres",
        "affine": "affine<identity<long double 2>>: reported matrix and A x + t on exactly representable data"}


def part(ctx, corr, ops, obligation, cfgs=("dbg", "rel"), compile_is_violation=False):
    jobs = [(C.VERIF / "harness" / "cpp" / "ld_harness.cpp", ctx.work.path(f"ld_{cfg}"), cfg, []) for cfg in cfgs]
    for (src, out, cfg, _), (rc, err) in zip(jobs, C.compile_many(jobs)):
        if rc != 0:
            # a well-kinded stack with long double coordinates no longer compiles (or the harness is out of date): reported by the caller's rule
            corr.add_obl(obligation, 1, 1)
            corr.violation(obligation, f"stacks with long double coordinates ({', '.join(ops)}) do not compile ({cfg}): {C.first_diag(err)}",
                           {"op": "longdouble", "ops": list(ops), "cfg": cfg, "diagnostic": err[-1500:]}, impl="does not compile", model="compiles",
                           oracle_fails=compile_is_violation, key={"kind": "longdouble-compile"}, cfg=cfg)
            return
    for cfg in cfgs:
        outs, _ = C.run_lines(ctx.work.path(f"ld_{cfg}"), list(ops), timeout_per_line=2.0)
        for op, o in zip(ops, outs):
            corr.configs[cfg] += 1
            corr.case(("longdouble", op, cfg), True)
            corr.dist["long-double/" + op] += 1
            bad = not o.startswith("ok ")
            corr.add_obl(obligation, 1, 1 if bad else 0)
            if bad:
                corr.violation(obligation, f"{WHAT[op]} ({cfg}): {o}", {"op": "longdouble", "ops": [op], "cfg": cfg}, impl=o, model="ok", oracle_fails=True,
                               key={"kind": "longdouble", "which": op}, cfg=cfg)
