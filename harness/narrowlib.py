"""8- and 16-bit scalar types swept exhaustively (harness/cpp/narrow_harness.cpp): clamp and backup over identity for every
coordinate value of the type, nearest neighbour over a row-major array with a narrow index type on an axis longer than half
the type's range.  The expected answers are the properties' own one-line definitions, evaluated here for every value."""
import random
from vlib import common as C

RANGE = {"i8": (-128, 127), "u8": (0, 255), "i16": (-32768, 32767), "u16": (0, 65535)}


def boxes(rnd, ty, n):
    lo, hi = RANGE[ty]
    out = [(lo, hi), (lo + 1, hi - 1), (0, 0) if lo <= 0 else (lo, lo), (hi, hi), (lo, lo)]
    pool = [lo, lo + 1, -1, 0, 1, 2, 3, 5, 100, hi // 2, hi // 2 + 1, hi - 1, hi]
    while len(out) < n:
        a, b = rnd.choice(pool), rnd.choice(pool + [rnd.randrange(lo, hi + 1)])
        a, b = max(lo, min(hi, a)), max(lo, min(hi, b))
        if a <= b:
            out.append((a, b))
    return out


def part(ctx, corr, which, obligation, cfgs=("dbg", "rel")):
    rnd = random.Random(ctx.seed * 7 + hash(which) % 1000)
    jobs = [(C.VERIF / "harness" / "cpp" / "narrow_harness.cpp", ctx.work.path(f"narrow_{cfg}"), cfg, []) for cfg in cfgs]
    for (src, out, cfg, _), (rc, err) in zip(jobs, C.compile_many(jobs)):
        if rc != 0:
            raise C.CompileError(src, cfg, err)
    lines, want, desc = [], [], []
    for ty in RANGE:
        lo0, hi0 = RANGE[ty]
        if which == "clamp":
            for lo, hi in boxes(rnd, ty, 8 if ctx.quick else 40):
                res = [max(lo, min(hi, v)) for v in range(lo0, hi0 + 1)]
                n_id = sum(1 for v, r in zip(range(lo0, hi0 + 1), res) if r == v)
                n_lo = sum(1 for v, r in zip(range(lo0, hi0 + 1), res) if r != v and r == lo)
                n_hi = sum(1 for v, r in zip(range(lo0, hi0 + 1), res) if r != v and r != lo and r == hi)
                lines.append(f"clampall {ty} {lo} {hi}"); want.append(f"{n_lo} {n_id} {n_hi} {sum(res)}")
                desc.append(f"clamp<identity<{ty}>> with box [{lo}, {hi}], all {hi0 - lo0 + 1} coordinates: (clamped to lo, unchanged, clamped to hi, sum of results)")
        elif which == "backup":
            for lo, hi in boxes(rnd, ty, 8 if ctx.quick else 40):
                outside = [v for v in range(lo0, hi0 + 1) if v < lo or v > hi]
                if not outside:
                    continue
                d = outside[len(outside) // 2]            # a default outside the box, so that it can be told from a passed-through value
                res = [v if lo <= v <= hi else d for v in range(lo0, hi0 + 1)]
                n_id = sum(1 for v, r in zip(range(lo0, hi0 + 1), res) if r == v)
                n_d = sum(1 for v, r in zip(range(lo0, hi0 + 1), res) if r != v and r == d)
                lines.append(f"backupall {ty} {lo} {hi} {d}"); want.append(f"{n_d} {n_id} {sum(res)}")
                desc.append(f"backup<identity<{ty}>> with box [{lo}, {hi}] and default {d}, all coordinates: (default returned, passed through, sum of results)")
    if which == "nn":
        for ty, n in (("u8", 200), ("u8", 255), ("u16", 40000), ("u16d", 65535), ("i16", 30000), ("i8", 100), ("u16", 300)):
            looks = sum(1 for k in range(n) for d in (0.0, 0.25, -0.25) if -0.5 <= k + d < n - 0.5)
            lines.append(f"nnall {ty} {n}"); want.append(f"{looks} 0 -1")
            desc.append(f"nearest_neighbour over strided<{ty.rstrip('d')}> over array, axis of {n} cells holding their own index: (lookups, wrong, first wrong coordinate)")
    for cfg in cfgs:
        outs, _ = C.run_lines(ctx.work.path(f"narrow_{cfg}"), lines, timeout_per_line=2.0)
        for l, w, d, o in zip(lines, want, desc, outs):
            corr.configs[cfg] += 1
            corr.case(("narrow", l, cfg), True)
            corr.dist["narrow-types/" + l.split()[1]] += 1
            bad = o != w
            corr.add_obl(obligation, 1, 1 if bad else 0)
            if bad:
                corr.violation(obligation, f"{d} = `{o}`, the definition gives `{w}` ({cfg})", {"op": "narrow", "which": which, "line": l, "cfg": cfg},
                               impl=o, model=w, oracle_fails=True, key={"kind": "narrow", "line": l}, cfg=cfg)
