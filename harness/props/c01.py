"""C01 — storage-order layers behave as an N-dimensional array (correspondence + property oracle)."""
import random
from vlib import common as C
from vlib.framework import Corr
from harness import layoutlib as L
from harness import translib as T
from harness import bigalloc as BIG

META = {
    "drivers": ["driver", "impcheck"],
    "rule": "case = (layout, coordinate scalar, extents, coordinate, build config); non-trivial when the box has >= 2 cells and "
            "the flat index is not 0; rw cases: (layout, coordinate scalar, storage scalar, N, M, extents), non-trivial when >= 2 cells",
    "trusted_base": ["_pdep_u64 behaves as the bit-scan `pdep` of the model (hardware; exercised in the bmi2 build, not proved)",
                     "field_view / parameter-pack glue is exercised, not modelled"],
    "assumptions": ["storage length fits the index type (what the real allocation needs anyway)",
                    "extents >= 1; coordinates inside the box"],
}


def obl_of(lay, cfg):
    if lay == "strided":
        return "idx_strided"
    if lay == "hilbert":
        return "idx_hilbert"
    if lay == "mortonT" and "bmi2" in cfg:
        return "idx_morton_pdep"
    return "idx_morton_loop"


def gen(ctx):
    rnd = random.Random(ctx.seed * 7919 + 1)
    idx, rw = [], []
    lim = {1: 64, 2: 64, 3: 32} if ctx.quick else {1: 512, 2: 400, 3: 160}
    for N in (1, 2, 3):
        for sz in L.boxes(N, lim[N]):
            for lay in L.LAYS:
                if lay == "hilbert" and N != 2:
                    continue
                for co in L.coords(sz):
                    idx.append((lay, "u64", list(sz), list(co)))
    for sz in L.boxes(4, 4 ** 4, maxext=(3 if ctx.quick else 4)):
        for lay in L.LAYS[:3]:
            for co in L.coords(sz):
                idx.append((lay, "u64", list(sz), list(co)))
    for _ in range(600 if ctx.quick else 6000):
        N = rnd.choice([1, 2, 3, 4]); lay = rnd.choice(L.LAYS)
        if lay == "hilbert":
            N = 2
        ct = rnd.choice(["u64", "u32", "i32"])
        sz = L.random_shape(rnd, N, lay, big=not ctx.quick)
        for _ in range(3):
            idx.append((lay, ct, sz, L.random_coord(rnd, sz)))
    # writable-view cases: every (coordinate scalar, storage scalar) variant, M in 1..4
    maxcells = 96 if ctx.quick else 2048
    for ct in (0, 1, 2):
        for t in (0, 1):
            for lay in L.LAYS:
                for N in (1, 2, 3, 4):
                    if lay == "hilbert" and N != 2:
                        continue
                    for _ in range(4 if ctx.quick else 16):
                        M = rnd.choice([1, 2, 3, 4])
                        sz = [rnd.choice([1, 2, 3, 4, 5, 7, 8, 9]) for _ in range(N)]
                        while L.prod(sz) > maxcells or (lay != "strided" and L.curve_bound(lay, sz) > 1 << 16):
                            sz[rnd.randrange(N)] = 1
                        rw.append((lay, ct, t, N, M, sz))
    return idx, rw


def evaluate(ctx, idx_cases, rw_cases, cfgs, big=False):
    corr = Corr()
    variants = sorted({(c[1], c[2]) for c in rw_cases})
    exes = L.build(ctx, cfgs, what=("layout", "rw") if rw_cases else ("layout",), rw_variants=variants)
    for o in ("idx_strided", "idx_morton_loop", "idx_morton_pdep", "idx_hilbert", "storage_len_ge", "array_rw"):
        corr.add_obl(o)
    # ---- model
    mlines = [L.model_line(*c) for c in idx_cases]
    mout = C.run_driver("driver", mlines) if mlines else []
    # ---- allocation lengths, one per distinct (layout, box) of bounded size
    allocs = sorted({(lay, tuple(sz)) for (lay, ct, sz, co) in idx_cases if L.curve_bound(lay, sz) <= (1 << 16)})
    alloc_model = {}
    if allocs:
        am = C.run_driver("driver", [L.model_line(lay, "u64", list(sz), [0] * len(sz)) for lay, sz in allocs])
        alloc_model = {a: int(m.split()[1]) for a, m in zip(allocs, am)}
    for cfg in cfgs:
        exe = exes[("layout", cfg)]
        outs, crashes = C.run_lines(exe, [L.impl_line("idx", *c) for c in idx_cases])
        aouts, acr = C.run_lines(exe, [L.impl_line("alloc", lay, "u64", list(sz)) for lay, sz in allocs])
        alloc_impl = {}
        for a, o in zip(allocs, aouts):
            lay, sz = a
            corr.configs[cfg] += 1
            if o.startswith("CRASH") or not o.isdigit():
                corr.add_obl("storage_len_ge", 1, 1)
                corr.violation("storage_len_ge", f"conversion to {lay} {list(sz)} died: {o}", {"op": "alloc", "lay": lay, "sz": list(sz), "cfg": cfg},
                               impl=o, oracle_fails=True, key={"kind": "alloc-crash", "lay": lay, "sz": list(sz)}, cfg=cfg)
                continue
            alloc_impl[a] = int(o)
            ok = int(o) >= L.curve_bound(lay, sz) and int(o) >= alloc_model[a]
            corr.add_obl("storage_len_ge", 1, 0 if ok else 1)
            if not ok:
                corr.violation("storage_len_ge", f"storage allocated for {lay} {list(sz)} has {o} cells, model bound {alloc_model[a]}",
                               {"op": "alloc", "lay": lay, "sz": list(sz), "cfg": cfg}, impl=o, model=alloc_model[a], oracle_fails=False,
                               key={"kind": "alloc", "lay": lay, "sz": list(sz)}, cfg=cfg)
        seen = {}
        for case, o, m in zip(idx_cases, outs, mout):
            lay, ct, sz, co = case
            ob = obl_of(lay, cfg)
            corr.configs[cfg] += 1
            canon = (lay, ct, sz, co, cfg)
            midx = int(m.split()[0])
            corr.case(canon, L.prod(sz) >= 2 and midx != 0)
            corr.dist[f"{lay}/N{len(sz)}/{ct}"] += 1
            cj = {"op": "idx", "lay": lay, "ct": ct, "sz": sz, "co": co, "cfg": cfg}
            key = {"kind": "idx", "lay": lay, "ct": ct, "sz": sz, "co": co}
            toks = o.split()
            if o.startswith("CRASH") or not toks or not all(t.isdigit() for t in toks):
                corr.add_obl(ob, 1, 1)
                corr.violation(ob, f"lookup at in-range coordinate {co} of {lay} {sz} ({ct}) died: {o}", cj, impl=o, model=m,
                               oracle_fails=True, key=key, cfg=cfg)
                continue
            n, got = int(toks[0]), [int(t) for t in toks[1:]]
            bound = alloc_impl.get((lay, tuple(sz)), L.curve_bound(lay, sz))
            # property oracle on the implementation's own outputs
            fail = None
            if n != 1:
                fail = f"touched {n} cells {got} for one coordinate"
            elif got[0] >= bound:
                fail = f"flat index {got[0]} outside the field's storage of {bound} cells"
            else:
                k = (lay, ct, tuple(sz))
                prev = seen.setdefault(k, {}).setdefault(got[0], tuple(co))
                if prev != tuple(co):
                    fail = f"coordinates {list(prev)} and {co} share flat index {got[0]} (a write at one changes the other)"
                    cj["other"] = list(prev)
            dis = (n != 1 or got[0] != midx)
            corr.add_obl(ob, 1, 1 if dis else 0)
            if fail:
                corr.violation(ob, f"{lay} {sz} ({ct}, {cfg}): {fail}", cj, impl=o, model=m, oracle_fails=True, key=key, cfg=cfg)
            elif dis:
                corr.violation(ob, f"{lay} {sz} ({ct}, {cfg}) at {co}: implementation index {got} differs from model {midx}", cj,
                               impl=o, model=m, oracle_fails=False, key=key, cfg=cfg)
            if len(corr.samples) < 8 and L.prod(sz) > 6 and midx > 3 and (len(corr.samples) == 0 or corr.samples[-1]["lay"] != lay):
                corr.sample({"lay": lay, "ct": ct, "sz": sz, "co": co, "cfg": cfg, "impl": o, "model": m})
        # ---- writable views over array storage
        for (ct, t) in variants:
            sub = [c for c in rw_cases if (c[1], c[2]) == (ct, t)]
            lines = [f"rw {lay} {N} {M} {' '.join(map(str, sz))}" for (lay, _, _, N, M, sz) in sub]
            routs, rcr = C.run_lines(exes[(f"rw{ct}{t}", cfg)], lines, timeout_per_line=2.0)
            for case, o in zip(sub, routs):
                lay, _, _, N, M, sz = case
                corr.configs[cfg] += 1
                corr.case(("rw", case, cfg), L.prod(sz) >= 2)
                corr.dist[f"rw/{lay}/N{N}/M{M}/ct{ct}/t{t}"] += 1
                cj = {"op": "rw", "lay": lay, "ct": ct, "t": t, "N": N, "M": M, "sz": sz, "cfg": cfg}
                key = {"kind": "rw", "lay": lay, "ct": ct, "t": t, "M": M, "sz": sz}
                toks = o.split()
                if toks and toks[0] == "ok" and int(toks[1]) == L.prod(sz) and int(toks[2]) >= L.curve_bound(lay, sz):
                    corr.add_obl("array_rw", 1, 0)
                else:
                    corr.add_obl("array_rw", 1, 1)
                    corr.violation("array_rw", f"write-all/read-all through a view of {lay} {sz} M={M}: {o}", cj, impl=o, model="ok",
                                   oracle_fails=True, key=key, cfg=cfg)
                if len(corr.samples) < 12 and M > 1 and N > 1 and lay != "strided":
                    corr.sample({"rw": cj, "impl": o})
            # plain arrays with a narrow index type, up to exactly 2^bits cells (all indices representable, the count is not)
            ax = [(8, 0), (8, 1), (8, 17), (8, 255), (8, 256), (16, 300), (16, 65535), (16, 65536), (32, 1000), (64, 77)]
            aouts, _ = C.run_lines(exes[(f"rw{ct}{t}", cfg)], [f"arrix {b} {n}" for b, n in ax], timeout_per_line=1.0)
            for (b, n), o in zip(ax, aouts):
                corr.configs[cfg] += 1
                corr.case(("arrix", b, n, t, cfg), n >= 2)
                corr.dist[f"arrix/u{b}"] += 1
                bad = o != f"ok {n} {n}"
                corr.add_obl("array_rw", 1, 1 if bad else 0)
                if bad:
                    corr.violation("array_rw", f"array<{'float' if t == 0 else 'double'}1, uint{b}_t> of {n} cells: {o}",
                                   {"op": "arrix", "bits": b, "n": n, "ct": ct, "t": t, "cfg": cfg}, impl=o, model=f"ok {n} {n}",
                                   oracle_fails=True, key={"kind": "arrix", "bits": b, "n": n}, cfg=cfg)
    if big:   # fields too large to allocate: what each layer asks the allocator for
        BIG.run(ctx, corr, "storage_len_ge", ["strided", "stridedC", "mortonT", "mortonF", "hilbert"], 12 if ctx.quick else 150)
    # smallest failing boxes first: the replay is the minimal case found
    corr.violations.sort(key=lambda v: (not v["oracle_fails"], L.prod(v["case"].get("sz", [1])), sum(v["case"].get("co", [0]))))
    return corr


KERNEL_LAYS = {"strided_index": ("strided",), "morton_index": ("mortonT", "mortonF"), "morton_index_bmi2_off": ("mortonF",),
               "hilbert_index": ("hilbert",)}


def run(ctx):
    idx, rw = gen(ctx)
    # the tie through translation (DESIGN.md §11.6): when the text of an index kernel changed, its layouts get the thorough inputs
    tie = T.Tie(ctx, list(KERNEL_LAYS))
    if tie.changed():
        class Deep:
            quick, seed = False, ctx.seed
        lays = {l for k in tie.changed() for l in KERNEL_LAYS[k]}
        didx, drw = gen(Deep)
        idx += [c for c in didx if c[0] in lays]
        rw += [c for c in drw if c[0] in lays]
    cfgs = ["dbg", "bmi2", "relbmi2"] if ctx.quick else ["dbg", "bmi2", "rel", "relbmi2"]
    corr = evaluate(ctx, idx, rw, cfgs, big=True)
    tie.merge(corr)
    return corr


def replay(ctx):
    c = ctx.replay["case"]
    cfg = [c.get("cfg", "dbg")]
    if "bigalloc" in c:
        return evaluate(ctx, [], [], [], big=True)
    if c["op"] == "rw":
        return evaluate(ctx, [], [(c["lay"], c["ct"], c["t"], c["N"], c["M"], c["sz"])], cfg)
    if c["op"] == "arrix":     # the fixed narrow-index list runs with every rw variant: one tiny rw case selects the variant
        return evaluate(ctx, [], [("strided", c["ct"], c["t"], 1, 1, [1])], cfg)
    if c["op"] == "alloc":
        return evaluate(ctx, [(c["lay"], "u64", c["sz"], [0] * len(c["sz"]))], [], cfg)
    cases = [(c["lay"], c["ct"], c["sz"], c["co"])]
    if "other" in c:
        cases.append((c["lay"], c["ct"], c["sz"], c["other"]))
    return evaluate(ctx, cases, [], cfg)
