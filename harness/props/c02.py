"""C02 — a stack's lookup is the composition of its layers' maps (generated stacks; reference interpreter = Lean `evalN`)."""
import collections, random
from vlib import common as C
from vlib.framework import Corr
from harness import stackgen as G

META = {
    "drivers": ["evalcheck"],
    "rule": "case = (stack descriptor incl. configuration and storage digest, coordinate bits, build config); non-trivial when the stack has "
            "depth >= 2 and at least one layer's map was not the identity on this input (clamp moved the coordinate, backup returned the default, "
            "shuffle permuted unequal components, affine moved the point, interpolator rounded / had a fractional part, cast changed the scalar "
            "kind, storage order with N > 1); counts per layer in distribution `nontrivial/<layer>`, N != M in `N!=M`",
    "trusted_base": ["the Python oracle `stackgen.Node.pe` (an independent exact-rational evaluator of each layer's one-line definition)",
                     "x86-64 IEEE arithmetic is exact when the exact result is representable (exactness policy: dyadic coordinates k/8, "
                     "dyadic matrices, integer stored values < 2^10)"],
    "assumptions": ["coordinates inside the documented domain of every layer (extents, non-negative before an interpolator, +1 neighbour of "
                    "`linear` in range unless a clamp/backup lies beneath)",
                    "inputs restricted to those for which every floating-point intermediate is exactly representable (bit-exact comparison); "
                    "rounding behaviour of interpolation is C03's subject",
                    "NaN coordinates excluded"],
}
OBL = "stack_eval"


def digest(stack):
    return C.chash([stack.desc(), G.cfg_words(stack), stack.cells()])


def gen(ctx):
    cover, unc = G.covering_set()
    rnd = random.Random(ctx.seed * 104729 + 2)
    items = []
    ncoord = 160 if ctx.quick else 110
    for k, s in enumerate(cover):
        items.append({"stack": s, "origin": "cover", "coords": G.gen_coords(random.Random(ctx.seed * 7907 + k), s, ncoord)})
    nrand = 60 if ctx.quick else 1500
    guard = 0
    while sum(1 for it in items if it["origin"] == "random") < nrand and guard < nrand * 6:
        guard += 1
        try:
            s = G.random_stack(rnd)
        except G.NoSample:
            continue
        if s.depth() < 2 or not G.fits(s):
            continue
        co = G.gen_coords(rnd, s, ncoord)
        if len(co) < 4:
            continue
        items.append({"stack": s, "origin": "random", "coords": co})
    return items, unc


def evaluate(ctx, items, cfgs, uncovered_static=()):
    corr = Corr()
    corr.add_obl(OBL)
    per_tu = max(1, -(-len(items) // C.NCPU)) if len(items) <= 6 * C.NCPU else 8
    tu_items = [(k, it["stack"], "") for k, it in enumerate(items)]
    exe, failures = G.build_tus(ctx, tu_items, cfgs, per_tu, "c02")
    for idxs, cfg, err, src in failures:
        s = items[idxs[0]]["stack"]
        corr.add_obl(OBL, 1, 1)
        corr.violation(OBL, f"the translation unit instantiating field<{s.desc()[:200]}> does not compile ({cfg}): {C.first_diag(err)}",
                       {"stack": s.to_json(), "coords": [], "cfg": cfg, "diagnostic": err[-2500:]}, impl="compile error", model="well-kinded",
                       oracle_fails=False, key={"kind": "compile", "stack": s.desc()}, cfg=cfg)

    def run_one(job):
        k, cfg = job
        it = items[k]
        s = it["stack"]
        lines = [G.at_line(k, s, c) for c, _, _ in it["coords"]]
        outs, crashes = C.run_lines(exe[(k, cfg)], lines, setup=[G.setup_line(k, s)])
        return outs
    jobs = [(k, cfg) for k in range(len(items)) for cfg in cfgs if (k, cfg) in exe]
    results = G.run_parallel(run_one, jobs)
    # ---- the driver is the judge: feed it the implementation's outputs (distinct (stack, coordinate, output) only)
    groups, gmap = [(it["stack"], []) for it in items], {}
    parsed = {}
    for (k, cfg), outs in zip(jobs, results):
        s = items[k]["stack"]
        sk = s.in_kind()[0]
        M = s.out_kind()[1]
        bare = s.in_kind()[2]
        for j, ((c, v, tr), o) in enumerate(zip(items[k]["coords"], outs)):
            po = G.parse_out(o, M, bare)
            ok_shape = po is not None
            parsed[(k, cfg, j)] = po[0] if po else None
            if ok_shape:
                cb = tuple(G.enc(sk, x) for x in c)
                for f in parsed[(k, cfg, j)]:
                    key = (k, cb, tuple(f))
                    if key not in gmap:
                        gmap[key] = len(groups[k][1])
                        groups[k][1].append((cb, tuple(f), None))
    verdicts = G.judge_model(groups)
    # ---- per case: correspondence with the model, and the property oracle on the implementation's own output
    hit_adj = collections.Counter()
    for (k, cfg), outs in zip(jobs, results):
        it = items[k]
        s = it["stack"]
        sk, N, bare = s.in_kind()
        osk, M = s.out_kind()
        depth = s.depth()
        labels = [l.label for l in s.layers()]
        adj = G.adjacencies(s)
        sj = None
        dg = digest(s)
        for j, ((c, v, tr), o) in enumerate(zip(it["coords"], outs)):
            cb = [G.enc(sk, x) for x in c]
            want = [G.enc(osk, x) for x in v]
            corr.configs[cfg] += 1
            corr.case((dg, cb, cfg), depth >= 2 and bool(tr))
            for lb in labels:
                corr.dist["layer/" + lb] += 1
            for a in adj:
                corr.dist[f"adj/{a[0]}>{a[1]}"] += 1
                hit_adj[a] += 1
            for lb in tr:
                corr.dist["nontrivial/" + lb] += 1
            corr.dist[f"dim/N{N}M{M}"] += 1
            corr.dist[f"depth/{depth}"] += 1
            corr.dist["N!=M" if N != M else "N==M"] += 1
            corr.dist["origin/" + it["origin"]] += 1
            forms = parsed[(k, cfg, j)]
            if sj is None:
                sj = s.to_json()
            cj = {"stack": sj, "coords": [[G.jv(x) for x in c]], "cfg": cfg}
            key = {"kind": "eval", "stack": s.desc(), "coord": cb}
            if forms is None:
                corr.add_obl(OBL, 1, 1)
                corr.violation(OBL, f"lookup at in-domain coordinate {[str(G.jv(x)) for x in c]} of field<{s.desc()[:160]}> died or printed garbage ({cfg}): {o[:120]}",
                               cj, impl=o, model=want, oracle_fails=True, key=key, cfg=cfg)
                continue
            vs = [verdicts[k][gmap[(k, tuple(cb), tuple(f))]] for f in forms]
            dis = any(x != "ok" for x in vs)
            corr.add_obl(OBL, 1, 1 if dis else 0)
            fail = None
            if forms[0] != want:
                fail = f"at(vector) = {forms[0]}, composition of the layers' one-line definitions gives {want} = {[str(G.jv(x)) for x in v]}"
            elif len(forms) == 2 and forms[1] != want:
                fail = f"variadic at(c...) = {forms[1]} differs from at(vector) = {forms[0]} (expected {want})"
            if fail:
                corr.violation(OBL, f"field<{s.desc()[:200]}> at {[str(G.jv(x)) for x in c]} ({cfg}): {fail}", cj, impl=forms, model=vs,
                               oracle_fails=True, key=key, cfg=cfg)
            elif dis:
                corr.violation(OBL, f"field<{s.desc()[:200]}> at {[str(G.jv(x)) for x in c]} ({cfg}): implementation {forms[0]} , model verdict {vs}",
                               cj, impl=forms, model=vs, oracle_fails=False, key=key, cfg=cfg)
            if len(corr.samples) < 12 and depth >= 4 and N != M and len(tr) >= 2 and (not corr.samples or corr.samples[-1]["stack"] != s.desc()):
                corr.sample({"stack": s.desc(), "coord": [str(G.jv(x)) for x in c], "impl_bits": forms[0], "oracle": [str(G.jv(x)) for x in v],
                             "model": vs[0], "nontrivial_layers": sorted(tr), "cfg": cfg})
    allowed = G.allowed_pairs()
    unc = sorted(p for p in allowed if hit_adj[p] == 0)
    corr.info["adjacencies_allowed"] = len(allowed)
    corr.info["adjacencies_hit"] = len([p for p in allowed if hit_adj[p] > 0])
    corr.info["stacks"] = len(items)
    if unc and not ctx.replay:
        corr.notes.append("uncovered adjacencies (outer>inner) with zero cases: " + ", ".join(f"{a}>{b}" for a, b in unc))
    else:
        corr.notes.append("every well-kinded ordered pair (outer layer, inner layer) was exercised" if not ctx.replay else "replay")
    corr.violations.sort(key=lambda v: (not v["oracle_fails"], len(str(v["case"]["stack"])), len(str(v["case"]["coords"]))))
    return corr, unc


def run(ctx):
    items, unc = gen(ctx)
    cfgs = ["dbg", "rel"] if ctx.quick else ["dbg", "rel", "isa"]
    corr, unc_run = evaluate(ctx, items, cfgs)
    if unc_run:
        corr.add_obl("adjacency_cover", 1, 1, note="uncovered: " + ", ".join(f"{a}>{b}" for a, b in unc_run))
        corr.violation("adjacency_cover", "the covering set no longer exercises every well-kinded ordered pair of layers: " +
                       ", ".join(f"{a}>{b}" for a, b in unc_run), {"stack": None, "coords": [], "uncovered": unc_run}, oracle_fails=False,
                       key={"kind": "uncovered"})
    else:
        corr.add_obl("adjacency_cover", len(G.allowed_pairs()), 0)
    return corr


def replay(ctx):
    c = ctx.replay["case"]
    if not c or not c.get("stack"):
        return run(ctx)
    s = G.from_json(c["stack"])
    sk = s.in_kind()[0]
    coords = []
    for cc in c["coords"]:
        x = [G.asv(sk, G.vj(t)) for t in cc]
        tr = set()
        try:
            v = s.pe(x, tr)
        except (G.UB, G.Inexact) as e:
            continue
        coords.append((x, v, tr))
    if not coords:
        coords = G.gen_coords(random.Random(1), s, 20)
    corr, _ = evaluate(ctx, [{"stack": s, "origin": "replay", "coords": coords}], [c.get("cfg") or "dbg"])
    return corr
