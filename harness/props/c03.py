"""C03 — linear interpolation is the N-linear interpolant over the INPUT dimensions (correspondence + property oracle).

Implementation: one generated TU per type combination (harness/cpp/lin_harness.cpp, -DLN -DLM -DLT -DLC), stacks
linear<strided<sizeN, array<T M>>, C N> and linear<clamp<strided<...>>, C N>, plus the same over the probe backend.
Judge: the Lean driver `lincheck` (exact rationals; model's nlin / lin1 / lin2 / lin3 / linGeneric; DESIGN §5 bound).
Property oracle on the implementation's own outputs: an independent exact evaluation (Python fractions) of the
textbook formula, run on every rejected lookup and on a random sample of accepted ones."""
import math, random, struct, collections
from concurrent.futures import ProcessPoolExecutor
from fractions import Fraction
from vlib import common as C
from vlib.framework import Corr

META = {
    "drivers": ["lincheck", "impcheck"],
    "rule": "case = (N, M, stored precision, coordinate precision, plain|clamp, field data, coordinate bits, build config); "
            "non-trivial when the 2^N reads hit at least two different cells (a coordinate clamped on every axis is trivial)",
    "trusted_base": ["standard model of IEEE-754 arithmetic behind the forward error bound gamma_k * sum|w v| + k*tiny*max(1, sum|v|), "
                     "k = 2N + 2^N + 3 (rounding itself is not proved)",
                     "field / field_view / parameter-pack glue is exercised, not modelled",
                     "probe backend (harness/cpp/probe.hpp) records the flat indices faithfully"],
    "assumptions": ["coordinates finite, 0 <= x_k < extent_k - 1 (plain) or 0 <= x_k < 2^31 (clamp beneath): above 2^64 the "
                    "float->index conversion is undefined behaviour (finding F13)",
                    "stored values finite; below FLT_MAX / 2^N when either precision is float (no overflow to infinity)"],
}
CPP = C.VERIF / "harness" / "cpp"
OBLS = ("lin_bound", "lin_lattice", "lin_hull", "lin_neighbours", "lin_branch")
ALL_COMBOS = [(N, M, vp, cp) for N in (1, 2, 3, 4, 5) for M in (1, 2, 3, 4) for vp in (32, 64) for cp in (32, 64)]


# ------------------------------------------------------------------------------------------------ bit patterns
def f32(x):
    return struct.unpack("<f", struct.pack("<f", x))[0]


def tobits(prec, x):
    return struct.unpack("<I", struct.pack("<f", x))[0] if prec == 32 else struct.unpack("<Q", struct.pack("<d", x))[0]


def frombits(prec, b):
    return struct.unpack("<f", struct.pack("<I", b))[0] if prec == 32 else struct.unpack("<d", struct.pack("<Q", b))[0]


def rnd_to(prec, x):
    return f32(x) if prec == 32 else x


def nextdown(prec, x):
    if prec == 64:
        return math.nextafter(x, -math.inf)
    b = tobits(32, x)
    return frombits(32, b - 1) if x > 0 else x


def nextup(prec, x):
    if prec == 64:
        return math.nextafter(x, math.inf)
    b = tobits(32, x)
    return frombits(32, b + 1) if x >= 0 else x


# ------------------------------------------------------------------------------------------------ generation
def rndval(rnd, vprec, cprec, N):
    k = rnd.random()
    lim = 1e30 if 32 in (vprec, cprec) else 1e300
    if k < 0.25:
        x = float(rnd.randrange(-20, 21))
    elif k < 0.55:
        x = rnd.uniform(-1e3, 1e3)
    elif k < 0.75:
        x = rnd.uniform(-1, 1) * 10.0 ** rnd.randrange(-30, 30)
    elif k < 0.85:
        x = rnd.choice([0.0, -0.0, 1e-40, -1e-42, 1.4e-45, lim, -lim, 1e-310 if vprec == 64 else 1e-39, 1.0, -1.0])
    elif k < 0.92:
        x = rnd.uniform(-1e-3, 1e-3)
    else:
        x = rnd.choice([-1, 1]) * (1 + rnd.random()) * 2.0 ** rnd.randrange(-60, 60)
    return rnd_to(vprec, x)


def gen_field(rnd, N, M, vprec, cprec, clamp):
    pool = {1: [2, 3, 4, 5, 7, 9, 16, 33], 2: [2, 3, 4, 5, 7, 9], 3: [2, 3, 4, 5, 7], 4: [2, 3, 4, 5], 5: [2, 3, 4]}[N]
    if clamp and rnd.random() < 0.3:
        pool = pool + [1]
    sz = [rnd.choice(pool) for _ in range(N)]
    total = 1
    for s in sz:
        total *= s
    cells = [tobits(vprec, rndval(rnd, vprec, cprec, N)) for _ in range(total * M)]
    return sz, cells


def gen_beyond(rnd, cprec, s):
    """clamp only: a component at or above extent-1 (kept below 2^31, see F13)"""
    hi = s - 1
    j = rnd.random()
    if j < 0.25:
        x = float(hi)
    elif j < 0.45:
        x = float(hi + rnd.randrange(0, 5)) + rnd.choice([0.0, 0.5, 0.25, 0.999])
    elif j < 0.6:
        x = float(rnd.randrange(hi, 1 << 31))
    elif j < 0.8:
        x = rnd.uniform(hi, 2.0 ** rnd.randrange(1, 31))
    elif j < 0.9:
        x = nextdown(cprec, 2.0 ** 31)
    else:
        x = nextup(cprec, float(hi))
    x = rnd_to(cprec, x)
    if x < hi:
        x = float(hi)
    if x >= 2.0 ** 31:
        x = nextdown(cprec, 2.0 ** 31)
    return x, "beyond"


def gen_axis(rnd, cprec, s, want=None):
    """one coordinate component inside [0, extent-1) and its class"""
    hi = s - 1
    if hi == 0:
        return 0.0, "beyond"                  # extent 1 (clamp stacks only): every coordinate is at or beyond the last cell
    cl = want or rnd.choice(["lattice"] * 5 + ["dyadic", "ulp-edge", "ulp-edge", "last-cell", "tiny", "tiny", "interior", "interior", "interior"])
    if cl == "lattice":
        x = float(rnd.randrange(0, hi))
    elif cl == "dyadic":
        x = rnd.randrange(0, hi) + rnd.choice([0.5, 0.25, 0.75, 0.125, 0.875])
    elif cl == "ulp-edge":
        x = nextdown(cprec, float(hi)) if rnd.random() < 0.6 else nextdown(cprec, float(rnd.randrange(1, hi + 1)))
    elif cl == "last-cell":
        x = hi - 1 + rnd.random()
    elif cl == "tiny":
        j = rnd.random()
        if j < 0.6:
            x = rnd.randrange(0, hi) + 2.0 ** -rnd.randrange(8, 60)
        elif j < 0.8:
            x = nextup(cprec, float(rnd.randrange(0, hi)))
        else:
            x = 2.0 ** -rnd.randrange(60, 140)            # far below one ulp of 1: weights 1-a round to 1
    else:
        x = rnd.uniform(0, hi)
    x = rnd_to(cprec, x)
    if x >= hi:
        x, cl = nextdown(cprec, float(hi)), "ulp-edge"
    if x == math.floor(x):
        cl = "lattice"
    return x, cl


PRI = ["beyond", "ulp-edge", "last-cell", "tiny", "dyadic", "interior"]


def gen_point(rnd, cprec, sz, clamp):
    N = len(sz)
    mode = rnd.random()
    if mode < 0.12:
        want = ["lattice"] * N
    elif mode < 0.30:
        want = ["interior"] * N
    elif mode < 0.40:
        want = [rnd.choice(["dyadic", "tiny", "last-cell", "ulp-edge"])] * N
    else:
        want = [None] * N
    nby = 0
    if clamp and rnd.random() < 0.35:
        nby = rnd.choice([1, 1, 2, N])
    by = set(rnd.sample(range(N), min(nby, N)))
    xs, cls = [], []
    for a, s in enumerate(sz):
        x, cl = gen_beyond(rnd, cprec, s) if (a in by or (clamp and s == 1)) else gen_axis(rnd, cprec, s, want[a])
        xs.append(x)
        cls.append(cl)
    if all(c == "lattice" for c in cls):
        pc = "lattice"
    else:
        pc = next(p for p in PRI if p in cls)
        if "lattice" in cls and pc in ("dyadic", "interior", "tiny"):
            pc = "face"
    return [tobits(cprec, x) for x in xs], pc


# ------------------------------------------------------------------------------------------------ property oracle
def exact(prec, b):
    return Fraction(frombits(prec, b))


def narrow32(q):
    """nearest binary32 (ties to even) of a rational below the overflow threshold — via the C conversion of Python's struct"""
    return Fraction(f32(float(q)))          # q is a double value here (stored double), so float(q) is exact


def synth_val(k):
    """contents of a synthetic large field (`G` line): the word at flat position k; the same function as in lin_harness.cpp and
    Driver/LinCheck.lean"""
    return ((k * 2654435761) % 4294967296) % 1021 - 510


def py_oracle(N, M, vprec, cprec, clamp, sz, cells, coord, impl, idx):
    """independent exact evaluation; returns dict of booleans (True = property holds on the implementation's output)"""
    xs = [exact(cprec, b) for b in coord]
    iv = [int(x) for x in xs]                         # x >= 0: truncation
    fr = [x - i for x, i in zip(xs, iv)]
    k = 2 * N + 2 ** N + 3
    u = max(Fraction(1, 2 ** 24) if p == 32 else Fraction(1, 2 ** 53) for p in (vprec, cprec))
    tiny = max(Fraction(1, 2 ** 149) if p == 32 else Fraction(1, 2 ** 1074) for p in (vprec, cprec))
    gamma = k * u / (1 - k * u)
    strides = [1] * N
    for a in range(N - 2, -1, -1):
        strides[a] = strides[a + 1] * sz[a + 1]
    corners = []
    for n in range(2 ** N):
        bits_ = [(n >> a) & 1 for a in range(N)]
        co = [iv[a] + bits_[a] for a in range(N)]
        if clamp:
            co = [min(c, s - 1) for c, s in zip(co, sz)]
        w = Fraction(1)
        for a in range(N):
            w *= fr[a] if bits_[a] else 1 - fr[a]
        corners.append((w, sum(c * st for c, st in zip(co, strides)), bits_))
    res = {"bound": True, "lattice": True, "hull": True, "neighbours": True, "detail": ""}
    if idx is not None and sorted(idx) != sorted(c[1] for c in corners):
        res["neighbours"] = False
        res["detail"] += f" read {sorted(idx)} expected {sorted(c[1] for c in corners)};"
    lattice = all(f == 0 for f in fr)
    for q in range(M):
        vals = [exact(vprec, cells[fi * M + q]) if cells is not None else Fraction(synth_val(fi * M + q)) for (_, fi, _) in corners]
        ex = sum(w * v for (w, _, _), v in zip(corners, vals))
        ab = sum(abs(w * v) for (w, _, _), v in zip(corners, vals))
        bound = gamma * ab + k * tiny * max(1, sum(abs(v) for v in vals))
        r = frombits(vprec, impl[q])
        if math.isnan(r) or math.isinf(r):
            res["bound"] = False
            res["detail"] += f" comp {q}: non-finite result;"
            continue
        r = Fraction(r)
        if abs(r - ex) > bound:
            res["bound"] = False
            res["detail"] += f" comp {q}: result {float(r)!r} interpolant {float(ex)!r} |diff| {float(abs(r - ex)):.3e} > bound {float(bound):.3e};"
        if r < min(vals) - bound or r > max(vals) + bound:
            res["hull"] = False
            res["detail"] += f" comp {q}: result {float(r)!r} outside [{float(min(vals))!r}, {float(max(vals))!r}];"
        if lattice:
            v0 = vals[0]
            want = narrow32(v0) if cprec < vprec else v0
            if r != want:
                res["lattice"] = False
                res["detail"] += f" comp {q}: lattice point returns {float(r)!r}, stored {float(v0)!r};"
    return res


# ------------------------------------------------------------------------------------------------ one combination
def exe_name(combo, cfg):
    N, M, vp, cp = combo
    return f"lin_{N}{M}_{vp}{cp}_{cfg}"


def build(work, combos, cfgs):
    """compile one TU per (combination, config) from the current tree; returns {combination: (cfg, diagnostic)} for
    those that no longer compile (reported as violations by the caller; the others still run)"""
    jobs = []
    for cb in combos:
        N, M, vp, cp = cb
        for cfg in cfgs:
            jobs.append((CPP / "lin_harness.cpp", work.path(exe_name(cb, cfg)), cfg,
                         [f"-DLN={N}", f"-DLM={M}", f"-DLT={0 if vp == 32 else 1}", f"-DLC={0 if cp == 32 else 1}"], cb))
    res = C.compile_many([j[:4] for j in jobs])
    failed = {}
    for j, (rc, err) in zip(jobs, res):
        if rc != 0 and j[4] not in failed:
            failed[j[4]] = (j[2], err)
    if len(failed) == len(combos) and combos:
        cb = combos[0]
        raise C.CompileError(str(CPP / "lin_harness.cpp") + f" (N={cb[0]} M={cb[1]} stored f{cb[2]} coordinate f{cb[3]})", failed[cb][0], failed[cb][1])
    return failed


def report_uncompilable(corr, failed):
    corr.add_obl("harness_compiles", 0, 0)
    for cb, (cfg, err) in sorted(failed.items()):
        N, M, vp, cp = cb
        corr.add_obl("harness_compiles", 1, 1)
        corr.violation("harness_compiles", f"linear<strided<size{N}, array<{'float' if vp == 32 else 'double'}{M}>>, {'float' if cp == 32 else 'double'}{N}> "
                       f"no longer compiles: {C.first_diag(err)}",
                       {"tu": "harness/cpp/lin_harness.cpp", "combo": list(cb), "compile_only": True, "config": cfg, "diagnostic": err[-2500:]},
                       oracle_fails=False, key={"kind": "compile", "combo": list(cb)}, cfg=cfg)


def parse_verdict(m):
    t = m.split()
    d = {"head": t[0] if t else "?"}
    for x in t[1:]:
        if "=" in x:
            a, b = x.split("=", 1)
            d.setdefault(a, b)
    return d


def run_combo(args):
    """worker: run the fields of one type combination in the given build configurations and have them judged.
    returns a plain dict (picklable)"""
    workdir, combo, fields, cfgs, seed, nsample = args
    N, M, vp, cp = combo
    rnd = random.Random(seed)
    out = {"obl": {o: [0, 0] for o in OBLS}, "dist": collections.Counter(), "configs": collections.Counter(), "viol": [],
           "nontrivial": [], "evals": 0, "samples": [], "xcheck": [0, 0], "driver_error": None}
    drv_lines = []
    back = []          # per driver line: None (F) or (field index, point index, [cfgs], impl words, idx words)
    for fi, (clamp, sz, cells, pts) in enumerate(fields):
        fline = (f"F {1 if clamp else 0} {' '.join(map(str, sz))} | {' '.join(map(str, cells))}" if cells is not None else
                 f"G {1 if clamp else 0} {' '.join(map(str, sz))}")
        llines = ["L " + " ".join(map(str, co)) for co, _ in pts]
        per_cfg = {}
        for cfg in cfgs:
            outs, _ = C.run_lines(f"{workdir}/{exe_name(combo, cfg)}", llines, setup=[fline], min_timeout=60)
            per_cfg[cfg] = outs
        drv_lines.append(f"F {vp} {M} {1 if clamp else 0} {' '.join(map(str, sz))} | {' '.join(map(str, cells))}" if cells is not None else
                         f"G {vp} {M} {1 if clamp else 0} {' '.join(map(str, sz))}")
        back.append(None)
        for pi, (co, pc) in enumerate(pts):
            seen = {}
            for cfg in cfgs:
                o = per_cfg[cfg][pi]
                if o in seen:
                    seen[o].append(cfg)
                else:
                    seen[o] = [cfg]
            for o, cf in seen.items():
                cj = {"combo": list(combo), "clamp": clamp, "sz": sz, "cells": cells, "coord": co, "cfg": cf[0], "class": pc,
                      "previous": [pts[j][0] for j in range(max(0, pi - 2), pi)]}     # the harness keeps one long-lived view per field
                parts = o.split("|")
                ok_shape = not o.startswith("CRASH") and len(parts) == 2
                if ok_shape:
                    try:
                        impl = [int(x) for x in parts[0].split()]
                        idx = [int(x) for x in parts[1].split()]
                        ok_shape = len(impl) == M
                    except ValueError:
                        ok_shape = False
                if not ok_shape:
                    n = len(cf)
                    out["evals"] += n
                    for c_ in cf:
                        out["configs"][c_] += 1
                    out["obl"]["lin_bound"][0] += n
                    out["obl"]["lin_bound"][1] += n
                    out["viol"].append({"obligation": "lin_bound", "what": f"lookup inside the documented domain died or answered garbage: {o[:120]} "
                                        f"(N={N} M={M} stored f{vp} coordinate f{cp} {'clamp' if clamp else 'plain'} {sz}, {cf[0]})",
                                        "case": cj, "impl": o[:300], "model": None, "oracle_fails": True,
                                        "key": {"kind": "crash", "combo": list(combo), "clamp": clamp}, "cfg": cf[0]})
                    continue
                drv_lines.append(f"L {cp} {' '.join(map(str, co))} | {' '.join(map(str, impl))} | {' '.join(map(str, idx))}")
                back.append((fi, pi, cf, impl, idx))
    try:
        mout = C.run_driver("lincheck", drv_lines, timeout_per_line=0.05, min_timeout=120)
    except RuntimeError as e:
        out["driver_error"] = str(e)[:500]
        return out
    for b, m in zip(back, mout):
        if b is None:
            continue
        fi, pi, cf, impl, idx = b
        clamp, sz, cells, pts = fields[fi]
        co, pc = pts[pi]
        n = len(cf)
        v = parse_verdict(m)
        bad = v["head"] != "ok"
        nontriv = len(set(idx)) >= 2
        out["evals"] += n
        for c_ in cf:
            out["configs"][c_] += 1
            if nontriv:
                out["nontrivial"].append(C.chash((combo, clamp, sz, C.chash(cells), co, c_)))
        d = out["dist"]
        d[f"N{N}/M{M}"] += n
        d[f"N{N}/M{M}/stored-f{vp}/coord-f{cp}"] += n
        d[f"stack/{'clamp' if clamp else 'plain'}"] += n
        d[f"class/{pc}"] += n
        d[f"branch/{v.get('br', '?')[:1]}"] += n
        if v["head"] == "skip" or "v" not in v:
            d[f"skipped/{m[:40]}"] += n
            out["viol"].append({"obligation": "lin_bound", "what": f"the judge refused a generated case ({m[:80]}): generator/judge mismatch",
                                "case": {"combo": list(combo), "clamp": clamp, "sz": sz, "cells": cells, "coord": co, "cfg": cf[0], "class": pc},
                                "impl": impl, "model": m[:300], "oracle_fails": False, "key": {"kind": "skip"}, "cfg": cf[0]})
            out["obl"]["lin_bound"][0] += n
            out["obl"]["lin_bound"][1] += n
            continue
        d["verdict/" + ("all-exact" if set(v["v"]) == {"e"} else "within-tolerance" if "B" not in v["v"] else "rejected")] += n
        flags = {"lin_bound": "B" in v["v"], "lin_hull": v.get("hull") == "bad", "lin_branch": not v.get("br", "").endswith("eq")}
        out["obl"]["lin_bound"][0] += n
        out["obl"]["lin_hull"][0] += n
        out["obl"]["lin_branch"][0] += n
        if v.get("lat") != "na":
            out["obl"]["lin_lattice"][0] += n
            flags["lin_lattice"] = v.get("lat") == "bad"
        if v.get("nb") != "na":
            out["obl"]["lin_neighbours"][0] += n
            flags["lin_neighbours"] = v.get("nb") == "bad"
            d[f"neighbour-order/{v.get('nb')}"] += n
        for ob, f in flags.items():
            if f:
                out["obl"][ob][1] += n
        sampled = (not bad) and rnd.random() < nsample
        if bad or sampled:
            orc = py_oracle(N, M, vp, cp, clamp, sz, cells, co, impl, idx)
            holds = orc["bound"] and orc["lattice"] and orc["hull"] and orc["neighbours"]
            if sampled:
                out["xcheck"][0] += 1
                if not holds:
                    out["xcheck"][1] += 1
            cj = {"combo": list(combo), "clamp": clamp, "sz": sz, "cells": cells, "coord": co, "cfg": cf[0], "class": pc}
            key = {"kind": "lookup", "combo": list(combo), "clamp": clamp, "sz": sz, "coord": co}
            xs = [frombits(cp, b) for b in co]
            where = f"N={N} M={M} stored f{vp} coordinate f{cp} {'clamp' if clamp else 'plain'} extents {sz} at {xs} ({cf[0]})"
            if not holds:
                ob = ("lin_neighbours" if not orc["neighbours"] else "lin_lattice" if not orc["lattice"] else
                      "lin_bound" if not orc["bound"] else "lin_hull")
                if not bad:
                    out["obl"][ob][1] += n
                out["viol"].append({"obligation": ob, "what": f"{where}:{orc['detail'][:400]}", "case": cj,
                                    "impl": {"result": [frombits(vp, w) for w in impl], "bits": impl, "read": idx}, "model": m[:400],
                                    "oracle_fails": True, "key": key, "cfg": cf[0]})
            elif bad:
                ob = next((o_ for o_, f in flags.items() if f), "lin_bound")
                out["viol"].append({"obligation": ob, "what": f"{where}: judge says `{m[:200]}` but the independent evaluation accepts the result",
                                    "case": cj, "impl": {"bits": impl, "read": idx}, "model": m[:400], "oracle_fails": False, "key": key, "cfg": cf[0]})
        if len(out["samples"]) < 1 and not bad and pc not in ("lattice",) and "t" in v["v"]:
            out["samples"].append({"N": N, "M": M, "stored": f"f{vp}", "coord": f"f{cp}", "stack": "clamp" if clamp else "plain", "extents": sz,
                                   "x": [frombits(cp, b) for b in co], "class": pc, "impl": [frombits(vp, w) for w in impl], "read": idx,
                                   "verdict": m[:80], "cfg": cf})
    return out


def merge(corr, outs):
    for o in OBLS:
        corr.add_obl(o)
    xc = [0, 0]
    for out in outs:
        if out["driver_error"]:
            corr.add_obl("lin_bound", 1, 1)
            corr.violation("lin_bound", "the judge (lincheck) failed: " + out["driver_error"], {"driver": "lincheck"}, oracle_fails=False,
                           key={"kind": "driver"})
            continue
        for ob, (c, dgr) in out["obl"].items():
            corr.add_obl(ob, c, dgr)
        corr.dist.update(out["dist"])
        corr.configs.update(out["configs"])
        corr.evaluations += out["evals"]
        corr.nontrivial.update(out["nontrivial"])
        for v in out["viol"]:
            corr.violation(v["obligation"], v["what"], v["case"], impl=v["impl"], model=v["model"], oracle_fails=v["oracle_fails"],
                           key=v["key"], cfg=v["cfg"])
        for s in out["samples"]:
            corr.sample(s)
        xc[0] += out["xcheck"][0]
        xc[1] += out["xcheck"][1]
    corr.info["python_oracle_crosscheck"] = {"accepted_lookups_re-evaluated_independently": xc[0], "rejected_by_the_independent_oracle": xc[1]}

    def size(v):
        c = v["case"]
        p = 1
        for s in c.get("sz", [1]):
            p *= s
        return (not v["oracle_fails"], c.get("combo", [9])[0], p, c.get("combo", [9, 9])[1])
    corr.violations.sort(key=size)
    return corr


def pick_combos(ctx):
    if not ctx.quick:
        return list(ALL_COMBOS)
    rnd = random.Random(ctx.seed * 104729 + 3)
    pairs = [(32, 32), (32, 64), (64, 32), (64, 64)]
    combos = []
    k = rnd.randrange(4)
    for N in (1, 2, 3, 4, 5):
        for M in (1, 2, 3, 4):
            a = pairs[k % 4]
            b = pairs[(k + 1 + rnd.randrange(3)) % 4]
            combos += [(N, M) + a, (N, M) + b]
            k += 1
    return combos


def run(ctx):
    combos = pick_combos(ctx)
    # the tie through translation (DESIGN.md §11.6): the weighted sums of the 1-D / 2-D / 3-D branches as written are the terms
    # `Covfie.Lin.*_translated` are about; a branch whose text changed gets the thorough tier's fields and points
    from harness import translib as T
    tie = T.Tie(ctx, ["lin1", "lin2", "lin3", "lin_generic", "context"])
    deep_dims = {T.LIN[k] for k in tie.changed() if k in T.LIN} | ({4, 5} if "lin_generic" in tie.changed() else set()) \
        | ({1, 2, 3, 4, 5} if "context" in tie.changed() else set())
    cfgs = ["dbg", "rel", "isa"]      # isa: code guarded by __FMA__ / __AVX2__ / __SSE4_1__ is compiled and run (contraction stays off)
    failed = build(ctx.work, combos, cfgs)
    tasks = []
    for cb in combos:
        if cb in failed:
            continue
        N, M, vp, cp = cb
        nfields, npts = (4, 120) if (ctx.quick and N not in deep_dims) else (20, 1000)
        rnd = random.Random(ctx.seed * 1000003 + N * 1009 + M * 101 + vp * 7 + cp)
        fields = []
        for f in range(nfields):
            clamp = f % 2 == 1
            sz, cells = gen_field(rnd, N, M, vp, cp, clamp)
            pts = [gen_point(rnd, cp, sz, clamp) for _ in range(npts)]
            fields.append((clamp, sz, cells, pts))
        if M == 1 and N <= 3:
            # one LARGE field with synthetic contents (millions of cells: an extent beyond 2^21), looked up through one long-lived
            # view at cells whose indices differ by powers of two, back to back
            L = (1 << 22) + 5 if N == 1 else (1 << 21) + 9
            sz = [2] * (N - 1) + [L] if rnd.random() < 0.5 or N == 1 else [L] + [2] * (N - 1)
            ax = sz.index(L)
            pts = []
            for k in (8, 12, 16, 20, 21):
                for b in (0, 1, 5):
                    fr = rnd.choice([0.5, 0.25, 0.75, 0.0])
                    for base in (b, b + (1 << k)):
                        x = [rnd.choice([0.0, 0.25, 0.5]) for _ in range(N)]
                        x[ax] = base + fr
                        pts.append(([tobits(cp, v) for v in x], "large-field"))
            fields.append((False, sz, None, pts))
        tasks.append((str(ctx.work.dir), cb, fields, cfgs, ctx.seed * 31 + len(tasks), 0.06 if ctx.quick else 0.004))
    with ProcessPoolExecutor(max_workers=C.NCPU) as ex:
        outs = list(ex.map(run_combo, tasks))
    corr = Corr()
    if failed:
        report_uncompilable(corr, failed)
    corr = merge(corr, outs)
    corr.info["type_combinations"] = len(combos) - len(failed)
    corr.info["points_per_combination"] = 4 * 120 if ctx.quick else 20 * 1000
    run_corpus(ctx, corr, ["dbg", "rel"])
    from harness import ldlib
    ldlib.part(ctx, corr, ["linear"], "lin_lattice")      # long double coordinates: lattice points and cell centres
    tie.merge(corr)
    return corr


CORPUS = [   # (op, coordinate, witness id or None for a control, what)
    ("big", ("f32", 5.0), None, "control"),
    ("big", ("f32", 3.5), None, "control"),
    ("big", ("f32", 2.25), None, "control-inside"),
    ("wrap32", ("f64", 7.25), None, "control"),
    ("wrap32", ("f64", 4294967294.5), None, "control"),
    ("wrap32", ("f64", 1.75), None, "control-inside"),
    ("big", ("f32", 1e30), "F13", "coordinate beyond the range of the index type over a clamp layer: float->index conversion out of range"),
    ("wrap32", ("f64", 4294967295.5), "F15", "+1 neighbour index wraps in a 32-bit index type before the clamp layer sees it"),
]


def run_corpus(ctx, corr, cfgs):
    """always-run witnesses at the edge of the index type's range (interpolator over a clamp layer; the property admits any x >= 0
    there): values 10,20,30,40, clamp box [0,3] => every x >= 3 must give 40"""
    src = C.VERIF / "harness" / "cpp" / "lin_corpus.cpp"
    jobs = [(src, ctx.work.path(f"lincorpus_{cfg}"), cfg, []) for cfg in cfgs]
    for j, (rc, err) in zip(jobs, C.compile_many(jobs)):
        if rc != 0:
            raise C.CompileError(j[0], j[2], err)
    lines = [f"{op} {tobits(32 if k == 'f32' else 64, x)}" for op, (k, x), _, _ in CORPUS]
    # the width-faithful model (Model/LinearW.lean, `linearLW w`): what the code's index arithmetic computes, findings included
    mlines = [f"W {64 if op == 'big' else 32} {32 if k == 'f32' else 64} {tobits(32 if k == 'f32' else 64, x)}" for op, (k, x), _, _ in CORPUS]
    mouts = C.run_driver("lincheck", mlines)
    corr.add_obl("lin_width_model")
    for cfg in cfgs:
        outs, _ = C.run_lines(ctx.work.path(f"lincorpus_{cfg}"), lines)
        for (op, (k, x), wit, what), o, m in zip(CORPUS, outs, mouts):
            corr.configs[cfg] += 1
            corr.case(("corpus", op, x, cfg), True)
            corr.dist["corpus/" + (wit or "control")] += 1
            exact = {"control-inside": None}.get(what, 40.0)
            want = str(tobits(32, exact)) if exact is not None else None
            # correspondence with the width-faithful model: same value where the model is defined; where the model says the
            # conversion is undefined behaviour nothing is demanded of the implementation (UBSan reports it in `dbg`)
            if m.startswith("ok ") and "/" in m:
                num, den = m.split()[1].split("/")
                mval = Fraction(int(num), int(den))
                agree = o.isdigit() and Fraction(frombits(32, int(o))) == mval
                corr.add_obl("lin_width_model", 1, 0 if agree else 1)
                if not agree:
                    corr.violation("lin_width_model", f"linear over clamp at x = {x!r} ({cfg}): implementation {o}, width-faithful model {m}",
                                   {"corpus": op, "x": x, "cfg": cfg}, impl=o, model=m, oracle_fails=False, key={"kind": "corpus-model", "op": op, "x": x}, cfg=cfg)
                if want is None:
                    want = str(tobits(32, float(mval)))
            else:
                corr.add_obl("lin_width_model", 1, 0)
            ok = o == want
            corr.add_obl("lin_bound", 1, 0)      # the idealised model agrees with the property here; the code's index arithmetic is what differs
            if not ok:
                got = frombits(32, int(o)) if o.isdigit() else o
                corr.violation("lin_bound", f"linear over clamp [0,3] (values 10,20,30,40) at x = {x!r} ({cfg}): result {got}, the interpolant of the "
                               f"clamped neighbours is 40 — {what}", {"corpus": op, "x": x, "cfg": cfg}, impl=o, model=want, oracle_fails=True,
                               key={"kind": "corpus", "witness": wit or "control", "op": op}, cfg=cfg)


def replay(ctx):
    c = ctx.replay["case"]
    if c and c.get("op") == "longdouble":
        from vlib.framework import Corr as _Corr
        from harness import ldlib
        corr = _Corr()
        corr.add_obl("lin_lattice")
        ldlib.part(ctx, corr, c["ops"], "lin_lattice", cfgs=(c.get("cfg", "dbg"),))
        return corr
    corr = Corr()
    if "corpus" in c:
        corr.add_obl("lin_bound")
        run_corpus(ctx, corr, [c.get("cfg", "dbg")])
        return corr
    if "combo" not in c:
        return merge(corr, [])
    cb = tuple(c["combo"])
    cfg = c.get("cfg") or c.get("config") or "dbg"
    failed = build(ctx.work, [cb], [cfg])          # raises CompileError when the only TU does not compile
    if c.get("compile_only"):
        corr.add_obl("harness_compiles", 1, 0)
        return merge(corr, [])
    fields = [(c["clamp"], c["sz"], c["cells"], [(p, "replay-previous") for p in c.get("previous", [])] + [(c["coord"], c.get("class", "replay"))])]
    return merge(corr, [run_combo((str(ctx.work.dir), cb, fields, [cfg], 0, 0.0))])
