"""C04 — nearest-neighbour lookup returns the value at a closest lattice point (correspondence + property oracle).

Implementation: harness/cpp/nn_harness.cpp (one TU per N): nearest_neighbour<identity<int|long N>, float|double N> returns the
chosen lattice point itself; nearest_neighbour<strided<sizeN, array<double1>>, float|double N> returns the flat position
stored in the chosen cell (decoded back to the lattice point here).
Judge: the Lean driver `nncheck` — relation |c - r| <= 1/2 per component, evaluated exactly on the coordinate decoded at ITS
OWN precision (model: Covfie.nnRound, theorem Covfie.C04.nnRound_half / allowed_iff); agreement with round-half-even is
information only (`nn_ties_even`). Property oracle: the same relation in exact integer arithmetic in Python, on every lookup."""
import math, random, struct, collections
from concurrent.futures import ThreadPoolExecutor
from vlib import common as C
from vlib.framework import Corr

META = {
    "drivers": ["nncheck"],
    "rule": "case = (stack kind, N, coordinate precision, index type | extents, coordinate bits, build config); non-trivial when at "
            "least one component is not an integer (an integer coordinate is its own nearest lattice point under any rounding rule)",
    "trusted_base": ["std::lrint in the default rounding mode (libm / cvtsd2si); the check only relies on the relation |c-r| <= 1/2",
                     "field / field_view / parameter-pack glue is exercised, not modelled"],
    "assumptions": ["coordinates finite and inside (-1/2, extent-1/2) for array-backed stacks; |c| < 2^31-1 (int index) or < 2^53 (long index) "
                    "over the identity backend (beyond the index type the conversion is undefined, F13)",
                    "default floating-point rounding mode"],
}
CPP = C.VERIF / "harness" / "cpp"


def f32(x):
    return struct.unpack("<f", struct.pack("<f", x))[0]


def tobits(prec, x):
    return struct.unpack("<I", struct.pack("<f", x))[0] if prec == 32 else struct.unpack("<Q", struct.pack("<d", x))[0]


def frombits(prec, b):
    return struct.unpack("<f", struct.pack("<I", b))[0] if prec == 32 else struct.unpack("<d", struct.pack("<Q", b))[0]


def step(prec, x, n):
    """x moved by n units in the last place at the given precision (x must be representable there)"""
    for _ in range(abs(n)):
        if prec == 64:
            x = math.nextafter(x, math.inf if n > 0 else -math.inf)
        else:
            b = tobits(32, x)
            up = n > 0
            if x == 0:
                x = frombits(32, 1) if up else -frombits(32, 1)
            elif (x > 0) == up:
                x = frombits(32, b + 1)
            else:
                x = frombits(32, b - 1)
    return x


def representable(prec, x):
    return prec == 64 or f32(x) == x


def allowed(c, r):
    """|c - r| <= 1/2 exactly (c a Python float holding the coordinate's exact value, r an int)"""
    n, d = c.as_integer_ratio()
    return abs(2 * n - 2 * r * d) <= d


# ------------------------------------------------------------------------------------------------ generation
def half_pool(prec, lo, hi):
    """every half-integer k + 1/2 in [lo, hi) representable at the precision, with 0, +-1, +-2 ulp"""
    out = []
    for k in range(lo, hi):
        h = k + 0.5
        if not representable(prec, h):
            continue
        for d in (0, -1, 1, -2, 2):
            out.append((step(prec, h, d), f"half{'' if d == 0 else ('+' if d > 0 else '-') + str(abs(d)) + 'ulp'}"))
    return out


def big_pool(rnd, prec, n):
    out = []
    if prec == 64:
        for k in range(24, 53):
            for base in (2.0 ** k + 1, 2.0 ** k + 3, 2.0 ** k - 1, 2.0 ** k + 0.5 if k < 52 else 2.0 ** k + 1, 2.0 ** k + 1.5 if k < 52 else 2.0 ** k + 5,
                         2.0 ** k - 0.5):
                for d in (0, -1, 1):
                    out.append((step(64, base, d), "above-2^24"))
        for _ in range(n):
            k = rnd.randrange(24, 53)
            x = float(rnd.randrange(2 ** k, 2 ** (k + 1)) | 1)
            if x < 2.0 ** 53:
                out.append((x * rnd.choice([1, -1]), "above-2^24"))
            y = rnd.randrange(2 ** 24, 2 ** 51) + 0.5
            out.append((step(64, y, rnd.choice([-1, 0, 1])), "above-2^24"))
    else:
        for k in range(18, 31):
            for base in (2.0 ** k + 1, 2.0 ** k - 1, 2.0 ** k + 0.5, 2.0 ** k - 0.5, 2.0 ** k + 1.5):
                if representable(32, base):
                    for d in (0, -1, 1):
                        out.append((step(32, base, d), "float-large"))
    return out


def rand_comp(rnd, prec, lo, hi):
    """a component in the open interval (lo, hi)"""
    k = rnd.random()
    if k < 0.35:
        x, cl = rnd.uniform(lo, hi), "random"
    elif k < 0.55:
        x, cl = rnd.uniform(max(lo, -0.5), min(hi, 40.0)), "random"
    elif k < 0.7:
        x, cl = float(rnd.randrange(math.ceil(lo), max(math.ceil(lo) + 1, math.floor(hi)))), "integer"
    elif k < 0.85:
        h = rnd.randrange(math.floor(lo), max(math.floor(lo) + 1, math.floor(hi))) + 0.5
        x, cl = h, "half"
        if representable(prec, h):
            d = rnd.choice([0, -1, 1, -2, 2])
            x, cl = step(prec, h, d), f"half{'' if d == 0 else ('+' if d > 0 else '-') + str(abs(d)) + 'ulp'}"
    elif k < 0.93:
        x, cl = rnd.randrange(math.ceil(lo), max(math.ceil(lo) + 1, math.floor(hi))) + rnd.choice([-1, 1]) * 2.0 ** -rnd.randrange(2, 50), "near-integer"
    else:
        x, cl = rnd.choice([0.0, -0.0, 2.0 ** -149, -2.0 ** -149, 2.0 ** -1074 if prec == 64 else 2.0 ** -140, 0.25, -0.25, 0.49999999999999994, 0.49999997]), "near-zero"
    if prec == 32:
        x = f32(x)
    if not (lo < x < hi):
        x, cl = (lo + hi) / 2, "random"
        if prec == 32:
            x = f32(x)
    return x, cl


def gen(ctx):
    rnd = random.Random(ctx.seed * 65537 + 4)
    K = 1200 if ctx.quick else 65536
    nrand = 9000 if ctx.quick else 500000
    ident, arrays = [], []          # ident: (N, prec, ity, [x], [class]); arrays: (N, sizes, prec, [x], [class])
    # ---- systematic: every half-integer in range, +-0,1,2 ulp, at both precisions; values above 2^24
    for prec in (32, 64):
        pool = half_pool(prec, -6, K) + big_pool(rnd, prec, 300 if ctx.quick else 20000)
        rnd.shuffle(pool)
        i = 0
        while i < len(pool):
            N = rnd.choice([1, 2, 3, 4])
            chunk = pool[i:i + N]
            i += N
            while len(chunk) < N:
                chunk.append(rand_comp(rnd, prec, -100.0, 100.0))
            xs = [c[0] for c in chunk]
            ity = "i" if all(abs(x) < 2 ** 31 - 2 for x in xs) and rnd.random() < 0.5 else "l"
            ident.append((N, prec, ity, xs, [c[1] for c in chunk]))
    # ---- random lookups over the identity backend
    for _ in range(nrand):
        N = rnd.choice([1, 2, 3, 4]); prec = rnd.choice([32, 64]); ity = rnd.choice(["i", "l"])
        lim = 2.0 ** rnd.choice([4, 10, 20, 30]) if ity == "i" else 2.0 ** rnd.choice([4, 10, 24, 40, 52])
        ch = [rand_comp(rnd, prec, -lim, lim) for _ in range(N)]
        ident.append((N, prec, ity, [c[0] for c in ch], [c[1] for c in ch]))
    # ---- array-backed: coordinates in (-1/2, extent-1/2); 1-D sweep of every half-integer of the grid, then random N-D
    E1 = 600 if ctx.quick else 20000
    for prec in (32, 64):
        pts = [(x, cl) for (x, cl) in half_pool(prec, -1, E1) if -0.5 < x < E1 - 0.5]
        for (x, cl) in pts:
            arrays.append((1, (E1,), prec, [x], [cl]))
    shapes = {1: [(1,), (2,), (7,), (1000,)], 2: [(1, 1), (3, 5), (17, 2), (64, 33)], 3: [(2, 3, 4), (9, 1, 7), (16, 16, 5)],
              4: [(2, 2, 2, 2), (3, 5, 2, 7), (6, 1, 9, 4)]}
    per_shape = 250 if ctx.quick else 8000
    for N, shs in shapes.items():
        for sz in shs:
            for _ in range(per_shape):
                prec = rnd.choice([32, 64])
                ch = [rand_comp(rnd, prec, -0.5, s - 0.5) for s in sz]
                arrays.append((N, sz, prec, [c[0] for c in ch], [c[1] for c in ch]))
    return ident, arrays


# ------------------------------------------------------------------------------------------------ evaluation
def unflat(sz, flat):
    co = []
    for s in reversed(sz):
        co.append(flat % s)
        flat //= s
    return list(reversed(co)), flat


def evaluate(ctx, ident, arrays, cfgs):
    corr = Corr()
    for o in ("nn_allowed", "nn_array", "nn_ties_even"):
        corr.add_obl(o)
    Ns = sorted({c[0] for c in ident} | {c[0] for c in arrays})
    jobs = [(CPP / "nn_harness.cpp", ctx.work.path(f"nn{N}_{cfg}"), cfg, [f"-DNN_N={N}"]) for N in Ns for cfg in cfgs]
    res = C.compile_many(jobs)
    for j, (rc, err) in zip(jobs, res):
        if rc != 0:
            raise C.CompileError(str(j[0]) + " " + j[3][0], j[2], err)

    # ---- implementation
    def run_ident(N, cfg):
        sub = [c for c in ident if c[0] == N]
        lines = [f"I {p} {ity} " + " ".join(str(tobits(p, x)) for x in xs) for (_, p, ity, xs, _) in sub]
        outs, _ = C.run_lines(ctx.work.path(f"nn{N}_{cfg}"), lines, min_timeout=120) if lines else ([], [])
        return ("I", N, cfg, sub, outs)

    def run_arr(N, sz, cfg):
        sub = [c for c in arrays if c[0] == N and tuple(c[1]) == tuple(sz)]
        lines = [f"A {p} " + " ".join(str(tobits(p, x)) for x in xs) for (_, _, p, xs, _) in sub]
        outs, _ = C.run_lines(ctx.work.path(f"nn{N}_{cfg}"), lines, setup=["S " + " ".join(map(str, sz))], min_timeout=120)
        return ("A", N, cfg, sub, outs)
    tasks = []
    with ThreadPoolExecutor(max_workers=C.NCPU) as ex:
        for cfg in cfgs:
            for N in Ns:
                tasks.append(ex.submit(run_ident, N, cfg))
            for (N, sz) in sorted({(c[0], tuple(c[1])) for c in arrays}):
                tasks.append(ex.submit(run_arr, N, sz, cfg))
        results = [t.result() for t in tasks]

    # ---- collect: one record per (lookup, distinct output)
    recs = collections.OrderedDict()       # (kind, id-in-list, output) -> [case, cfgs, lattice point or None, raw]
    for kind, N, cfg, sub, outs in results:
        for case, o in zip(sub, outs):
            k = (kind, id(case), o)
            if k in recs:
                recs[k][1].append(cfg)
                continue
            pt = None
            if not o.startswith("CRASH"):
                try:
                    if kind == "I":
                        pt = [int(t) for t in o.split()]
                        if len(pt) != case[0]:
                            pt = None
                    else:
                        v = frombits(64, int(o))
                        if v == math.floor(v) and v >= 0:
                            pt, rest = unflat(case[1], int(v))
                            if rest:
                                pt = None
                except ValueError:
                    pt = None
            recs[k] = [case, [cfg], pt, o]
    keys = list(recs.keys())
    dl, dk = [], []
    for k in keys:
        case, cf, pt, o = recs[k]
        if pt is not None:
            prec = case[1] if k[0] == "I" else case[2]
            xs = case[3]
            dl.append(f"{case[0]} {prec} " + " ".join(str(tobits(prec, x)) for x in xs) + " | " + " ".join(map(str, pt)))
            dk.append(k)
    # ---- judge (in parallel chunks)
    verd = {}
    if dl:
        nch = max(1, min(C.NCPU, len(dl) // 5000 + 1))
        chunks = [(dl[i::nch], dk[i::nch]) for i in range(nch)]
        with ThreadPoolExecutor(max_workers=nch) as ex:
            outs = list(ex.map(lambda ch: C.run_driver("nncheck", ch[0], min_timeout=120), chunks))
        for (ls, ks), ms in zip(chunks, outs):
            for k, m in zip(ks, ms):
                verd[k] = m
    ties = collections.Counter()
    for k in keys:
        case, cf, pt, o = recs[k]
        kind = k[0]
        N = case[0]
        prec = case[1] if kind == "I" else case[2]
        xs, cls = case[3], case[4]
        n = len(cf)
        ob = "nn_allowed" if kind == "I" else "nn_array"
        stack = f"identity<{'int' if case[2] == 'i' else 'long'}{N}>" if kind == "I" else f"strided{list(case[1])}/array"
        for c_ in cf:
            corr.configs[c_] += 1
            corr.case((kind, N, prec, case[2] if kind == "I" else list(case[1]), [tobits(prec, x) for x in xs], c_), any(x != math.floor(x) for x in xs))
        corr.dist[f"{'identity' if kind == 'I' else 'array'}/N{N}/coord-f{prec}"] += n
        for cl in cls:
            corr.dist[f"component/{cl}/f{prec}"] += n
        cj = {"kind": kind, "N": N, "prec": prec, "ity": case[2] if kind == "I" else None, "sz": list(case[1]) if kind == "A" else None,
              "coord": [tobits(prec, x) for x in xs], "cfg": cf[0]}
        key = {"kind": kind, "N": N, "prec": prec, "coord": cj["coord"]}
        where = f"nearest_neighbour<{stack}, {'float' if prec == 32 else 'double'}{N}> at {[repr(x) for x in xs]} ({cf[0]})"
        if pt is None:
            corr.add_obl(ob, n, n)
            corr.violation(ob, f"{where}: lookup died or returned something that is not a lattice point of the grid: {o[:100]}", cj, impl=o[:200],
                           oracle_fails=True, key=key, cfg=cf[0])
            continue
        m = verd.get(k, "missing")
        # property oracle on the implementation's own output (exact integer arithmetic, independent of the model)
        bad_comps = [a for a, (x, r) in enumerate(zip(xs, pt)) if not allowed(x, r)]
        if kind == "A":
            bad_comps += [a for a, (r, s) in enumerate(zip(pt, case[1])) if not (0 <= r < s) and a not in bad_comps]
        dis = not m.startswith("ok")
        corr.add_obl(ob, n, n if (dis or bad_comps) else 0)
        if bad_comps:
            a = bad_comps[0]
            corr.violation(ob, f"{where}: chose lattice point {pt}; component {a}: |{xs[a]!r} - {pt[a]}| = {abs(xs[a] - pt[a])!r} > 1/2", cj,
                           impl=pt, model=m[:200], oracle_fails=True, key=key, cfg=cf[0])
        elif dis:
            corr.violation(ob, f"{where}: chose {pt}; judge says `{m[:160]}` but the independent oracle accepts", cj, impl=pt, model=m[:200],
                           oracle_fails=False, key=key, cfg=cf[0])
        else:
            t = m.split()[1] if len(m.split()) > 1 else ""
            for ch in t:
                ties[ch] += n
            ne, no = t.count("e"), t.count("o")
            if ne + no:
                corr.add_obl("nn_ties_even", (ne + no) * n, no * n)
            if len(corr.samples) < 10 and ("e" in t or cls[0] in ("half+1ulp", "half-1ulp", "above-2^24")) and \
                    (not corr.samples or corr.samples[-1]["stack"] != stack or len(corr.samples) > 6):
                corr.sample({"stack": stack, "coord_precision": prec, "x": xs, "classes": cls, "chosen": pt, "verdict": m, "cfg": cf})
    corr.info["nn_ties_even"] = {"exact_ties_resolved_to_even (= model nnRound)": ties["e"], "exact_ties_resolved_to_the_other_allowed_point": ties["o"],
                                 "components_off_a_tie": ties["n"],
                                 "note": "information only: the property allows either neighbour at an exact tie"}
    if ties["o"]:
        corr.notes.append(f"nn_ties_even: {ties['o']} exact ties were not resolved to the even neighbour (allowed by the property; information only)")
    corr.violations.sort(key=lambda v: (not v["oracle_fails"], v["case"]["N"], sum(abs(frombits(v["case"]["prec"], b)) for b in v["case"]["coord"])))
    return corr


def run(ctx):
    ident, arrays = gen(ctx)
    corr = evaluate(ctx, ident, arrays, ["dbg", "rel", "isa"])
    from harness import narrowlib
    narrowlib.part(ctx, corr, "nn", "nn_array")      # narrow index types on axes longer than half their range
    from harness import ldlib
    ldlib.part(ctx, corr, ['nn'], "nn_array")      # long double coordinates
    return corr


def replay(ctx):
    c = ctx.replay["case"]
    if c and c.get("op") == "longdouble":
        from vlib.framework import Corr as _Corr
        from harness import ldlib
        corr = _Corr()
        corr.add_obl("nn_array")
        ldlib.part(ctx, corr, c["ops"], "nn_array", cfgs=(c.get("cfg", "dbg"),))
        return corr
    if c and c.get("op") == "narrow":
        from vlib.framework import Corr as _Corr
        from harness import narrowlib
        corr = _Corr()
        corr.add_obl("nn_array")
        narrowlib.part(ctx, corr, "nn", "nn_array", cfgs=(c.get("cfg", "dbg"),))
        return corr
    prec = c["prec"]
    xs = [frombits(prec, b) for b in c["coord"]]
    cfg = [c.get("cfg") or "dbg"]
    if c["kind"] == "I":
        return evaluate(ctx, [(c["N"], prec, c["ity"], xs, ["replay"] * c["N"])], [], cfg)
    return evaluate(ctx, [], [(c["N"], tuple(c["sz"]), prec, xs, ["replay"] * c["N"])], cfg)
