"""C05 — changing representation (storage order, interpolation layer) preserves the field: correspondence of the
library's converting constructors with the Lean model of the re-layout copy (`Covfie.convertA`, driver `convcheck`) and
the property oracles evaluated on the implementation's own outputs."""
import random, collections
from concurrent.futures import ThreadPoolExecutor
from vlib import common as C
from vlib.framework import Corr
from harness import layoutlib as L

META = {
    "drivers": ["convcheck", "impcheck"],
    "rule": "case = (op, N, storage scalar, M, coordinate scalar, build config, source layout, target layout, extents[, interpolators, "
            "translation]); non-trivial when the box has >= 2 cells and source and target layouts differ",
    "trusted_base": ["_pdep_u64 behaves as the bit-scan `pdep` of the model (hardware; exercised in the bmi2 build, not proved)",
                     "storages are compared as FNV-1a digests of the decoded cell ids (full listings only in replays)",
                     "the harness reads the storage through the public members m_ptr / m_size of array::owning_data_t"],
    "assumptions": ["extents >= 1; curve storage (round_pow2(max extent)^N cells) fits in memory",
                    "source and target have the same coordinate scalar type and the same stored vector type",
                    "lookups through a linear interpolator are made at lattice points that have a successor in every axis",
                    "CUDA: host->device conversion is exercised only on the host against harness/shim/cuda (reduced assurance, thorough tier)"],
}
CPP = C.VERIF / "harness" / "cpp"
SHIM = C.VERIF / "harness" / "shim" / "cuda"
OBLS = ["convert_values", "convert_config", "convert_back", "convert_source_intact"]
STACK_PAIRS = {1: [(0, 2), (2, 0), (0, 1), (1, 2), (0, 0), (2, 2)], 2: [(0, 2), (2, 0), (0, 1), (1, 2), (0, 0), (2, 2), (1, 3), (3, 0), (3, 3)],
               3: [(0, 2), (2, 0), (0, 1), (1, 2), (0, 0), (2, 2)]}
TN = ["f32", "f64"]
CTN = ["u64", "u32", "i32"]


def lays_for(N):
    return L.LAYS if N == 2 else L.LAYS[:3]


def variant_name(v):
    N, T, M, CT, ST = v
    return f"N{N}_{TN[T]}_M{M}_{CTN[CT]}" + ("_stack" if ST else "")


# ------------------------------------------------------------------------------------------------- generation
def gen(ctx):
    rnd = random.Random(ctx.seed * 15485863 + 5)
    cases = []          # (variant, cfg, op-tuple)
    variants = []       # (variant, cfg)
    if ctx.quick:
        flip = ctx.seed % 2
        cts = [0, 1, 2, 0, 1, 2, 0, 1]
        rnd.shuffle(cts)
        ms = [1, 2, 3, 4, 1, 2, 3, 4]
        rnd.shuffle(ms)
        k = 0
        for N in (1, 2, 3, 4):
            for T in (0, 1):
                cfg = ["dbg", "bmi2"][(T + N + flip) % 2]
                variants.append(((N, T, ms[k], cts[k], 0), cfg))
                k += 1
        for N in (1, 2, 3):
            variants.append(((N, (N + flip) % 2, rnd.choice([1, 3]), 0, 1), ["dbg", "bmi2"][(N + flip + 1) % 2]))
        # a second compiler (other order of evaluation of function arguments, other builtins)
        variants.append(((2 + ctx.seed % 2, flip, rnd.choice([1, 3]), 0, 0), "clang"))
    else:
        k = 0
        for N in (1, 2, 3, 4):
            for T in (0, 1):
                for M in (1, 2, 3, 4):
                    for cfg in ("dbg", "bmi2", "rel"):
                        variants.append(((N, T, M, (k + ctx.seed) % 3, 0), cfg))
                        k += 1
        for N in (1, 2, 3):
            for T in (0, 1):
                for cfg in ("dbg", "bmi2", "rel"):
                    variants.append(((N, T, rnd.choice([1, 2, 3, 4]), 0, 1), cfg))
        for N in (1, 2, 3):
            for T in (0, 1):
                variants.append(((N, T, rnd.choice([1, 2, 3]), 0, 0), "clang"))
    # ---- boxes per dimension
    boxes = {}
    if ctx.quick:
        boxes[1] = [(s,) for s in range(1, 65)]
        boxes[2] = L.boxes(2, 64)
        b3 = L.boxes(3, 64)
        small = [b for b in b3 if max(b) <= 16]
        big = [b for b in b3 if max(b) > 16]
        boxes[3] = small + rnd.sample(big, min(24, len(big)))
        boxes[4] = L.boxes(4, 64, maxext=4)
        nrand = 6
        cap_cells = 1 << 12
    else:
        boxes[1] = [(s,) for s in range(1, 257)] + [(s,) for s in rnd.sample(range(257, 4097), 200)]
        b2 = L.boxes(2, 256)
        boxes[2] = b2 + [tuple(L.random_shape(rnd, 2, "strided")) for _ in range(0)]
        b3 = L.boxes(3, 128)
        boxes[3] = [b for b in b3 if max(b) <= 32] + rnd.sample([b for b in b3 if max(b) > 32], 60)
        boxes[4] = L.boxes(4, 81, maxext=5)
        # random boxes with product <= 4096
        for N in (2, 3, 4):
            for _ in range(250):
                sz = [1] * N
                for _ in range(12):
                    a = rnd.randrange(N)
                    f = rnd.choice([2, 2, 3, 5, 7])
                    if L.prod(sz) * f <= 4096 and L.curve_bound("mortonF", [x * (f if i == a else 1) for i, x in enumerate(sz)]) <= (1 << 18):
                        sz[a] *= f
                if N == 3 and rnd.random() < 0.5:
                    sz[rnd.randrange(N)] += rnd.choice([0, 1, -1]) if min(sz) > 1 else 0
                if L.curve_bound("mortonF", sz) <= (1 << 18):
                    boxes[N].append(tuple(sz))
        nrand = 10
        cap_cells = 1 << 18
    # random shapes with many cells (every conversion walks the whole box)
    for N in (1, 2, 3, 4):
        for _ in range(nrand):
            for _try in range(50):
                sz = L.random_shape(rnd, N, "strided")
                if L.prod(sz) <= cap_cells and L.curve_bound("mortonF", sz) <= cap_cells * (1 if ctx.quick else 1):
                    boxes[N].append(tuple(sz))
                    break
    for N in boxes:
        boxes[N] = list(dict.fromkeys(boxes[N]))
    for (v, cfg) in variants:
        N, T, M, CT, ST = v
        ls = lays_for(N)
        if not ST:
            bs = boxes[N]
            if not ctx.quick and len(bs) > 700:
                # every variant gets the small boxes exhaustively and a different sample of the rest
                small = [b for b in bs if L.prod(b) <= 64]
                rest = [b for b in bs if L.prod(b) > 64]
                bs = small + rnd.sample(rest, min(len(rest), 450))
            for sz in bs:
                for a in ls:
                    for b in ls:
                        if a != b:
                            cases.append((v, cfg, ("conv", a, b, list(sz))))
            # identical layouts: the "conversion" is a copy; a few
            for sz in rnd.sample(bs, min(6, len(bs))):
                a = rnd.choice(ls)
                cases.append((v, cfg, ("conv", a, a, list(sz))))
        else:
            cand = [b for b in boxes[N] if L.prod(b) <= 512]
            pick = rnd.sample(cand, min(len(cand), 14 if ctx.quick else 60))
            pick += [b for b in ([(1,) * N, (2,) * N, (1,) + (3,) * (N - 1)]) if b not in pick]
            for sz in pick:
                for (a, b) in STACK_PAIRS[N]:
                    for (i1, i2) in (("nn", "nn"), ("nn", "lin"), ("lin", "nn"), ("lin", "lin")):
                        if a == b and i1 == i2:
                            continue
                        tr = [rnd.randrange(-3, 4) for _ in range(N)]
                        cases.append((v, cfg, ("stack", i1, L.LAYS[a], i2, L.LAYS[b], list(sz), tr)))
    # an OpenMP build (code under `#ifdef _OPENMP` / omp pragmas is compiled in; 4 threads): fields of 2^15 lattice points and more,
    # so that a copy loop that is only parallelised beyond a size threshold runs parallel
    for v, szs in (((2, ctx.seed % 2, 3, 0, 0), [[256, 128], [181, 182]]), ((3, (ctx.seed + 1) % 2, 1, 0, 0), [[32, 32, 32], [33, 31, 33]])):
        variants.append((v, "omp"))
        ls = lays_for(v[0])
        for sz in szs if not ctx.quick else szs[:1]:
            for a in ls:
                for b in ls:
                    if a != b and (not ctx.quick or "strided" in (a, b)):
                        cases.append((v, "omp", ("conv", a, b, list(sz))))
    return variants, cases


# ------------------------------------------------------------------------------------------------- evaluation
SKIPPED = []


def build(ctx, variants):
    jobs, keys = [], []
    for (v, cfg) in dict.fromkeys(variants):
        N, T, M, CT, ST = v
        keys.append((v, cfg))
        jobs.append((CPP / "convert_harness.cpp", ctx.work.path(f"conv_{variant_name(v)}_{cfg}"), cfg,
                     [f"-DCV_N={N}", f"-DCV_T={T}", f"-DCV_M={M}", f"-DCV_CT={CT}", f"-DCV_STACK={ST}"]))
    res = C.compile_many(jobs, timeout=1500)
    exes = {}
    gxx_ok = any(rc == 0 for j, (rc, _) in zip(jobs, res) if j[2] != "clang")
    for k, j, (rc, err) in zip(keys, jobs, res):
        if rc != 0:
            if j[2] == "clang" and gxx_ok:
                # the auxiliary compiler (clang 14 cannot parse all of the library as it is) rejects what g++ accepts: the variant
                # is left out of this run, it is not a statement about the property
                SKIPPED.append((variant_name(k[0]), C.first_diag(err)))
                continue
            raise C.CompileError(f"{j[0]} {' '.join(j[3])}", j[2], err)
        exes[k] = j[1]
    return exes


def impl_line(op, full=False):
    if op[0] == "conv":
        _, a, b, sz = op
        return f"conv {a} {b} {'full' if full else 'h'} {' '.join(map(str, sz))}"
    _, i1, a, i2, b, sz, tr = op
    return f"stack {i1} {a} {i2} {b} {' '.join(map(str, sz))} | {' '.join(map(str, tr))}"


def model_line(op, full=False):
    if op[0] == "conv":
        _, a, b, sz = op
    else:
        _, i1, a, i2, b, sz, tr = op
    return f"{'convfull' if full else 'conv'} {a} {b} | {' '.join(map(str, sz))}"


def parse_impl(o):
    """-> dict of the answer's sections, or None"""
    if not o.startswith("ok "):
        return None
    parts = [p.strip() for p in o[3:].split("|")]
    d = {"storages": [s.strip() for s in parts[0].split(";")]}
    for p in parts[1:]:
        t = p.split()
        d[t[0]] = t[1:]
    return d


def evaluate(ctx, variants, cases, full=False):
    corr = Corr()
    for o in OBLS:
        corr.add_obl(o)
    exes = build(ctx, [(v, cfg) for v, cfg, _ in cases])
    for name, diag in SKIPPED:
        corr.notes.append(f"variant {name} (clang) left out: the auxiliary compiler rejects the translation unit which g++ accepts ({diag[:160]})")
    cases = [c for c in cases if (c[0], c[1]) in exes]
    # ---- model: once per distinct (layouts, extents)
    mkeys = list(dict.fromkeys(model_line(op, full) for _, _, op in cases))
    groups = collections.OrderedDict()
    for c in cases:
        groups.setdefault((c[0], c[1]), []).append(c)
    nm = max(1, min(C.NCPU, len(mkeys) // 300 + 1))
    mchunks = [mkeys[k::nm] for k in range(nm)]
    with ThreadPoolExecutor(max_workers=2 * C.NCPU) as ex:
        mf = [ex.submit(C.run_driver, "convcheck", ch, 0.5, 900) for ch in mchunks]
        # batches of 400 lines: a harness that dies on most inputs (run_lines gives up after 200 deaths per call) then still
        # leaves most batches evaluated
        hf = {g: [ex.submit(C.run_lines, exes[g], [impl_line(op, full) for _, _, op in cs[k:k + 400]], 0.5, 300,
                            None, {"OMP_NUM_THREADS": "4"} if g[1] == "omp" else None)
                  for k in range(0, len(cs), 400)] for g, cs in groups.items()}
        mout = {}
        for ch, f in zip(mchunks, mf):
            mout.update(zip(ch, f.result()))
        hres = {}
        for g, fs in hf.items():
            outs, crashes = [], []
            for f in fs:
                o, c = f.result()
                outs += o
                crashes += c
            hres[g] = (outs, crashes)
    storm = {}
    for (v, cfg), cs in groups.items():
        N, T, M, CT, ST = v
        outs, crashes = hres[(v, cfg)]
        for (_, _, op), o in zip(cs, outs):
            m = mout[model_line(op, full)]
            kind = op[0]
            a, b = (op[1], op[2]) if kind == "conv" else (op[2], op[4])
            sz = op[3] if kind == "conv" else op[5]
            corr.configs[cfg] += 1
            cj = {"op": list(op), "variant": list(v), "cfg": cfg}
            key = {"kind": kind, "from": a, "to": b, "sz": sz, "variant": variant_name(v)}
            if kind == "stack":
                key["interp"] = [op[1], op[3]]
            corr.case((list(op), list(v), cfg), L.prod(sz) >= 2 and (a != b or kind == "stack"))
            corr.dist[f"{kind}/{a}->{b}/N{N}"] += 1
            corr.dist[f"scalar/{TN[T]}/M{M}/{CTN[CT]}"] += 1
            if kind == "stack":
                corr.dist[f"stack/{op[1]}->{op[3]}"] += 1
            cells = L.prod(sz)
            corr.dist["cells/" + ("1" if cells == 1 else "<=64" if cells <= 64 else "<=4096" if cells <= 4096 else ">4096")] += 1
            d = parse_impl(o)
            what0 = f"{kind} {a}->{b} {sz} ({variant_name(v)}, {cfg})"
            if o == "CRASH too-many-crashes":
                # the harness died more than 200 times in this batch; the remaining lines were not executed
                corr.dist["not-executed/too-many-crashes"] += 1
                corr.add_obl("convert_values", 1, 1)
                storm[(v, cfg)] = storm.get((v, cfg), 0) + 1
                continue
            if d is None:
                for ob in OBLS:
                    corr.add_obl(ob, 1, 1)
                corr.violation("convert_values", f"{what0}: the conversion died or was not answered: {o}", cj, impl=o, model=m,
                               oracle_fails=o.startswith("CRASH"), key=key, cfg=cfg)
                continue
            mt = m.split(" ; ") if full else None
            if full:
                mst = [x.strip() for x in mt]
            else:
                t = m.split()
                mst = [f"{t[0]} {t[1]}", f"{t[2]} {t[3]}", f"{t[4]} {t[5]}"] if len(t) == 6 else None
            if mst is None:
                raise RuntimeError(f"convcheck answered `{m}` for `{model_line(op, full)}`")
            szs = " ".join(map(str, sz))
            if kind == "conv":
                st = d["storages"]
                # --- values
                dis = st[0] != mst[0] or st[1] != mst[1]
                orc = int(d["oracle"][0]); mv_flag, mv_bad = int(d["move"][0]), int(d["move"][1])
                bad_cells = "18446744073709551615" in (st[1].split() if full else [])
                fail = orc > 0 or mv_bad > 0
                corr.add_obl("convert_values", 1, 1 if (dis or fail or not mv_flag) else 0)
                if fail:
                    corr.violation("convert_values", f"{what0}: {orc} lattice coordinates hold a different value in the converted field than in the "
                                   f"source ({mv_bad} after the moving conversion)", cj, impl=o, model=m, oracle_fails=True, key=key, cfg=cfg)
                elif dis or not mv_flag or bad_cells:
                    corr.violation("convert_values", f"{what0}: storage after the conversion differs from the model's (source {st[0][:60]} vs {mst[0][:60]}; "
                                   f"target {st[1][:60]} vs {mst[1][:60]}; moving == copying: {mv_flag})", cj, impl=o, model=m, oracle_fails=False, key=key, cfg=cfg)
                # --- configuration
                cfg_ok = " ".join(d["cfg"]) == szs
                corr.add_obl("convert_config", 1, 0 if cfg_ok else 1)
                if not cfg_ok:
                    corr.violation("convert_config", f"{what0}: converted field reports extents {d['cfg']}, the source has {sz}", cj, impl=o, model=szs,
                                   oracle_fails=True, key=key, cfg=cfg)
                # --- back
                bk, bs = int(d["back"][0]), int(d["back"][1])
                disb = st[2] != mst[2] or not bs
                failb = bk > 0 or (a == "strided" and not bs)
                corr.add_obl("convert_back", 1, 1 if (disb or failb) else 0)
                if failb:
                    corr.violation("convert_back", f"{what0}: converting back differs from the original at {bk} lattice coordinates"
                                   f" (whole storage equal: {bs})", cj, impl=o, model=m, oracle_fails=True, key=key, cfg=cfg)
                elif disb:
                    corr.violation("convert_back", f"{what0}: storage after converting back differs from the model's / the source's "
                                   f"({st[2][:60]} vs {mst[2][:60]}, bytewise equal to the source: {bs})", cj, impl=o, model=m, oracle_fails=False, key=key, cfg=cfg)
            else:
                st = d["storages"]
                orc_asked, orc_bad = int(d["lookups"][0]), int(d["lookups"][1])
                mv_flag = int(d["move"][0])
                dis = st[0] != mst[1]
                corr.add_obl("convert_values", 1, 1 if (dis or orc_bad or not mv_flag) else 0)
                corr.dist["stack-lookups"] += orc_asked
                if orc_bad:
                    corr.violation("convert_values", f"{what0} {op[1]}->{op[3]}: {orc_bad} of {orc_asked} lattice lookups through the converted stack differ from "
                                   "the source stack / the stored value", cj, impl=o, model=m, oracle_fails=True, key=key, cfg=cfg)
                elif dis or not mv_flag:
                    corr.violation("convert_values", f"{what0} {op[1]}->{op[3]}: inner storage after the whole-stack conversion {st[0][:60]} differs from the "
                                   f"model's {mst[1][:60]} (moving == copying: {mv_flag})", cj, impl=o, model=m, oracle_fails=False, key=key, cfg=cfg)
                cfg_ok = " ".join(d["cfg"]) == szs and d["matrix"][0] == "1"
                corr.add_obl("convert_config", 1, 0 if cfg_ok else 1)
                if not cfg_ok:
                    corr.violation("convert_config", f"{what0}: converted stack reports extents {d['cfg']} (source {sz}), affine matrix preserved: {d['matrix'][0]}",
                                   cj, impl=o, model=szs + " matrix 1", oracle_fails=True, key=key, cfg=cfg)
            intact = d["intact"][0] == "1"
            corr.add_obl("convert_source_intact", 1, 0 if intact else 1)
            if not intact:
                corr.violation("convert_source_intact", f"{what0}: the source field's storage or configuration changed during a copying conversion", cj,
                               impl=o, model="intact", oracle_fails=True, key=key, cfg=cfg)
            if len(corr.samples) < 10 and cells >= 12 and a != b and (not corr.samples or corr.samples[-1].get("from") != a):
                corr.sample({"op": kind, "from": a, "to": b, "sz": sz, "variant": variant_name(v), "cfg": cfg, "impl": o[:200], "model": m[:120]})
    for (v, cfg), n in storm.items():
        corr.notes.append(f"{variant_name(v)}/{cfg}: the harness died more than 200 times; {n} cases were not executed")
    corr.violations.sort(key=lambda v: (not v["oracle_fails"], L.prod(v["case"]["op"][3] if v["case"]["op"][0] == "conv" else v["case"]["op"][5]),
                                        len(str(v["case"]))))
    return corr


def run(ctx):
    # the tie through translation (DESIGN.md §11.6): the positions the three conversions write to — the index loop inside
    # make_strided_copy, and calculate_index of the Morton / Hilbert layers — as written are the terms the theorems
    # `Covfie.Imp.*_translated` are about; if one of them changed, this run takes the thorough tier's boxes
    from harness import translib as T
    tie = T.Tie(ctx, ["strided_copy_index", "morton_index", "morton_index_bmi2_off", "hilbert_index"])
    if tie.changed() and ctx.quick:
        class Deep:
            quick, seed, tier, work, replay, prop = False, ctx.seed, ctx.tier, ctx.work, ctx.replay, ctx.prop
        variants, cases = gen(Deep)
    else:
        variants, cases = gen(ctx)
    corr = evaluate(ctx, variants, cases)
    tie.merge(corr)
    if tie.changed() and ctx.quick:
        corr.info["deepened"] = True
    corr.info["harness_variants"] = [variant_name(v) + "/" + cfg for v, cfg in variants]
    if ctx.quick:
        corr.notes.append("CUDA host shim sub-check runs in the thorough tier only")
    else:
        cuda_subcheck(ctx, corr)
    return corr


def replay(ctx):
    c = ctx.replay["case"]
    if c.get("op") and c["op"][0] in ("conv", "stack"):
        op = c["op"]
        op = tuple(op[:3]) + (op[3],) if op[0] == "conv" else tuple(op)
        v = tuple(c["variant"])
        return evaluate(ctx, [(v, c["cfg"])], [(v, c["cfg"], tuple(op))], full=(op[0] == "conv"))
    return run(ctx)


# ------------------------------------------------------------------------------------------------- CUDA (host shim)
def cuda_subcheck(ctx, corr):
    """reduced assurance: cuda_device_array compiled on the host against harness/shim/cuda (cudaMalloc/cudaMemcpy/cudaFree
    as malloc/memcpy/free). Says nothing about real devices; failures here are notes, not violations of C05."""
    src = CPP / "cuda_shim_harness.cpp"
    if not src.exists() or not (SHIM / "cuda_runtime.h").exists():
        corr.notes.append("CUDA: not covered (no host shim in harness/shim/cuda)")
        return
    exe = ctx.work.path("cuda_shim")
    flags = [f"-I{C.REPO / 'lib' / 'cuda'}", f"-I{SHIM}"]
    (rc, err), = C.compile_many([(src, exe, "dbg", flags)], timeout=600)
    if rc != 0:
        corr.notes.append("CUDA: not covered — cuda_device_array does not compile against the host shim: " + C.first_diag(err))
        return
    rnd = random.Random(ctx.seed + 77)
    lines = []
    for N in (1, 2, 3):
        for _ in range(12):
            sz = [rnd.randrange(1, 9) for _ in range(N)]
            for lay in lays_for(N):
                lines.append(f"h2d {lay} {N} {' '.join(map(str, sz))}")
    outs, crashes = C.run_lines(exe, lines, timeout_per_line=0.5)
    bad = [(l, o) for l, o in zip(lines, outs) if o != "ok 0"]
    corr.info["cuda_shim"] = {"cases": len(lines), "not_ok": len(bad), "first": bad[:3]}
    corr.notes.append(f"CUDA (host shim, reduced assurance): {len(lines)} host->'device' conversions, {len(bad)} with differing values"
                      + (f"; first: {bad[0]}" if bad else ""))
