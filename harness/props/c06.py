"""C06 — dumping a field and loading it back reproduces it exactly (correspondence io_bytes / io_reload / io_redump
+ the round-trip oracle evaluated on the implementation's own outputs)."""
import json, random
from vlib import common as C
from vlib.framework import Corr
from harness import iolib as IO

META = {
    "drivers": ["iocheck", "impcheck"],
    "rule": "case = (stack descriptor, content digest, build config); non-trivial when some layer has a non-default "
            "(non-zero) configuration or the array is non-empty",
    "trusted_base": ["harness token reader/printer (IOX<>::make/show in harness/cpp/io_lib.hpp): builds owning data through the public "
                     "(configuration, backend&&) constructors and reads it back through get_configuration()/get_backend()/array members",
                     "little-endian x86-64 object representation of covfie::array::array<T,N> and algebra::matrix (no padding)"],
    "assumptions": ["stored scalars are float or double (the only types array::write_binary supports)",
                    "counts and extents small enough to allocate (the format allows any u64)"],
}
OBL = ("io_bytes", "io_reload", "io_redump", "io_lookups")


def gen(ctx):
    rnd = random.Random(ctx.seed * 104729 + 6)
    stacks = list(IO.QUICK_STACKS)
    seen = {json.dumps(s) for s in stacks}
    extra = 9 if ctx.quick else 300
    guard = 0
    while extra and guard < 5000:
        guard += 1
        s = IO.random_stack(rnd)
        k = json.dumps(s)
        if k in seen:
            continue
        seen.add(k); stacks.append(s); extra -= 1
    cases = []
    profiles = ["mixed", "special", "small", "edge"] if ctx.quick else ["mixed", "special", "small", "edge", "random", "mixed"]
    for si, s in enumerate(stacks):
        inf = IO.analyse(s)
        for pi, p in enumerate(profiles):
            mc = 24
            if not ctx.quick and pi == 5:
                mc = rnd.choice([200, 2000, 20000, 100000]) if si % 7 == 0 else 200
            cases.append((si, IO.fmt_dat(IO.gen_dat(inf, rnd, p, maxcells=mc))))
        if si % 5 == 0:      # a large array now and then: a block-wise reader/writer must not depend on 256/512-scalar boundaries
            cases.append((si, IO.fmt_dat(IO.gen_dat(inf, rnd, "special", maxcells=rnd.choice([1200, 2600]), ext_pool=[5, 6, 7, 9, 11, 13]))))
    # thousands of cells of an odd width (3 components): staging blocks of a block-wise writer / reader do not fill on cell boundaries
    big3 = [si for si, s in enumerate(stacks) if IO.analyse(s).gen[-1][0] == "A" and IO.analyse(s).gen[-1][2] == 3]
    for si in big3[:3] if ctx.quick else big3:
        inf = IO.analyse(stacks[si])
        bare = not any(g[0] == "S" for g in inf.gen)
        cases.append((si, IO.fmt_dat(IO.gen_dat(inf, rnd, "mixed", maxcells=24000, ext_pool=[5600, 6001] if bare else [18, 19, 75]))))
    for si, s in enumerate(stacks):
        inf = IO.analyse(s)
        if s == [["array", "f32", 3]]:          # a payload of more than a megabyte, odd cell width
            cases.append((si, IO.fmt_dat(IO.gen_dat(inf, rnd, "mixed", maxcells=400000, ext_pool=[90001]))))
        # payloads of exactly 2^20 / 2^22 bytes: a block-wise writer or reader must get the last (full) block right
        if s == [["array", "f64", 1]]:
            cases.append((si, IO.fmt_dat(IO.gen_dat(inf, rnd, "mixed", maxcells=200000, ext_pool=[131072]))))
        if s == [["array", "f32", 1]]:
            cases.append((si, IO.fmt_dat(IO.gen_dat(inf, rnd, "mixed", maxcells=1100000, ext_pool=[1048576]))))
        if s == [["array", "f32", 4]] and not ctx.quick:
            cases.append((si, IO.fmt_dat(IO.gen_dat(inf, rnd, "mixed", maxcells=600000, ext_pool=[524288]))))
        if s == [["strided", "u16", 2], ["array", "f32", 1]]:      # exactly 2^16 cells under 16-bit coordinates
            cases.append((si, IO.fmt_dat(IO.gen_dat(inf, rnd, "mixed", maxcells=70000, ext_pool=[256]))))
    return stacks, cases


def evaluate(ctx, stacks, cases, cfgs):
    corr = Corr()
    for o in OBL:
        corr.add_obl(o)
    impl = IO.Impl(ctx, stacks, cfgs, chunk=4 if len(stacks) < 80 else 6)
    infos = impl.infos
    mdump = IO.run_model([f"dump {infos[si].tytok} | {dat}" for si, dat in cases])
    for si in {si for si, _ in cases}:
        for l in infos[si].layers:
            corr.dist["layer/" + l] += 0
    for cfg in cfgs:
        d1 = impl.run(cfg, [(si, "dump {s} " + dat) for si, dat in cases])
        okidx = [k for k, o in enumerate(d1) if o and not o.startswith(("CRASH", "bad-", "harness-", "un"))]
        rl = impl.run(cfg, [(cases[k][0], "reload {s} " + (d1[k] or "-")) for k in okidx])
        rd = impl.run(cfg, [(cases[k][0], "redump {s} " + (d1[k] or "-")) for k in okidx])
        mrl = IO.run_model([f"reload {infos[cases[k][0]].tytok} | {d1[k] or '-'}" for k in okidx])
        rl_of = dict(zip(okidx, zip(rl, mrl)))
        rd_of = dict(zip(okidx, rd))
        for k, (si, dat) in enumerate(cases):
            inf = infos[si]
            d = IO.parse_dat(dat)
            corr.configs[cfg] += 1
            corr.case((inf.stack, dat, cfg), IO.nontrivial_dat(d))
            for l in inf.layers:
                corr.dist["layer/" + l] += 1
            corr.dist[f"depth/{inf.depth}"] += 1
            corr.dist["store/" + str(inf.store)] += 1
            cj = {"stack": inf.stack, "dat": dat, "cfg": cfg}
            key = {"kind": "roundtrip", "stack": inf.label, "dat": C.chash(dat)}
            size = len(dat)
            if k not in rl_of:
                for o in OBL:
                    corr.add_obl(o, 1, 1)
                corr.violation("io_bytes", f"dump of {inf.label} did not produce bytes: {d1[k]}", cj, impl=d1[k], model=mdump[k][:200],
                               oracle_fails=True, key=key, cfg=cfg)
                corr.violations[-1]["_size"] = size
                continue
            # (1) bytes: implementation vs model (pins the format; the property itself does not speak about the byte values)
            dis = d1[k] != mdump[k]
            corr.add_obl("io_bytes", 1, 1 if dis else 0)
            if dis:
                at = next((j for j in range(0, min(len(d1[k]), len(mdump[k])), 2) if d1[k][j:j + 2] != mdump[k][j:j + 2]), min(len(d1[k]), len(mdump[k]))) // 2
                corr.violation("io_bytes", f"{inf.label}: dump differs from the model's bytes at offset {at} (lengths {len(d1[k]) // 2} / {len(mdump[k]) // 2})",
                               cj, impl=d1[k][:600], model=mdump[k][:600], oracle_fails=False, key=key, cfg=cfg)
                corr.violations[-1]["_size"] = size
            # (2) reload: every layer's configuration and every stored word
            o, m = rl_of[k]
            want = "ok 0 | " + dat
            dis = o != m
            corr.add_obl("io_reload", 1, 1 if dis else 0)
            if o != want:
                corr.violation("io_reload", f"{inf.label}: loading its own dump gives `{o[:160]}`, written was `{want[:160]}`", cj, impl=o[:2000],
                               model=m[:2000], oracle_fails=True, key=key, cfg=cfg)
                corr.violations[-1]["_size"] = size
            elif dis:
                corr.violation("io_reload", f"{inf.label}: reload agrees with what was written but the model's reader says `{m[:160]}`", cj,
                               impl=o[:2000], model=m[:2000], oracle_fails=False, key=key, cfg=cfg)
                corr.violations[-1]["_size"] = size
            # (3) second dump byte-identical
            o2 = rd_of[k]
            want2 = "ok 0 | " + d1[k]
            dis = o2 != "ok 0 | " + mdump[k]
            corr.add_obl("io_redump", 1, 1 if dis else 0)
            if o2 != want2:
                corr.violation("io_redump", f"{inf.label}: dump of the reloaded field differs from the first dump: `{o2[:120]}`", cj, impl=o2[:1200],
                               model=mdump[k][:1200], oracle_fails=True, key=key, cfg=cfg)
                corr.violations[-1]["_size"] = size
            elif dis:
                corr.violation("io_redump", f"{inf.label}: second dump equals the first but not the model's bytes", cj, impl=o2[:1200],
                               model=mdump[k][:1200], oracle_fails=False, key=key, cfg=cfg)
                corr.violations[-1]["_size"] = size
            if len(corr.samples) < 10 and inf.depth >= 2 and (not corr.samples or corr.samples[-1]["stack"] != inf.label) and len(dat) < 400:
                corr.sample({"stack": inf.label, "ty": inf.tytok, "dat": dat, "bytes": d1[k][:160] + ("…" if len(d1[k]) > 160 else ""),
                             "file_size": len(d1[k]) // 2, "cfg": cfg})
        # (4) the reloaded field holds bit-identical values AT EVERY COORDINATE (not only the same stored words): lookups of the
        # original and of the field loaded from its dump, compared in-process at every lattice coordinate. Eligible stacks:
        # a storage order over an array with only value-side / interpolating layers above it (coordinates keep their meaning)
        elig = []
        for k in okidx:
            si, dat = cases[k]
            st = infos[si].stack
            names = [l[0] for l in st]
            if names[-1] != "array" or not any(n in ("strided", "morton", "hilbert") for n in names):
                continue
            pos = next(i for i, n in enumerate(names) if n in ("strided", "morton", "hilbert"))
            if any(n not in ("nn", "linear", "deref", "cast") for n in names[:pos]) or any(n not in ("deref", "cast") for n in names[pos + 1:-1]):
                continue
            d = IO.parse_dat(dat)
            node = d
            while node[0] != "S":
                node = node[-1]
            sizes = node[1]
            if not sizes or min(sizes) < 1 or IO.prod(sizes) > 4096:
                continue
            if "linear" in names and min(sizes) < 2:
                continue            # the interpolator reads the +1 neighbour on every axis
            need = IO.prod(sizes) if names[pos] == "strided" else IO.pow2ceil(max(sizes)) ** len(sizes)
            arr = IO.array_of(d)
            if arr is None or arr[2] < need:
                continue            # (the `edge` profile also writes arrays shorter than the extents: fine for IO, not for lookups)
            elig.append((k, sizes))
        lk = impl.run(cfg, [(cases[k][0], f"lookups {{s}} {len(sz)} {' '.join(map(str, sz))} | " + cases[k][1]) for k, sz in elig])
        for (k, sz), o in zip(elig, lk):
            si, dat = cases[k]
            inf = infos[si]
            t = o.split()
            corr.configs[cfg] += 1
            corr.dist["lookups/" + inf.label.split("/")[0]] += 1
            ok = len(t) == 3 and t[0] == "ok" and t[2] == "0"
            corr.add_obl("io_lookups", 1, 0 if ok else 1)
            if not ok and not o.startswith("unsupported"):
                corr.violation("io_lookups", f"{inf.label} extents {sz}: the field loaded from its own dump differs from the original at {t[2] if len(t) == 3 else '?'} of "
                               f"{t[1] if len(t) == 3 else '?'} lattice coordinates ({o[:100]})", {"stack": inf.stack, "dat": dat, "cfg": cfg}, impl=o[:300],
                               model="ok n 0", oracle_fails=True, key={"kind": "lookups", "stack": inf.label, "dat": C.chash(dat)}, cfg=cfg)
                corr.violations[-1]["_size"] = len(dat)
    corr.info["stacks"] = len(stacks)
    corr.info["layers_covered"] = sorted({l for inf in infos for l in inf.layers})
    missing = [l for l in IO.ALL_LAYERS if l not in corr.info["layers_covered"]]
    if missing and not ctx.replay:
        corr.notes.append("layers not covered: " + ",".join(missing))
        corr.add_obl("io_bytes", 0, 1, note="not all 14 layers appeared")
    corr.violations.sort(key=lambda v: (not v["oracle_fails"], v.pop("_size", 0)))
    return corr


def run(ctx):
    # the tie through translation (DESIGN.md §11.6): every layer's write_binary / read_binary as written is the script the theorems
    # `Covfie.IO.dump_* / load_*` interpret; a layer whose members changed brings in the thorough tier's stacks
    from harness import translib as T
    tie = T.Tie(ctx, list(T.IOL))
    if tie.changed() and ctx.quick:
        class Deep:
            quick, seed, tier, work, replay, prop = False, ctx.seed, ctx.tier, ctx.work, ctx.replay, ctx.prop
        stacks, cases = gen(Deep)
        deepened = True
    else:
        stacks, cases = gen(ctx)
    corr = evaluate(ctx, stacks, cases, ["dbg", "rel"])
    tie.merge(corr)
    if locals().get("deepened"):
        corr.info["deepened"] = True
    return corr


def replay(ctx):
    c = ctx.replay["case"]
    return evaluate(ctx, [c["stack"]], [(0, c["dat"])], [c.get("cfg", "dbg")])
