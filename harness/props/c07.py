"""C07 — files are portable across interpolation method, storage precision and revisions; the byte stream follows the
nested bracket grammar (io_cross_interp / io_cross_width / narrow_hw / golden / io_grammar)."""
import hashlib, json, random
from vlib import common as C
from vlib.framework import Corr
from harness import iolib as IO

META = {
    "drivers": ["iocheck", "impcheck"],
    "rule": "cross case = ((stack1, stack2), content digest, config); non-trivial when narrowing is inexact for some stored value or the "
            "footprint-free layers (interpolators, cast, dereference, permutation) of the two stacks differ. narrow_hw / golden / io_grammar "
            "cases are counted as evaluations; narrow_hw values count as non-trivial when the conversion is inexact",
    "trusted_base": ["x86-64 cvtsd2ss / cvtss2sd implement IEEE-754 round-to-nearest-even conversion (checked against the model's narrowBits / "
                     "widenBits on boundary-heavy values by `narrow_hw`, and against an exact rational oracle)",
                     "golden/ files were produced once by tools/make_golden.py from the pinned (repaired) revision; sha256 in golden/INDEX.json",
                     "harness token reader/printer (io_lib.hpp)"],
    "assumptions": ["narrowing oracle applies to finite values within the float range (the property's domain); non-finite and out-of-range "
                    "values are still compared with the model (NaN payload handling is hardware behaviour)"],
}
OBL = ("io_cross_interp", "io_cross_width", "narrow_hw", "golden", "io_grammar")
GOLD = C.VERIF / "golden"


def load_golden():
    idx = json.loads((GOLD / "INDEX.json").read_text())
    return idx["files"]


def gen(ctx):
    rnd = random.Random(ctx.seed * 15485863 + 7)
    stacks = list(IO.QUICK_STACKS)
    seen = {json.dumps(s) for s in stacks}
    gold = load_golden()
    for g in gold:
        k = json.dumps(g["stack"])
        if k not in seen:
            seen.add(k); stacks.append(g["stack"])
    if not ctx.quick:
        # variants of random stacks: other interpolator, other storage width, an extra footprint-free layer
        guard = 0
        base = []
        while len(base) < 40 and guard < 4000:
            guard += 1
            s = IO.random_stack(rnd)
            if s[-1][0] == "array" and json.dumps(s) not in seen:
                base.append(s); seen.add(json.dumps(s))
        for s in base:
            stacks.append(s)
            vs = []
            t = json.loads(json.dumps(s)); t[-1][1] = "f64" if t[-1][1] == "f32" else "f32"; vs.append(t)
            t = json.loads(json.dumps(s))
            for l in t:
                if l[0] in ("nn", "linear"):
                    l[0] = "linear" if l[0] == "nn" else "nn"
            vs.append(t)
            vs.append([["deref"]] + json.loads(json.dumps(s)))
            for v in vs:
                try:
                    IO.analyse(v)
                except ValueError:
                    continue
                if json.dumps(v) not in seen:
                    seen.add(json.dumps(v)); stacks.append(v)
    infos = [IO.analyse(s) for s in stacks]
    pairs = [(a, b) for a in range(len(stacks)) for b in range(len(stacks)) if a != b and infos[a].strip == infos[b].strip]
    nsets = 3 if ctx.quick else 5
    data = {}
    for a in sorted({a for a, _ in pairs}):
        sets = []
        for k in range(nsets):
            prof = ["narrowing", "special", "mixed", "narrowing", "random"][k]
            sets.append(IO.fmt_dat(IO.gen_dat(infos[a], rnd, prof, maxcells=32 if ctx.quick else 96)))
        data[a] = sets
    # a few large arrays (block-wise readers: thresholds like 256 or 512 scalars must not matter), every component count
    big_done = set()
    for a in sorted(data):
        inf = infos[a]
        kind = (getattr(inf, "M", None) or json.dumps(stacks[a][-1]), stacks[a][-1][1] if len(stacks[a][-1]) > 1 else "")
        if stacks[a][-1][0] != "array" or kind in big_done or len(big_done) >= (8 if ctx.quick else 24):
            continue
        big_done.add(kind)
        data[a].append(IO.fmt_dat(IO.gen_dat(inf, rnd, "narrowing", maxcells=rnd.choice([1200, 1800, 2600]), ext_pool=[5, 6, 7, 9, 11, 13])))
    # a payload beyond a megabyte of an odd cell width, loaded at the other precision (staging blocks do not end on cell boundaries)
    for a in sorted(data):
        if stacks[a] == [["array", "f64", 3]] or (not ctx.quick and stacks[a] == [["array", "f32", 3]]):
            data[a].append(IO.fmt_dat(IO.gen_dat(infos[a], rnd, "narrowing", maxcells=400000, ext_pool=[90001])))
    nvals = 100000 if ctx.quick else 4000000
    vals = [IO.narrow_value(rnd) for _ in range(nvals)]
    wvals = [rnd.choice([rnd.getrandbits(32), rnd.choice(IO.F32_SPECIAL), rnd.getrandbits(23) | (rnd.getrandbits(1) << 31),
                         (rnd.getrandbits(8) << 23) | rnd.choice([0, 1, 0x7fffff])]) for _ in range(nvals // 5)]
    return stacks, pairs, data, vals, wvals, gold


def cells_oracle(src, res):
    """stored values of the source file vs what the other field type holds: exact when widening / same width, nearest when
    narrowing. returns (refutation or None, inexact narrowing seen, values outside the oracle's domain)"""
    if (src is None) != (res is None):
        return "array content appeared/disappeared", False, 0
    if src is None:
        return None, False, 0
    if src[2] != res[2] or len(src[3]) != len(res[3]):
        return f"cell count {src[2]} became {res[2]}", False, 0
    inexact = False; skipped = 0
    for x, y in zip(src[3], res[3]):
        if src[1] == res[1]:
            bad = None if x == y else "stored word changed although the widths agree"
        elif src[1] == 4:
            bad = IO.widen_oracle(x, y)
        else:
            bad = IO.narrow_oracle(x, y)
            if bad is None and IO.f32_frac(y) != IO.f64_frac(x):
                inexact = True
        if bad == "skip":
            skipped += 1
        elif bad:
            return f"value {x:#x} -> {y:#x}: {bad}", inexact, skipped
    return None, inexact, skipped


def evaluate(ctx, stacks, pairs, data, vals, wvals, gold, cfgs):
    corr = Corr()
    for o in OBL:
        corr.add_obl(o)
    impl = IO.Impl(ctx, stacks, cfgs, chunk=4 if len(stacks) < 80 else 6, tag="io7")
    infos = impl.infos
    index_of = {json.dumps(s): i for i, s in enumerate(stacks)}
    dumps = [(a, k) for a in sorted(data) for k in range(len(data[a]))]
    mdump = dict(zip(dumps, IO.run_model([f"dump {infos[a].tytok} | {data[a][k]}" for a, k in dumps])))
    mlines = []
    for cfg in cfgs:
        out = impl.run(cfg, [(a, "dump {s} " + data[a][k]) for a, k in dumps])
        hexof = dict(zip(dumps, out))
        # ---- grammar: the bytes parse under the published bracket grammar with an independent reader, closed-form length
        for (a, k) in dumps:
            inf = infos[a]; h = hexof[(a, k)]; d = IO.parse_dat(data[a][k])
            corr.configs[cfg] += 1
            corr.case(("grammar", inf.stack, data[a][k], cfg), False)
            cj = {"op": "grammar", "stack": inf.stack, "dat": data[a][k], "cfg": cfg}
            key = {"kind": "grammar", "stack": inf.label, "dat": C.chash(data[a][k])}
            bad = None
            try:
                bs = bytes.fromhex(h)
                dd, used, chk = IO.py_load(inf.ty, bs)
                tg = [c["value"] for c in chk if c["role"] == "htag"]
                ft = [c["value"] for c in chk if c["role"] == "ftag"]
                if used != len(bs):
                    bad = f"{len(bs) - used} bytes after the global footer"
                elif dd != d:
                    bad = "independent reader recovers different content"
                elif len(bs) != IO.file_len(inf.ty, d):
                    bad = f"file size {len(bs)} differs from the closed form {IO.file_len(inf.ty, d)}"
                elif tg != [IO.TAG['field']] + IO.tags_of(inf.ty) or ft != [(t + IO.FOOT) & 0xFFFFFFFF for t in reversed(tg)]:
                    bad = "tag sequence is not the stack's"
            except (ValueError, IO.FormatError) as e:
                bad = f"does not parse: {e} ({h[:60]})"
            dis = h != mdump[(a, k)]
            corr.add_obl("io_grammar", 1, 1 if dis else 0)
            if bad:
                corr.violation("io_grammar", f"{inf.label}: dump violates the format grammar: {bad}", cj, impl=h[:800], model=mdump[(a, k)][:800],
                               oracle_fails=True, key=key, cfg=cfg)
            elif dis:
                corr.violation("io_grammar", f"{inf.label}: dump follows the grammar but differs from the model's bytes", cj, impl=h[:800],
                               model=mdump[(a, k)][:800], oracle_fails=False, key=key, cfg=cfg)
        # ---- cross loads
        xs = [(a, b, k) for (a, b) in pairs for k in range(len(data[a])) if not hexof[(a, k)].startswith(("CRASH", "bad", "harness"))]
        xo = impl.run(cfg, [(b, "reload {s} " + hexof[(a, k)]) for a, b, k in xs])
        xm = IO.run_model([f"crossload {IO.SC[infos[b].store][1] if infos[b].store else 0} {infos[b].tytok} | {hexof[(a, k)]}" for a, b, k in xs])
        for (a, b, k), o, m in zip(xs, xo, xm):
            A, B = infos[a], infos[b]
            d = IO.parse_dat(data[a][k])
            width = A.store != B.store
            interp = A.tytok != B.tytok or not width
            obs = (["io_cross_width"] if width else []) + (["io_cross_interp"] if interp else [])
            corr.configs[cfg] += 1
            cj = {"op": "cross", "from": A.stack, "to": B.stack, "dat": data[a][k], "cfg": cfg}
            key = {"kind": "cross", "from": A.label, "to": B.label, "dat": C.chash(data[a][k])}
            fail = None; inexact = False; skipped = 0
            if not o.startswith("ok "):
                fail = f"file written from {A.label} does not load into {B.label}: {o[:120]}"
            else:
                try:
                    head, toks = o.split(" | ", 1)
                    r = IO.parse_dat(toks)
                    if head != "ok 0":
                        fail = f"{head.split()[1]} bytes left unread"
                    elif IO.config_of(r) != IO.config_of(d):
                        fail = "a layer configuration or the cell count changed"
                    else:
                        fail, inexact, skipped = cells_oracle(IO.array_of(d), IO.array_of(r))
                        ra = IO.array_of(r)
                        if not fail and ra is not None and ra[1] != IO.SC[B.store][1]:
                            fail = "loaded field does not hold its own scalar width"
                except (ValueError, IndexError):
                    fail = f"harness answer does not parse: {o[:120]}"
            dis = o != m
            corr.case(("cross", A.stack, B.stack, data[a][k], cfg), inexact or A.tytok != B.tytok)
            corr.dist["cross/" + ("width+interp" if width and A.tytok != B.tytok else "width" if width else "interp")] += 1
            if width:
                corr.dist["cross/" + ("narrowing" if A.store == "f64" else "widening")] += 1
                corr.dist["cross/values-outside-oracle-domain"] += skipped
                if inexact:
                    corr.dist["cross/inexact-narrowing-cases"] += 1
            for ob in obs:
                corr.add_obl(ob, 1, 1 if dis else 0)
            if fail:
                corr.violation(obs[0], f"{A.label} -> {B.label}: {fail}", cj, impl=o[:1500], model=m[:1500], oracle_fails=True, key=key, cfg=cfg)
            elif dis:
                corr.violation(obs[0], f"{A.label} -> {B.label}: loaded content differs from the model (`{o[:100]}` / `{m[:100]}`)", cj, impl=o[:1500],
                               model=m[:1500], oracle_fails=False, key=key, cfg=cfg)
            if len(corr.samples) < 6 and width and inexact and A.tytok != B.tytok:
                corr.sample({"from": A.label, "to": B.label, "dat": data[a][k][:300], "loaded": o[:300], "cfg": cfg})
        # ---- a field loaded from another stack's file dumps in ITS OWN format: the re-dump is the model's dump of the
        #      (converted) content under the loading type -- own scalar width, own tags, closed-form length -- whatever the
        #      width of the file it came from
        rs = [(a, b, k, m) for (a, b, k), o, m in zip(xs, xo, xm) if o == m and m.startswith("ok 0 | ")]
        ro = impl.run(cfg, [(b, "redump {s} " + hexof[(a, k)]) for a, b, k, _ in rs])
        rm = IO.run_model([f"dump {infos[b].tytok} | {m[len('ok 0 | '):]}" for a, b, k, m in rs])
        for (a, b, k, _), o, m in zip(rs, ro, rm):
            A, B = infos[a], infos[b]
            ob = "io_cross_width" if A.store != B.store else "io_cross_interp"
            cj = {"op": "crossredump", "from": A.stack, "to": B.stack, "dat": data[a][k], "cfg": cfg}
            key = {"kind": "crossredump", "from": A.label, "to": B.label, "dat": C.chash(data[a][k])}
            corr.configs[cfg] += 1
            corr.case(("crossredump", A.stack, B.stack, data[a][k], cfg), A.store != B.store)
            corr.dist["cross/redump"] += 1
            got = o[len("ok 0 | "):] if o.startswith("ok 0 | ") else None
            dis = got != m
            corr.add_obl(ob, 1, 1 if dis else 0)
            if not dis:
                continue
            fail = None
            if got is None:
                fail = f"re-dump of the loaded field failed: {o[:120]}"
            else:
                try:
                    bs = bytes.fromhex(got)
                    dd, used, chk = IO.py_load(B.ty, bs)
                    if used != len(bs) or len(bs) != IO.file_len(B.ty, dd):
                        fail = f"re-dump has {len(bs)} bytes, the closed form for {B.label} with this content is {IO.file_len(B.ty, dd)}"
                    else:
                        ra = IO.array_of(dd)
                        if ra is not None and B.store and ra[1] != IO.SC[B.store][1]:
                            fail = f"re-dump stores {ra[1]}-byte scalars, {B.label} stores {IO.SC[B.store][1]}-byte scalars"
                except (ValueError, IO.FormatError) as e:
                    fail = f"re-dump does not parse as a {B.label} file: {e}"
            corr.violation(ob, f"{A.label} -> {B.label}: " + (fail or "re-dump of the loaded field differs from the model's dump of the same content"),
                           cj, impl=o[:1500], model=m[:1500], oracle_fails=bool(fail), key=key, cfg=cfg)
        # ---- hardware conversion vs the model's narrowBits / widenBits, and vs the exact rational oracle
        for opn, vv in (("narrow", vals), ("widen", wvals)):
            B = 500
            lines = [opn + " " + " ".join(map(str, vv[i:i + B])) for i in range(0, len(vv), B)]
            ho = impl.run(cfg, [(None, l) for l in lines])
            mo = IO.run_model(lines)
            ncheck = len(vv) if ctx.quick else 200000
            for li, (l, o, m) in enumerate(zip(lines, ho, mo)):
                src = vv[li * B:(li + 1) * B]
                corr.configs[cfg] += len(src)
                corr.evaluations += len(src)
                dis = 0
                if o == m and li * B >= ncheck:
                    corr.add_obl("narrow_hw", len(src), 0)
                    continue
                try:
                    ro = [int(x) for x in o.split()]
                    rm = [int(x) for x in m.split()]
                except ValueError:
                    ro, rm = [], []
                if len(ro) != len(src) or len(rm) != len(src):
                    corr.add_obl("narrow_hw", len(src), len(src))
                    corr.violation("narrow_hw", f"{opn} batch: harness/driver answered `{o[:80]}` / `{m[:80]}`", {"op": opn, "values": src[:50], "cfg": cfg},
                                   impl=o[:300], model=m[:300], oracle_fails=o.startswith("CRASH"), key={"kind": opn + "-batch"}, cfg=cfg)
                    continue
                for x, y, z in zip(src, ro, rm):
                    bad = IO.narrow_oracle(x, y) if opn == "narrow" else IO.widen_oracle(x, y)
                    if bad == "skip":
                        corr.dist[f"{opn}/outside-domain"] += 1
                        bad = None
                    else:
                        corr.dist[f"{opn}/in-domain"] += 1
                        if opn == "narrow" and IO.f32_frac(y) != IO.f64_frac(x):
                            corr.nontrivial.add(C.chash((opn, x)))
                    if y != z:
                        dis += 1
                    if bad or y != z:
                        corr.violation("narrow_hw", f"{opn} {x:#x}: hardware {y:#x}, model {z:#x}" + (f" — {bad}" if bad else ""),
                                       {"op": opn, "values": [x], "cfg": cfg}, impl=y, model=z, oracle_fails=bool(bad), key={"kind": opn, "value": x}, cfg=cfg)
                corr.add_obl("narrow_hw", len(src), dis)
            if vv and len(corr.samples) < 9:
                corr.sample({"op": opn, "values": [hex(v) for v in vv[:6]], "hardware": ho[0].split()[:6], "model": mo[0].split()[:6], "cfg": cfg})
        # ---- golden files written by the pinned revision
        gl = []
        for g in gold:
            si = index_of[json.dumps(g["stack"])]
            bs = (GOLD / g["file"]).read_bytes()
            gl.append((g, si, bs))
        go = impl.run(cfg, [(si, "redump {s} " + IO.hx(bs)) for g, si, bs in gl])
        gr = impl.run(cfg, [(si, "reload {s} " + IO.hx(bs)) for g, si, bs in gl])
        gw = impl.run(cfg, [(si, "dump {s} " + g["dat"]) for g, si, bs in gl])
        gm = IO.run_model([f"dump {g['ty']} | {g['dat']}" for g, si, bs in gl])
        for (g, si, bs), o, r, w, m in zip(gl, go, gr, gw, gm):
            inf = infos[si]
            corr.configs[cfg] += 1
            corr.case(("golden", g["name"], cfg), True)
            corr.dist["golden/" + g["name"]] += 1
            cj = {"op": "golden", "name": g["name"], "cfg": cfg}
            key = {"kind": "golden", "name": g["name"]}
            h = bs.hex()
            fail = None
            if hashlib.sha256(bs).hexdigest() != g["sha256"] or inf.tytok != g["ty"]:
                corr.add_obl("golden", 1, 1)
                corr.violation("golden", f"golden file {g['file']} does not match golden/INDEX.json (sha256 / descriptor)", cj, oracle_fails=False, key=key, cfg=cfg)
                continue
            if not o.startswith("ok "):
                fail = f"file written by the pinned revision no longer loads: {o[:100]}"
            elif o != "ok 0 | " + h:
                fail = "file written by the pinned revision re-dumps to different bytes"
            elif r != "ok 0 | " + g["dat"]:
                fail = f"file written by the pinned revision loads with different content: `{r[:120]}`"
            elif w != h:
                fail = "the current writer produces different bytes for the recorded content (files written now differ from the pinned format)"
            dis = (m != h)
            corr.add_obl("golden", 1, 1 if (dis or fail) else 0)
            if fail:
                corr.violation("golden", f"golden/{g['file']} ({inf.label}): {fail}", cj, impl=(o if not o.startswith('ok') or o != 'ok 0 | ' + h else w)[:800],
                               model=h[:800], oracle_fails=True, key=key, cfg=cfg)
            elif dis:
                corr.violation("golden", f"golden/{g['file']}: the model's dump of the recorded descriptor differs from the committed bytes", cj,
                               impl=h[:800], model=m[:800], oracle_fails=False, key=key, cfg=cfg)
    corr.info["stacks"] = len(stacks)
    corr.info["ordered_pairs"] = len(pairs)
    corr.info["golden_files"] = len(gold)
    corr.violations.sort(key=lambda v: (not v["oracle_fails"], len(json.dumps(v["case"]))))
    return corr


def run(ctx):
    # the tie through translation (DESIGN.md §11.6): the array layer's write_binary / read_binary as written (width word from the
    # scalar type, raw count, the loop reading each component at the width the file declares) are the script the theorems
    # `Covfie.IO.dump_array` / `load_array` interpret; changed text brings in the thorough tier's files
    from harness import translib as T
    tie = T.Tie(ctx, ["io_array"])
    if tie.changed() and ctx.quick:
        class Deep:
            quick, seed, tier, work, replay, prop = False, ctx.seed, ctx.tier, ctx.work, ctx.replay, ctx.prop
        stacks, pairs, data, vals, wvals, gold = gen(Deep)
        deepened = True
    else:
        stacks, pairs, data, vals, wvals, gold = gen(ctx)
    corr = evaluate(ctx, stacks, pairs, data, vals, wvals, gold, ["dbg", "rel"])
    tie.merge(corr)
    if locals().get("deepened"):
        corr.info["deepened"] = True
    from harness import srcconst
    srcconst.check(corr)        # magic numbers and layer tags read from the source text == the model's constants
    return corr


def replay(ctx):
    c = ctx.replay["case"]
    cfg = [c.get("cfg", "dbg")]
    if c["op"] in ("cross", "crossredump"):
        return evaluate(ctx, [c["from"], c["to"]], [(0, 1)], {0: [c["dat"]]}, [], [], [], cfg)
    if c["op"] == "grammar":
        return evaluate(ctx, [c["stack"]], [], {0: [c["dat"]]}, [], [], [], cfg)
    if c["op"] == "golden":
        g = [x for x in load_golden() if x["name"] == c["name"]]
        return evaluate(ctx, [x["stack"] for x in g], [], {}, [], [], g, cfg)
    vv = c.get("values", [])
    return evaluate(ctx, [[["array", "f32", 1]]], [], {}, vv if c["op"] == "narrow" else [], vv if c["op"] == "widen" else [], [], cfg)
