"""C08 — truncated or mis-tagged input is rejected with an exception (io_reject): every proper prefix of every dump, every
checked word x replacement values, every ordered pair of incompatible stacks, the n-th read failing for every n; through a
fault-injecting std::streambuf; dbg (ASan/UBSan, assertions on) + rel, and rel under valgrind memcheck in the thorough tier."""
import json, random, re
from concurrent.futures import ThreadPoolExecutor
from vlib import common as C
from vlib.framework import Corr
from harness import iolib as IO

META = {
    "drivers": ["iocheck", "impcheck"],
    "rule": "case = (stack, content digest, fault, build config) with fault = truncation offset | (word offset, replacement) | "
            "(writer stack, reader stack) | (failure mode, n-th read); every fault case is non-trivial",
    "trusted_base": ["fault-injecting streambuf (harness/cpp/io_lib.hpp FaultBuf): overrides xsgetn/underflow/uflow; istream::read reaches "
                     "the buffer only through sgetn", "ASan/UBSan/valgrind report what they are documented to report"],
    "assumptions": ["the count word is not altered (the format has no bound on it: an altered count asks the allocator for up to 2^64 cells; "
                    "that is outside the property's list of altered words)",
                    "a float-width word swapped 4<->8 is expected to be rejected only when the payload does not mimic the footers "
                    "(Covfie.C08.load_widthswap_8to4_partial); the mimicking witness is the recorded finding F11"],
}
CORPUS = C.VERIF / "corpus" / "C08"
BAD = ("CRASH", "bad-", "harness-", "unknown", "unsupported")


def gen(ctx):
    rnd = random.Random(ctx.seed * 32452843 + 8)
    stacks = list(IO.QUICK_STACKS)
    if not ctx.quick:
        seen = {json.dumps(s) for s in stacks}
        guard = 0
        while len(stacks) < 250 and guard < 8000:
            guard += 1
            s = IO.random_stack(rnd)
            if json.dumps(s) not in seen:
                seen.add(json.dumps(s)); stacks.append(s)
    files = []
    for si, s in enumerate(stacks):
        inf = IO.analyse(s)
        for p in (["mixed", "special"] if ctx.quick else ["mixed", "special", "random"]):
            files.append((si, IO.fmt_dat(IO.gen_dat(inf, rnd, p, maxcells=24 if ctx.quick else 40))))
    # one file whose array payload exceeds a megabyte (odd cell width): only its checked words are altered
    for si, s in enumerate(stacks):
        if s == [["array", "f32", 3]]:
            files.append((si, IO.fmt_dat(IO.gen_dat(IO.analyse(s), rnd, "mixed", maxcells=400000, ext_pool=[90001]))))
    return stacks, files, rnd.getrandbits(32)


def load_corpus():
    out = []
    if CORPUS.is_dir():
        for p in sorted(CORPUS.glob("*.json")):
            c = json.loads(p.read_text()); c["_file"] = p.name
            out.append(c)
    return out


def verdict_of(line):
    """outcome class of a single load/fload answer"""
    if line.startswith("ok"):
        return "F"
    if line.startswith("error"):
        return "E"
    return line       # CRASH …, timeout, harness trouble


def evaluate(ctx, stacks, files, aseed, cfgs, pairs="all", only=None, corpus=None, valgrind=False):
    """only: None (everything) or a dict describing the single fault to re-run (replay)"""
    corr = Corr()
    corr.add_obl("io_reject")
    impl = IO.Impl(ctx, stacks, cfgs, chunk=4 if len(stacks) < 80 else 6, tag="io8")
    infos = impl.infos
    index_of = {json.dumps(s): i for i, s in enumerate(stacks)}
    corpus = corpus if corpus is not None else []
    budget = {"expand": 8}      # batches that died are re-run case by case to attribute the death; bounded so that a reader that dies
                                # on every input costs minutes, not hours (the remaining batches are reported as one violation each)

    def died(cfg, inf, kind, dat, answer, ncases):
        corr.configs[cfg] += ncases
        corr.evaluations += ncases
        corr.add_obl("io_reject", ncases, ncases)
        corr.violation("io_reject", f"{inf.label}: the loader died somewhere in a batch of {ncases} {kind} cases: {answer[:120]}",
                       {"kind": kind + "-batch", "stack": inf.stack, "dat": dat, "cfg": cfg}, impl=answer[:300], model="E…", oracle_fails=True,
                       key={"kind": kind + "-batch", "stack": inf.label, "dat": C.chash(dat)}, cfg=cfg)
        corr.violations[-1]["_size"] = 10 ** 6 + len(dat)

    def report(cfg, inf, kind, fault, dat, impl_v, model_v, extra=None, key=None):
        """one fault case: correspondence + oracle"""
        corr.configs[cfg] += 1
        canon = (inf.stack, C.chash(dat), kind, fault, cfg)
        corr.case(canon, True)
        corr.dist[f"{kind}/impl-{impl_v if impl_v in ('E', 'F') else 'died'}"] += 1
        cj = {"kind": kind, "stack": inf.stack, "dat": dat, "fault": fault, "cfg": cfg}
        if extra:
            cj.update(extra)
        k = key or {"kind": kind, "stack": inf.label, "dat": C.chash(dat), "fault": json.dumps(fault)}
        if model_v is None:
            # this file's bytes are not the model's format (C06/C07 report that): no model verdict; the property oracle still applies
            corr.dist["format-differs-from-model/oracle-only"] += 1
            model_v = "F" if kind == "complete" else "E"
            dis = False
            if kind == "complete":
                return
        else:
            dis = impl_v != model_v
            corr.add_obl("io_reject", 1, 1 if dis else 0)
        what = f"{inf.label}, {kind} {fault}"
        if impl_v not in ("E", "F"):
            corr.violation("io_reject", f"{what}: the loader did not throw but died: {impl_v}", cj, impl=impl_v, model=model_v, oracle_fails=True, key=k, cfg=cfg)
        elif kind == "complete":
            if impl_v != "F":
                corr.violation("io_reject", f"{what}: the complete, unaltered stream is rejected", cj, impl=impl_v, model=model_v, oracle_fails=False, key=k, cfg=cfg)
        elif kind == "widthswap-empty-array-valid-file":
            if dis:
                corr.violation("io_reject", f"{what}: implementation {impl_v}, model {model_v}", cj, impl=impl_v, model=model_v, oracle_fails=False, key=k, cfg=cfg)
        elif impl_v == "F" and (model_v == "E" or kind in ("widthswap", "corpus-must-reject")):
            corr.violation("io_reject", f"{what}: a field is returned, the property demands an exception", cj, impl=impl_v, model=model_v, oracle_fails=True, key=k, cfg=cfg)
        elif dis:
            corr.violation("io_reject", f"{what}: implementation {impl_v}, model {model_v}", cj, impl=impl_v, model=model_v, oracle_fails=False, key=k, cfg=cfg)
        corr.violations and corr.violations[-1].setdefault("_size", len(dat) + (fault[0] if isinstance(fault, list) and fault and isinstance(fault[0], int) else 0))

    # the files: dumps of the current writer (also what the model thinks of them)
    dump_lines = [(si, "dump {s} " + dat) for si, dat in files]
    mdump = IO.run_model([f"dump {infos[si].tytok} | {dat}" for si, dat in files])
    for cfg in cfgs:
        budget["expand"] = 8
        hexes = impl.run(cfg, dump_lines)
        good = [k for k, h in enumerate(hexes) if h and not h.startswith(BAD)]
        same = [k for k in good if hexes[k] == mdump[k]]
        if len(same) < len(files):
            corr.notes.append(f"{len(files) - len(same)} of {len(files)} dumps differ from the model's bytes ({cfg}); word alterations skipped for those (C06/C07 report the format change)")
        # files of a megabyte and more take part in the word alterations only (every prefix of them would be a million loads)
        big = {k for k in range(len(files)) if len(files[k][1]) > 200000}
        goodS = [k for k in good if k not in big]
        sameS = [k for k in same if k not in big]
        want = (lambda kind: only is None or only["kind"] == kind)
        # the model's verdict on every prefix of every file (also used for the n-th-read faults: a stream that stopped after
        # `end` bytes is the prefix of length `end`)
        pmodel = dict(zip(sameS, IO.run_model([f"prefixes {infos[files[k][0]].tytok} | {hexes[k]}" for k in sameS], timeout_per_line=2)))
        sameset = set(same)
        # ---------------------------------------------------------------- (a) every proper prefix (stream ends after k bytes)
        if want("prefix") or want("complete"):
            ks = goodS
            po = impl.run(cfg, [(files[k][0], "prefixes {s} " + hexes[k]) for k in ks], timeout_per_line=5)
            pm = [pmodel.get(k) for k in ks]
            for k, o, m in zip(ks, po, pm):
                si, dat = files[k]; inf = infos[si]; n = len(hexes[k]) // 2
                if (o.startswith(BAD) or len(o) != n + 1) and budget["expand"] <= 0:
                    died(cfg, inf, "prefix", dat, o, n + 1)
                    continue
                if o.startswith(BAD) or len(o) != n + 1:
                    # the batch died: one process per truncation point so that the culprit is attributed
                    budget["expand"] -= 1
                    singles = impl.run(cfg, [(si, f"fload {{s}} cut {j} {hexes[k]}") for j in range(n + 1)], timeout_per_line=2)
                    o = [verdict_of(x) for x in singles]
                for j in range(n + 1):
                    if only is not None and only["kind"] in ("prefix", "complete") and only["fault"] != [j]:
                        continue
                    report(cfg, inf, "prefix" if j < n else "complete", [j], dat, o[j], None if m is None else (m[j] if j < len(m) else "?"), extra={"file_size": n})
                if len(corr.samples) < 3 and inf.depth >= 3 and n < 300 and m is not None:
                    corr.sample({"kind": "prefix", "stack": inf.label, "file_size": n, "impl": "".join(x if len(x) == 1 else "!" for x in o), "model": m, "cfg": cfg})
        # ---------------------------------------------------------------- (a') the same prefixes through a stream whose owner enabled
        # exceptions(failbit|badbit): the loader must still end in an exception (never std::terminate / abort)
        if want("xprefix"):
            ks = [k for k in good if len(hexes[k]) // 2 <= 400][: (40 if ctx.quick else 400)]
            po = impl.run(cfg, [(files[k][0], "xprefixes {s} " + hexes[k]) for k in ks], timeout_per_line=5)
            for k, o in zip(ks, po):
                si, dat = files[k]; inf = infos[si]; n = len(hexes[k]) // 2
                m = pmodel.get(k)
                if o.startswith(BAD) or len(o) != n + 1:
                    # attribute the death to the shortest prefix: truncation points one process each, smallest first
                    found = None
                    for j in range(0, n + 1):
                        one = impl.run(cfg, [(si, "xprefixes {s} " + hexes[k][: 2 * j])], timeout_per_line=5)[0]
                        if one.startswith(BAD) or len(one) != j + 1:
                            found = (j, one); break
                        if j > 24:
                            break
                    j, one = found if found else (0, o)
                    report(cfg, inf, "xprefix", [j], dat, one if one.startswith(BAD) else "died", None if m is None else "E", extra={"file_size": n, "stream": "exceptions(failbit|badbit)"})
                    continue
                for j in range(n + 1):
                    if only is not None and only["kind"] == "xprefix" and only["fault"] != [j]:
                        continue
                    report(cfg, inf, "xprefix" if j < n else "complete", [j], dat, o[j], None if m is None else (m[j] if j < len(m) else "?"),
                           extra={"file_size": n, "stream": "exceptions(failbit|badbit)"})
        # ---------------------------------------------------------------- (b) checked words x replacement values
        if want("alt") or want("widthswap"):
            arnd = random.Random(aseed)
            rows = []
            for k in same:
                si, dat = files[k]; inf = infos[si]
                bs = bytes.fromhex(hexes[k])
                try:
                    _, _, checked = IO.py_load(inf.ty, bs)
                except IO.FormatError:
                    continue
                alts = IO.alterations(checked, arnd)
                if only is not None and only["kind"] in ("alt", "widthswap"):
                    alts = [(only["fault"][0], only["fault"][1], only.get("role", "?"), only.get("layer", "?"), "widthswap" if only["kind"] == "widthswap" else "replay")]
                if alts:
                    rows.append((k, alts))
            ao = impl.run(cfg, [(files[k][0], "alts {s} " + hexes[k] + " " + " ".join(f"{off}:{w:08x}" for off, w, *_ in alts)) for k, alts in rows], timeout_per_line=5)
            am = IO.run_model([f"alts {infos[files[k][0]].tytok} | {hexes[k]} " + " ".join(f"{off}:{w:08x}" for off, w, *_ in alts) for k, alts in rows], timeout_per_line=2)
            for (k, alts), o, m in zip(rows, ao, am):
                si, dat = files[k]; inf = infos[si]
                if (o.startswith(BAD) or len(o) != len(alts)) and budget["expand"] <= 0:
                    died(cfg, inf, "alt", dat, o, len(alts))
                    continue
                if o.startswith(BAD) or len(o) != len(alts):
                    budget["expand"] -= 1
                    bs = bytes.fromhex(hexes[k])
                    singles = impl.run(cfg, [(si, "load {s} " + IO.patch(bs, off, w).hex()) for off, w, *_ in alts], timeout_per_line=2)
                    o = [verdict_of(x) for x in singles]
                arr = IO.array_of(IO.parse_dat(dat))
                for (off, w, role, layer, cls), iv, mv in zip(alts, o, m):
                    kind = "widthswap" if cls == "widthswap" else "alt"
                    if kind == "widthswap" and arr is not None and arr[2] == 0:
                        # an empty array has no payload: the altered file is byte-identical to a valid dump of the other width,
                        # which C07 requires to load. Not a fault; only the correspondence is checked.
                        kind = "widthswap-empty-array-valid-file"
                    corr.dist[f"alt/{role}/{cls}"] += 1
                    ex = {"role": role, "layer": layer, "class": cls}
                    if iv == "T":
                        # rejected alone, accepted at the head of a long seekable stream that continues with complete dumps
                        # (for a width swap the continuation may legitimately complete the wider payload: not judged)
                        iv = "E" if cls == "widthswap" else "F"
                        ex["stream"] = "seekable; the altered dump is followed by complete dumps (>= 128 KiB)"
                        corr.dist["alt/accepted-only-when-followed-by-dumps"] += 1
                    report(cfg, inf, kind, [off, w], dat, iv, mv, extra=ex)
                if len(corr.samples) < 6 and inf.depth >= 2:
                    corr.sample({"kind": "alts", "stack": inf.label, "first": [f"{off}:{w:08x} ({role} of {layer}, {cls})" for off, w, role, layer, cls in alts[:6]],
                                 "impl": "".join(x if len(x) == 1 else "!" for x in o)[:60], "model": m[:60], "cfg": cfg})
        # ---------------------------------------------------------------- (c) ordered pairs of incompatible stack types
        if want("pair"):
            first = {}
            for k in same:
                first.setdefault(files[k][0], k)
            if pairs == "all":
                pl = [(a, b) for a in sorted(first) for b in range(len(stacks)) if a != b and infos[a].strip != infos[b].strip]
                if len(pl) > 6000:
                    prnd = random.Random(aseed + 1)
                    pl = prnd.sample(pl, 6000)
            else:
                pl = [(a, b) for a, b in pairs if a in first]
            xo = impl.run(cfg, [(b, "load {s} " + hexes[first[a]]) for a, b in pl], timeout_per_line=2)
            xm = IO.run_model([f"load {infos[b].tytok} | {hexes[first[a]]}" for a, b in pl])
            for (a, b), o, m in zip(pl, xo, xm):
                dv = IO.diverge(infos[a].ty, infos[b].ty)
                corr.dist["pair/" + ("tags-diverge" if dv else "same-tags-different-sizes")] += 1
                report(cfg, infos[b], "pair", [infos[a].label], files[first[a]][1], verdict_of(o), verdict_of(m), extra={"writer": infos[a].stack, "diverge": dv})
                if dv and verdict_of(m) != "E":
                    corr.notes.append(f"model accepts a file of {infos[a].label} in {infos[b].label} although the tag sequences diverge")
        # ---------------------------------------------------------------- (d) the n-th read call fails, for every n
        if want("nth"):
            modes = ("short", "half", "throw") if only is None else (only["fault"][0],)
            for mode in modes:
                ks = goodS
                no = impl.run(cfg, [(files[k][0], f"nthall {{s}} {mode} " + hexes[k]) for k in ks], timeout_per_line=5)
                need = []
                parsed = []
                for k, o in zip(ks, no):
                    t = o.split()
                    if o.startswith(BAD) or len(t) < 2 or t[0] != "F":
                        parsed.append(None)
                        continue
                    res = [(x[0], int(x[1:])) for x in t[2:]]
                    parsed.append(res)
                for k, o, res in zip(ks, no, parsed):
                    si, dat = files[k]; inf = infos[si]; n = len(hexes[k]) // 2
                    if res is None and budget["expand"] <= 0:
                        died(cfg, inf, "nth", dat, o, 1)
                        continue
                    if res is None:
                        # died (or the clean load failed): attribute by single runs
                        budget["expand"] -= 1
                        clean = impl.run(cfg, [(si, "load {s} " + hexes[k])])[0]
                        mreads = re.search(r"reads=(\d+)", clean)
                        if not mreads:
                            report(cfg, inf, "complete", [n], dat, verdict_of(clean), "F", extra={"file_size": n})
                            continue
                        singles = impl.run(cfg, [(si, f"fload {{s}} {mode} {j} {hexes[k]}") for j in range(1, int(mreads.group(1)) + 1)], timeout_per_line=2)
                        res = []
                        for x in singles:
                            e = re.search(r"end=(\d+)", x)
                            res.append((verdict_of(x), int(e.group(1)) if e else None))
                    # model: a stream that delivered `end` bytes and then stopped is a proper prefix
                    mp = pmodel.get(k)
                    for j, (iv, end) in enumerate(res, 1):
                        if only is not None and only["fault"][1] != j:
                            continue
                        mv = None if mp is None else (mp[end] if end is not None and end < len(mp) else "E")
                        report(cfg, inf, "nth", [mode, j], dat, iv, mv, extra={"delivered_bytes": end, "file_size": n})
                    corr.dist[f"nth/{mode}/reads"] += len(res)
        # ---------------------------------------------------------------- corpus (always runs; holds the recorded finding F11)
        for c in corpus:
            si = index_of[json.dumps(c["stack"])]; inf = infos[si]
            now = impl.run(cfg, [(si, "dump {s} " + c["dat"])])[0]
            if now != c["original_hex"]:
                corr.notes.append(f"corpus/{c['_file']}: the current writer's bytes for the witness content differ from the recorded format ({cfg}); witness not applicable (C06/C07 report the format change)")
                continue
            o = impl.run(cfg, [(si, "load {s} " + c["altered_hex"])])[0]
            m = IO.run_model([f"load {inf.tytok} | {c['altered_hex']}"])[0]
            kind = "widthswap" if c.get("key", {}).get("kind") == "widthswap" else "corpus-must-reject"
            corr.dist["corpus/" + c["_file"]] += 1
            report(cfg, inf, kind, c["fault"], c["dat"], verdict_of(o), verdict_of(m), extra={"corpus": c["_file"], "altered_hex": c["altered_hex"], "impl_answer": o},
                   key=c.get("key"))
        # ---------------------------------------------------------------- valgrind memcheck on a sample (rel build, no ASan)
        if valgrind and cfg == "rel" and only is None:
            vrnd = random.Random(aseed + 2)
            sample = vrnd.sample(sameS, max(1, len(sameS) // 10)) if sameS else []
            arnd = random.Random(aseed)
            ops = []
            for k in sample:
                si, dat = files[k]; inf = infos[si]
                bs = bytes.fromhex(hexes[k])
                _, _, checked = IO.py_load(inf.ty, bs)
                alts = IO.alterations(checked, arnd)
                ops.append((si, "prefixes {s} " + hexes[k], len(bs), k, "prefix"))
                ops.append((si, "alts {s} " + hexes[k] + " " + " ".join(f"{off}:{w:08x}" for off, w, *_ in alts), len(alts), k, "alt"))
                ops.append((si, "nthall {s} short " + hexes[k], 0, k, "nth"))
            vg_run(ctx, corr, impl, infos, files, ops)
    corr.info["stacks"] = len(stacks)
    corr.info["files"] = len(files)
    corr.violations.sort(key=lambda v: (not v["oracle_fails"], v.pop("_size", 0)))
    return corr


VG = ["valgrind", "--error-exitcode=99", "-q"]


def vg_run(ctx, corr, impl, infos, files, ops):
    """memcheck over whole batches; a batch that reports is re-run line by line to attribute the report"""
    per = {}
    for (si, line, n, k, kind) in ops:
        per.setdefault(impl.chunk_of[si], []).append((si, line.replace("{s}", impl.names[si]), n, k, kind))

    def one(c):
        lines = [l for _, l, *_ in per[c]]
        rc, so, se = C.sh(VG + [str(impl.exe[(c, "rel")])], 600, input="\n".join(lines) + "\n")
        bad = []
        if rc != 0:
            for row in per[c]:
                rc1, so1, se1 = C.sh(VG + [str(impl.exe[(c, "rel")])], 300, input=row[1] + "\n")
                if rc1 != 0:
                    first = re.search(r"==\d+== ((?:Conditional jump|Invalid|Use of uninitialised|Syscall param|Mismatched|Source and destination)[^\n]*)", se1)
                    bad.append((row, rc1, ((first.group(1) + " | ") if first else "") + se1[:1500]))
        return c, rc, bad
    with ThreadPoolExecutor(max_workers=C.NCPU) as ex:
        results = list(ex.map(one, list(per)))
    for c, rc, bad in results:
        for (si, line, n, k, kind) in per[c]:
            cnt = max(1, n)
            corr.configs["vg"] += cnt
            corr.evaluations += cnt
            corr.dist[f"valgrind/{kind}"] += cnt
            hit = [b for b in bad if b[0][1] == line]
            corr.add_obl("io_reject", cnt, 1 if hit else 0)
            if hit:
                (_, rc1, se1) = hit[0]
                what = "decision on uninitialised data / invalid access reported by memcheck" if rc1 == 99 else f"died under valgrind (rc {rc1})"
                corr.violation("io_reject", f"{infos[si].label}, {kind} cases under valgrind: {what}: {se1[:300]}",
                               {"kind": "valgrind", "stack": infos[si].stack, "dat": files[k][1], "line_kind": kind, "cfg": "vg"}, impl=se1, oracle_fails=True,
                               key={"kind": "valgrind", "stack": infos[si].label, "line": kind}, cfg="vg")


def run(ctx):
    # the tie through translation (DESIGN.md §11.6): the header / footer functions and read_binary of utility/binary_io.hpp as
    # written are the scripts the theorems `Covfie.IO.read_io_*_translated` are about (and every layer's reader is the script C06
    # checks); if any of that text changed, the thorough tier's stacks and alterations run
    from harness import translib as T
    tie = T.Tie(ctx, list(T.BIN) + list(T.IOL))
    if tie.changed() and ctx.quick:
        class Deep:
            quick, seed, tier, work, replay, prop = False, ctx.seed, ctx.tier, ctx.work, ctx.replay, ctx.prop
        stacks, files, aseed = gen(Deep)
        deepened = True
    else:
        stacks, files, aseed = gen(ctx)
    corpus = load_corpus()
    seen = {json.dumps(s) for s in stacks}
    for c in corpus:
        if json.dumps(c["stack"]) not in seen:
            seen.add(json.dumps(c["stack"])); stacks.append(c["stack"])
    corr = evaluate(ctx, stacks, files, aseed, ["dbg", "rel"], corpus=corpus, valgrind=not ctx.quick)
    for name, o in tie.scratch.obl.items():          # C08 lists the binary_io kernels; the layer scripts are C06's obligations
        if name[len("translated_"):] in T.BIN:
            corr.add_obl(name, o["cases"], o["disagreements"], o["note"])
    corr.notes += tie.scratch.notes
    corr.info.update(tie.scratch.info)
    if locals().get("deepened"):
        corr.info["deepened"] = True
    return corr


def replay(ctx):
    c = ctx.replay["case"]
    cfg = c.get("cfg", "dbg")
    if cfg == "vg" or c["kind"] == "valgrind":
        corr = Corr(); corr.add_obl("io_reject")
        impl = IO.Impl(ctx, [c["stack"]], ["rel"], tag="io8")
        hexes = impl.run("rel", [(0, "dump {s} " + c["dat"])])
        bs = bytes.fromhex(hexes[0])
        _, _, checked = IO.py_load(impl.infos[0].ty, bs)
        alts = IO.alterations(checked, random.Random(0))
        ops = [(0, "prefixes {s} " + hexes[0], len(bs), 0, "prefix"),
               (0, "alts {s} " + hexes[0] + " " + " ".join(f"{off}:{w:08x}" for off, w, *_ in alts), len(alts), 0, "alt"),
               (0, "nthall {s} short " + hexes[0], 0, 0, "nth")]
        vg_run(ctx, corr, impl, impl.infos, [(0, c["dat"])], ops)
        return corr
    if "corpus" in c:
        cc = [x for x in load_corpus() if x["_file"] == c["corpus"]]
        return evaluate(ctx, [x["stack"] for x in cc], [], 0, [cfg], corpus=cc, only={"kind": "none"})
    if c["kind"] == "pair":
        return evaluate(ctx, [c["writer"], c["stack"]], [(0, c["dat"])], 0, [cfg], pairs=[(0, 1)], only={"kind": "pair"})
    only = {"kind": c["kind"], "fault": c["fault"], "role": c.get("role"), "layer": c.get("layer")}
    return evaluate(ctx, [c["stack"]], [(0, c["dat"])], 0, [cfg], only=only)
