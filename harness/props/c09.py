"""C09 — the affine layer maps x to Ax+t; affine transforms compose as functions (correspondence + property oracle).

Implementation: harness/cpp/aff_harness.cpp (one TU per N): covfie::algebra operators called directly (affine*vector,
affine*affine in both association orders, translation/scaling/identity factories) and field<affine<identity<TN>>>.
Judge: the Lean driver `affcheck` evaluating the model's affApply / affMul / affTranslation / affScaling / affId (the
definitions of Props/C09.lean) on exact rationals: exact stream -> equality; bound stream -> gamma_c * |...| forward bound.
Property oracle: textbook composition x -> A x + t in exact integer / rational arithmetic in Python (all exact-stream
cases, every rejected and a sample of the accepted bound-stream cases)."""
import itertools, math, random, struct, collections
from concurrent.futures import ThreadPoolExecutor
from fractions import Fraction
from vlib import common as C
from vlib.framework import Corr

META = {
    "drivers": ["affcheck", "impcheck"],
    "rule": "case = (operation, N, scalar, stream, matrices, vector, build config); non-trivial when no matrix of the case is the identity "
            "or zero and the vector is not zero (constructor cases: arguments not all 0/1)",
    "trusted_base": ["standard model of IEEE-754 arithmetic behind the bound gamma_c*|A1|...|Ak||v| (+ underflow slack), c = (#products on the way)*(N+1)",
                     "field / field_view / parameter-pack glue is exercised, not modelled"],
    "assumptions": ["exact stream: integer entries, every intermediate below 2^24 (float) / 2^53 (double) — verified by the judge per case",
                    "bound stream: finite entries, no intermediate overflow (cases that could overflow are skipped and counted)"],
}
CPP = C.VERIF / "harness" / "cpp"
OBLS = ("affine_exact", "affine_bound", "affine_layer")


def f32(x):
    return struct.unpack("<f", struct.pack("<f", x))[0]


def tobits(prec, x):
    return struct.unpack("<I", struct.pack("<f", x))[0] if prec == 32 else struct.unpack("<Q", struct.pack("<d", x))[0]


def frombits(prec, b):
    return struct.unpack("<f", struct.pack("<I", b))[0] if prec == 32 else struct.unpack("<d", struct.pack("<Q", b))[0]


def W(prec, xs):
    return " ".join(str(tobits(prec, float(x))) for x in xs)


# ------------------------------------------------------------------------------------------------ generation
def small_mat(rnd, N):
    k = rnd.random()
    if k < 0.08:
        return [1 if i == j else 0 for i in range(N) for j in range(N + 1)]
    return [rnd.randrange(-3, 4) for _ in range(N * (N + 1))]


def small_vec(rnd, N):
    return [rnd.randrange(-3, 4) for _ in range(N)]


def fl_entry(rnd, prec, wide):
    k = rnd.random()
    E = (20 if prec == 32 else 150) if wide else 8
    if k < 0.15:
        x = float(rnd.randrange(-9, 10))
    elif k < 0.5:
        x = rnd.uniform(-1e3, 1e3)
    elif k < 0.85:
        x = rnd.choice([-1, 1]) * (1 + rnd.random()) * 2.0 ** rnd.randrange(-E, E)
    elif k < 0.92:
        x = rnd.choice([0.0, -0.0, 1.0, -1.0, 0.5])
    else:
        x = rnd.uniform(-1, 1)
    return f32(x) if prec == 32 else x


def arb_entry(rnd, prec):
    """arbitrary finite bit pattern (including subnormals)"""
    while True:
        b = rnd.getrandbits(prec)
        x = frombits(prec, b)
        if not (math.isnan(x) or math.isinf(x)):
            return x


def gen(ctx):
    rnd = random.Random(ctx.seed * 48271 + 9)
    q = ctx.quick
    cases = []      # dict(op, N, prec, mode, mats=[[...]], v=[...], kind)

    def add(op, N, prec, mode, mats, v, kind=None):
        cases.append({"op": op, "N": N, "prec": prec, "mode": mode, "mats": mats, "v": v, "kind": kind})
    R = range(-3, 4)
    # ---------------- exact stream
    for prec in (32, 64):
        # N = 1: exhaustive matrices x vectors (apply), exhaustive pairs (chain)
        for a in R:
            for t in R:
                for x in R:
                    add("apply", 1, prec, "x", [[a, t]], [x])
        vs = list(R)
        for i, (a, t, b, s) in enumerate(itertools.product(R, R, R, R)):
            add("chain", 1, prec, "x", [[a, t], [b, s]], [vs[i % 7]])
        # N = 2: all 7^6 matrices (thorough) or a sample (quick), vector cycling through all 49
        v2 = list(itertools.product(R, R))
        mats2 = itertools.product(R, repeat=6)
        if q:
            idxs = set(rnd.sample(range(7 ** 6), 2500))
        for i, m in enumerate(mats2):
            if q and i not in idxs:
                continue
            add("apply", 2, prec, "x", [list(m)], list(v2[i % 49]))
        for v in v2:
            add("apply", 2, prec, "x", [small_mat(rnd, 2)], list(v))
        # sampled: N = 3, 4 apply; chains of 2..4 for every N; layer
        for N in (3, 4):
            for _ in range(600 if q else 20000):
                add("apply", N, prec, "x", [small_mat(rnd, N)], small_vec(rnd, N))
        for N in (1, 2, 3, 4):
            for k in (2, 3, 4):
                for _ in range(250 if q else 8000):
                    add("chain", N, prec, "x", [small_mat(rnd, N) for _ in range(k)], small_vec(rnd, N))
            for _ in range(300 if q else 6000):
                add("layer", N, prec, "x", [small_mat(rnd, N)], small_vec(rnd, N))
            # structured linear parts through the layer: every scaled permutation (cycles included), with a translation
            import itertools as _it
            for perm in _it.permutations(range(N)):
                for _ in range(1 if q else 4):
                    sc = [rnd.choice([1, -1, 2, 3, -2]) for _ in range(N)]
                    m = [0] * (N * (N + 1))
                    for i in range(N):
                        m[i * (N + 1) + perm[i]] = sc[i]
                        m[i * (N + 1) + N] = rnd.randrange(-3, 4)
                    add("layer", N, prec, "x", [m], [rnd.randrange(-3, 4) or 1 for _ in range(N)])
            if prec == 64:
                # double coordinates over a float-valued backend, with cancellation: every partial sum is exact in double but
                # not in float, the final value is exact in both (the layer must work in the coordinate scalar type)
                for _ in range(120 if q else 3000):
                    lin = [[rnd.randrange(-3, 4) for _ in range(N)] for _ in range(N)]
                    K = [rnd.choice([2 ** 24, 2 ** 26, 3 * 2 ** 24, 2 ** 30 + 2 ** 7]) for _ in range(N)]
                    x = [K[j] + rnd.randrange(0, 64) for j in range(N)]
                    t = [rnd.randrange(-3, 4) - sum(lin[i][j] * K[j] for j in range(N)) for i in range(N)]
                    m = [y for i in range(N) for y in (lin[i] + [t[i]])]
                    add("layermix", N, 64, "x", [m], x)
        # constructors: exhaustive arguments for N <= 2, sampled for N = 3, 4
        for kind in ("t", "s"):
            for a in R:
                add("ctor", 1, prec, "x", [[a]], [rnd.randrange(-3, 4)], kind)
            for a in v2:
                add("ctor", 2, prec, "x", [list(a)], small_vec(rnd, 2), kind)
            for N in (3, 4):
                for _ in range(80 if q else 2500):
                    add("ctor", N, prec, "x", [small_vec(rnd, N)], small_vec(rnd, N), kind)
        for N in (1, 2, 3, 4):
            for _ in range(10 if q else 200):
                add("ctor", N, prec, "x", [[]], small_vec(rnd, N), "i")
    # ---------------- bound stream
    for prec in (32, 64):
        for N in (1, 2, 3, 4):
            for _ in range(500 if q else 15000):
                wide = rnd.random() < 0.5
                add("apply", N, prec, "b", [[fl_entry(rnd, prec, wide) for _ in range(N * (N + 1))]], [fl_entry(rnd, prec, wide) for _ in range(N)])
            for _ in range(200 if q else 6000):
                add("apply", N, prec, "b", [[arb_entry(rnd, prec) for _ in range(N * (N + 1))]], [arb_entry(rnd, prec) for _ in range(N)])
            for _ in range(300 if q else 8000):
                wide = rnd.random() < 0.5
                add("layer", N, prec, "b", [[fl_entry(rnd, prec, wide) for _ in range(N * (N + 1))]], [fl_entry(rnd, prec, wide) for _ in range(N)])
            for k in (2, 3, 4):
                for _ in range(250 if q else 8000):
                    wide = rnd.random() < 0.4
                    add("chain", N, prec, "b", [[fl_entry(rnd, prec, wide) for _ in range(N * (N + 1))] for _ in range(k)],
                        [fl_entry(rnd, prec, wide) for _ in range(N)])
            for kind in ("t", "s"):
                for _ in range(60 if q else 1500):
                    add("ctor", N, prec, "b", [[fl_entry(rnd, prec, True) for _ in range(N)]], [fl_entry(rnd, prec, True) for _ in range(N)], kind)
            # rare value classes, on purpose: (a) SUBNORMAL matrix entries whose term is far from negligible because the vector
            # component is huge; (b) transforms within a few ulp of the identity at coordinates where the difference is visible
            mant, emin, big = (23, -149, (40, 110)) if prec == 32 else (52, -1074, (300, 900))
            cvt = (lambda x: f32(x)) if prec == 32 else (lambda x: x)
            eps = 2.0 ** -mant

            def subn():
                return rnd.choice([-1, 1]) * rnd.randrange(1 << (mant - 6), 1 << mant) * 2.0 ** emin
            for _ in range(120 if q else 3000):
                m = [cvt(rnd.choice([0.0, 1.0, -2.0, 0.5, subn(), subn()])) for _ in range(N * (N + 1))]
                v = [cvt(rnd.choice([-1, 1]) * (1 + rnd.random()) * 2.0 ** rnd.randrange(*big)) for _ in range(N)]
                add(rnd.choice(["apply", "layer"]), N, prec, "b", [m], v)
                sc = [cvt(2.0 ** rnd.randrange(*big)) if i == j else 0.0 for i in range(N) for j in range(N + 1)]
                add("chain", N, prec, "b", [m, sc], [cvt(rnd.choice([1.0, -1.0, 0.5, 3.0])) for _ in range(N)])
            for _ in range(120 if q else 3000):
                m = [(1.0 if i == j else 0.0) + rnd.choice([0.0, 0.0, eps, -eps, eps / 2, -eps / 2, 2 * eps, eps / 4]) for i in range(N) for j in range(N + 1)]
                v = [cvt(rnd.choice([0.0, -0.0, 2.0 ** -10, -2.0 ** -10, 1.0, 2.0 ** 20, -2.0 ** 20, 3.0, rnd.uniform(-1, 1)])) for _ in range(N)]
                add(rnd.choice(["apply", "layer", "layer"]), N, prec, "b", [[cvt(x) for x in m]], v)
    return cases


# ------------------------------------------------------------------------------------------------ property oracle (textbook)
def rows(N, m):
    return [[m[i * (N + 1) + j] for j in range(N + 1)] for i in range(N)]


def tb_apply(N, m, x):
    """x -> A x + t"""
    r = rows(N, m)
    return [sum(r[i][j] * x[j] for j in range(N)) + r[i][N] for i in range(N)]


def tb_compose(N, p, q):
    """matrix of x -> P(Q(x)):  (A_p A_q | A_p t_q + t_p)"""
    P, Q = rows(N, p), rows(N, q)
    out = []
    for i in range(N):
        for j in range(N):
            out.append(sum(P[i][l] * Q[l][j] for l in range(N)))
        out.append(sum(P[i][l] * Q[l][N] for l in range(N)) + P[i][N])
    return out


def ctor_matrix(N, kind, args):
    m = [1 if i == j else 0 for i in range(N) for j in range(N + 1)]
    for i in range(N):
        if kind == "t":
            m[i * (N + 1) + N] = args[i]
        elif kind == "s":
            m[i * (N + 1) + i] = args[i]
    return m


def absl(xs):
    return [abs(x) for x in xs]


def oracle(case, groups):
    """returns '' when the property holds on the implementation's output, otherwise a description.
    exact stream: equality with the textbook value; bound stream: within gamma_c * (same expression on absolute values) + slack"""
    N, prec, mode, op = case["N"], case["prec"], case["mode"], case["op"]
    conv = (lambda x: int(x)) if mode == "x" else (lambda x: Fraction(x))
    mats = [[conv(x) for x in m] for m in case["mats"]]
    v = [conv(x) for x in case["v"]]
    u = Fraction(1, 2 ** 24) if prec == 32 else Fraction(1, 2 ** 53)
    tiny = Fraction(1, 2 ** 149) if prec == 32 else Fraction(1, 2 ** 1074)

    def cmp(name, impl_words, want, ab, c, k):
        if len(impl_words) != len(want):
            return f"{name}: wrong number of outputs"
        for a, (w, t, b) in enumerate(zip(impl_words, want, ab)):
            r = frombits(prec, w)
            if math.isnan(r) or math.isinf(r):
                return f"{name}[{a}] is not finite"
            if mode == "x":
                if Fraction(r) != t:
                    return f"{name}[{a}] = {r!r}, textbook value {t}"
            else:
                g = c * u / (1 - c * u)
                amp = max([1] + [abs(x) for x in v])
                for m in mats:
                    amp *= max([1] + [abs(x) for x in m])
                slack = tiny * (k + 1) * (N + 1) ** (k + 2) * amp
                if abs(Fraction(r) - t) > g * b + slack:
                    return f"{name}[{a}] = {r!r}, textbook value {float(t)!r}, |diff| {float(abs(Fraction(r) - t)):.3e} > bound {float(g * b + slack):.3e}"
        return ""
    if op in ("apply", "layer", "layermix"):
        return cmp("A*v" if op == "apply" else "layer(x)", groups[0], tb_apply(N, mats[0], v), tb_apply(N, absl(mats[0]), absl(v)), N + 1, 1)
    if op == "ctor":
        m = ctor_matrix(N, case["kind"], mats[0])
        e = cmp("matrix", groups[0], m, absl(m), 0, 1) if mode == "x" else ""
        if not e and mode == "b":
            e = "" if all(Fraction(frombits(prec, w)) == t for w, t in zip(groups[0], m)) and len(groups[0]) == len(m) else "constructed matrix differs from the textbook one"
        if e:
            return e
        want = [x + t for x, t in zip(v, mats[0])] if case["kind"] == "t" else [x * s for x, s in zip(v, mats[0])] if case["kind"] == "s" else list(v)
        ab = [abs(x) + abs(t) for x, t in zip(v, mats[0])] if case["kind"] == "t" else absl(want)
        mats = [m]
        return cmp("M*v", groups[1], want, ab, N + 1, 1)
    # chain
    k = len(mats)
    comp = mats[0]
    acomp = absl(mats[0])
    for m in mats[1:]:
        comp = tb_compose(N, comp, m)
        acomp = tb_compose(N, acomp, absl(m))
    x = list(v)
    ax = absl(v)
    for m in reversed(mats):
        x = tb_apply(N, m, x)
        ax = tb_apply(N, absl(m), ax)
    c1, c2 = (k - 1) * (N + 1), k * (N + 1)
    return (cmp("((A1*A2)*..)", groups[0], comp, acomp, c1, k) or cmp("(A1*(A2*..))", groups[1], comp, acomp, c1, k) or
            cmp("(A1*..*Ak)*v", groups[2], x, ax, c2, k) or cmp("A1*(..*(Ak*v))", groups[3], x, ax, c2, k))


# ------------------------------------------------------------------------------------------------ evaluation
def hline(c):
    p = c["prec"]
    if c["op"] == "chain":
        return f"chain {p} {len(c['mats'])} | " + " | ".join(W(p, m) for m in c["mats"]) + " | " + W(p, c["v"])
    if c["op"] == "ctor":
        return f"ctor {p} {c['kind']} | {W(p, c['mats'][0])} | {W(p, c['v'])}"
    return f"{c['op']} {p} | {W(p, c['mats'][0])} | {W(p, c['v'])}"


def dline(c, out):
    p = c["prec"]
    if c["op"] == "chain":
        return f"chain {c['N']} {p} {c['mode']} {len(c['mats'])} | " + " | ".join(W(p, m) for m in c["mats"]) + " | " + W(p, c["v"]) + " || " + out
    if c["op"] == "ctor":
        return f"ctor {c['N']} {p} {c['mode']} {c['kind']} | {W(p, c['mats'][0])} | {W(p, c['v'])} || " + out
    op = "layer" if c["op"] == "layermix" else c["op"]     # judged as the layer's A x + t (the float results arrive widened)
    return f"{op} {c['N']} {p} {c['mode']} | {W(p, c['mats'][0])} | {W(p, c['v'])} || " + out


def nontrivial(c):
    N = c["N"]
    if c["op"] == "ctor":
        return any(x not in (0, 1) for x in c["mats"][0]) or c["kind"] == "i"
    ident = [1 if i == j else 0 for i in range(N) for j in range(N + 1)]
    return all(any(x != 0 for x in m) and list(m) != ident for m in c["mats"]) and any(x != 0 for x in c["v"])


def obl_of(c):
    return "affine_layer" if c["op"] in ("layer", "layermix") else "affine_exact" if c["mode"] == "x" else "affine_bound"


def evaluate(ctx, cases, cfgs, sample_rate):
    corr = Corr()
    for o in OBLS:
        corr.add_obl(o)
    rnd = random.Random(ctx.seed * 7 + 99)
    Ns = sorted({c["N"] for c in cases})
    jobs = [(CPP / "aff_harness.cpp", ctx.work.path(f"aff{N}_{cfg}"), cfg, [f"-DAFF_N={N}"]) for N in Ns for cfg in cfgs]
    res = C.compile_many(jobs)
    for j, (rc, err) in zip(jobs, res):
        if rc != 0:
            raise C.CompileError(str(j[0]) + " " + j[3][0], j[2], err)
    byN = {N: [c for c in cases if c["N"] == N] for N in Ns}

    def run_impl(N, cfg):
        lines = [hline(c) for c in byN[N]]
        outs, _ = C.run_lines(ctx.work.path(f"aff{N}_{cfg}"), lines, min_timeout=120)
        return N, cfg, outs
    with ThreadPoolExecutor(max_workers=C.NCPU) as ex:
        results = list(ex.map(lambda a: run_impl(*a), [(N, cfg) for N in Ns for cfg in cfgs]))
    recs = collections.OrderedDict()
    for N, cfg, outs in results:
        for c, o in zip(byN[N], outs):
            k = (id(c), o)
            if k in recs:
                recs[k][1].append(cfg)
            else:
                recs[k] = [c, [cfg], o]
    keys = list(recs.keys())
    dl, dk = [], []
    for k in keys:
        c, cf, o = recs[k]
        if not o.startswith("CRASH") and o != "bad-op":
            dl.append(dline(c, o))
            dk.append(k)
    verd = {}
    if dl:
        nch = max(1, min(C.NCPU, len(dl) // 3000 + 1))
        chunks = [(dl[i::nch], dk[i::nch]) for i in range(nch)]
        with ThreadPoolExecutor(max_workers=nch) as ex:
            outs = list(ex.map(lambda ch: C.run_driver("affcheck", ch[0], timeout_per_line=0.02, min_timeout=120), chunks))
        for (ls, ks), ms in zip(chunks, outs):
            for k, m in zip(ks, ms):
                verd[k] = m
    xc = [0, 0]
    for k in keys:
        c, cf, o = recs[k]
        n = len(cf)
        ob = obl_of(c)
        N, prec = c["N"], c["prec"]
        tname = "float" if prec == 32 else "double"
        cj = {"op": c["op"], "N": N, "prec": prec, "mode": c["mode"], "kind": c["kind"], "mats": [[tobits(prec, float(x)) for x in m] for m in c["mats"]],
              "v": [tobits(prec, float(x)) for x in c["v"]], "cfg": cf[0]}
        key = {"kind": c["op"], "N": N, "prec": prec, "mode": c["mode"], "mats": cj["mats"], "v": cj["v"]}
        where = f"{c['op']}{'(' + c['kind'] + ')' if c['kind'] else ''} N={N} {tname} {'exact' if c['mode'] == 'x' else 'bound'} stream, " \
                f"matrices {[[float(x) for x in m] for m in c['mats']]} vector {[float(x) for x in c['v']]} ({cf[0]})"
        m = verd.get(k)
        if m is None:
            for c_ in cf:
                corr.configs[c_] += 1
            corr.case((c["op"], N, prec, c["mode"], cj["mats"], cj["v"], cf[0]), nontrivial(c), n)
            corr.add_obl(ob, n, n)
            corr.violation(ob, f"{where}: the operation died or answered garbage: {o[:120]}", cj, impl=o[:200], oracle_fails=True, key=key, cfg=cf[0])
            continue
        if m.startswith("skip"):
            corr.dist[f"skipped/{m.split()[1] if len(m.split()) > 1 else '?'}/{c['op']}/{tname}"] += n
            if c["mode"] == "x":
                corr.add_obl(ob, n, n)
                corr.violation(ob, f"{where}: the judge refused an exact-stream case ({m}): generator/judge mismatch", cj, impl=o[:200], model=m,
                               oracle_fails=False, key=key, cfg=cf[0])
            continue
        for c_ in cf:
            corr.configs[c_] += 1
            corr.case((c["op"], N, prec, c["mode"], cj["mats"], cj["v"], c_), nontrivial(c))
        corr.dist[f"{c['op']}/N{N}/{tname}/{'exact' if c['mode'] == 'x' else 'bound'}" + (f"/k{len(c['mats'])}" if c["op"] == "chain" else "") +
                  (f"/{c['kind']}" if c["kind"] else "")] += n
        bad = not m.startswith("ok")
        if not bad and c["mode"] == "b":
            corr.dist["verdict/" + ("all-exact" if "t" not in "".join(x.split("=")[1] for x in m.split()[1:] if "=" in x and not x.startswith("law")) else "within-tolerance")] += n
        groups = None
        try:
            groups = [[int(t) for t in g.split()] for g in o.split("|")]
        except ValueError:
            pass
        run_or = bad or c["mode"] == "x" or rnd.random() < sample_rate
        fail = ""
        if groups is None:
            fail = "unparsable output"
        elif run_or:
            fail = oracle(c, groups)
            if not bad and c["mode"] == "b":
                xc[0] += 1
                xc[1] += 1 if fail else 0
        corr.add_obl(ob, n, n if (bad or fail) else 0)
        if fail:
            corr.violation(ob, f"{where}: {fail}", cj, impl=[[frombits(prec, w) for w in g] for g in groups] if groups else o[:200], model=m[:300],
                           oracle_fails=True, key=key, cfg=cf[0])
        elif bad:
            corr.violation(ob, f"{where}: judge says `{m[:200]}` but the textbook evaluation accepts the result", cj,
                           impl=[[frombits(prec, w) for w in g] for g in groups], model=m[:300], oracle_fails=False, key=key, cfg=cf[0])
        elif len(corr.samples) < 10 and nontrivial(c) and (not corr.samples or corr.samples[-1]["op"] != c["op"] or corr.samples[-1]["N"] != N):
            corr.sample({"op": c["op"], "kind": c["kind"], "N": N, "scalar": tname, "stream": "exact" if c["mode"] == "x" else "bound",
                         "matrices": [[float(x) for x in mm] for mm in c["mats"]], "vector": [float(x) for x in c["v"]],
                         "impl": [[frombits(prec, w) for w in g] for g in groups], "verdict": m[:120], "cfg": cf})
    corr.info["python_oracle_crosscheck"] = {"accepted_bound-stream_cases_re-evaluated_independently": xc[0], "rejected_by_the_independent_oracle": xc[1],
                                             "note": "every exact-stream case is evaluated by both the Lean judge and the textbook oracle"}

    def size(v):
        c = v["case"]
        return (not v["oracle_fails"], c["N"], len(c["mats"]), sum(abs(frombits(c["prec"], w)) for m in c["mats"] for w in m))
    corr.violations.sort(key=size)
    return corr


def run(ctx):
    # the tie through translation (DESIGN.md §11.6): matrix product, identity, affine * vector, translation, scaling as written
    # are the terms `Covfie.RImp.*_translated` are about; if one of them changed, this run takes the thorough tier's inputs
    from harness import translib as T
    tie = T.Tie(ctx, list(T.RIMP) + ["context"])
    if tie.changed() and ctx.quick:
        class Deep:
            quick, seed, tier, work, replay, prop = False, ctx.seed, ctx.tier, ctx.work, ctx.replay, ctx.prop
        cases = gen(Deep)
        deepened = True
    else:
        cases = gen(ctx)
    corr = evaluate(ctx, cases, ["dbg", "rel", "isa"], 0.15 if ctx.quick else 0.02)
    from harness import ldlib
    ldlib.part(ctx, corr, ["affine"], "affine_layer")      # long double coordinates
    tie.merge(corr)
    if locals().get("deepened"):
        corr.info["deepened"] = True
    return corr


def replay(ctx):
    c = ctx.replay["case"]
    if c and c.get("op") == "longdouble":
        from vlib.framework import Corr as _Corr
        from harness import ldlib
        corr = _Corr()
        corr.add_obl("affine_layer")
        ldlib.part(ctx, corr, c["ops"], "affine_layer", cfgs=(c.get("cfg", "dbg"),))
        return corr
    prec = c["prec"]
    mode = c["mode"]
    conv = (lambda w: int(frombits(prec, w))) if mode == "x" else (lambda w: frombits(prec, w))
    case = {"op": c["op"], "N": c["N"], "prec": prec, "mode": mode, "kind": c.get("kind"),
            "mats": [[conv(w) for w in m] for m in c["mats"]], "v": [conv(w) for w in c["v"]]}
    return evaluate(ctx, [case], [c.get("cfg") or "dbg"], 1.0)
