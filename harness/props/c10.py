"""C10 — clamping makes every coordinate safe: the backend is queried at the component-wise clamp, for every coordinate value
of the type; array-backed stacks with a box inside the extents never touch memory outside the field (ASan + assertions)."""
import random
from fractions import Fraction as Fr
from vlib import common as C
from vlib.framework import Corr
from harness import stackgen as G
from harness import boxlib as B

META = {
    "drivers": ["evalcheck"],
    "rule": "case = (stack type and configuration, coordinate bit patterns, build config); non-trivial when at least one component is "
            "actually clamped (the delegated coordinate differs from the incoming one)",
    "trusted_base": ["AddressSanitizer / UBSan / library assertions as the detector of an out-of-field access",
                     "the user-defined probe backends harness/cpp/probe.hpp and nprobe.hpp"],
    "assumptions": ["NaN coordinates excluded (the property does)", "boxes with lo <= hi",
                    "clamp beneath an interpolator: coordinates 0 <= x < 2^63 (F13: the float->index conversion itself is undefined beyond "
                    "the index type, whatever lies beneath)",
                    "clamp above `linear`: box inside [0, extent-1) (the +1 neighbour is read with weight 0 at extent-1); above "
                    "`nearest_neighbour`: box inside (-1/2, extent-1/2)",
                    "interpolated values are compared bit-exactly only where every intermediate is exactly representable; other "
                    "coordinates are checked for safety (no sanitizer report, no assertion) only"],
}


def mk_cells(rnd, sk, M, n):
    a = G.Array(sk, M)
    a.setup(rnd, n)
    return a


def box_in_extents(rnd, sk, sizes):
    lo, hi = [], []
    for s in sizes:
        a = rnd.randrange(0, s)
        b = rnd.randrange(a, s) if rnd.random() < 0.8 else a
        if rnd.random() < 0.3:
            a, b = 0, s - 1
        lo.append(a)
        hi.append(b)
    return lo, hi


def sizes_for(rnd, lay, N):
    cap = {1: 12, 2: 6, 3: 4, 4: 3}[N]
    return [rnd.randrange(1, cap + 1) for _ in range(N)]


def real_coords(rnd, fsk, N, n, box_lo, box_hi, upper):
    """coordinates for clamp beneath an interpolator: any real 0 <= x < upper (dyadic k/8 values for the exactly comparable part)"""
    out = []
    for _ in range(n):
        c = []
        for k in range(N):
            r = rnd.random()
            if r < 0.5:
                x = Fr(rnd.randrange(0, 8 * (box_hi[k] + 3)), 8)
            elif r < 0.7:
                x = Fr(rnd.choice([2 ** rnd.randrange(3, 62), 2 ** rnd.randrange(3, 62) + 2 ** 40, 10 ** rnd.randrange(2, 18)]))
                if not G.rep(fsk, x):
                    x = Fr(2) ** rnd.randrange(3, 62)
            elif r < 0.8:
                x = Fr(0)
            else:
                b = B.random_scalar(rnd, fsk, finite=True)
                x = abs(B.val(fsk, b))
            if x >= upper:
                x = Fr(rnd.randrange(0, 64), 8)
            c.append(G.enc(fsk, x))
        out.append(c)
    return out


def gen(ctx):
    rnd = random.Random(ctx.seed * 15485863 + 10)
    q = ctx.quick
    nbox = 2 if q else 7
    ncoord = 36 if q else 110
    cases = []

    def add(obl, cls, stack, cbs, exact=True):
        cases.append({"obl": obl, "cls": cls, "stack": stack, "cbs": cbs, "exact": exact})
    for sk in B.ALL_SK:
        for N in (1, 2, 3, 4):
            for b in list(range(nbox)) + ([6] if q else []):     # (quick: the full-range box too — every finite value inside, the infinities not)
                # A: clamp<identity<T, N>> shows the delegated coordinate
                lo, hi = B.random_box(rnd, sk, N, mode=["small", "degenerate", "extreme", "wide", "random", "small", "fullrange"][b % 7])
                st = G.Clamp(B.vals(sk, lo), B.vals(sk, hi), G.Identity(sk, N))
                st.lo_b, st.hi_b = lo, hi
                add("clamp_value", "identity", st, B.coord_mix(rnd, sk, lo, hi, ncoord))
                # A': the same box above another transformer that passes every coordinate on unchanged (a clamp / an
                # out-of-range default with the full range of the type as its box, the identity permutation)
                if G.isf(sk):
                    flo, fhi = [G.enc(sk, -G.INF)] * N, [G.enc(sk, G.INF)] * N
                else:
                    flo, fhi = [G.enc(sk, G.IRANGE[sk][0])] * N, [G.enc(sk, G.IRANGE[sk][1])] * N
                inner = [lambda: G.Clamp(B.vals(sk, flo), B.vals(sk, fhi), G.Identity(sk, N)),
                         lambda: G.Shuffle(list(range(N)), G.Identity(sk, N)),
                         lambda: G.Backup(B.vals(sk, flo), B.vals(sk, fhi), B.vals(sk, lo), G.Identity(sk, N))][(b + N) % 3]()
                if b % 2 == 0:
                    lo, hi = B.random_box(rnd, sk, N, mode="open")
                st = G.Clamp(B.vals(sk, lo), B.vals(sk, hi), inner)
                st.lo_b, st.hi_b = lo, hi
                add("clamp_value", "identity", st, B.coord_mix(rnd, sk, lo, hi, max(8, ncoord // 2)))
                if b % 2 == 0:      # the same open box directly above the leaf
                    st = G.Clamp(B.vals(sk, lo), B.vals(sk, hi), G.Identity(sk, N))
                    st.lo_b, st.hi_b = lo, hi
                    add("clamp_value", "identity", st, B.coord_mix(rnd, sk, lo, hi, max(8, ncoord // 2)))
                # B: clamp over the user-defined counting probe (M != N)
                lo, hi = B.random_box(rnd, sk, N)
                M = N % 4 + 1
                st = G.Clamp(B.vals(sk, lo), B.vals(sk, hi), G.NProbe(sk, N, M))
                st.lo_b, st.hi_b = lo, hi
                add("clamp_value", "nprobe", st, B.coord_mix(rnd, sk, lo, hi, ncoord))
    # C / D: clamp over storage orders over array storage / over the flat-index probe
    lays = [("strided", isk) for isk in B.INT_SK] + [("mortonF", "u64"), ("mortonF", "i32"), ("mortonT", "u64"), ("hilbert", "u64")]
    for lay, isk in lays:
        for N in ((2,) if lay == "hilbert" else (1, 2, 3, 4)):
            for b in range(nbox):
                sizes = sizes_for(rnd, lay, N)
                M = N % 4 + 1
                for prim in ("array", "probe"):
                    if prim == "probe" and (isk not in ("u64", "i32") or lay == "hilbert"):
                        continue
                    layer = G.Layout(lay, isk, sizes, None)
                    need = layer.storage_need()
                    layer.child = mk_cells(rnd, rnd.choice(["f32", "f64"]), M, need) if prim == "array" else G.Probe1("f32", 1, need)
                    lo, hi = box_in_extents(rnd, isk, sizes)
                    st = G.Clamp(lo, hi, layer)
                    st.lo_b, st.hi_b = [G.enc(isk, x) for x in lo], [G.enc(isk, x) for x in hi]
                    add("clamp_safe_array", f"{lay}/{prim}", st, B.coord_mix(rnd, isk, st.lo_b, st.hi_b, ncoord, inside_bias=0.2))
    # E / F: clamp beneath and above an interpolator
    for itp in ("nn", "linear"):
        for fsk in ("f32", "f64"):
            for N in (1, 2, 3, 4):
                for b in range(nbox):
                    sizes = [rnd.randrange(2, {1: 12, 2: 6, 3: 4, 4: 3}[N] + 1) for _ in range(N)]
                    M = N % 4 + 1
                    vsk = rnd.choice(["f32", "f64"])
                    # beneath: integer box [0, extent-1] (or a sub-box), any real 0 <= x < 2^63
                    layer = G.Layout("strided", "u64", sizes, mk_cells(rnd, vsk, M, G.prod(sizes)))
                    lo, hi = ([0] * N, [s - 1 for s in sizes]) if b % 2 == 0 else box_in_extents(rnd, "u64", sizes)
                    st = G.Interp(itp, fsk, G.Clamp(lo, hi, layer))
                    st.lo_b, st.hi_b = None, None
                    add("clamp_safe_array", f"beneath/{itp}", st, real_coords(rnd, fsk, N, ncoord, lo, hi, Fr(2) ** 63))
                    # above: real box inside [0, extent-1) resp. (-1/2, extent-1/2); any coordinate of the type
                    layer = G.Layout("strided", "u64", sizes, mk_cells(rnd, vsk, M, G.prod(sizes)))
                    blo, bhi = [], []
                    for s in sizes:
                        if itp == "linear":
                            if b % 3 == 2:      # the widest representable box: [0, nextbelow(extent-1)] (values then inexact: safety only)
                                l, h = G.enc(fsk, 0), B.step(fsk, G.enc(fsk, s - 1), -1)
                            else:
                                l = Fr(rnd.randrange(0, 8 * (s - 1)), 8)
                                h = Fr(rnd.randrange(int(l * 8), 8 * (s - 1)), 8)
                                l, h = G.enc(fsk, l), G.enc(fsk, h)
                        else:
                            if b % 3 == 2:      # the widest box inside (-1/2, extent-1/2)
                                l, h = B.step(fsk, G.enc(fsk, Fr(-1, 2)), 1), B.step(fsk, G.enc(fsk, Fr(2 * s - 1, 2)), -1)
                            else:
                                l = Fr(rnd.randrange(-3, 8 * s - 4), 8)
                                h = Fr(rnd.randrange(int(l * 8), 8 * s - 4), 8)
                                l, h = G.enc(fsk, l), G.enc(fsk, h)
                        blo.append(l)
                        bhi.append(h)
                    st = G.Clamp(B.vals(fsk, blo), B.vals(fsk, bhi), G.Interp(itp, fsk, layer))
                    st.lo_b, st.hi_b = blo, bhi
                    add("clamp_safe_array", f"above/{itp}", st, B.coord_mix(rnd, fsk, blo, bhi, ncoord, inside_bias=0.2))
    return cases


def expect(cs, cb):
    """(expected value bits or None if only safety can be checked, delegated coordinate bits or None, number of clamped components)"""
    st = cs["stack"]
    sk, N, _ = st.in_kind()
    osk, M = st.out_kind()
    cls = cs["cls"]
    if st.label == "clamp":
        dele = [B.clamp_bits(sk, l, h, x) for l, h, x in zip(st.lo_b, st.hi_b, cb)]
        nclamped = sum(1 for a, b in zip(dele, cb) if a != b)
    else:
        dele, nclamped = None, None
    if cls == "identity":
        return dele, dele, nclamped
    if cls == "nprobe":
        return [dele[(q + 1) % N] for q in range(M)], dele, nclamped
    prim = st.layers()[-1]
    if isinstance(prim, G.Probe1):
        prim.trace = []
    try:
        tr = set()
        v = st.pe(B.vals(sk, cb), tr)
        if nclamped is None:
            nclamped = 1 if "clamp" in tr else 0
        return [G.enc(osk, x) for x in v], dele, nclamped
    except G.Inexact:
        return None, dele, nclamped if nclamped is not None else 1
    except G.UB as e:
        return ("UB", str(e)), dele, nclamped or 0


def evaluate(ctx, cases, cfgs):
    corr = Corr()
    corr.add_obl("clamp_value")
    corr.add_obl("clamp_safe_array")
    outs, failures = B.run_typed(ctx, cases, cfgs, "c10")
    for idxs, cfg, err in failures:
        cs = cases[idxs[0]]
        corr.add_obl(cs["obl"], 1, 1)
        corr.violation(cs["obl"], f"the translation unit instantiating field<{cs['stack'].desc()[:160]}> does not compile ({cfg}): {C.first_diag(err)}",
                       {"stack": cs["stack"].to_json(), "cls": cs["cls"], "obl": cs["obl"], "cbs": [], "cfg": cfg, "diagnostic": err[-2000:]},
                       oracle_fails=False, key={"kind": "compile", "cls": cs["cls"]}, cfg=cfg)
    # ---- model verdicts: `pb clamp` lines for the probe class, def/at for everything else
    pb_lines, pb_idx = [], {}
    groups, gidx = [], {}
    parsed = {}
    for (k, cfg), res in outs.items():
        cs = cases[k]
        st = cs["stack"]
        sk, N, bare = st.in_kind()
        osk, M = st.out_kind()
        for j, (cb, o) in enumerate(zip(cs["cbs"], res)):
            po = G.parse_out(o, M, bare)
            parsed[(k, cfg, j)] = po
            if po is None:
                continue
            forms, extras = po
            if cs["cls"] == "nprobe":
                cnt = extras[0][1] if extras else 99
                key = (k, tuple(cb), tuple(forms[0]), cnt)
                if key not in pb_idx:
                    pb_idx[key] = len(pb_lines)
                    pb_lines.append(f"pb clamp {sk} {M} | {' '.join(map(str, st.lo_b))} | {' '.join(map(str, st.hi_b))} | "
                                    f"{' '.join(map(str, cb))} | {' '.join(map(str, forms[0]))} | {cnt}")
            else:
                q = tuple(extras[0][1:]) if extras and extras[0][0] == "q" else None
                key = (k, tuple(cb), tuple(forms[0]), q)
                if key not in gidx:
                    if k not in gidx:
                        gidx[k] = len(groups)
                        groups.append((st, []))
                    gidx[key] = len(groups[gidx[k]][1])
                    groups[gidx[k]][1].append((tuple(cb), tuple(forms[0]), q))
    pb_out = B.run_pb(pb_lines)
    verd = G.judge_model(groups)
    # ---- per case
    for (k, cfg), res in outs.items():
        cs = cases[k]
        st = cs["stack"]
        sk, N, bare = st.in_kind()
        osk, M = st.out_kind()
        obl, cls = cs["obl"], cs["cls"]
        for j, (cb, o) in enumerate(zip(cs["cbs"], res)):
            want, dele, nclamped = expect(cs, cb)
            corr.configs[cfg] += 1
            corr.case((st.desc(), cb, cfg), bool(nclamped))
            corr.dist[f"{cls}/{sk}/N{N}"] += 1
            corr.dist["clamped" if nclamped else "unclamped"] += 1
            cvals = B.vals(sk, cb)
            if any(G.is_inf(x) for x in cvals):
                corr.dist["with-infinity"] += 1
            cj = {"stack": st.to_json(), "cls": cls, "obl": obl, "cbs": [cb], "lo_b": st.lo_b, "hi_b": st.hi_b, "cfg": cfg}
            key = {"kind": cls, "stack": st.desc(), "coord": cb}
            where = f"field<{st.desc()[:170]}> at {[str(G.jv(x)) for x in cvals]} ({cfg})"
            po = parsed[(k, cfg, j)]
            if isinstance(want, tuple):
                # generator slip: the coordinate is outside the documented domain; not a test of the property
                corr.dist["skipped-out-of-domain"] += 1
                continue
            if po is None:
                corr.add_obl(obl, 1, 1)
                corr.violation(obl, f"{where}: lookup died: {o[:140]} (a clamped lookup must be safe for every coordinate)", cj, impl=o, model=want,
                               oracle_fails=True, key=key, cfg=cfg)
                continue
            forms, extras = po
            fail, dis, mv = None, False, None
            if cls == "nprobe":
                cnt = extras[0][1] if extras else 99
                mv = pb_out[pb_idx[(k, tuple(cb), tuple(forms[0]), cnt)]]
                dis = not mv.startswith("ok")
                for e in extras:
                    if e[1] != 1:
                        fail = f"the backend was queried {e[1]} times"
                    elif e[2:] != dele:
                        fail = f"the backend was queried at {e[2:]}, the component-wise clamp is {dele}"
            else:
                q = tuple(extras[0][1:]) if extras and extras[0][0] == "q" else None
                if want is None:
                    corr.dist["safety-only (inexact interpolation)"] += 1
                    corr.add_obl(obl, 1, 0)
                    continue
                mv = verd[gidx[k]][gidx[(k, tuple(cb), tuple(forms[0]), q)]]
                dis = mv != "ok"
                prim = st.layers()[-1]
                if isinstance(prim, G.Probe1):
                    for e in extras:
                        if list(e[1:]) != prim.trace:
                            fail = f"storage touched at flat indices {e[1:]}, the clamped coordinate maps to {prim.trace} (storage length {prim.n})"
            if fail is None:
                for f, nm in zip(forms, ("at(vector)", "at(c...)")):
                    if f != want:
                        fail = f"{nm} returned {f}; the value at the component-wise clamp {dele if dele else ''} is {want}"
                        break
            corr.add_obl(obl, 1, 1 if dis else 0)
            if fail:
                corr.violation(obl, f"{where}: {fail}", cj, impl=o, model=mv, oracle_fails=True, key=key, cfg=cfg)
            elif dis:
                corr.violation(obl, f"{where}: implementation {o[:100]}, model verdict {mv[:160]}", cj, impl=o, model=mv, oracle_fails=False, key=key, cfg=cfg)
            if len(corr.samples) < 12 and nclamped and (not corr.samples or corr.samples[-1]["cls"] != cls) and (cls != "identity" or G.isf(sk)):
                corr.sample({"cls": cls, "stack": st.desc()[:200], "coord": [str(G.jv(x)) for x in cvals], "impl": o, "oracle": want, "model": mv, "cfg": cfg})
    corr.violations.sort(key=lambda v: (not v["oracle_fails"], len(str(v["case"]["stack"]))))
    return corr


def run(ctx):
    corr = evaluate(ctx, gen(ctx), ["dbg", "isa", "rel"])
    from harness import narrowlib
    narrowlib.part(ctx, corr, "clamp", "clamp_value")      # 8- and 16-bit coordinate types, every value of the type
    from harness import ldlib
    ldlib.part(ctx, corr, ['clamp', 'nn'], "clamp_value")      # long double coordinates
    return corr


def replay(ctx):
    c = ctx.replay["case"]
    if c and c.get("op") == "longdouble":
        from vlib.framework import Corr as _Corr
        from harness import ldlib
        corr = _Corr()
        corr.add_obl("clamp_value")
        ldlib.part(ctx, corr, c["ops"], "clamp_value", cfgs=(c.get("cfg", "dbg"),))
        return corr
    if c and c.get("op") == "narrow":
        from vlib.framework import Corr as _Corr
        from harness import narrowlib
        corr = _Corr()
        corr.add_obl("clamp_value")
        narrowlib.part(ctx, corr, "clamp", "clamp_value", cfgs=(c.get("cfg", "dbg"),))
        return corr
    if not c or not c.get("stack"):
        return run(ctx)
    st = G.from_json(c["stack"])
    st.lo_b, st.hi_b = c.get("lo_b"), c.get("hi_b")
    return evaluate(ctx, [{"obl": c["obl"], "cls": c["cls"], "stack": st, "cbs": c["cbs"], "exact": True}], [c.get("cfg") or "dbg"])
