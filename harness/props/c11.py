"""C11 — out-of-range lookups return the default without touching the backend; in-range lookups return exactly the
backend's value (one query)."""
import random, re
from vlib import common as C
from vlib.framework import Corr
from harness import stackgen as G
from harness import boxlib as B

META = {
    "drivers": ["evalcheck"],
    "rule": "case = (stack type and configuration, coordinate bit patterns, build config); non-trivial when some component lies within "
            "one step (1 for integers, 1 ulp for floating coordinates) of a bound of the box",
    "trusted_base": ["the user-defined probe backends harness/cpp/nprobe.hpp (counts queries, echoes coordinate components) and probe.hpp "
                     "(records flat indices)"],
    "assumptions": ["NaN coordinates excluded (the property does)",
                    "array-backed stacks: the box lies inside the extents (inside the box the backend is queried, so the coordinate must be "
                    "in the backend's domain)"],
}


def near_bound(sk, lo, hi, cb):
    return any(x in (l, h, B.step(sk, l, 1), B.step(sk, l, -1), B.step(sk, h, 1), B.step(sk, h, -1)) for l, h, x in zip(lo, hi, cb))


def gen(ctx):
    rnd = random.Random(ctx.seed * 32452843 + 11)
    q = ctx.quick
    ncoord = 40 if q else 130
    cases = []
    for sk in B.ALL_SK:
        for N in (1, 2, 3, 4):
            for M in (1, 2, 3, 4):
                for b in range(1 if q else 6):
                    mode = rnd.choice(["small", "small", "degenerate", "wide", "extreme", "random"])
                    lo, hi = B.random_box(rnd, sk, N, mode=mode)
                    if rnd.random() < 0.08:
                        k = rnd.randrange(N)
                        lo[k], hi[k] = hi[k], lo[k]                      # inverted component: everything is outside
                    df = [B.random_scalar(rnd, sk) for _ in range(M)]
                    st = G.Backup(B.vals(sk, lo), B.vals(sk, hi), B.vals(sk, df), G.NProbe(sk, N, M))
                    st.lo_b, st.hi_b, st.df_b = lo, hi, df
                    cases.append({"cls": "nprobe", "stack": st, "cbs": B.coord_mix(rnd, sk, lo, hi, ncoord, inside_bias=0.5)})
    for N in (1, 2, 3, 4):
        for M in (1, 2, 3, 4):
            for b in range(2 if q else 8):
                sizes = [rnd.randrange(1, {1: 12, 2: 6, 3: 4, 4: 3}[N] + 1) for _ in range(N)]
                lo, hi = [], []
                for s in sizes:
                    a = rnd.randrange(0, s)
                    lo.append(a)
                    hi.append(rnd.randrange(a, s) if rnd.random() < 0.8 else a)
                if b % 2 == 0:
                    lo, hi = [0] * N, [s - 1 for s in sizes]
                for prim in ("array", "probe"):
                    vsk = ("f32", "f64")[(N + M + b) % 2]
                    if prim == "array":
                        arr = G.Array(vsk, M)
                        arr.setup(rnd, G.prod(sizes))
                    else:
                        arr = G.Probe1(vsk, M, G.prod(sizes))
                    df = [G.enc(vsk, rnd.randrange(-900, 901)) for _ in range(M)]
                    st = G.Backup(lo, hi, B.vals(vsk, df), G.Deref(G.Layout("strided", "u64", sizes, arr)))
                    st.lo_b, st.hi_b, st.df_b = [G.enc("u64", x) for x in lo], [G.enc("u64", x) for x in hi], df
                    cases.append({"cls": "deref-strided-" + prim, "stack": st, "cbs": B.coord_mix(rnd, "u64", st.lo_b, st.hi_b, ncoord, inside_bias=0.5)})
    # coordinate scalar and value scalar of DIFFERENT kinds (backup over the library's own constant backend): the range test
    # must be carried out on the coordinate as given — a test done after converting the coordinate to the value type would
    # round it (double -> float, int beyond 2^24 -> float, float -> int)
    pairs = [("f64", "f32"), ("i32", "f32"), ("u32", "f32"), ("i64", "f32"), ("u64", "f64"), ("f32", "i32"), ("f64", "i64"), ("f32", "u32")]
    for (sk, osk) in pairs:
        for N in (1, 2, 3):
            for b in range(1 if q else 5):
                M = rnd.choice([1, 2, 3, 4])
                mode = rnd.choice(["small", "small", "wide", "extreme"]) if sk not in ("f32", "f64") else rnd.choice(["small", "small", "random"])
                lo, hi = B.random_box(rnd, sk, N, mode=mode)
                if sk in ("i32", "u32", "i64", "u64") and rnd.random() < 0.6:
                    hi[0] = G.enc(sk, 2 ** 24 + rnd.choice([0, 2, 1000]))      # bounds where the float image of a neighbour collides
                    if G.dec(sk, lo[0]) > G.dec(sk, hi[0]):
                        lo[0] = G.enc(sk, 0)
                cval = [B.random_scalar(rnd, osk, finite=True) for _ in range(M)]
                df = [B.random_scalar(rnd, osk, finite=True) for _ in range(M)]
                if df == cval:
                    df[0] ^= 1
                st = G.Backup(B.vals(sk, lo), B.vals(sk, hi), B.vals(osk, df), G.Constant(sk, N, osk, M, B.vals(osk, cval)))
                st.lo_b, st.hi_b, st.df_b, st.const_b = lo, hi, df, cval
                cases.append({"cls": "constant-mixed", "stack": st, "cbs": B.coord_mix(rnd, sk, lo, hi, ncoord, inside_bias=0.5)})
    return cases


def evaluate(ctx, cases, cfgs):
    corr = Corr()
    corr.add_obl("backup_value")
    corr.add_obl("backup_queries")
    outs, failures = B.run_typed(ctx, cases, cfgs, "c11", per_tu=10)
    for idxs, cfg, err in failures:
        cs = cases[idxs[0]]
        corr.add_obl("backup_value", 1, 1)
        corr.violation("backup_value", f"the translation unit instantiating field<{cs['stack'].desc()[:160]}> does not compile ({cfg}): {C.first_diag(err)}",
                       {"stack": cs["stack"].to_json(), "cls": cs["cls"], "cbs": [], "cfg": cfg, "diagnostic": err[-2000:]},
                       oracle_fails=False, key={"kind": "compile", "cls": cs["cls"]}, cfg=cfg)
    pb_lines, pb_idx, groups, gidx, parsed = [], {}, [], {}, {}
    for (k, cfg), res in outs.items():
        cs = cases[k]
        st = cs["stack"]
        sk, N, bare = st.in_kind()
        osk, M = st.out_kind()
        for j, (cb, o) in enumerate(zip(cs["cbs"], res)):
            po = G.parse_out(o, M, bare)
            parsed[(k, cfg, j)] = po
            if po is None:
                continue
            forms, extras = po
            if cs["cls"] == "nprobe":
                cnt = extras[0][1] if extras else 99
                key = (k, tuple(cb), tuple(forms[0]), cnt)
                if key not in pb_idx:
                    pb_idx[key] = len(pb_lines)
                    j_ = lambda xs: " ".join(map(str, xs))
                    pb_lines.append(f"pb backup {sk} {M} | {j_(st.lo_b)} | {j_(st.hi_b)} | {j_(st.df_b)} | {j_(cb)} | {j_(forms[0])} | {cnt}")
            else:
                qq = tuple(extras[0][1:]) if extras and extras[0][0] == "q" else None
                key = (k, tuple(cb), tuple(forms[0]), qq)
                if key not in gidx:
                    if k not in gidx:
                        gidx[k] = len(groups)
                        groups.append((st, []))
                    gidx[key] = len(groups[gidx[k]][1])
                    groups[gidx[k]][1].append((tuple(cb), tuple(forms[0]), qq))
    pb_out = B.run_pb(pb_lines)
    verd = G.judge_model(groups)
    for (k, cfg), res in outs.items():
        cs = cases[k]
        st = cs["stack"]
        cls = cs["cls"]
        sk, N, bare = st.in_kind()
        osk, M = st.out_kind()
        prim = st.layers()[-1]
        for j, (cb, o) in enumerate(zip(cs["cbs"], res)):
            # ---- the property oracle, computed here on the bit patterns (independent of the Lean model)
            outside = any(B.outside_bits(sk, l, h, x) for l, h, x in zip(st.lo_b, st.hi_b, cb))
            if outside:
                want, wcount, wtrace = list(st.df_b), 0, []
            elif cls == "nprobe":
                want, wcount, wtrace = [cb[(t + 1) % N] for t in range(M)], 1, None
            elif cls == "constant-mixed":
                want, wcount, wtrace = list(st.const_b), 1, []
            else:
                c = [int(x) for x in B.vals(sk, cb)]
                idx = G.strided_idx(prim_sizes(st), c)
                wcount, wtrace = 1, [idx]
                want = [0] * M if isinstance(prim, G.Probe1) else [G.enc(osk, x) for x in prim.vals[idx * M:(idx + 1) * M]]
            nb = near_bound(sk, st.lo_b, st.hi_b, cb)
            corr.configs[cfg] += 1
            corr.case((st.desc(), cb, cfg), nb)
            corr.dist[f"{cls}/{sk}/N{N}/M{M}"] += 1
            corr.dist["outside (default)" if outside else "inside (backend value)"] += 1
            corr.dist["near-bound" if nb else "far-from-bounds"] += 1
            cvals = B.vals(sk, cb)
            cj = {"stack": st.to_json(), "cls": cls, "cbs": [cb], "lo_b": st.lo_b, "hi_b": st.hi_b, "df_b": st.df_b, "cfg": cfg}
            key = {"kind": cls, "stack": st.desc(), "coord": cb}
            where = f"field<{st.desc()[:170]}> at {[str(G.jv(x)) for x in cvals]} ({cfg}; {'outside' if outside else 'inside'} the box)"
            po = parsed[(k, cfg, j)]
            if po is None:
                corr.add_obl("backup_value", 1, 1)
                corr.violation("backup_value", f"{where}: lookup died: {o[:140]}", cj, impl=o, model=want, oracle_fails=True, key=key, cfg=cfg)
                continue
            forms, extras = po
            vfail = qfail = None
            for f, nm in zip(forms, ("at(vector)", "at(c...)")):
                if f != want:
                    vfail = f"{nm} returned {f}, expected {'the default' if outside else 'the backend value'} {want}"
                    break
            if cls == "nprobe":
                cnt = extras[0][1] if extras else 99
                mv = pb_out[pb_idx[(k, tuple(cb), tuple(forms[0]), cnt)]]
                vdis = mv.startswith("BAD model") or mv.startswith("ub") or mv.startswith("bad")
                mq = re.search(r"queries=(\d+)", mv)
                qdis = mv.startswith("BAD queries") or (mq is not None and int(mq.group(1)) != cnt)
                for e in extras:
                    if e[1] != wcount:
                        qfail = f"the backend was queried {e[1]} time(s), expected {wcount}"
                    elif wcount == 1 and e[2:] != cb:
                        qfail = f"the backend was queried at {e[2:]} instead of {cb}"
                has_q = True
            else:
                qq = tuple(extras[0][1:]) if extras and extras[0][0] == "q" else None
                mv = verd[gidx[k]][gidx[(k, tuple(cb), tuple(forms[0]), qq)]]
                vdis = mv != "ok" and not mv.startswith("BAD trace")
                qdis = mv.startswith("BAD trace")
                has_q = qq is not None
                for e in extras:
                    if list(e[1:]) != wtrace:
                        qfail = f"storage was touched at flat indices {e[1:]}, expected {wtrace}"
            corr.add_obl("backup_value", 1, 1 if vdis else 0)
            if has_q:
                corr.add_obl("backup_queries", 1, 1 if qdis else 0)
            if vfail:
                corr.violation("backup_value", f"{where}: {vfail}", cj, impl=o, model=mv, oracle_fails=True, key=key, cfg=cfg)
            elif vdis:
                corr.violation("backup_value", f"{where}: implementation {o[:100]}, model verdict {mv[:160]}", cj, impl=o, model=mv, oracle_fails=False, key=key, cfg=cfg)
            if qfail:
                corr.violation("backup_queries", f"{where}: {qfail}", cj, impl=o, model=mv, oracle_fails=True, key=key, cfg=cfg)
            elif qdis:
                corr.violation("backup_queries", f"{where}: implementation {o[:100]}, model verdict {mv[:160]}", cj, impl=o, model=mv, oracle_fails=False, key=key, cfg=cfg)
            if len(corr.samples) < 12 and nb and (not corr.samples or (corr.samples[-1]["cls"], corr.samples[-1]["outside"]) != (cls, outside)) and N != M:
                corr.sample({"cls": cls, "stack": st.desc()[:200], "coord": [str(G.jv(x)) for x in cvals], "outside": outside, "impl": o,
                             "oracle": {"value": want, "queries": wcount}, "model": mv, "cfg": cfg})
    corr.violations.sort(key=lambda v: (not v["oracle_fails"], len(str(v["case"]["stack"]))))
    return corr


def prim_sizes(st):
    return [l for l in st.layers() if isinstance(l, G.Layout)][0].sizes


def run(ctx):
    corr = evaluate(ctx, gen(ctx), ["dbg", "isa", "rel"])
    from harness import narrowlib
    narrowlib.part(ctx, corr, "backup", "backup_value")      # 8- and 16-bit coordinate types, every value of the type
    from harness import ldlib
    ldlib.part(ctx, corr, ['backup'], "backup_value")      # long double coordinates
    return corr


def replay(ctx):
    c = ctx.replay["case"]
    if c and c.get("op") == "longdouble":
        from vlib.framework import Corr as _Corr
        from harness import ldlib
        corr = _Corr()
        corr.add_obl("backup_value")
        ldlib.part(ctx, corr, c["ops"], "backup_value", cfgs=(c.get("cfg", "dbg"),))
        return corr
    if c and c.get("op") == "narrow":
        from vlib.framework import Corr as _Corr
        from harness import narrowlib
        corr = _Corr()
        corr.add_obl("backup_value")
        narrowlib.part(ctx, corr, "backup", "backup_value", cfgs=(c.get("cfg", "dbg"),))
        return corr
    if not c or not c.get("stack"):
        return run(ctx)
    st = G.from_json(c["stack"])
    st.lo_b, st.hi_b, st.df_b = c["lo_b"], c["hi_b"], c["df_b"]
    if c["cls"] == "constant-mixed":
        st.const_b = st.layers()[-1].cfg_words()
    return evaluate(ctx, [{"cls": c["cls"], "stack": st, "cbs": c["cbs"]}], [c.get("cfg") or "dbg"])
