"""C12 — fields stay independent values under any history of construct / write / copy / move / assign / convert /
dump-load / destroy.  Correspondence: `heap_harness.cpp` (real fields in std::optional slots, one build per family of two
field types) against the abstract value machine `Covfie.Heap.astep` run by the `heapcheck` driver (which also runs the
concrete ownership machine alongside and flags CONCRETE-DIFFERS).  Oracle on the implementation's own outputs: the frame
and value rules of a plain array (a write to slot i changes nothing else, a copy reads what its source held, ...)."""
import random
from concurrent.futures import ThreadPoolExecutor
from vlib import common as C
from vlib.framework import Corr

CPP = C.VERIF / "harness" / "cpp"
NS = 4
FAMS = {
    0: {"types": ["array<float1>", "array<float3>"], "N": 1, "conv": False},
    1: {"types": ["strided<size2,array<float1>>", "morton<size2,array<float1>>"], "N": 2, "conv": True},
    2: {"types": ["nearest_neighbour<strided<size2,array<float3>>>", "nearest_neighbour<morton<size2,array<float3>>>"], "N": 2, "conv": True},
    3: {"types": ["affine<linear<strided<size3,array<float3>>>>", "affine<linear<morton<size3,array<float3>>>>"], "N": 3, "conv": True},
}
# extents used by the exhaustive enumeration, per slot (different cell counts, so that assignments change sizes)
EXH_SZ = {0: [(2,), (3,), (1,)], 1: [(1, 2), (3, 1), (2, 2)], 2: [(2, 1), (1, 3), (2, 2)], 3: [(1, 2, 1), (3, 1, 1), (2, 2, 2)]}
KINDS = ["ctor", "dtor", "copyCtor", "moveCtor", "copyAssign", "moveAssign", "write", "convert", "dumpLoad"]

META = {
    "drivers": ["heapcheck", "impcheck"],
    "rule": "case = (family of field types, build config, operation list); one case per history and config; non-trivial when at least "
            "two operations changed the pool and at least one of them is a copy / move / assignment / conversion / dump-load. "
            "Exhaustive part: every well-typed history up to the tier's length whose first operation is a constructor "
            "(anything else is a no-op on an empty pool; thorough additionally fixes the first constructed slot to 0 by slot symmetry)",
    "trusted_base": ["the concrete machine keeps buffers in coordinate order: that a storage order is a bijection onto its buffer is C01/C05's "
                     "obligation, that a dump is read back bit-exactly is C06's; here conversion and dump/load are checked as value copies",
                     "AddressSanitizer / LeakSanitizer / UBSan runtimes and the ASan allocator statistics used to attribute a leak to a history",
                     "std::optional / std::stringstream of libstdc++"],
    "assumptions": ["programs do not read the cells of a moved-from field of non-zero size (conversion / dump of it dereferences a null "
                    "pointer; copying it is allowed and yields value-initialised cells, as the code does)",
                    "extents >= 1 for the wrapped types (plain arrays include size 0)",
                    "assignment, dump/load into an occupied slot only between fields of the same type (anything else does not compile)"],
}


def prod(xs):
    p = 1
    for x in xs:
        p *= x
    return p


# ------------------------------------------------------------------------------------------------ operations
def impl_line(op):
    k = op[0]
    if k == "ctor":
        return f"ctor {op[1]} {op[2]} {' '.join(map(str, op[3]))}"
    return " ".join(map(str, op))


def model_line(op):
    k = op[0]
    if k == "ctor":
        return f"ctor {op[1]} {prod(op[3])}"
    return " ".join(map(str, op))


def op_from_json(o):
    o = list(o)
    if o[0] == "ctor":
        o[3] = tuple(o[3])
    return tuple(o)


class Sim:
    """generator-side bookkeeping (type, cell count, moved-from) — only used to emit well-typed programs and to bias random
    histories towards enabled operations; the harness answers `badtype` if this is ever wrong"""

    def __init__(self, ns=NS):
        self.s = [None] * ns

    def copy(self):
        n = Sim(len(self.s)); n.s = list(self.s); return n

    def well_typed(self, op, conv):
        k = op[0]
        if k == "convert":
            return conv
        if k in ("copyAssign", "moveAssign"):
            d, s = self.s[op[1]], self.s[op[2]]
            return not (d and s and d[0] != s[0])
        if k == "dumpLoad":
            d, s = self.s[op[1]], self.s[op[2]]
            return not (d and s and not s[2] and d[0] != s[0])
        return True

    def enabled(self, op):
        k = op[0]; S = self.s
        if k == "ctor":
            return S[op[1]] is None
        if k == "dtor":
            return S[op[1]] is not None
        if k == "write":
            return S[op[1]] is not None and not S[op[1]][2] and op[2] < S[op[1]][1]
        d, s = S[op[1]], S[op[2]]
        if k in ("copyCtor", "moveCtor"):
            return d is None and s is not None
        if k in ("copyAssign", "moveAssign"):
            return d is not None and s is not None and op[1] != op[2]
        if k == "convert":
            return d is None and s is not None and not s[2]
        if k == "dumpLoad":
            return s is not None and not s[2]
        return False

    def step(self, op):
        if not self.enabled(op):
            return
        k = op[0]; S = self.s
        if k == "ctor":
            S[op[1]] = (op[2], prod(op[3]), False)
        elif k == "dtor":
            S[op[1]] = None
        elif k == "copyCtor":
            S[op[1]] = (S[op[2]][0], S[op[2]][1], False)
        elif k in ("moveCtor", "moveAssign"):
            s = S[op[2]]
            S[op[1]] = s
            S[op[2]] = (s[0], s[1], s[2] or s[1] > 0)
        elif k == "copyAssign":
            S[op[1]] = (S[op[2]][0], S[op[2]][1], False)
        elif k == "convert":
            S[op[1]] = (1 - S[op[2]][0], S[op[2]][1], False)
        elif k == "dumpLoad":
            S[op[1]] = (S[op[2]][0], S[op[2]][1], False)


def alphabet(fam, nslots):
    conv = FAMS[fam]["conv"]
    ops = []
    for i in range(nslots):
        for T in (0, 1):
            ops.append(("ctor", i, T, EXH_SZ[fam][i]))
        ops.append(("dtor", i))
        for k in (0, 1):
            ops.append(("write", i, k, None))
    for d in range(nslots):
        for s in range(nslots):
            if d != s:
                ops.append(("copyCtor", d, s)); ops.append(("moveCtor", d, s))
                if conv:
                    ops.append(("convert", d, s))
            ops.append(("copyAssign", d, s)); ops.append(("moveAssign", d, s)); ops.append(("dumpLoad", d, s))
    return ops


def exhaustive(fam, nslots, maxlen, first_slot0):
    """every well-typed history of length <= maxlen whose first operation is a constructor"""
    al = alphabet(fam, nslots)
    conv = FAMS[fam]["conv"]
    out = []

    def rec(pre, sim):
        if pre:
            out.append(tuple(pre))
        if len(pre) == maxlen:
            return
        for op in al:
            if not pre and (op[0] != "ctor" or (first_slot0 and op[1] != 0)):
                continue
            if not sim.well_typed(op, conv):
                continue
            if op[0] == "write":
                op = ("write", op[1], op[2], 1 + len(pre))
            s2 = sim.copy(); s2.step(op)
            pre.append(op); rec(pre, s2); pre.pop()
    rec([], Sim(nslots))
    return out


def random_history(rnd, fam, length, nslots=NS):
    """mostly enabled operations (so that the pool really evolves), some no-ops / out-of-range writes / self-assignments"""
    conv = FAMS[fam]["conv"]; N = FAMS[fam]["N"]
    sim = Sim(nslots); ops = []
    weights = {"ctor": 3, "dtor": 1, "copyCtor": 2, "moveCtor": 2, "copyAssign": 3, "moveAssign": 3, "write": 5, "convert": 2, "dumpLoad": 2}
    if not conv:
        del weights["convert"]
    while len(ops) < length:
        cands = {k: [] for k in weights}
        for a in range(nslots):
            if fam == 0:
                sz = (rnd.choice([0, 1, 2, 3, 5]),)
            else:
                sz = tuple(rnd.choice([1, 2, 3]) for _ in range(N))
            if rnd.random() < 0.04:
                # now and then a field with a few hundred cells (block-wise readers / bulk copies must not depend on size)
                sz = (rnd.choice([90, 200, 345]),) if fam == 0 else tuple(rnd.choice([5, 6, 7, 9]) for _ in range(N))
            cands["ctor"].append(("ctor", a, rnd.randrange(2), sz))
            cands["dtor"].append(("dtor", a))
            n = sim.s[a][1] if sim.s[a] else 3
            cands["write"].append(("write", a, rnd.randrange(n + 1) if rnd.random() < 0.1 else rnd.randrange(max(n, 1)), 1 + len(ops)))
            for b in range(nslots):
                for k in ("copyCtor", "moveCtor", "copyAssign", "moveAssign", "convert", "dumpLoad"):
                    if k in weights:
                        cands[k].append((k, a, b))
        typed = {k: [o for o in v if sim.well_typed(o, conv)] for k, v in cands.items()}
        if rnd.random() < 0.9:
            selfs = rnd.random() < 0.25
            live = {k: [o for o in v if sim.enabled(o) or (selfs and k in ("copyAssign", "moveAssign") and o[1] == o[2] and sim.s[o[1]])]
                    for k, v in typed.items()}
            live = {k: v for k, v in live.items() if v}
            pool = live or typed
        else:
            pool = {k: v for k, v in typed.items() if v}
        ks = sorted(pool)
        k = rnd.choices(ks, weights=[weights[x] for x in ks])[0]
        op = rnd.choice(pool[k])
        sim.step(op); ops.append(op)
    return tuple(ops)


# ------------------------------------------------------------------------------------------------ oracle on impl outputs
def parse_state(line):
    """`live[..]x` / `movedN` / `-` per slot -> list of None | ('moved', n) | ('live', cells, extra)"""
    st = []
    for t in line.split(" "):
        if t == "-":
            st.append(None)
        elif t.startswith("moved"):
            st.append(("moved", int(t[5:])))
        elif t.startswith("live["):
            body, _, extra = t[5:].partition("]")
            st.append(("live", tuple(body.split(",")) if body else (), extra))
        else:
            raise ValueError(t)
    return st


def plain(v):
    return None if v is None else (v[0], v[1])


def copy_of(v):
    return ("live", ("0",) * v[1]) if v[0] == "moved" else ("live", v[1])


def moved_of(v):
    n = v[1] if v[0] == "moved" else len(v[1])
    return ("moved", n) if n > 0 else ("live", ())


def plain_array_step(prev, op):
    """the same operation on plain arrays, applied to what the implementation itself showed before the operation"""
    st = [plain(v) for v in prev]
    k = op[0]
    if k == "ctor":
        if st[op[1]] is None:
            st[op[1]] = ("live", ("0",) * prod(op[3]))
    elif k == "dtor":
        st[op[1]] = None
    elif k == "write":
        v = st[op[1]]
        if v and v[0] == "live" and op[2] < len(v[1]):
            c = list(v[1]); c[op[2]] = str(op[3]); st[op[1]] = ("live", tuple(c))
    else:
        d, s = op[1], op[2]
        if k == "copyCtor":
            if st[d] is None and st[s] is not None:
                st[d] = copy_of(st[s])
        elif k == "moveCtor":
            if st[d] is None and st[s] is not None:
                st[d] = st[s]; st[s] = moved_of(st[s])
        elif k == "copyAssign":
            if st[d] is not None and st[s] is not None and d != s:
                st[d] = copy_of(st[s])
        elif k == "moveAssign":
            if st[d] is not None and st[s] is not None and d != s:
                st[d] = st[s]; st[s] = moved_of(st[s])
        elif k == "convert":
            if st[d] is None and st[s] is not None and st[s][0] == "live":
                st[d] = st[s]
        elif k == "dumpLoad":
            if st[s] is not None and st[s][0] == "live":
                st[d] = st[s]
    return st


def show(v):
    if v is None:
        return "-"
    return f"moved{v[1]}" if v[0] == "moved" else "live[" + ",".join(v[1]) + "]"


def oracle(prev, op, cur):
    for j, v in enumerate(cur):
        if v and v[0] == "live":
            if v[2]:
                return f"slot {j}: {'the affine matrix changed' if v[2] == '!matrix' else 'a lookup through the whole stack disagrees with the stored cell'} after `{impl_line(op)}`"
            if any(c.startswith("x") for c in v[1]):
                return f"slot {j} reads a value nobody wrote ({show(v)}) after `{impl_line(op)}`"
    exp = plain_array_step(prev, op)
    k = op[0]
    for j in range(len(cur)):
        if plain(cur[j]) == exp[j]:
            continue
        got, want = show(cur[j]), show(exp[j])
        if k == "write":
            if j != op[1]:
                return f"a write to slot {op[1]} changed what slot {j} reads: {show(prev[j])} -> {got}"
            return f"write of {op[3]} at cell {op[2]} of slot {j}: reads {got} afterwards, expected {want}"
        if k in ("ctor", "dtor"):
            return f"`{impl_line(op)}`: slot {j} reads {got}, expected {want}"
        d, s = op[1], op[2]
        if j == d and d == s:
            return f"self-`{k}` changed slot {j}: {show(prev[j])} -> {got}"
        if j == d:
            return f"slot {d} after `{impl_line(op)}` reads {got}; its source held {show(prev[s])}"
        if j == s:
            return f"`{impl_line(op)}` changed its source: {show(prev[j])} -> {got}, expected {want}"
        return f"`{impl_line(op)}` changed the unrelated slot {j}: {show(prev[j])} -> {got}"
    return None


def judge(ops, outs, mouts):
    """outs / mouts: answers for the operations followed by the answer of the closing `reset`"""
    r = {"oracle": None, "differs": None, "san": None, "model_bad": None, "gen_bad": None, "effective": 0, "owner_ops": 0}
    prev = [None] * NS
    mprev = None
    for k, op in enumerate(ops):
        o, m = (outs[k] if k < len(outs) else "CRASH missing-answer"), mouts[k]
        if "CONCRETE-DIFFERS" in m or m == "bad-op":
            r["model_bad"] = (k, m)
        if m != mprev and mprev is not None or (mprev is None and m != "- - - -"):
            r["effective"] += 1
            if op[0] not in ("ctor", "dtor", "write"):
                r["owner_ops"] += 1
        mprev = m
        if o.startswith("CRASH"):
            r["san"] = (k, o[6:])
            return r
        if o in ("badtype", "bad-op"):
            r["gen_bad"] = (k, o)
            return r
        try:
            cur = parse_state(o)
        except Exception:
            r["oracle"] = (k, f"unparsable answer `{o[:80]}`")
            return r
        if r["oracle"] is None:
            msg = oracle(prev, op, cur)
            if msg:
                r["oracle"] = (k, msg)
        if r["differs"] is None and o != m.replace(" CONCRETE-DIFFERS", ""):
            r["differs"] = (k, o, m)
        prev = cur
    e = outs[len(ops)] if len(ops) < len(outs) else "CRASH missing-answer"
    if e.startswith("CRASH"):
        r["san"] = (len(ops), e[6:])
    elif e != "reset":
        r["san"] = (len(ops), "leak: " + e.split()[-1] + " bytes still allocated after destroying all slots" if e.startswith("reset LEAK") else "bad reset answer " + e)
    return r


# ------------------------------------------------------------------------------------------------ running
def build(ctx, fams, cfgs):
    jobs, keys = [], []
    for f in fams:
        for cfg in cfgs:
            keys.append((f, cfg)); jobs.append((CPP / "heap_harness.cpp", ctx.work.path(f"heap{f}_{cfg}"), cfg, [f"-DFAM={f}", f"-DNSLOT={NS}"]))
    res = C.compile_many(jobs)
    exes = {}
    for k, j, (rc, err) in zip(keys, jobs, res):
        if rc != 0:
            raise C.CompileError(j[0], j[2], err)
        exes[k] = j[1]
    return exes


def flatten(hists, f):
    lines = []
    for ops in hists:
        lines.extend(f(op) for op in ops)
        lines.append("reset")
    return lines


CRASH_CAP = 25


def run_histories(exe, hist_lines, timeout_per_line=0.002, min_timeout=120):
    """Crash isolation per history: the harness runs the histories back to back (each closed by `reset`); when it dies, the
    history it died in gets the answers it produced followed by `CRASH <class>`, and a fresh process continues with the
    *next* history. Returns a list (per history) of answer lists, or None for histories not run (crash cap reached)."""
    n = len(hist_lines)
    res = [None] * n
    pos = 0
    crashes = 0
    while pos < n:
        if crashes >= CRASH_CAP:
            break
        chunk = hist_lines[pos:]
        inp = "reset\n" + "".join("\n".join(h) + "\n" for h in chunk)
        nl = 1 + sum(len(h) for h in chunk)
        rc, so, se = C.sh([str(exe)], max(min_timeout, timeout_per_line * nl), input=inp)
        got = so.splitlines()[1:]
        p = 0
        done = True
        for i, h in enumerate(chunk):
            if p + len(h) <= len(got):
                res[pos + i] = got[p:p + len(h)]
                p += len(h)
                continue
            # the harness stopped inside this history
            cls = C.classify_death(rc, se) if rc != 0 else "short-output"
            if cls.startswith("asan:?") and "LeakSanitizer" in se:
                cls = "lsan:leak"
            res[pos + i] = got[p:] + ["CRASH " + cls]
            pos = pos + i + 1
            crashes += 1
            done = False
            break
        if done:
            if rc != 0 and not any(g.startswith("reset LEAK") for g in got):
                # every line was answered but the process still failed: a report at exit (LeakSanitizer) that no
                # history's own leak check saw; charge it to the last history of the batch
                cls = "lsan:leak" if "LeakSanitizer" in se else C.classify_death(rc, se)
                res[n - 1] = res[n - 1][:-1] + ["CRASH " + cls + " (reported at process exit)"]
            break
    return res


def run_chunk(exes, fam, cfgs, hists):
    """-> (model answers per history, {cfg: answers per history (None = not run)})"""
    mo = C.run_driver("heapcheck", ["reset"] + flatten(hists, model_line), timeout_per_line=0.002, min_timeout=120)[1:]
    hl = [[impl_line(op) for op in ops] + ["reset"] for ops in hists]
    res = {cfg: run_histories(exes[(fam, cfg)], hl) for cfg in cfgs}
    out, p = [], 0
    for ops in hists:
        out.append(mo[p:p + len(ops) + 1]); p += len(ops) + 1
    return out, res


def fails_like(exes, fam, cfg, ops, want):
    """does this operation list still fail in the same way (shrinking predicate)?"""
    try:
        mo, res = run_chunk(exes, fam, [cfg], [ops])
    except RuntimeError:
        return None
    if res[cfg][0] is None:
        return None
    r = judge(ops, res[cfg][0], mo[0])
    if want == "san":
        return r if r["san"] else None
    if want == "oracle":
        return r if (r["oracle"] or r["san"]) else None
    return r if (r["differs"] or r["oracle"] or r["san"]) else None


def ddmin(ops, test):
    """delta debugging on the operation list"""
    ops = list(ops)
    n = 2
    budget = 250
    while len(ops) >= 2 and budget > 0:
        chunk = max(1, len(ops) // n)
        reduced = False
        for start in range(0, len(ops), chunk):
            cand = ops[:start] + ops[start + chunk:]
            budget -= 1
            if cand and test(cand):
                ops = cand; n = max(n - 1, 2); reduced = True
                break
            if budget <= 0:
                break
        if not reduced:
            if chunk == 1:
                break
            n = min(len(ops), n * 2)
    return ops


def evaluate(ctx, plan, cfgs, shrink=True):
    """plan: list of (fam, source tag, [histories])"""
    corr = Corr()
    for o in ("history_values", "history_sanitizer"):
        corr.add_obl(o)
    fams = sorted({f for f, _, _ in plan})
    exes = build(ctx, fams, cfgs)
    CH = 4000
    tasks = []
    for fam, tag, hists in plan:
        for a in range(0, len(hists), CH):
            tasks.append((fam, tag, hists[a:a + CH]))
    found = []          # (len, fam, cfg, ops, kind, judge result)
    skipped = [0]
    model_bad = []

    def work(t):
        fam, tag, hs = t
        return t, run_chunk(exes, fam, cfgs, hs)
    with ThreadPoolExecutor(max_workers=max(2, C.NCPU // 2)) as ex:
        for (fam, tag, hs), (mo, res) in ex.map(work, tasks):
            for cfg in cfgs:
                for ops, outs, m in zip(hs, res[cfg], mo):
                    if outs is None:
                        skipped[0] += 1
                        continue
                    r = judge(ops, outs, m)
                    corr.configs[cfg] += 1
                    corr.case((fam, cfg, [impl_line(o) for o in ops]), r["effective"] >= 2 and r["owner_ops"] >= 1)
                    bad_v = bool(r["differs"] or r["oracle"] or r["gen_bad"] or r["model_bad"])
                    corr.add_obl("history_values", 1, 1 if bad_v else 0)
                    corr.add_obl("history_sanitizer", 1, 1 if r["san"] else 0)
                    if cfg == cfgs[0]:
                        corr.dist[f"fam{fam}/{tag}/len{len(ops) if len(ops) < 5 else '>=5'}"] += 1
                        for o in ops:
                            corr.dist[f"op/{o[0]}" + ("/self" if o[0] in ("copyAssign", "moveAssign", "dumpLoad") and o[1] == o[2] else "")] += 1
                        if len(corr.samples) < 10 and r["owner_ops"] >= 2 and len(outs) > len(ops) and (not corr.samples or corr.samples[-1]["fam"] != fam or len(ops) > 6 and len(corr.samples) < 6):
                            corr.sample({"fam": fam, "types": FAMS[fam]["types"], "cfg": cfg, "ops": [impl_line(o) for o in ops],
                                         "impl_last": outs[len(ops) - 1], "model_last": m[len(ops) - 1]})
                    if r["model_bad"]:
                        model_bad.append((fam, ops, r["model_bad"]))
                    if r["san"] or r["oracle"] or r["differs"] or r["gen_bad"]:
                        kind = "san" if r["san"] else "oracle" if r["oracle"] else "differs"
                        found.append((len(ops), fam, cfg, ops, kind, r))
    # ---- report: smallest first, shrink the best few per obligation
    found.sort(key=lambda x: (x[0], x[1], x[2], [impl_line(o) for o in x[3]]))
    shrunk = {"san": 0, "oracle": 0, "differs": 0}
    for (n, fam, cfg, ops, kind, r) in found[:400]:
        if shrink and shrunk[kind] < 3 and not r["gen_bad"]:
            shrunk[kind] += 1
            small = ddmin(ops, lambda cand: fails_like(exes, fam, cfg, tuple(cand), kind))
            r2 = fails_like(exes, fam, cfg, tuple(small), kind)
            if r2:
                ops, r = tuple(small), r2
                kind = "san" if r["san"] else "oracle" if r["oracle"] else "differs"
        lines = [impl_line(o) for o in ops]
        cj = {"fam": fam, "types": FAMS[fam]["types"], "cfg": cfg, "ops": [list(o) for o in ops], "lines": lines}
        key = {"fam": fam, "ops": "; ".join(lines)}
        if r["san"]:
            k, cls = r["san"]
            at = f"at operation {k + 1} (`{lines[k]}`)" if k < len(ops) else "(closing destruction of all slots)"
            corr.violation("history_sanitizer", f"{FAMS[fam]['types']} [{cfg}] history `{'; '.join(lines)}`: {cls} {at}", cj, impl=cls,
                           model="no report", oracle_fails=True, key=dict(key, kind="sanitizer", cls=cls.split(":")[0]), cfg=cfg)
        elif r["gen_bad"]:
            corr.violation("history_values", f"harness rejected a generated operation ({r['gen_bad'][1]}) in `{'; '.join(lines)}` — generator/harness bug",
                           cj, impl=r["gen_bad"][1], oracle_fails=False, key=dict(key, kind="generator"), cfg=cfg)
        elif r["oracle"]:
            k, msg = r["oracle"]
            corr.violation("history_values", f"{FAMS[fam]['types']} [{cfg}] history `{'; '.join(lines[:k + 1])}`: {msg}", cj,
                           impl=(r["differs"] or (None, None, None))[1], model=(r["differs"] or (None, None, None))[2], oracle_fails=True,
                           key=dict(key, kind="values"), cfg=cfg)
        else:
            k, o, m = r["differs"]
            corr.violation("history_values", f"{FAMS[fam]['types']} [{cfg}] history `{'; '.join(lines[:k + 1])}`: implementation shows `{o}`, value model `{m}`",
                           cj, impl=o, model=m, oracle_fails=False, key=dict(key, kind="values"), cfg=cfg)
    for fam, ops, (k, m) in model_bad[:3]:
        lines = [impl_line(o) for o in ops]
        corr.violation("history_values", f"the concrete ownership machine left the value model on `{'; '.join(lines)}`: {m} (model defect)",
                       {"fam": fam, "cfg": cfgs[0], "ops": [list(o) for o in ops], "lines": lines}, model=m, oracle_fails=False,
                       key={"kind": "model", "ops": "; ".join(lines)})
    corr.violations.sort(key=lambda v: (not v["oracle_fails"], len(v["case"].get("ops", []))))
    corr.info["families"] = {str(f): FAMS[f]["types"] for f in fams}
    corr.info["failing_histories_seen"] = len(found)
    if skipped[0]:
        corr.info["histories_not_run_after_crash_cap"] = skipped[0]
        corr.notes.append(f"{skipped[0]} histories were not run: a batch is abandoned after {CRASH_CAP} crashes (the crashes found are reported)")
    return corr


def run(ctx):
    rnd = random.Random(ctx.seed * 104729 + 12)
    plan = []
    # the tie through translation (DESIGN.md §11.6): the copy members of array::owning_data_t as written are the scripts the theorems
    # `Covfie.Heap.copy_*_translated` are about; if their text (or the class's members / defaulted moves) changed, the thorough
    # tier's histories run
    from harness import translib as T
    tie = T.Tie(ctx, list(T.OWN))
    if ctx.quick and not tie.changed():
        for fam in (0, 1):
            plan.append((fam, "exhaustive", exhaustive(fam, 3, 3, False)))
        for fam in (2, 3):
            plan.append((fam, "exhaustive", exhaustive(fam, 2, 3, False)))
        for fam in (0, 1, 2, 3):
            plan.append((fam, "random", [random_history(rnd, fam, 20) for _ in range(250)]))
        cfgs = ["dbg", "rel"]
    else:
        for fam in (0, 1):
            plan.append((fam, "exhaustive", exhaustive(fam, 3, 4, True)))
        for fam in (2, 3):
            plan.append((fam, "exhaustive", exhaustive(fam, 2, 3, False)))
        for fam in (0, 1, 2, 3):
            plan.append((fam, "random", [random_history(rnd, fam, 50) for _ in range(5000)]))
        cfgs = ["dbg", "rel"]
    corr = evaluate(ctx, plan, cfgs)
    tie.merge(corr)
    if ctx.quick and tie.changed():
        corr.info["deepened"] = True
    corr.notes.append("exhaustive part: every well-typed history up to the tier's length over the listed slots / types / operation kinds "
                      "(first operation a constructor); random part seeded; every history ends by destroying all slots (leak check)")
    return corr


def replay(ctx):
    c = ctx.replay["case"]
    ops = tuple(op_from_json(o) for o in c["ops"])
    return evaluate(ctx, [(int(c["fam"]), "replay", [ops])], [c.get("cfg") or "dbg"], shrink=False)
