"""C13 — every well-kinded composition supports the whole field API; ill-kinded ones are rejected at compile time.
The model side is the Lean kind system (Covfie.Kinds, through the `kindcheck` driver); the implementation side is g++'s
verdict on generated translation units (compile matrix) and sizeof(non_owning_data_t) printed by a generated program."""
import random, re, collections
from vlib import common as C
from vlib.framework import Corr
from harness import kindgen as K

META = {
    "drivers": ["kindcheck"],
    "rule": "case = (stack, API operation[, source stack of a conversion]); a well-kinded stack's operations are compiled together in "
            "one translation unit (accepted => every operation accepted; rejected => split into one TU per operation), expected "
            "rejections are compiled one TU per (stack, operation); non-trivial: the stack has >= 2 layers; "
            "view_size cases: (stack), non-trivial when >= 2 layers",
    "trusted_base": ["g++ -fsyntax-only performs the same template instantiation and semantic checks as a full compilation",
                     "C++ overload resolution / SFINAE / concept checking are modelled by per-layer tables (Covfie.Kinds), not verified",
                     "the shape propagation used to write down configuration expressions (harness/kindgen.py)"],
    "assumptions": ["portable build (no -mbmi2) for the accept/reject matrix; the BMI2 path of morton is compiled and run by C01/C05/C14",
                    "x86-64 System V layout for sizeof(non_owning_data_t)",
                    "cuda_device_array is outside the matrix (no CUDA toolkit); see notes"],
}
C.CONFIGS.setdefault("plain", ["-O0"])

# first diagnostic expected for each stated-kind violation (a rejection for another reason is reported as a disagreement)
DIAG = {
    "zeroDimension": r"constraint|_size > 0|zero",
    "hilbertNeeds2D": r"Number of dimensions for input must be exactly two",
    "interpNeedsFloatCoordinate": r"contravariant input must have a\s*floating point scalar type",
    "linearNeedsFloatValues": r"covariant input must have a\s*floating point scalar type",
    "interpDimMismatch": r"same size as the backend contravariant",
    "coordinateMustBeVector": r"subscripted value is neither array nor pointer|request for member .at. in|is of non-class type",
    "shuffleArity": r"could not convert|no matching function|too many initializers",
    "mortonNeedsIntegerCoordinate": r"invalid operands of types",
    "viewTooLarge": r"Storage type is too large",
    "notConvertible": r"no matching function|cannot convert|could not convert",
}

A3 = K.St("array", ("f32", 3))
S3 = K.St("strided", ("u64", 3), A3)
S2 = K.St("strided", ("u64", 2), K.St("array", ("f32", 3)))


def deep_view():
    """a perfectly well-kinded stack whose view exceeds field_view's 256 bytes"""
    s = S3
    for _ in range(4):
        s = K.St("backup", (), K.St("clamp", (), s))
    return s


def catalogue():
    """(name, stack): one entry per stated kind (static_assert / constraint / structural requirement) that is violated"""
    L = lambda sk, n, b: K.St("linear", (sk, n), b)
    N = lambda sk, n, b: K.St("nn", (sk, n), b)
    return [
        ("linear:assert1 non-float coordinate", L("u64", 3, S3)),
        ("linear:assert2 non-float values", L("f32", 3, K.St("identity", ("u64", 3)))),
        ("linear:assert2 non-float values (int array)", L("f32", 2, K.St("strided", ("u64", 2), K.St("array", ("i32", 2))))),
        ("linear:assert3 dimension mismatch", L("f32", 2, S3)),
        ("nn:assert1 non-float coordinate", N("i32", 3, S3)),
        ("nn:assert2 dimension mismatch", N("f32", 2, S3)),
        ("nn:assert2 dimension mismatch (1 over 3)", N("f64", 1, S3)),
        ("hilbert:assert 3-D", K.St("hilbert", ("u64", 3), A3)),
        ("hilbert:assert 1-D", K.St("hilbert", ("u64", 1), A3)),
        ("array: zero-sized output vector", K.St("array", ("f32", 0))),
        ("strided: zero-dimensional coordinate", K.St("strided", ("u64", 0), A3)),
        ("constant: zero-dimensional input", K.St("constant", ("f32", 0, "f32", 3))),
        ("identity: zero-dimensional", K.St("identity", ("f32", 0))),
        ("field_view: view larger than 256 bytes", deep_view()),
        ("clamp over bare-scalar coordinate", K.St("clamp", (), A3)),
        ("backup over bare-scalar coordinate", K.St("backup", (), A3)),
        ("affine over bare-scalar coordinate", K.St("affine", (), A3)),
        ("shuffle over bare-scalar coordinate", K.St("shuffle", (0,), A3)),
        ("nn over bare-scalar coordinate", N("f32", 1, A3)),
        ("clamp over cast over bare array", K.St("clamp", (), K.St("cast", ("f64",), A3))),
        ("shuffle arity too small", K.St("shuffle", (0, 1), S3)),
        ("shuffle arity too large", K.St("shuffle", (0, 1, 2, 0), S3)),
        ("morton<false> float coordinate", K.St("mortonF", ("f32", 2), A3)),
        ("morton<true> float coordinate (portable build)", K.St("mortonT", ("f64", 3), A3)),
        ("ill-kinded below a well-formed wrapper", K.St("affine", (), L("f32", 3, K.St("clamp", (), K.St("shuffle", (0, 1), S3))))),
        ("declared violation below wrappers", K.St("deref", (), K.St("clamp", (), K.St("hilbert", ("u64", 3), A3)))),
    ]


# violations of stated kinds that the Lean stack grammar cannot express (scalars that are not arithmetic types): the expected
# verdict is fixed here, not asked of the model
RAW = [
    ("identity:assert2 scalar not constructible from itself",
     "struct nocopy { nocopy() = default; nocopy(const nocopy &) = delete; nocopy(float) {} operator float() const { return 0.f; } };\n"
     "using B = covfie::backend::identity<covfie::vector::vector_d<nocopy, 2>>;\n"
     "static_assert(covfie::concepts::field_backend<B>);\nusing O = typename B::owning_data_t;\n",
     r"Identity backend requires type of input to be convertible"),
]


def conv_negative():
    """(name, dst, src): conversions between compositions that are not compatible must be rejected"""
    M = lambda l, sk, n, arr=A3: K.St(l, (sk, n), arr)
    lin = lambda sk, b: K.St("linear", (sk, b.shape()[1]), b)
    return [
        ("different coordinate scalar", M("strided", "u32", 2), M("mortonF", "u64", 2)),
        ("different coordinate scalar (to morton)", M("mortonT", "u64", 2), M("strided", "i32", 2)),
        ("different dimension", M("strided", "u64", 2), M("mortonF", "u64", 3)),
        ("wrapper without converting constructor (clamp)", K.St("clamp", (), M("strided", "u64", 2)), K.St("clamp", (), M("mortonF", "u64", 2))),
        ("wrapper without converting constructor (backup)", K.St("backup", (), M("strided", "u64", 2)), K.St("backup", (), M("hilbert", "u64", 2))),
        ("affine with another coordinate precision", K.St("affine", (), lin("f32", M("strided", "u64", 2))),
         K.St("affine", (), lin("f64", M("strided", "u64", 2)))),
        ("layout not over array", M("strided", "u64", 3, K.St("constant", ("u64", 1, "f32", 3))), M("mortonF", "u64", 3, K.St("constant", ("u64", 1, "f32", 3)))),
    ]


# ------------------------------------------------------------------------------------------------- generation
def kclass(kind):
    """what a layer's rules (Covfie.Kinds.layerKind / layerLookup) and its templates can tell apart in the kind beneath:
    float-vs-integer coordinate, coordinate dimension, bare-vs-vector, float-vs-integer values, reference-vs-value"""
    isk, idim, bare, osk, odim, ref = kind
    return (isk[0] == "f", idim, bare, osk[0] == "f", ref)


def oclass(s):
    """outer layer up to its scalar / dimension parameters"""
    return s.tag


def gen(ctx):
    rnd = random.Random(ctx.seed * 104729 + 13)
    notes = []
    verdict = {}

    def ask(stacks):
        new = [x for x in dict.fromkeys(stacks) if x not in verdict]
        for x, v in zip(new, K.model(new)):
            verdict[x] = v

    ok = lambda x: verdict[x].well_kinded and verdict[x].view_fits and verdict[x].stated
    prims = K.prims(True)
    ask(prims)
    # ---- well-kinded stacks by depth (base parameter set), breadth first to depth 3
    levels = {1: [p for p in K.prims(False) if ok(p)]}
    cands = {}
    for d in (2, 3):
        cands[d] = [w for c in levels[d - 1] for w in K.wrappers(c, False)]
        ask(cands[d])
        levels[d] = [x for x in cands[d] if ok(x)]
    # ---- adjacency basis: for every (outer layer, class of the kind beneath) one stack, drawn at random among those found
    # (quick: coarse classes; thorough: additionally one per full kind)
    def basis(keyf):
        groups = collections.OrderedDict()
        for d in (2, 3):
            for x in cands[d]:
                groups.setdefault(keyf(x), []).append(x)
        return groups
    coarse = basis(lambda x: (oclass(x), kclass(verdict[x.child].kind), ok(x)))
    chosen = []
    for key, xs in coarse.items():
        if key[2]:
            chosen.append(rnd.choice(xs))
        else:
            # ill-kinded adjacencies turn up by themselves (clamp over array, hilbert with 3 dimensions, ...): keep the shallowest
            chosen.append(min(xs, key=lambda x: x.depth()))
    if not ctx.quick:
        fine = basis(lambda x: (x.tag, x.params if x.tag != "shuffle" else len(x.params), verdict[x.child].kind, ok(x)))
        for key, xs in fine.items():
            chosen.append(rnd.choice(xs) if key[-1] else min(xs, key=lambda x: x.depth()))
        notes.append(f"{len(coarse)} coarse and {len(fine)} full-kind adjacencies")
        # random sample of the depth-3 enumeration, then random walks to depth 4-5 with the rich parameter set; the walk
        # consults the model (kind, lookup, viewSize) before a stack is emitted as well-kinded
        pool = levels[3][:]
        rnd.shuffle(pool)
        chosen += pool[:1500]
        cur = [rnd.choice(list(K.wrappers(c, True))) for c in (levels[2] * 3)[:900]]
        ask(cur)
        cur = [x for x in cur if ok(x)]
        chosen += cur[:500]
        for d in (4, 5):
            nxt = []
            for c in cur:
                nxt += rnd.sample(list(K.wrappers(c, True)), 2)
            ask(nxt)
            nxt = [x for x in nxt if ok(x)]
            rnd.shuffle(nxt)
            cur = nxt[:450]
            chosen += cur
    accept = [p for p in (prims if not ctx.quick else levels[1]) if ok(p)]
    autos = []
    unstated = [x for x in dict.fromkeys(chosen) if not verdict[x].stated]
    if unstated:
        notes.append(f"{len(unstated)} generated stacks put a storage order over something that is not indexed by one natural number "
                     "(outside the documented kinds, no stated violation either): left out of the matrix, e.g. " + unstated[0].desc())
    for x in dict.fromkeys(chosen):
        if not verdict[x].stated:
            continue
        (accept if ok(x) else autos).append(x)
    if ctx.quick and len(autos) > 24:
        by = collections.OrderedDict()
        for x in autos:
            by.setdefault((x.tag, verdict[x].why()), x)
        autos = list(by.values())
    # ---- conversions: stacks of a convertible shape and their partners (other storage orders / interpolators), with
    # size_t, unsigned and int coordinates
    convs = []
    arrs = (K.St("array", ("f32", 3)), K.St("array", ("f64", 1)))
    coords = [("u64", 1), ("u64", 2), ("u64", 3), ("u32", 2), ("i32", 3), ("u32", 1), ("i32", 2), ("i64", 2), ("u64", 4), ("u32", 3)]
    shapes = []
    for lay in K.LAYS:
        for (sk, n) in coords:
            if lay == "hilbert" and n != 2:
                continue
            for arr in arrs:
                if ctx.quick and arr.params != ("f32", 3) and (sk, n) != ("u64", 2):
                    continue
                shapes.append(K.St(lay, (sk, n), arr))
    wrapped = []
    for b in shapes:
        n = b.params[1]
        if b.child.params != ("f32", 3) or n > 3:
            continue
        if ctx.quick and (b.params not in (("u64", 3), ("u32", 2), ("i32", 2)) or b.tag == "mortonT"):
            continue
        for it in ("nn", "linear"):
            for sk in (("f32",) if ctx.quick else ("f32", "f64")):
                w = K.St(it, (sk, n), b)
                wrapped.append(w)
                if b.params[0] == "u64" or not ctx.quick:
                    wrapped.append(K.St("affine", (), w))
    shapes += wrapped
    ask(shapes)
    have = set(accept)
    for x in shapes:
        if not ok(x):
            continue
        if x not in have:
            have.add(x)
            accept.append(x)
        ps = K.convert_partners(x)
        lim = 3 if ctx.quick else 8
        if len(ps) > lim:
            ps = rnd.sample(ps, lim)
        convs += [(x, p) for p in ps]
    return {"accept": accept, "autos": autos, "convs": convs, "verdict": verdict, "notes": notes}


# ------------------------------------------------------------------------------------------------- evaluation
def compile_tus(ctx, items, tag):
    """items: list of source texts -> list of (ok, first diagnostic, stderr tail)"""
    jobs = []
    for k, src in enumerate(items):
        p = ctx.work.path(f"{tag}_{k}.cpp")
        p.write_text(src)
        # every other translation unit (chosen by its text, so that a replay makes the same choice) is checked with the ISA
        # extensions enabled: the code guarded by __SSE4_1__ / __AVX2__ / __BMI2__ must accept the same stacks
        jobs.append((p, None, "syntax", ["-march=x86-64-v3"] if int(C.chash(src)[:2], 16) % 2 else []))
    res = C.compile_many(jobs, timeout=300)
    return [(rc == 0, C.first_diag(err) if rc != 0 else "", err[-2500:] if rc != 0 else "") for rc, err in res]


def case_dict(s, op, src=None, expect=None):
    return {"stack": s.desc(), "op": op, "src": src.desc() if src else None, "expect": expect, "cpp": s.cpp()}


def evaluate(ctx, accept, rejects, convs, conv_neg, verdict, sizeof=True, notes=(), raw=()):
    """accept: stacks the model accepts for every operation; rejects: (name, stack) whose per-operation verdicts come from
    the model; convs: (dst, src) compatible pairs; conv_neg: (name, dst, src)"""
    corr = Corr()
    corr.add_obl("compile_matrix")
    corr.add_obl("view_size")
    corr.notes += list(notes)
    corr.notes.append("cuda_device_array is not part of the compile matrix (no CUDA toolkit); the thorough tier type-checks it against a host shim "
                      "and reports the result as information")
    need = [x for x in dict.fromkeys(accept + [r[1] for r in rejects] + [d for _, d, _ in conv_neg]) if x not in verdict]
    for x, v in zip(need, K.model(need)):
        verdict[x] = v
    conv_model = dict(zip(convs, K.model_conv(convs)))
    by_dst = collections.defaultdict(list)
    for d, s in convs:
        by_dst[d].append(s)
    # ---- 0. sizeof(non_owning_data_t) against viewSize (first: the measured size decides whether a disagreement about the
    # 256-byte limit is the model's layout rule or the library's assert)
    measured = {}
    if sizeof:
        sized = [s for s in dict.fromkeys(accept + [r[1] for r in rejects]) if verdict[s].kind_ok and verdict[s].view_size is not None]
        nchunk = max(1, min(C.NCPU, len(sized) // 40 + 1))
        chunks = [sized[k::nchunk] for k in range(nchunk)]
        jobs = []
        for k, ch in enumerate(chunks):
            p = ctx.work.path(f"sizeof_{k}.cpp")
            p.write_text(K.sizeof_tu(ch))
            jobs.append((p, ctx.work.path(f"sizeof_{k}"), "plain", []))
        cres = C.compile_many(jobs, timeout=900)
        for (p, exe, _, _), (rc, err), ch in zip(jobs, cres, chunks):
            lines = None
            if rc == 0:
                rc2, so, se = C.sh([str(exe)], 60)
                lines = so.splitlines()
                if rc2 != 0 or len(lines) != len(ch):
                    lines = None
                    err = se
            if lines is None:
                # (a stack whose class no longer instantiates shows up in the compile matrix with its own diagnostic)
                corr.add_obl("view_size", len(ch), len(ch))
                corr.violation("view_size", "the program printing sizeof(non_owning_data_t) for a batch of stacks does not compile or run: "
                               + C.first_diag(err), {"stack": ch[0].desc(), "op": "sizeof", "batch": [x.desc() for x in ch][:50],
                                                     "diagnostic": err[-2000:]}, oracle_fails=False, key={"kind": "sizeof-batch"}, cfg="plain")
                continue
            for s, ln in zip(ch, lines):
                v = verdict[s]
                got = tuple(int(x) for x in ln.split())
                measured[s] = got[0]
                want = (v.view_size, v.view_align)
                corr.configs["plain"] += 1
                corr.case(("sizeof", s.desc()), s.depth() >= 2)
                corr.dist[f"sizeof/depth{s.depth()}"] += 1
                dis = got != want
                corr.add_obl("view_size", 1, 1 if dis else 0)
                if dis:
                    flips = (got[0] <= 256) != v.view_fits
                    corr.violation("view_size", f"sizeof/alignof(non_owning_data_t) of {s.label()} is {got}, model viewSize {want}",
                                   {"stack": s.desc(), "op": "sizeof", "cpp": s.cpp()}, impl=list(got), model=list(want), oracle_fails=False,
                                   key={"kind": "sizeof", "stack": s.desc(), "flips_view_limit": flips}, cfg="plain")
                if s.depth() >= 3 and got[0] > 64 and len([x for x in corr.samples if "sizeof" in x]) < 3:
                    corr.sample({"stack": s.label(), "sizeof": got[0], "alignof": got[1], "model_viewSize": want[0]})
    # ---- 1. expected-accept: one TU per stack with every operation; split on failure
    plans = []
    for s in accept:
        v = verdict[s]
        ops = [(op, None) for op in K.BASE_OPS if v.ops[op]]
        miss = [op for op in K.BASE_OPS if not v.ops[op]]
        if miss:
            raise RuntimeError(f"generator put {s.label()} on the accept list but the model rejects {miss}")
        for src in by_dst.get(s, []):
            sup, app, comp, conv = conv_model[(s, src)]
            if sup:
                ops.append(("convertFrom", src))
                corr.dist["conv-applicable" if app else "conv-mechanism-only"] += 1
        plans.append((s, ops))
    res = compile_tus(ctx, [K.tu(s, ops) for s, ops in plans], "acc")
    split = []
    for (s, ops), (ok, diag, err) in zip(plans, res):
        if ok:
            for op, src in ops:
                record(corr, s, op, src, True, True, "", verdict, measured=measured)
        else:
            split += [(s, op, src) for op, src in ops]
    if split:
        res2 = compile_tus(ctx, [K.tu(s, [(op, src)]) for s, op, src in split], "split")
        for (s, op, src), (ok, diag, err) in zip(split, res2):
            record(corr, s, op, src, True, ok, diag, verdict, tu=K.tu(s, [(op, src)]), err=err, measured=measured)
    # ---- 2. expected-reject (somewhere): one TU per (stack, operation)
    items = []
    for name, s in rejects:
        v = verdict[s]
        for op in (K.BASE_OPS if not (ctx.quick and name.startswith("auto:")) else ["concept", "fromPack", "at", "dump"]):
            items.append((name, s, op, None, v.ops[op], v.why() if not v.ops[op] else None))
    negm = K.model_conv([(d, s) for _, d, s in conv_neg])
    for (name, d, s), (sup, app, comp, conv) in zip(conv_neg, negm):
        items.append((name, d, "convertFrom", s, sup, None if sup else "notConvertible"))
    res3 = compile_tus(ctx, [K.tu(s, [(op, src)]) for _, s, op, src, _, _ in items], "rej")
    for (name, s, op, src, want, why), (ok, diag, err) in zip(items, res3):
        record(corr, s, op, src, want, ok, diag, verdict, tu=K.tu(s, [(op, src)]), err=err, why=why, name=name, measured=measured)
    # ---- 3. raw catalogue entries (outside the Lean grammar)
    if raw:
        res4 = compile_tus(ctx, [K.HDR + body for _, body, _ in raw], "raw")
        for (name, body, rx), (ok, diag, err) in zip(raw, res4):
            corr.configs["syntax"] += 1
            corr.case(("raw", name), True)
            corr.dist["raw(no Lean model)/concept/reject"] += 1
            good = (not ok) and re.search(rx, diag + err) is not None
            corr.add_obl("compile_matrix", 1, 0 if good else 1)
            if not good:
                corr.violation("compile_matrix", f"catalogue entry `{name}` " + ("is accepted by the compiler" if ok else
                               "is rejected, but not by the static_assert it violates: " + diag),
                               {"stack": "raw " + name, "op": "concept", "raw": name, "tu": K.HDR + body, "diagnostic": err}, impl="accepted" if ok else diag,
                               model="rejected (fixed expectation)", oracle_fails=ok, key={"kind": "raw", "name": name}, cfg="syntax")
    corr.violations.sort(key=lambda v: (not v["oracle_fails"], len(v["case"]["stack"].split()), v["case"].get("op", "")))
    return corr


def record(corr, s, op, src, want, got, diag, verdict, tu=None, err="", why=None, name=None, measured=None):
    """one (stack, op) verdict of g++ against the model's"""
    v = verdict[s]
    corr.configs["syntax"] += 1
    corr.case((s.desc(), op, src.desc() if src else None), s.depth() >= 2)
    cls = "well-kinded" if (v.well_kinded and v.view_fits) else ("ill:" + (v.why() or "?"))
    corr.dist[f"{cls}/{op}/{'accept' if want else 'reject'}"] += 1
    corr.dist[f"outer/{s.tag}"] += 1
    corr.dist[f"depth/{s.depth()}"] += 1
    dis = want != got
    reason_mismatch = False
    if not want and not got and why and why in DIAG and not re.search(DIAG[why], diag):
        reason_mismatch = True
    corr.add_obl("compile_matrix", 1, 1 if (dis or reason_mismatch) else 0)
    cj = case_dict(s, op, src, "accept" if want else "reject")
    key = {"kind": "matrix", "stack": s.desc(), "op": op, "src": src.desc() if src else None}
    if name:
        cj["catalogue"] = name
    if dis and want:
        # the model accepts. Refutes the property iff the stack respects every stated kind
        respects = v.well_kinded and (op not in ("view", "at") or v.view_fits)
        if respects and op in ("view", "at") and measured is not None and measured.get(s, 0) > 256:
            respects = False          # the view really exceeds field_view's limit: the model's layout arithmetic is off, not the library
        cj["tu"] = tu
        cj["diagnostic"] = err
        what = (f"{'well-kinded' if respects else 'ill-kinded'} stack {s.label()}: operation `{op}`"
                + (f" from {src.label()}" if src else "") + f" does not compile: {diag}")
        corr.violation("compile_matrix", what, cj, impl="rejected: " + diag, model="accepted", oracle_fails=bool(respects), key=key, cfg="syntax")
    elif dis and not want:
        cj["tu"] = tu
        what = (f"stack {s.label()} violates a stated kind ({why}) but operation `{op}`"
                + (f" from {src.label()}" if src else "") + " is accepted by the compiler")
        # refutes the property unless the only "violation" is the model's own layout arithmetic (view really <= 256 bytes)
        refuted = not (why == "viewTooLarge" and measured is not None and measured.get(s, 257) <= 256)
        corr.violation("compile_matrix", what, cj, impl="accepted", model=f"rejected ({why})", oracle_fails=refuted, key=key, cfg="syntax")
    elif reason_mismatch:
        cj["tu"] = tu
        cj["diagnostic"] = err
        corr.violation("compile_matrix", f"stack {s.label()}, `{op}`: rejected as the model says, but the first diagnostic is not the one "
                       f"the violated kind ({why}) produces: {diag}", cj, impl="rejected: " + diag, model=f"rejected ({why})",
                       oracle_fails=False, key=key, cfg="syntax")
    if len(corr.samples) < 9 and s.depth() >= 2:
        n_acc = len([x for x in corr.samples if x.get("gpp") == "accept"])
        if (got and n_acc < 4 and op in ("at", "dump", "convertFrom", "load")) or (not got and len(corr.samples) - n_acc < 5):
            corr.sample({"stack": s.label(), "op": op, "src": src.label() if src else None, "model": "accept" if want else f"reject ({why})",
                         "gpp": "accept" if got else "reject", "diagnostic": diag[:160]})


CUDA_HDR = """#include <covfie/core/backend/primitive/array.hpp>
#include <covfie/core/backend/transformer/strided.hpp>
#include <covfie/core/backend/transformer/morton.hpp>
#include <covfie/core/field.hpp>
#include <covfie/cuda/backend/primitive/cuda_device_array.hpp>
#include <sstream>
using D = covfie::backend::cuda_device_array<covfie::vector::float3>;
using H = covfie::backend::array<covfie::vector::float3>;
"""
CUDA_OPS = {
    "concept": "static_assert(covfie::concepts::field_backend<B>);",
    "fromPack": "void t(){ F f(PACK); }",
    "view": "void t(){ F f(PACK); typename F::view_t v(f); }",
    "at": "void t(){ F f(PACK); typename F::view_t v(f); typename F::coordinate_t c{}; (void)v.at(c); }",
    "copy": "void t(){ F f(PACK); F g(f); }",
    "move": "void t(){ F f(PACK); F g(std::move(f)); }",
    "copyAssign": "void t(){ F f(PACK); F g(PACK); g = f; }",
    "moveAssign": "void t(){ F f(PACK); F g(PACK); g = std::move(f); }",
    "dump": "void t(){ F f(PACK); std::stringstream ss; f.dump(ss); }",
    "load": "void t(){ std::stringstream ss; F g(ss); }",
    "viewTrivial": "static_assert(std::is_trivially_copyable_v<typename B::non_owning_data_t>);",
}


def cuda_subcheck(ctx, corr):
    """reduced assurance, thorough tier: which API operations of cuda_device_array stacks type-check on the host against
    harness/shim/cuda. Reported as information (F12: the copy members are known not to compile); never a violation."""
    shim = C.VERIF / "harness" / "shim" / "cuda"
    if not (shim / "cuda_runtime.h").exists():
        corr.notes.append("CUDA: not covered (no host shim)")
        return
    stacks = {
        "cuda_device_array": ("D", "covfie::make_parameter_pack(typename D::configuration_t{8ul})", None),
        "strided<size2,cuda_device_array>": ("covfie::backend::strided<covfie::vector::size2, D>",
                                             "covfie::make_parameter_pack(typename B::configuration_t{2ul,2ul}, typename D::configuration_t{4ul})",
                                             "covfie::backend::strided<covfie::vector::size2, H>"),
        "morton<size3,cuda_device_array>": ("covfie::backend::morton<covfie::vector::size3, D, false>",
                                            "covfie::make_parameter_pack(typename B::configuration_t{2ul,2ul,2ul}, typename D::configuration_t{8ul})",
                                            "covfie::backend::strided<covfie::vector::size3, H>"),
    }
    jobs, keys = [], []
    flags = [f"-I{C.REPO / 'lib' / 'cuda'}", f"-I{shim}"]
    for name, (B, P, host) in stacks.items():
        ops = dict(CUDA_OPS)
        if host:
            ops["convertFromHost"] = f"void t(){{ covfie::field<{host}> h; F d(h); }}"
        for op, body in ops.items():
            p = ctx.work.path(f"cuda_{len(jobs)}.cpp")
            p.write_text(CUDA_HDR + f"using B = {B};\nusing F = covfie::field<B>;\n#define PACK {P}\n{body}\n")
            jobs.append((p, None, "syntax", flags))
            keys.append((name, op))
    res = C.compile_many(jobs, timeout=300)
    table = collections.OrderedDict()
    for (name, op), (rc, err) in zip(keys, res):
        table.setdefault(name, {})[op] = "accepted" if rc == 0 else "rejected: " + C.first_diag(err)[-160:]
    corr.info["cuda_shim_ops"] = table
    rej = sorted({op for t in table.values() for op, r in t.items() if r != "accepted"})
    if any("cuda_runtime" in r for t in table.values() for r in t.values()):
        corr.notes.append("CUDA: not covered — cuda_device_array does not compile against the host shim")
    else:
        corr.notes.append("CUDA (host shim harness/shim/cuda, reduced assurance, not the CUDA runtime): cuda_device_array stacks accept every "
                          "API operation except " + (", ".join(rej) if rej else "none") + " (F12: the copy members hand a unique_ptr to "
                          "device_copy_d2d); reported as information, outside what this sandbox can exercise")


def run(ctx):
    g = gen(ctx)
    cat = catalogue()
    rejects = cat + [("auto:" + s.label(), s) for s in g["autos"]]
    corr = evaluate(ctx, g["accept"], rejects, g["convs"], conv_negative(), g["verdict"], notes=g["notes"], raw=RAW)
    corr.info["stacks_accept"] = len(g["accept"])
    corr.info["stacks_reject_catalogue"] = len(cat)
    corr.info["stacks_reject_auto"] = len(g["autos"])
    corr.info["conversion_pairs"] = len(g["convs"])
    from harness import ldlib      # the kind model knows float and double; stacks over long double coordinates are compiled and run here
    ldlib.part(ctx, corr, ["clamp", "backup", "nn", "linear", "affine"], "compile_matrix", cfgs=("dbg",), compile_is_violation=True)
    if not ctx.quick:
        cuda_subcheck(ctx, corr)
    corr.notes.append("catalogue gaps: identity's first static_assert (equal dimensions) and linear's is_object assert cannot be violated by any "
                      "instantiation (input and output descriptor are the same type / the output is always an array type); scalar_d's "
                      "size==1 assert is unreachable through backend::array; identity's second assert needs a non-arithmetic scalar and is "
                      "checked by a fixed catalogue entry outside the Lean grammar")
    return corr


def replay(ctx):
    c = ctx.replay["case"]
    if c.get("op") == "longdouble":
        from harness import ldlib
        corr = Corr()
        corr.add_obl("compile_matrix")
        ldlib.part(ctx, corr, c["ops"], "compile_matrix", cfgs=(c.get("cfg", "dbg"),), compile_is_violation=True)
        return corr
    if c.get("raw"):
        return evaluate(ctx, [], [], [], [], {}, sizeof=False, raw=[r for r in RAW if r[0] == c["raw"]])
    s = K.parse_desc(c["stack"].split())
    verdict = {}
    if c.get("op") == "sizeof":
        return evaluate(ctx, [], [("replay", s)], [], [], verdict, sizeof=True)
    src = K.parse_desc(c["src"].split()) if c.get("src") else None
    v = K.model([s])[0]
    verdict[s] = v
    corr = Corr()
    corr.add_obl("compile_matrix")
    if src:
        sup = K.model_conv([(s, src)])[0][0]
        want, why = sup, None if sup else "notConvertible"
    else:
        want = v.ops[c["op"]]
        why = None if want else v.why()
    src_txt = K.tu(s, [(c["op"], src)])
    (ok, diag, err), = compile_tus(ctx, [src_txt], "replay")
    record(corr, s, c["op"], src, want, ok, diag, verdict, tu=src_txt, err=err, why=why)
    return corr
