"""C14 — storage orders follow their published curves (closed forms): layers over identity<size1> and the static index
functions, compared with the model; the property oracle is the published formula evaluated independently."""
import random
from vlib import common as C
from vlib.framework import Corr
from harness import layoutlib as L
from harness import translib as T

META = {
    "drivers": ["driver", "impcheck"],
    "rule": "case = (op, layout, extents, coordinate, build config); non-trivial when the flat position is not 0 and the box has >= 2 cells; "
            "hilbert squares: one case per (k, config) covering all 4^k cells",
    "trusted_base": ["_pdep_u64 (hardware) behaves as the model's bit-scan pdep"],
    "assumptions": ["Morton coordinates below 2^floor(64/N) per axis; Hilbert coordinates inside the enclosing 2^k square"],
}


def spec_strided(sz, co):
    r = 0
    for k in range(len(sz)):
        r += co[k] * L.prod(sz[k + 1:])
    return r


def spec_morton(co):
    N = len(co)
    r = 0
    for j, c in enumerate(co):
        for i in range(64 // N):
            if (c >> i) & 1:
                r |= 1 << (i * N + j)
    return r & (2 ** 64 - 1)


def gen(ctx):
    rnd = random.Random(ctx.seed * 104729 + 14)
    cases = []   # (op, lay, sz, co)
    # row-major: non-square boxes, exhaustive coordinates
    for N, lim in ((1, 40), (2, 48), (3, 36), (4, 24)):
        for sz in L.boxes(N, lim if ctx.quick else lim * 6):
            if ctx.quick and rnd.random() < 0.5 and L.prod(sz) > 12:
                continue
            for co in L.coords(sz):
                cases.append(("ident", "strided", list(sz), list(co)))
    for _ in range(300 if ctx.quick else 3000):
        N = rnd.choice([1, 2, 3, 4]); sz = L.random_shape(rnd, N, "strided", big=True)
        cases.append(("ident", "strided", sz, L.random_coord(rnd, sz)))
    # row-major boxes of more than 2^31 / 2^32 / 2^40 cells (identity backend: no storage): strides must be formed in size_t
    for sz, cos in (([2, 65537, 65536], [[1, 0, 0], [1, 65536, 65535], [0, 1, 0]]),
                    ([3, (1 << 31) + 1], [[2, 5], [1, 1 << 31], [2, 1 << 31]]),
                    ([5, 1 << 20, (1 << 12) + 1], [[4, (1 << 20) - 1, 1 << 12], [1, 0, 0], [0, 1, 0]]),
                    ([3, 3, 1 << 16, 1 << 16], [[2, 2, 65535, 65535], [1, 0, 0, 0], [0, 1, 0, 0]]),
                    ([(1 << 33) + 7], [[1 << 33], [(1 << 33) + 6]]),
                    ([7, (1 << 40) + 3], [[6, 1 << 40], [1, 0]])):
        for co in cos:
            cases.append(("ident", "strided", sz, co))
    # Morton: exhaustive for small bit-widths through the layer, boundary bit patterns and random 64-bit through the static function
    for N in (1, 2, 3, 4):
        bits = {1: 8, 2: 4, 3: 3, 4: 2}[N] if ctx.quick else {1: 11, 2: 6, 3: 4, 4: 3}[N]
        sz = [1 << bits] * N
        for co in L.coords(sz):
            for lay in ("mortonT", "mortonF"):
                cases.append(("ident", lay, sz, list(co)))
        w = 64 // N
        top = (1 << w) - 1
        pats = [0, 1, top, top - 1, 1 << (w - 1), (1 << (w - 1)) - 1, 0x5555555555555555 & top, 0xAAAAAAAAAAAAAAAA & top] + [1 << b for b in range(w)]
        big = [1 << w] * N if N > 1 else [2 ** 64 - 1]
        for _ in range(250 if ctx.quick else 4000):
            co = [rnd.choice(pats + [rnd.getrandbits(w), rnd.getrandbits(rnd.randrange(1, w + 1))]) for _ in range(N)]
            for lay in ("mortonT", "mortonF"):
                cases.append(("static", lay, big, co))
        for j in range(N):                      # all-ones on one axis, single bits
            for v in [top] + [1 << b for b in range(w)]:
                co = [0] * N; co[j] = v
                for lay in ("mortonT", "mortonF"):
                    cases.append(("static", lay, big, co))
    # Hilbert: exhaustive squares, through the layer and through the static function, plus non-square extents inside a square
    for k in range(0, 6 if ctx.quick else 10):
        n = 1 << k
        for x in range(n):
            for y in range(n):
                cases.append(("ident" if k % 2 == 0 else "static", "hilbert", [n, n], [x, y]))
    for _ in range(200 if ctx.quick else 3000):
        sx, sy = rnd.choice([1, 2, 3, 5, 6, 7, 9, 12, 17, 33, 100, 1000]), rnd.choice([1, 2, 3, 4, 5, 7, 8, 31, 64, 65, 777])
        cases.append(("ident", "hilbert", [sx, sy], [rnd.randrange(sx), rnd.randrange(sy)]))
    # storage position after a converting construction (observed in the raw array, not through at())
    for N, lim in ((1, 12), (2, 30), (3, 30), (4, 24)):
        bx = L.boxes(N, lim if ctx.quick else lim * 4)
        rnd.shuffle(bx)
        for sz in bx[: (14 if ctx.quick else 120)]:
            for lay in L.LAYS:
                if lay == "hilbert" and N != 2:
                    continue
                cs = list(L.coords(sz))
                for co in ([cs[-1], cs[len(cs) // 2]] + [rnd.choice(cs) for _ in range(2)]):
                    cases.append(("convpos", lay, list(sz), list(co)))
    # 32-bit coordinate scalars (unsigned, int) through the probe backend: high coordinate bits must survive the interleave
    for ct, cw in (("u32", 32), ("i32", 31), ("u16", 16)):
        for N in (1, 2, 3, 4):
            w = min(cw, 64 // N)
            top = (1 << w) - 1
            pats = [1, top, top - 1, 1 << (w - 1), (1 << (w - 1)) - 1, 0x55555555 & top, 0xAAAAAAAA & top, 65536 & top, 65535 & top] + [1 << b for b in range(w)]
            ext = [(1 << cw) - 1] * N
            for _ in range(60 if ctx.quick else 1500):
                co = [min(ext[0] - 1, rnd.choice(pats + [rnd.getrandbits(w)])) for _ in range(N)]
                for lay in ("mortonT", "mortonF"):
                    cases.append(("idx", lay, ext, co, ct))
            for j in range(N):
                for b in range(w):
                    co = [0] * N; co[j] = min(ext[0] - 1, 1 << b)
                    for lay in ("mortonT", "mortonF"):
                        cases.append(("idx", lay, ext, co, ct))
        for _ in range(0 if ct == "u16" else 40 if ctx.quick else 800):      # (the extents below do not fit 16 bits)
            sx, sy = rnd.choice([3, 5, 9, 17, 100, 65537, 2 ** 20 + 1]), rnd.choice([2, 7, 33, 65536, 2 ** 20])
            cases.append(("idx", "hilbert", [sx, sy], [rnd.choice([0, sx - 1, rnd.randrange(sx)]), rnd.choice([0, sy - 1, rnd.randrange(sy)])], ct))
    return cases


def evaluate(ctx, cases, cfgs):
    corr = Corr()
    for o in ("pos_strided", "pos_morton_loop", "pos_morton_pdep", "pos_hilbert", "morton_bmi2_eq_portable", "hilbert_curve_shape"):
        corr.add_obl(o)
    exes = L.build(ctx, cfgs, what=("layout",))
    cases = [c if len(c) == 5 else tuple(c) + ("u64",) for c in cases]
    mout = C.run_driver("driver", [L.model_line(lay, ct, sz, co) for (op, lay, sz, co, ct) in cases])
    for tu, cfg, diag in L.SKIPPED:
        corr.notes.append(f"configuration {cfg} left out: the auxiliary compiler rejects {tu} which g++ accepts ({diag[:160]})")
    for cfg in cfgs:
        if ("layout", cfg) not in exes:
            continue
        outs, _ = C.run_lines(exes[("layout", cfg)], [L.impl_line(op, lay, ct, sz, co) for (op, lay, sz, co, ct) in cases])
        outs = [(o.split()[1] if (c[0] == "idx" and len(o.split()) == 2 and o.split()[0] == "1") else
                 o.split()[0] if (c[0] == "convpos" and len(o.split()) == 2 and o.split()[1] == "1") else o) for c, o in zip(cases, outs)]
        hil = {}
        pair = {}
        for (op, lay, sz, co, ct), o, m in zip(cases, outs, mout):
            mpos = int(m.split()[0])
            ob = {"strided": "pos_strided", "hilbert": "pos_hilbert", "mortonF": "pos_morton_loop",
                  "mortonT": "pos_morton_pdep" if "bmi2" in cfg else "pos_morton_loop"}[lay]
            cj = {"op": op, "lay": lay, "sz": sz, "co": co, "ct": ct, "cfg": cfg}
            key = {"kind": op, "lay": lay, "sz": sz, "co": co, "ct": ct}
            corr.configs[cfg] += 1
            corr.dist[f"{op}/{lay}/N{len(sz)}/{ct}"] += 1
            if lay != "hilbert" or sz[0] != sz[1] or (sz[0] & (sz[0] - 1)):
                corr.case((op, lay, sz, co, ct, cfg), mpos != 0 and L.prod(sz) >= 2)
            else:
                corr.evaluations += 1
            if not o.isdigit():
                corr.add_obl(ob, 1, 1)
                corr.violation(ob, f"{op} {lay} {sz} at {co}: {o}", cj, impl=o, model=m, oracle_fails=True, key=key, cfg=cfg)
                continue
            got = int(o)
            # the published formula, evaluated independently of the Lean model
            spec = spec_strided(sz, co) if lay == "strided" else spec_morton(co) if lay.startswith("morton") else None
            dis = got != mpos
            corr.add_obl(ob, 1, 1 if dis else 0)
            if spec is not None and got != spec:
                corr.violation(ob, f"{lay} {sz} at {co} ({cfg}): position {got}, published formula gives {spec}", cj, impl=o, model=m,
                               oracle_fails=True, key=key, cfg=cfg)
            elif dis:
                corr.violation(ob, f"{lay} {sz} at {co} ({cfg}): position {got}, model {mpos}", cj, impl=o, model=m, oracle_fails=False, key=key, cfg=cfg)
            if lay.startswith("morton"):
                pair.setdefault((op, tuple(sz), tuple(co), ct), {})[lay] = got
            if lay == "hilbert" and sz[0] == sz[1] and (sz[0] & (sz[0] - 1)) == 0:
                hil.setdefault(sz[0], {})[(co[0], co[1])] = got
            if len(corr.samples) < 10 and mpos > 5 and (not corr.samples or corr.samples[-1]["lay"] != lay):
                corr.sample({"op": op, "lay": lay, "sz": sz, "co": co, "cfg": cfg, "impl": got, "model": mpos})
        # BMI2 and portable implementation give identical results
        for (op, sz, co, ct), d in pair.items():
            if len(d) == 2:
                same = d["mortonT"] == d["mortonF"]
                corr.add_obl("morton_bmi2_eq_portable", 1, 0 if same else 1)
                if not same:
                    corr.violation("morton_bmi2_eq_portable", f"Morton {list(co)}: use_bmi2=true gives {d['mortonT']}, portable gives {d['mortonF']} ({cfg})",
                                   {"op": op, "lay": "mortonT", "sz": list(sz), "co": list(co), "ct": ct, "cfg": cfg}, impl=d, oracle_fails=True,
                                   key={"kind": "pair", "co": list(co)}, cfg=cfg)
        # the Hilbert layer visits every cell of the square exactly once, from the origin, edge-adjacent steps
        for n, cells in sorted(hil.items()):
            if len(cells) != n * n:
                continue
            corr.case(("hilbert-square", n, cfg), n >= 2, n=0)
            inv = {}
            fail = None
            for xy, d in cells.items():
                if d in inv:
                    fail = f"cells {inv[d]} and {xy} both at position {d}"
                    break
                inv[d] = xy
            if not fail and sorted(inv) != list(range(n * n)):
                fail = f"positions are not exactly 0..{n * n - 1}"
            if not fail and inv[0] != (0, 0):
                fail = f"curve starts at {inv[0]}, not at the origin"
            if not fail:
                for d in range(n * n - 1):
                    (x, y), (x2, y2) = inv[d], inv[d + 1]
                    if abs(x - x2) + abs(y - y2) != 1:
                        fail = f"positions {d},{d + 1} are at {inv[d]},{inv[d + 1]}: not edge-adjacent"
                        break
            corr.add_obl("hilbert_curve_shape", 1, 1 if fail else 0)
            if fail:
                corr.violation("hilbert_curve_shape", f"Hilbert {n}x{n} ({cfg}): {fail}", {"op": "square", "lay": "hilbert", "sz": [n, n], "cfg": cfg},
                               impl=fail, oracle_fails=True, key={"kind": "square", "n": n}, cfg=cfg)
    corr.violations.sort(key=lambda v: (not v["oracle_fails"], L.prod(v["case"].get("sz", [1])) if len(str(v["case"].get("sz"))) < 40 else 10 ** 30, sum(v["case"].get("co", [0]))))
    return corr


KERNEL_LAYS = {"strided_index": ("strided",), "morton_index": ("mortonT", "mortonF"), "morton_index_bmi2_off": ("mortonF",),
               "hilbert_index": ("hilbert",)}
CT_OF_WIDTH = {64: "u64", 32: "u32", 16: "u16"}


def tie_cases(ctx, tie, gen_deep):
    """additional cases for the kernels whose source text is no longer the term the theorems are about: the thorough tier's
    inputs for their layouts, and every input on which the Lean interpreter sees the changed text differ from the reference"""
    out = []
    if not tie.changed():
        return out
    ch = [k for k in tie.changed() if k in KERNEL_LAYS]
    if "context" in tie.changed():
        ch = list(KERNEL_LAYS)
    if "morton_pdep" in tie.changed():
        ch.append("morton_index")          # (its layouts: mortonT, mortonF)
    lays = {l for k in ch for l in KERNEL_LAYS[k]}
    out += [c for c in gen_deep() if c[1] in lays]
    for k in [k for k in tie.changed() if k in KERNEL_LAYS]:
        for (w, sc, ar), new, ref in tie.counterexamples(k):
            if k == "strided_index":
                out.append(("idx", "strided", ar["m_sizes"], ar["c"], CT_OF_WIDTH[w]))
            elif k == "hilbert_index":
                out.append(("static", "hilbert", ar["sizes"], ar["c"]))
            else:
                N = len(ar["c"])
                big = [1 << (64 // N)] * N if N > 1 else [2 ** 64 - 1]
                for lay in KERNEL_LAYS[k]:
                    out.append(("static", lay, big, ar["c"]))
    return out


def run(ctx):
    cases = gen(ctx)
    tie = T.Tie(ctx, list(KERNEL_LAYS) + ["context", "morton_pdep"])

    class Deep:
        quick, seed = False, ctx.seed
    cases += tie_cases(ctx, tie, lambda: gen(Deep))
    corr = evaluate(ctx, cases, (["dbg", "bmi2", "relbmi2", "clang"] if ctx.quick else ["dbg", "bmi2", "rel", "relbmi2", "clang"]) + C.extra_cfgs())
    tie.merge(corr)
    return corr


def replay(ctx):
    c = ctx.replay["case"]
    if c["op"] == "square":
        n = c["sz"][0]
        cases = [("ident", "hilbert", [n, n], [x, y]) for x in range(n) for y in range(n)]
    else:
        cases = [(c["op"], c["lay"], c["sz"], c["co"], c.get("ct", "u64"))]
        if c["lay"].startswith("morton"):
            cases.append((c["op"], "mortonF" if c["lay"] == "mortonT" else "mortonT", c["sz"], c["co"], c.get("ct", "u64")))
    return evaluate(ctx, cases, [c.get("cfg", "dbg")])
