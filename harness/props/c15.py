"""C15 — no undefined behaviour on the documented domain, in debug and release builds; both builds give the same results.

Randomly generated programs mixing construction, lookup, write, copy, assignment, conversion and IO are run through the
same harnesses the other properties use, each built twice from /repo's working tree: `dbg` (-O1, assertions on,
ASan + UBSan + float-cast-overflow) and `rel` (-O2 -DNDEBUG); thorough additionally runs `rel` under valgrind memcheck.
What Lean carries is the arithmetic part (Props/C15.lean: on the documented domain none of the evaluator's UB conditions
fires and every traced index is inside the storage); the correspondence obligation `model_domain_safe` feeds the same
in-domain lookups to the model evaluator, which must not flag UB. Everything else (uninitialised reads, lifetime,
missing return, aliasing) is observed here, not proved."""
import random
from vlib import common as C
from vlib.framework import Corr
from harness import layoutlib as L
from harness import stackgen as G
from harness import iolib as IO
from harness.props import c12 as H
from harness.props import c05 as CV

META = {
    "drivers": ["heapcheck", "evalcheck", "iocheck"],
    "rule": "case = one program line (history operation, lookup, IO operation, write-all/read-all) executed in every build configuration; "
            "distinct by (source, program, line); non-trivial when the line belongs to a program with >= 3 distinct operation kinds (histories), "
            "a stack of depth >= 2 (lookups), a stack with >= 2 layers (IO) or a box with >= 2 cells (layout)",
    "trusted_base": ["AddressSanitizer, UndefinedBehaviorSanitizer (+ float-cast-overflow), LeakSanitizer, valgrind memcheck as detectors",
                     "PARTIAL: only the arithmetic UB conditions are modelled and proved; all other UB is observed by the sanitizer builds"],
    "assumptions": ["programs stay inside the documented domain (generators of C02/C06/C12 track it)",
                    "moved-from fields are only assigned to, copied or destroyed"],
}
OBLS = ("dbg_no_report", "rel_no_crash", "dbg_eq_rel", "model_domain_safe", "valgrind_clean")
VG = ["valgrind", "-q", "--error-exitcode=99", "--errors-for-leak-kinds=definite", "--leak-check=full"]


def compare(corr, source, prog, lines, outs, nontriv, case_of):
    """outs: dict cfg -> list of answers (same length as lines)"""
    cfgs = list(outs)
    for j, ln in enumerate(lines):
        per = {cfg: (outs[cfg][j] if outs[cfg] is not None and j < len(outs[cfg]) else None) for cfg in cfgs}
        corr.case((source, prog, j), nontriv)
        for cfg in cfgs:
            corr.configs[cfg] += 1
        corr.dist[f"{source}"] += 1
        bad = False
        for cfg, o in per.items():
            if o is None:
                continue
            ob = "dbg_no_report" if cfg == "dbg" else "valgrind_clean" if cfg == "vg" else "rel_no_crash"
            crashed = o.startswith("CRASH")
            corr.add_obl(ob, 1, 1 if crashed else 0)
            if crashed:
                bad = True
                corr.violation(ob, f"{source}: in-domain operation `{ln[:160]}` died in the {cfg} build: {o}", case_of(j, cfg), impl=o,
                               oracle_fails=True, key={"kind": "crash", "source": source, "line": ln[:200], "class": o}, cfg=cfg)
        a, b = per.get("dbg"), per.get("rel")
        if a is not None and b is not None and not bad:
            same = a == b
            corr.add_obl("dbg_eq_rel", 1, 0 if same else 1)
            if not same:
                corr.violation("dbg_eq_rel", f"{source}: `{ln[:160]}` gives {a[:120]} in the assertion-enabled build and {b[:120]} in -O2 -DNDEBUG",
                               case_of(j, "rel"), impl={"dbg": a, "rel": b}, oracle_fails=True,
                               key={"kind": "differ", "source": source, "line": ln[:200]}, cfg="rel")
        v = per.get("vg")
        if v is not None and b is not None and not v.startswith("CRASH") and v != b:
            corr.add_obl("valgrind_clean", 0, 1)
            corr.violation("valgrind_clean", f"{source}: `{ln[:160]}` gives {v[:100]} under valgrind and {b[:100]} natively", case_of(j, "vg"),
                           impl={"vg": v, "rel": b}, oracle_fails=True, key={"kind": "vgdiffer", "source": source, "line": ln[:200]}, cfg="vg")


# ------------------------------------------------------------------------------------------------ sources
def src_histories(ctx, corr, cfgs, hists_by_fam, vg):
    fams = sorted(hists_by_fam)
    exes = H.build(ctx, fams, [c for c in cfgs if c != "vg"])
    for f in fams:
        hists = hists_by_fam[f]
        mo, res = H.run_chunk(exes, f, [c for c in cfgs if c != "vg"], hists)
        if vg:
            hl = [[H.impl_line(op) for op in ops] + ["reset"] for ops in hists[: max(3, len(hists) // 6)]]
            inp = "reset\n" + "".join("\n".join(h) + "\n" for h in hl)
            rc, so, se = C.sh(VG + [str(exes[(f, "rel")])], 900, input=inp)
            got = so.splitlines()[1:]
            n = sum(len(h) for h in hl)
            corr.add_obl("valgrind_clean", n, 0 if rc == 0 and len(got) == n else 1)
            corr.configs["vg"] += n
            if rc != 0 or len(got) != n:
                corr.violation("valgrind_clean", f"histories of family {H.FAMS[f]['types']}: valgrind memcheck reports an error (exit {rc}): {se[-400:]}",
                               {"source": "histories", "fam": f, "hists": [[list(op) for op in h] for h in hists[: max(3, len(hists) // 6)]], "cfg": "vg"},
                               impl=se[-1500:], oracle_fails=True, key={"kind": "valgrind", "source": "histories", "fam": f}, cfg="vg")
        for hi, ops in enumerate(hists):
            lines = [H.impl_line(op) for op in ops] + ["reset"]
            outs = {}
            for cfg in res:
                r = res[cfg][hi]
                if r is not None and len(r) < len(lines):
                    r = r + ["CRASH (history aborted)"] * (len(lines) - len(r)) if r and r[-1].startswith("CRASH") else r
                outs[cfg] = r
            kinds = {op[0] for op in ops}
            compare(corr, f"histories/fam{f}", hi, lines, outs, len(kinds) >= 3,
                    lambda j, cfg, f=f, ops=ops: {"source": "histories", "fam": f, "hists": [[list(op) for op in ops]], "cfg": cfg})
            if len(corr.samples) < 3 and len(ops) > 8:
                corr.sample({"source": "history", "types": H.FAMS[f]["types"], "ops": [H.impl_line(op) for op in ops][:14]})


def src_stacks(ctx, corr, cfgs, items, vg):
    real = [c for c in cfgs if c != "vg"]
    exe, failures = G.build_tus(ctx, [(k, it["stack"], "") for k, it in enumerate(items)], real, 6, "c15s")
    for idxs, cfg, err, src in failures:
        raise C.CompileError(src, cfg, err)
    groups = []
    for k, it in enumerate(items):
        s = it["stack"]
        lines = [G.at_line(k, s, c) for c, _, _ in it["coords"]]
        outs = {}
        for cfg in real:
            o, _ = C.run_lines(exe[(k, cfg)], lines, setup=[G.setup_line(k, s)])
            outs[cfg] = o
        if vg and k % 5 == 0:
            o, _ = C.run_lines(exe[(k, "rel")], lines, setup=[G.setup_line(k, s)], pre=VG, min_timeout=300)
            outs["vg"] = o
        sj = s.to_json()
        compare(corr, "lookups", s.desc(), lines, outs, s.depth() >= 2,
                lambda j, cfg, sj=sj, it=it: {"source": "lookups", "stack": sj, "coords": [[G.jv(x) for x in it["coords"][j][0]]], "cfg": cfg})
        # the model evaluator must not flag any of its UB conditions on these in-domain lookups
        sk = s.in_kind()[0]
        M = s.out_kind()[1]
        bare = s.in_kind()[2]
        cases = []
        for (c, v, tr), o in zip(it["coords"], outs[real[0]]):
            po = G.parse_out(o, M, bare)
            if po:
                cases.append((tuple(G.enc(sk, x) for x in c), tuple(po[0][0]), None))
        groups.append((s, cases))
        if len(corr.samples) < 6 and s.depth() >= 3:
            corr.sample({"source": "lookup", "stack": s.desc(), "coord": [str(G.jv(x)) for x in it["coords"][0][0]], "dbg": outs["dbg"][0] if "dbg" in outs else None,
                         "rel": outs.get("rel", [None])[0]})
    verd = G.judge_model(groups)
    for (s, cases), vs in zip(groups, verd):
        for (cb, ob, _), v in zip(cases, vs):
            ub = v.startswith("ub")
            corr.add_obl("model_domain_safe", 1, 1 if ub else 0)
            if ub:
                corr.violation("model_domain_safe", f"the model evaluator flags `{v}` for an in-domain lookup of field<{s.desc()[:160]}> at {list(cb)}",
                               {"source": "lookups", "stack": s.to_json(), "coords": [], "cfg": "dbg"}, impl=list(ob), model=v, oracle_fails=False,
                               key={"kind": "model-ub", "stack": s.desc()})


def src_io(ctx, corr, cfgs, stacks, cases, vg):
    real = [c for c in cfgs if c != "vg"]
    impl = IO.Impl(ctx, stacks, real, chunk=6, tag="c15io")
    ops = [(si, "dump {s} " + dat) for si, dat in cases]
    d = {cfg: impl.run(cfg, ops) for cfg in real}
    ref = d[real[0]]
    okidx = [k for k, o in enumerate(ref) if o and not o.startswith(("CRASH", "bad-", "harness-", "un"))]
    ops2 = [(cases[k][0], "reload {s} " + ref[k]) for k in okidx] + [(cases[k][0], "redump {s} " + ref[k]) for k in okidx]
    # every dump is also loaded by the stacks of the other precision / interpolation method that share its storage shape
    # (the width-converting read path, which a same-type reload never takes)
    for k in okidx:
        a = cases[k][0]
        for b in range(len(stacks)):
            if b != a and impl.infos[a].strip == impl.infos[b].strip:
                ops2.append((b, "reload {s} " + ref[k]))
    # a truncated and a bit-flipped copy of every dump: rejecting them (an exception) is defined behaviour, too
    rnd = random.Random(ctx.seed * 15 + 1)
    for k in okidx:
        hx = ref[k]
        if len(hx) >= 16:
            cut = rnd.randrange(0, len(hx) // 2) * 2
            ops2.append((cases[k][0], "load {s} " + (hx[:cut] or "-")))
    r = {cfg: impl.run(cfg, ops2) for cfg in real}
    if vg:
        sub = list(range(0, len(ops2), 7))
        rv = impl.run("rel", [ops2[i] for i in sub], pre=VG, timeout_per_line=3.0)
        full = [None] * len(ops2)
        for i, o in zip(sub, rv):
            full[i] = o
        r["vg"] = full
    lines = [l.replace("{s}", f"s{si}")[:300] for si, l in ops] + [l.replace("{s}", f"s{si}")[:300] for si, l in ops2]
    outs = {cfg: d[cfg] + r[cfg] for cfg in real}
    if vg:
        outs["vg"] = [None] * len(ops) + r["vg"]
    allops = ops + ops2
    compare(corr, "io", "batch", lines, outs, True,
            lambda j, cfg: {"source": "io", "stack": stacks[allops[j][0]], "line": allops[j][1][:4000], "cfg": cfg})
    corr.sample({"source": "io", "stack": impl.infos[cases[0][0]].label, "op": ops[0][1][:120], "dbg": (d.get("dbg") or [""])[0][:80]})


def src_layout(ctx, corr, cfgs, rw, vg):
    real = [c for c in cfgs if c != "vg"]
    variants = sorted({(c[1], c[2]) for c in rw})
    exes = L.build(ctx, real, what=("rw",), rw_variants=variants)
    for (ct, t) in variants:
        sub = [c for c in rw if (c[1], c[2]) == (ct, t)]
        lines = [f"rw {lay} {N} {M} {' '.join(map(str, sz))}" for (lay, _, _, N, M, sz) in sub]
        outs = {cfg: C.run_lines(exes[(f"rw{ct}{t}", cfg)], lines, timeout_per_line=0.5)[0] for cfg in real}
        if vg:
            outs["vg"] = C.run_lines(exes[(f"rw{ct}{t}", "rel")], lines, timeout_per_line=5, pre=VG, min_timeout=300)[0]
        compare(corr, f"layout/ct{ct}t{t}", "rw", lines, outs, True,
                lambda j, cfg, sub=sub: {"source": "layout", "rw": list(sub[j]), "cfg": cfg})


def src_convert(ctx, corr, cfgs, conv, vg):
    """layout conversions: the answer contains a digest of the whole target storage, padding cells included — a cell the
    converting constructor leaves uninitialised shows up as a difference between the builds (and under valgrind)"""
    real = [c for c in cfgs if c != "vg"]
    variants = sorted({v for v, _ in conv})
    exes = CV.build(ctx, [(v, cfg) for v in variants for cfg in real])
    for v in variants:
        ops = [op for vv, op in conv if vv == v]
        lines = [CV.impl_line(op) for op in ops]
        outs = {cfg: C.run_lines(exes[(v, cfg)], lines, timeout_per_line=1.0)[0] for cfg in real}
        if vg:
            outs["vg"] = C.run_lines(exes[(v, "rel")], lines, timeout_per_line=10, pre=VG, min_timeout=300)[0]
        compare(corr, f"convert/{CV.variant_name(v)}", "conv", lines, outs, True,
                lambda j, cfg, v=v, ops=ops: {"source": "convert", "variant": list(v), "op": list(ops[j]), "cfg": cfg})


# ------------------------------------------------------------------------------------------------ generation
def gen(ctx):
    rnd = random.Random(ctx.seed * 15485863 + 15)
    hists = {f: [H.random_history(rnd, f, 25 if ctx.quick else 50) for _ in range(40 if ctx.quick else 600)] for f in H.FAMS}
    items = []
    want = 24 if ctx.quick else 240
    guard = 0
    while len(items) < want and guard < want * 8:
        guard += 1
        try:
            s = G.random_stack(rnd)
        except G.NoSample:
            continue
        if s.depth() < 2 or not G.fits(s):
            continue
        co = G.gen_coords(rnd, s, 50 if ctx.quick else 120)
        if len(co) >= 4:
            items.append({"stack": s, "coords": co})
    stacks = list(IO.QUICK_STACKS)
    if not ctx.quick:
        seen = set()
        while len(stacks) < 60:
            s = IO.random_stack(rnd)
            if str(s) not in seen:
                seen.add(str(s)); stacks.append(s)
    cases = []
    for si, s in enumerate(stacks):
        inf = IO.analyse(s)
        for p in (["mixed", "edge"] if ctx.quick else ["mixed", "edge", "special", "random"]):
            cases.append((si, IO.fmt_dat(IO.gen_dat(inf, rnd, p, maxcells=24))))
    # thousands of 3-component cells: block-wise writers / readers whose staging blocks do not fill on a cell boundary
    big3 = [si for si, s in enumerate(stacks) if IO.analyse(s).gen[-1][0] == "A" and IO.analyse(s).gen[-1][2] == 3]
    for si in big3[:2] if ctx.quick else big3:
        inf = IO.analyse(stacks[si])
        bare = not any(g[0] == "S" for g in inf.gen)
        cases.append((si, IO.fmt_dat(IO.gen_dat(inf, rnd, "mixed", maxcells=24000, ext_pool=[5600, 6001] if bare else [18, 19, 75]))))
    rw = []
    for (ct, t) in ((0, 0), (2, 1)) if ctx.quick else ((0, 0), (1, 1), (2, 0), (0, 1)):
        for lay in L.LAYS:
            for N in (1, 2, 3, 4):
                if lay == "hilbert" and N != 2:
                    continue
                for _ in range(3 if ctx.quick else 12):
                    sz = [rnd.choice([1, 2, 3, 4, 5, 7, 8]) for _ in range(N)]
                    while L.prod(sz) > 200 or (lay != "strided" and L.curve_bound(lay, sz) > 1 << 14):
                        sz[rnd.randrange(N)] = 1
                    rw.append((lay, ct, t, N, rnd.choice([1, 2, 3, 4]), sz))
    conv = []
    for v in (((2, 0, 1, 0, 0), (3, 1, 2, 0, 0)) if ctx.quick else ((1, 0, 1, 0, 0), (2, 0, 1, 0, 0), (2, 1, 3, 1, 0), (3, 1, 2, 0, 0), (4, 0, 1, 2, 0))):
        N = v[0]
        names = ["strided", "mortonT", "mortonF"] + (["hilbert"] if N == 2 else [])
        for _ in range(10 if ctx.quick else 60):
            a, b = rnd.choice(names), rnd.choice(names)
            sz = [rnd.choice([1, 2, 3, 5, 6, 7]) for _ in range(N)]
            while L.curve_bound("mortonF", sz) > 1 << 12:
                sz[sz.index(max(sz))] = 2
            conv.append((v, ("conv", a, b, sz)))
    return hists, items, stacks, cases, rw, conv


def evaluate(ctx, hists, items, stacks, cases, rw, cfgs, conv=()):
    corr = Corr()
    vg = "vg" in cfgs
    for o in OBLS:
        if o != "valgrind_clean" or vg:
            corr.add_obl(o)
    if any(hists.values()):
        src_histories(ctx, corr, cfgs, {f: h for f, h in hists.items() if h}, vg)
    if items:
        src_stacks(ctx, corr, cfgs, items, vg)
    if cases:
        src_io(ctx, corr, cfgs, stacks, cases, vg)
    if rw:
        src_layout(ctx, corr, cfgs, rw, vg)
    if conv:
        src_convert(ctx, corr, cfgs, list(conv), vg)
    if not vg:
        corr.notes.append("valgrind memcheck runs in the thorough tier only")
    corr.violations.sort(key=lambda v: (not v["oracle_fails"], len(str(v["case"]))))
    return corr


def run(ctx):
    hists, items, stacks, cases, rw, conv = gen(ctx)
    cfgs = ["dbg", "rel"] if ctx.quick else ["dbg", "rel", "vg"]
    return evaluate(ctx, hists, items, stacks, cases, rw, cfgs, conv)


def replay(ctx):
    c = ctx.replay["case"]
    cfgs = ["dbg", "rel"] + (["vg"] if c.get("cfg") == "vg" else [])
    src = c.get("source")
    if src == "histories":
        return evaluate(ctx, {c["fam"]: [[H.op_from_json(o) for o in h] for h in c["hists"]]}, [], [], [], [], cfgs)
    if src == "lookups":
        s = G.from_json(c["stack"])
        rnd = random.Random(1)
        co = G.gen_coords(rnd, s, 40)
        return evaluate(ctx, {}, [{"stack": s, "coords": co}], [], [], [], cfgs)
    if src == "layout":
        return evaluate(ctx, {}, [], [], [], [tuple(c["rw"])], cfgs)
    if src == "convert":
        op = c["op"]
        return evaluate(ctx, {}, [], [], [], [], cfgs, [(tuple(c["variant"]), (op[0], op[1], op[2], op[3]))])
    if src == "io":
        corr = Corr()
        for o in OBLS:
            corr.add_obl(o)
        real = [x for x in cfgs if x != "vg"]
        impl = IO.Impl(ctx, [c["stack"]], real, tag="c15io")
        outs = {cfg: impl.run(cfg, [(0, c["line"])]) for cfg in real}
        compare(corr, "io", "replay", [c["line"][:300]], outs, True, lambda j, cfg: c)
        return corr
    return run(ctx)
