"""C16 — concurrent lookups are race-free and deterministic.
 footprint        the flat indices the probe backend is asked for by one lookup of interp(lay(.)) == the trace of `Covfie.eval`
                  (as a multiset; the evaluator's corner order differs from the specialised 2-D/3-D branches, reported as info)
 no_static_state  an object file instantiating every layer has no writable static / thread-local / guard symbol from covfie::
 tsan_run         (also: threads working on objects of their own — construction, conversion, dump, load, rejection — life_harness.cpp)
 tsan_run         g++ ThreadSanitizer: T threads, shared and per-thread views, readers everywhere, writers on pairwise disjoint
                  coordinate sets; per-thread digests == digests of a sequential run == (direct / nn) digests of `Covfie.Conc.run`
                  on a sampled interleaving; the generated programs are checked against the theorem's hypothesis `NoConflict`
                  at cell level with the model's footprints.  Wrapper layers (affine, clamp, backup, shuffle, cast, …) take part through
                  generated stacks (harness/stackgen.py): four threads of read-only lookups through one shared view object and
                  through views of their own must return the bits of the same lookups made one after the other, race-free."""
import itertools, random, re, struct
from concurrent.futures import ThreadPoolExecutor
from vlib import common as C
from vlib.framework import Corr
from harness import layoutlib as L

CPP = C.VERIF / "harness" / "cpp"
LAYS = ["strided", "mortonT", "mortonF", "hilbert"]
INTERPS = ["direct", "nn", "linear"]

META = {
    "drivers": ["conccheck"],
    "rule": "footprint case = (interpolator, storage order, extents, coordinate), non-trivial when the lookup is interpolated or the flat "
            "index is not 0; statics case = one covfie:: symbol of the all-layers object file; tsan case = one concurrent run "
            "(storage order, interpolator, extents, T, shared/own views, readers/writers, per-thread programs), non-trivial when T >= 2",
    "trusted_base": ["ThreadSanitizer's happens-before analysis (g++ 12 libtsan) and the C++ memory model as implemented by g++ / x86-64: "
                     "distinct float objects are distinct memory locations",
                     "the cell-level model of Covfie.Conc: one lookup = atomic read of its footprint (sound for race-free programs)",
                     "nm / objdump (binutils) section attribution",
                     "_pdep_u64 (hardware) in the bmi2 builds"],
    "assumptions": ["writers own pairwise disjoint coordinate sets and nobody else reads what a writer writes (hypothesis NoConflict; "
                    "checked on every generated program at cell level with the model's footprints)",
                    "coordinates inside the field's box (C15 covers the rest)",
                    "the field outlives its views and is not assigned to / destroyed during the concurrent phase"],
}


def f32bits(x):
    return struct.unpack("<I", struct.pack("<f", float(x)))[0]


def fnv_f32(values):
    h = 1469598103934665603
    for v in values:
        b = f32bits(v)
        for k in range(4):
            h ^= (b >> (8 * k)) & 0xFF
            h = (h * 1099511628211) & 0xFFFFFFFFFFFFFFFF
    return h


def rank(sz, c):
    r = 0
    for s, x in zip(sz, c):
        r = r * s + x
    return r


def fp_line(interp, lay, sz, co, model):
    a = f"{len(sz)} {' '.join(map(str, sz))} | {' '.join(map(str, co))}"
    return f"fp {interp} {lay} 64 {a}" if model else f"fp {interp} {lay} {a}"


# =========================================================================================================== builds
def build_all(ctx, want):
    jobs, keys = [], []
    if "fp" in want:
        for i in range(3):
            keys.append(("fp", i)); jobs.append((CPP / "fp_harness.cpp", ctx.work.path(f"fp{i}"), "bmi2", [f"-DINTERP={i}"]))
    if "conc" in want:
        for l in range(4):
            keys.append(("conc", l)); jobs.append((CPP / "conc_harness.cpp", ctx.work.path(f"conc{l}"), "tsan", [f"-DLAY={l}"] + (["-mbmi2"] if l == 1 else [])))
    if "life" in want:
        keys.append(("life", 0)); jobs.append((CPP / "life_harness.cpp", ctx.work.path("life"), "tsan", ["-mbmi2"]))
    if "statics" in want:
        ctl = ctx.work.path("statics_control.cpp")
        ctl.write_text("// positive control for the symbol scan: this *must* be flagged\n"
                       "namespace covfie { namespace control { inline int & counter() { static int calls; thread_local int tl; ++tl; return calls; }\n"
                       "struct S { S(); int v; }; inline S & lazy() { static S s; return s; } } }\n"
                       "int use_control() { return ++covfie::control::counter() + covfie::control::lazy().v; }\n")
        keys.append(("statics", "O0")); jobs.append((CPP / "statics_tu.cpp", ctx.work.path("statics_O0.o"), "rel", ["-O0", "-mbmi2", "-c"]))
        keys.append(("statics", "O2")); jobs.append((CPP / "statics_tu.cpp", ctx.work.path("statics_O2.o"), "rel", ["-c"]))
        keys.append(("statics", "dbg")); jobs.append((CPP / "statics_tu.cpp", ctx.work.path("statics_dbg.o"), "rel", ["-O1", "-UNDEBUG", "-c"]))
        keys.append(("control", "O0")); jobs.append((ctl, ctx.work.path("statics_control.o"), "rel", ["-O0", "-c"]))
    res = C.compile_many(jobs)
    exes = {}
    for k, j, (rc, err) in zip(keys, jobs, res):
        if rc != 0:
            raise C.CompileError(j[0], j[2], err)
        exes[k] = j[1]
    return exes


# =========================================================================================================== footprint
NN_OFF = [0.0, -0.375, 0.25, 0.4375, -0.125]
LIN_FRAC = [0.0, 0.5, 0.875, 0.125]


def fp_cases(ctx):
    rnd = random.Random(ctx.seed * 31337 + 16)
    cases = []
    lim = {1: 9, 2: 20, 3: 27} if ctx.quick else {1: 33, 2: 64, 3: 64}
    for N in (1, 2, 3):
        for sz in L.boxes(N, lim[N]):
            for lay in LAYS:
                if lay == "hilbert" and N != 2:
                    continue
                for co in L.coords(sz):
                    cases.append(("direct", lay, list(sz), list(co)))
                    o = NN_OFF[(sum(co) + len(cases)) % len(NN_OFF)]
                    cases.append(("nn", lay, list(sz), [f32bits(max(c + o, 0.0) if c == 0 and o < 0 and rnd.random() < 0.5 else c + o) for c in co]))
                    if all(s >= 2 for s in sz) and all(c <= s - 2 for c, s in zip(co, sz)):
                        for fr in (LIN_FRAC[:2] if ctx.quick else LIN_FRAC):
                            cases.append(("linear", lay, list(sz), [f32bits(c + (fr if k != 1 else fr / 2)) for k, c in enumerate(co)]))
    for sz in L.boxes(4, 36 if ctx.quick else 81, maxext=3):        # the generic N-dimensional branch of linear
        if not all(s >= 2 for s in sz):
            continue
        for lay in LAYS[:3]:
            for co in L.coords(sz):
                if all(c <= s - 2 for c, s in zip(co, sz)):
                    cases.append(("linear", lay, list(sz), [f32bits(c + 0.25) for c in co]))
                    cases.append(("nn", lay, list(sz), [f32bits(c + 0.25) for c in co]))
    for _ in range(400 if ctx.quick else 4000):
        lay = rnd.choice(LAYS); N = 2 if lay == "hilbert" else rnd.choice([1, 2, 3])
        cap = {1: 4096, 2: 64, 3: 16}[N]
        sz = [rnd.choice([2, 3, 5, 7, 8, 9, cap - 1, cap, rnd.randrange(2, cap + 1)]) for _ in range(N)]
        ip = rnd.choice(INTERPS)
        if ip == "direct":
            co = L.random_coord(rnd, sz)
        elif ip == "nn":
            co = [f32bits(min(max(rnd.randrange(s) + rnd.choice(NN_OFF), 0.0), s - 1 + 0.4375)) for s in sz]
        else:
            co = [f32bits(rnd.randrange(s - 1) + rnd.randrange(0, 64) / 64.0) for s in sz]
        cases.append((ip, lay, sz, co))
    return cases


def part_footprint(ctx, corr, exes, cases):
    corr.add_obl("footprint")
    mout = C.run_driver("conccheck", [fp_line(ip, lay, sz, co, True) for (ip, lay, sz, co) in cases], timeout_per_line=0.01, min_timeout=120)
    by = {i: [k for k, c in enumerate(cases) if c[0] == INTERPS[i]] for i in range(3)}
    iout = [None] * len(cases)
    for i in range(3):
        if not by[i]:
            continue
        outs, _ = C.run_lines(exes[("fp", i)], [fp_line(*cases[k], False) for k in by[i]])
        for k, o in zip(by[i], outs):
            iout[k] = o
    order_same = order_diff = 0
    for case, o, m in zip(cases, iout, mout):
        ip, lay, sz, co = case
        corr.configs["bmi2"] += 1
        mt = m.split()
        mi = sorted(int(x) for x in mt[1:]) if mt and mt[0].isdigit() else None
        corr.case(("fp", case), ip != "direct" or (mi and mi[0] != 0))
        corr.dist[f"fp/{ip}/{lay}/N{len(sz)}"] += 1
        cj = {"part": "footprint", "interp": ip, "lay": lay, "sz": sz, "co": co}
        key = {"kind": "footprint", "interp": ip, "lay": lay, "sz": sz, "co": co}
        toks = o.split()
        if o.startswith("CRASH") or not toks or not all(t.isdigit() for t in toks):
            corr.add_obl("footprint", 1, 1)
            corr.violation("footprint", f"lookup {ip}({lay} {sz}) at an in-range coordinate died: {o}", cj, impl=o, model=m, oracle_fails=False, key=key, cfg="bmi2")
            continue
        got = [int(t) for t in toks[1:]]
        want_n = 2 ** len(sz) if ip == "linear" else 1
        bound = L.curve_bound(lay, sz)
        fail = None
        if int(toks[0]) != want_n or len(got) != want_n:
            fail = f"touched {len(got)} cells, a {ip} lookup in {len(sz)} dimensions touches {want_n}"
        elif any(g >= bound for g in got):
            fail = f"touched flat index {max(got)} outside the storage of {bound} cells"
        elif len(set(got)) != len(got):
            fail = f"two distinct corners share a cell: {got}"
        dis = mi is None or sorted(got) != mi
        corr.add_obl("footprint", 1, 1 if (dis or fail) else 0)
        if fail:
            corr.violation("footprint", f"{ip}({lay} {sz}): {fail}", cj, impl=o, model=m, oracle_fails=False, key=key, cfg="bmi2")
        elif dis:
            corr.violation("footprint", f"{ip}({lay} {sz}) at {co}: cells asked of the backend {sorted(got)} differ from the model's footprint {mi}", cj,
                           impl=o, model=m, oracle_fails=False, key=key, cfg="bmi2")
        else:
            if got == [int(x) for x in mt[1:]]:
                order_same += 1
            else:
                order_diff += 1
        if len(corr.samples) < 4 and ip == "linear" and len(sz) >= 2 and lay != "strided" and (not corr.samples or corr.samples[-1].get("lay") != lay):
            corr.sample({"part": "footprint", "interp": ip, "lay": lay, "sz": sz, "co_f32_bits": co, "impl": o, "model": m})
    corr.info["footprint_order"] = {"same_order_as_evaluator": order_same, "same_cells_other_order": order_diff}


# =========================================================================================================== statics
WRITABLE = (".bss", ".data", ".tbss", ".tdata", ".lbss", ".ldata", "*COM*")


def scan_object(obj):
    """-> (writable covfie data symbols, #covfie function symbols, nm letter histogram)"""
    rc, so, se = C.sh(["objdump", "-t", "-C", str(obj)], 120)
    if rc != 0:
        raise RuntimeError("objdump failed: " + se[-300:])
    bad, funcs = [], 0
    for ln in so.splitlines():
        if "\t" not in ln:
            continue
        left, right = ln.split("\t", 1)
        lt = left.split()
        if len(lt) < 2:
            continue
        sec = lt[-1]
        flags = left[len(lt[0]):left.rfind(sec)]
        name = right.split(None, 1)[1] if len(right.split(None, 1)) > 1 else ""
        name = re.sub(r"^\.hidden ", "", name)
        if "covfie::" not in name or sec == "*UND*":
            continue
        core = re.sub(r"^(guard variable for |TLS init function for |TLS wrapper function for )", "", name)
        if core.startswith("vf::"):
            continue
        if "F" in flags:
            funcs += 1
        writable = sec.startswith(WRITABLE) and not sec.startswith(".data.rel.ro")
        if writable and "F" not in flags and not sec.startswith(".text"):
            bad.append({"symbol": name[:300], "section": sec[:80]})
    rc, so, se = C.sh(["nm", "-C", "--defined-only", str(obj)], 120)
    letters = {}
    nmbad = []
    for ln in so.splitlines():
        m = re.match(r"^[0-9a-f]*\s+(\S)\s+(.*)$", ln)
        if m:
            letters[m.group(1)] = letters.get(m.group(1), 0) + 1
            if m.group(1) in "bBdDsSgG" and "covfie::" in m.group(2) and not m.group(2).startswith(("typeinfo", "vtable", "vf::")):
                nmbad.append(m.group(2)[:300])
    for n in nmbad:                      # nm's own verdict (letters b d B D ...), in case objdump's section names mislead
        if not any(b["symbol"] == n for b in bad) and not n.startswith("typeinfo"):
            bad.append({"symbol": n, "section": "nm:bdBD"})
    return bad, funcs, letters


def part_statics(ctx, corr, exes):
    corr.add_obl("no_static_state")
    cbad, _, _ = scan_object(exes[("control", "O0")])
    need = ["calls", "tl", "guard variable"]
    missing = [n for n in need if not any(n in b["symbol"] for b in cbad)]
    if missing:
        corr.notes.append(f"symbol scan positive control failed: did not flag {missing}; no_static_state not counted")
        corr.violation("no_static_state", f"the symbol scan no longer flags the control TU's static / thread_local / guard symbols ({missing}) — checker defect",
                       {"part": "statics", "control": True}, oracle_fails=False, key={"kind": "statics-control"})
        return
    for variant in ("O0", "O2", "dbg"):
        bad, funcs, letters = scan_object(exes[("statics", variant)])
        corr.configs["obj-" + variant] += funcs
        corr.add_obl("no_static_state", funcs, len(bad))
        corr.case(("statics", variant), funcs > 0, n=funcs)
        corr.dist[f"statics/{variant}/covfie-functions"] += funcs
        corr.info.setdefault("nm_letters", {})[variant] = letters
        for b in bad[:5]:
            corr.violation("no_static_state", f"writable static storage in the library: `{b['symbol']}` in section {b['section']} (object built {variant}); "
                           "lookups are no longer free of shared mutable state",
                           {"part": "statics", "variant": variant, "symbol": b["symbol"], "section": b["section"]}, impl=b, model="no writable covfie:: symbol",
                           oracle_fails=False, key={"kind": "static", "symbol": b["symbol"][:120]}, cfg="obj-" + variant)
    corr.sample({"part": "statics", "control_flagged": [b["symbol"] for b in cbad][:4]})


# =========================================================================================================== tsan
def gen_run(rnd, lay, ip, T, mode, scen, K, reps, big=False, force_sz=None):
    N = 2 if lay == "hilbert" else rnd.choice([2, 3])
    if force_sz:
        sz = list(force_sz); N = len(sz)
    elif ip == "linear" and scen == "writers":
        if lay != "strided" and T > 4:
            N = 2
        sz = [2 + 2 * T] + [rnd.choice([2, 3, 4] if big else [2, 3]) for _ in range(N - 1)]
        while lay != "strided" and L.curve_bound(lay, sz) > 4096:
            sz[-1] = 2
            if L.curve_bound(lay, sz) > 4096:
                sz = sz[:2]; N = 2
                if L.curve_bound(lay, sz) > 4096:
                    break
    else:
        lo = 2 if ip == "linear" else 1
        hi = (12 if big else 8) if N == 2 else (6 if big else 4)
        sz = [rnd.randrange(max(lo, 2), hi + 1) for _ in range(N)]
    lattice = list(itertools.product(*[range(s) for s in sz]))
    progs = [[] for _ in range(T)]

    def read_at(p, own_rows=None):
        """a lookup whose footprint stays on lattice point p (direct, nn) / starts at corner p (linear)"""
        if ip == "direct":
            return ("r", tuple(p))
        if ip == "nn":
            return ("r", tuple(f32bits(max(0.0, c + rnd.choice(NN_OFF))) if c == 0 else f32bits(c + rnd.choice(NN_OFF)) for c in p))
        return ("r", tuple(f32bits(c + rnd.randrange(0, 32) / 32.0) for c in p))

    if mode == "two":
        # a second field of the same type whose extents fall into another power-of-two bracket; lookups only
        other = [x for x in (2, 3, 5, 9, 12, 17) if (x - 1).bit_length() != (max(sz) - 1).bit_length()]
        sz2 = [rnd.choice(other) for _ in sz]
        while lay != "strided" and L.curve_bound(lay, sz2) > 4096:
            sz2[sz2.index(max(sz2))] = 3
        for t in range(T):
            ext = sz2 if t % 2 else sz
            for _ in range(K):
                p = [rnd.randrange(max(1, s - 1)) for s in ext] if ip == "linear" else [rnd.randrange(s) for s in ext]
                progs[t].append(read_at(p))
        return {"lay": lay, "interp": ip, "N": len(sz), "sz": sz, "sz2": sz2, "T": T, "mode": mode, "scen": "readers", "reps": reps, "progs": progs}
    if scen == "readers":
        for t in range(T):
            for _ in range(K):
                if ip == "linear":
                    p = [rnd.randrange(s - 1) for s in sz]
                else:
                    p = [rnd.randrange(s) for s in sz]
                progs[t].append(read_at(p))
    elif ip != "linear":
        own = [[p for p in lattice if rank(sz, p) % (T + 1) == t] for t in range(T + 1)]
        for t in range(T):
            for j in range(K):
                if own[t] and rnd.random() < 0.5:
                    progs[t].append(("w", tuple(rnd.choice(own[t])), t * 4096 + j + 1))
                else:
                    pool = own[t] + own[T] if rnd.random() < 0.7 else (own[T] or own[t])
                    if not pool:
                        continue
                    progs[t].append(read_at(rnd.choice(pool)))
    else:
        for t in range(T):
            r0 = 2 + 2 * t
            for j in range(K):
                if rnd.random() < 0.5:
                    p = [rnd.choice([r0, r0 + 1])] + [rnd.randrange(s) for s in sz[1:]]
                    progs[t].append(("w", tuple(p), t * 4096 + j + 1))
                else:
                    p = [rnd.choice([r0, 0])] + [rnd.randrange(s - 1) for s in sz[1:]]
                    progs[t].append(read_at(p))
    return {"lay": lay, "interp": ip, "N": len(sz), "sz": sz, "T": T, "mode": mode, "scen": scen, "reps": reps, "progs": progs}


def run_line(r):
    acts = []
    for t, prog in enumerate(r["progs"]):
        for a in prog:
            if a[0] == "r":
                acts.append(f"{t} r {' '.join(map(str, a[1]))}")
            else:
                acts.append(f"{t} w {' '.join(map(str, a[1]))} {a[2]}")
    two = (" " + " ".join(map(str, r["sz2"]))) if r.get("mode") == "two" else ""
    return f"run {r['lay']} {r['interp']} {r['N']} {' '.join(map(str, r['sz']))} {r['T']} {r['mode']} {r['reps']}{two} ; " + " ; ".join(acts)


def model_side(runs, rnd):
    """footprints of every action from the model; NoConflict at cell level; Conc.run on a sampled interleaving for direct / nn"""
    want = {}
    def ext(r, t):
        return tuple(r["sz2"]) if (r.get("mode") == "two" and t % 2) else tuple(r["sz"])
    for r in runs:
        for t, prog in enumerate(r["progs"]):
            for a in prog:
                k = (r["interp"] if a[0] == "r" else "direct", r["lay"], ext(r, t), a[1])
                want[k] = None
        if r["interp"] != "linear" and r.get("mode") != "two":
            for p in itertools.product(*[range(s) for s in r["sz"]]):
                want[("direct", r["lay"], tuple(r["sz"]), p)] = None
    keys = list(want)
    outs = C.run_driver("conccheck", [fp_line(k[0], k[1], list(k[2]), list(k[3]), True) for k in keys], timeout_per_line=0.01, min_timeout=180)
    for k, o in zip(keys, outs):
        t = o.split()
        want[k] = [int(x) for x in t[1:]] if t and t[0].isdigit() else None
    lines, idx = [], []
    for n, r in enumerate(runs):
        sz = tuple(r["sz"])
        cells = []          # per thread: (reads, writes)
        ok = True
        cprogs = []
        for t, prog in enumerate(r["progs"]):
            rd, wr, cp = set(), set(), []
            for a in prog:
                fp = want[(r["interp"] if a[0] == "r" else "direct", r["lay"], ext(r, t), a[1])]
                if fp is None:
                    ok = False; break
                if a[0] == "r":
                    rd.update(fp); cp.append(f"r {len(fp)} {' '.join(map(str, fp))}")
                else:
                    wr.add(fp[0]); cp.append(f"w {fp[0]} {a[2]}")
            cells.append((rd, wr)); cprogs.append(" ".join(cp))
        r["model_ub"] = not ok
        r["noconflict"] = ok and all(not (cells[u][1] & (cells[t][0] | cells[t][1])) for t in range(len(cells)) for u in range(len(cells)) if t != u)
        r["model_digests"] = None
        if ok and r["noconflict"] and r["interp"] != "linear" and r.get("mode") != "two":
            bound = L.curve_bound(r["lay"], list(sz))
            mem = [0] * bound
            for p in itertools.product(*[range(s) for s in sz]):
                mem[want[("direct", r["lay"], sz, p)][0]] = 1000 + rank(sz, p)
            sched = [t for t, prog in enumerate(r["progs"]) for _ in prog]
            rnd.shuffle(sched)
            lines.append(f"run {r['T']} | {' '.join(map(str, mem))} | " + " | ".join(cprogs) + " | " + " ".join(map(str, sched)))
            idx.append(n)
    if lines:
        outs = C.run_driver("conccheck", lines, timeout_per_line=2.0, min_timeout=300)
        for n, o in zip(idx, outs):
            r = runs[n]
            if " ; solo " not in o:
                r["model_digests"] = "model-error: " + o[:100]
                continue
            conc, solo = o.split(" ; solo ")
            cv = [[int(x) for x in part.split()] for part in conc.split("|")]
            sv = [[int(x) for x in part.split()] for part in solo.split("|")]
            r["model_conc_eq_solo"] = cv == sv
            r["model_digests"] = [fnv_f32(v) for v in cv]


def exec_run(exes, r):
    exe = exes[("conc", LAYS.index(r["lay"]))]
    rc, so, se = C.sh([str(exe)], 240, input=run_line(r) + "\n")
    return rc, so.strip(), se


def judge_run(r, rc, so, se):
    """-> (kind, what) with kind in ok | race | crash | nondet | model"""
    if "ThreadSanitizer" in se or rc == 96:
        m = re.search(r"WARNING: ThreadSanitizer: ([^\n(]*)", se)
        locs = re.findall(r"#0 ([^\n]{0,160})", se)
        loc = next((l for l in locs if "covfie::" in l), locs[0] if locs else "")
        return "race", f"ThreadSanitizer: {m.group(1).strip() if m else 'report'}; first frame `{loc.strip()[:200]}`"
    if rc != 0 or not so.startswith("seq"):
        return "crash", f"harness died / answered `{so[:80]}`: {C.classify_death(rc, se)}"
    groups = [g.split()[1:] for g in so.split(" | ")]
    seq = groups[0]
    for g in groups[1:]:
        if g != seq:
            t = next(k for k in range(len(seq)) if k >= len(g) or g[k] != seq[k])
            return "nondet", f"thread {t} obtained other values concurrently (digest {g[t] if t < len(g) else '-'}) than in the sequential run ({seq[t]})"
    if isinstance(r.get("model_digests"), list):
        md = [format(d, "x") for d in r["model_digests"]]
        if md != seq:
            t = next(k for k in range(len(seq)) if md[k] != seq[k])
            return "model", f"thread {t}: sequential digest {seq[t]} differs from the digest of Covfie.Conc.run's values {md[t]}"
    return "ok", ""


def shrink_run(exes, r, kind):
    """halve the per-thread programs while the same kind of failure persists"""
    cur = r
    for _ in range(8):
        longest = max(len(p) for p in cur["progs"])
        if longest <= 1:
            break
        better = None
        for part in (0, 1):
            cand = dict(cur)
            cand["progs"] = [p[:(len(p) + 1) // 2] if part == 0 else p[len(p) // 2:] for p in cur["progs"]]
            cand.pop("model_digests", None)
            rc, so, se = exec_run(exes, cand)
            if judge_run(cand, rc, so, se)[0] == kind:
                better = cand
                break
        if better is None:
            break
        cur = better
    return cur


def part_tsan(ctx, corr, exes, runs, shrink=True):
    corr.add_obl("tsan_run")
    rnd = random.Random(ctx.seed * 7 + 161)
    model_side(runs, rnd)
    # positive control: two threads write the same coordinate — the detector must speak
    ctl = {"lay": runs[0]["lay"] if runs else "strided", "interp": "direct", "N": 2, "sz": [4, 4], "T": 2, "mode": "shared", "scen": "control", "reps": 1,
           "progs": [[("w", (1, 1), 5), ("r", (1, 1))] * 50, [("w", (1, 1), 6), ("r", (1, 1))] * 50]}
    rc, so, se = exec_run(exes, ctl)
    if judge_run(ctl, rc, so, se)[0] != "race":
        corr.notes.append("ThreadSanitizer positive control (two writers on one coordinate) produced no report: tsan_run not counted")
        corr.violation("tsan_run", "ThreadSanitizer did not report the deliberately racy control program — detector inert (checker defect)",
                       {"part": "tsan", "control": True, "line": run_line(ctl)}, impl=so[:200], oracle_fails=False, key={"kind": "tsan-control"})
        return
    with ThreadPoolExecutor(max_workers=max(2, C.NCPU // 3)) as ex:
        results = list(ex.map(lambda r: exec_run(exes, r), runs))
    mc = {"runs_with_model_digests": 0, "model_conc_eq_solo": 0, "noconflict_checked": 0}
    for r, (rc, so, se) in zip(runs, results):
        corr.configs["tsan"] += 1
        canon = {k: r[k] for k in ("lay", "interp", "sz", "T", "mode", "scen", "progs")}
        corr.case(("tsan", canon), r["T"] >= 2)
        corr.dist[f"tsan/{r['lay']}/{r['interp']}/T{r['T']}/{r['mode']}/{r['scen']}"] += 1
        cj = {"part": "tsan", "run": {k: r[k] for k in ("lay", "interp", "N", "sz", "sz2", "T", "mode", "scen", "reps", "progs") if k in r}}
        key = {"kind": "tsan", "lay": r["lay"], "interp": r["interp"], "T": r["T"], "mode": r["mode"], "scen": r["scen"]}
        if r["model_ub"] or not r["noconflict"]:
            corr.add_obl("tsan_run", 1, 1)
            corr.violation("tsan_run", f"generated program violates the model's NoConflict hypothesis / leaves the box ({r['lay']} {r['interp']} {r['sz']}) — generator defect",
                           cj, oracle_fails=False, key=dict(key, kind="generator"))
            continue
        mc["noconflict_checked"] += 1
        if isinstance(r.get("model_digests"), list):
            mc["runs_with_model_digests"] += 1
            mc["model_conc_eq_solo"] += 1 if r.get("model_conc_eq_solo") else 0
        elif isinstance(r.get("model_digests"), str):
            corr.add_obl("tsan_run", 1, 1)
            corr.violation("tsan_run", "conccheck driver failed on a generated program: " + r["model_digests"], cj, oracle_fails=False, key=dict(key, kind="driver"))
            continue
        kind, what = judge_run(r, rc, so, se)
        corr.add_obl("tsan_run", 1, 0 if kind == "ok" else 1)
        if kind != "ok":
            small = r
            if shrink and kind in ("race", "nondet") and sum(1 for v in corr.violations if v["obligation"] == "tsan_run") < 3:
                small = shrink_run(exes, r, kind)
                rc2, so2, se2 = exec_run(exes, small)
                k2, w2 = judge_run(small, rc2, so2, se2)
                if k2 == kind:
                    what, so, se = w2, so2, se2
                else:
                    small = r
                cj = {"part": "tsan", "run": {k: small[k] for k in ("lay", "interp", "N", "sz", "sz2", "T", "mode", "scen", "reps", "progs") if k in small}}
            nops = sum(len(p) for p in small["progs"])
            corr.violation("tsan_run", f"{r['interp']}({r['lay']} {r['sz']}), {r['T']} threads, {r['mode']} views, {r['scen']}, {nops} operations: {what}",
                           cj, impl={"answer": so[:400], "tsan": se[:1500]}, model="no report; conc == seq == Conc.run", oracle_fails=kind in ("race", "nondet", "crash"),
                           key=key, cfg="tsan")
        elif len(corr.samples) < 10 and r["scen"] == "writers" and r["T"] >= 4 and (not corr.samples or corr.samples[-1].get("interp") != r["interp"]):
            corr.sample({"part": "tsan", "lay": r["lay"], "interp": r["interp"], "sz": r["sz"], "T": r["T"], "mode": r["mode"], "scen": r["scen"],
                         "ops_per_thread": [len(p) for p in r["progs"]], "answer": so[:200],
                         "model_digests": [format(d, "x") for d in r["model_digests"]] if isinstance(r.get("model_digests"), list) else "n/a (interpolated values)"})
    corr.info["tsan_model"] = mc
    corr.info["tsan_control"] = "deliberately racy control program was reported by ThreadSanitizer"


def tsan_runs(ctx):
    rnd = random.Random(ctx.seed * 65537 + 1616)
    runs = []
    if ctx.quick:
        Ts, K, reps, per = (2, 4, 8, 16), 100, 2, 1
    else:
        Ts, K, reps, per = (2, 3, 4, 6, 8, 12, 16), 300, 4, 2
    for lay in LAYS:
        for ip in INTERPS:
            for T in Ts:
                for mode in ("shared", "own"):
                    for scen in ("readers", "writers"):
                        for _ in range(per):
                            runs.append(gen_run(rnd, lay, ip, T, mode, scen, K, reps, big=not ctx.quick))
                if T in (2, 8) or not ctx.quick:
                    runs.append(gen_run(rnd, lay, ip, T, "two", "readers", K, reps + 2, big=not ctx.quick))
    # one wide field per storage order (an extent beyond 256 and beyond 2^8 cells per row): readers all over it through one shared
    # view and through views of their own — state cached per tile / per row in a view shows as a race or as another cell's value
    for lay in LAYS:
        for mode in ("shared", "own"):
            runs.append(gen_run(rnd, lay, "linear", 4, mode, "readers", 150 if ctx.quick else 400, reps, force_sz=[300, 261]))
    return runs


# =========================================================================================================== entry points
# ------------------------------------------------------------------------------------------------ wrapper layers, concurrently
def conc_extra(stack):
    """C++ of the `conc` operation of one generated stack: T threads, K lookups each, (a) one after the other through one
    view, (b) concurrently through that SAME view object, (c) concurrently through views each thread makes for itself;
    all three must give the same bits (and ThreadSanitizer must stay silent)"""
    from harness import stackgen as G
    sk, N, bare = stack.in_kind()
    osk, M = stack.out_kind()
    ct = G.CPP[sk]
    coord = (f"fromb<{ct}>(in.coord[(t * K + k)])" if bare else
             f"vec<typename field<B>::coordinate_t, {ct}, {N}>(in.coord, (t * K + k) * {N})")
    return (
        "std::string conc(const In & in) {\n  if (!F) return \"nosetup\";\n"
        "  const std::size_t T = in.cfg[0], K = in.cfg[1];\n"
        "  typename field<B>::view_t v(*F);\n"
        "  auto one = [&](const typename field<B>::view_t & vw, std::size_t t, std::vector<u64> & o) {\n"
        f"    for (std::size_t k = 0; k < K; ++k) {{ auto c = {coord}; auto r = vw.at(c); for (std::size_t q = 0; q < {M}; ++q) o.push_back(bits(r[q])); }}\n"
        "  };\n"
        "  std::vector<std::vector<u64>> seq(T), con(T), own(T);\n"
        "  for (std::size_t t = 0; t < T; ++t) one(v, t, seq[t]);\n"
        "  { std::atomic<int> go{0}; std::vector<std::thread> th;\n"
        "    for (std::size_t t = 0; t < T; ++t) th.emplace_back([&, t] { while (!go.load()) {} one(v, t, con[t]); });\n"
        "    go = 1; for (auto & x : th) x.join(); }\n"
        "  { std::atomic<int> go{0}; std::vector<std::thread> th;\n"
        "    for (std::size_t t = 0; t < T; ++t) th.emplace_back([&, t] { while (!go.load()) {} typename field<B>::view_t w(*F); one(w, t, own[t]); });\n"
        "    go = 1; for (auto & x : th) x.join(); }\n"
        "  std::size_t bad1 = 0, bad2 = 0;\n"
        "  for (std::size_t t = 0; t < T; ++t) { if (con[t] != seq[t]) ++bad1; if (own[t] != seq[t]) ++bad2; }\n"
        "  return \"conc \" + std::to_string(bad1) + \" \" + std::to_string(bad2);\n}\n")


def wrapper_items(ctx):
    """generated stacks with at least one wrapper layer (affine / clamp / backup / shuffle / cast / deref), plus fixed ones"""
    from harness import stackgen as G
    from fractions import Fraction as Fr
    rnd = random.Random(ctx.seed * 7919 + 1601)
    stacks = []
    # fixed: a sheared affine over nearest neighbour over row-major; backup and clamp over an interpolator (lookups fall inside and outside)
    arr = G.Array("f32", 1); arr.setup(rnd, 12)
    stacks.append(G.Affine([[Fr(1), Fr(1, 2), Fr(0)], [Fr(0), Fr(1), Fr(1, 4)]], G.Interp("nn", "f32", G.Layout("strided", "u64", [4, 3], arr))))
    want = 10 if ctx.quick else 60
    guard = 0
    while len(stacks) < want and guard < 40 * want:
        guard += 1
        try:
            s = G.random_stack(rnd)
        except G.NoSample:
            continue
        labels = [l.label for l in s.layers()]
        if s.depth() < 2 or not G.fits(s) or not any(x in labels for x in ("affine", "clamp", "backup", "shuffle", "cast", "deref")):
            continue
        if getattr(s.layers()[-1], "probe", None):      # recording probe backends are not thread-safe by design
            continue
        stacks.append(s)
    items = []
    T, K = 4, (12 if ctx.quick else 40)
    for s in stacks:
        co = G.gen_coords(rnd, s, T * K)
        if len(co) < T * K:
            co = (co * (T * K // max(1, len(co)) + 1))[:T * K] if co else []
        if co:
            items.append({"stack": s, "coords": co[:T * K], "T": T, "K": K})
    return items


def part_wrappers(ctx, corr, items):
    from harness import stackgen as G
    if not items:
        return
    exe, failures = G.build_tus(ctx, [(k, it["stack"], conc_extra(it["stack"])) for k, it in enumerate(items)], ["tsan"], 4, "c16w",
                                ops=("setup", "at", "conc"))
    for idxs, cfg, err, src in failures:
        raise C.CompileError(src, cfg, err)

    def run_one(k):
        it = items[k]; s = it["stack"]
        sk = s.in_kind()[0]
        words = " ".join(str(G.enc(sk, x)) for c, _, _ in it["coords"] for x in c)
        line = f"conc S{k} {it['T']} {it['K']} ; ; {words}"
        o, cr = C.run_lines(exe[(k, "tsan")], [line] * (3 if ctx.quick else 10), setup=[G.setup_line(k, s)],
                            env={"TSAN_OPTIONS": "exitcode=96:halt_on_error=1"}, min_timeout=120)
        return o, cr
    for k, (outs, crashes) in enumerate(G.run_parallel(run_one, list(range(len(items))))):
        it = items[k]; s = it["stack"]
        for rep_, o in enumerate(outs):
            corr.configs["tsan"] += 1
            corr.case(("wrappers", s.desc(), it["T"], it["K"], rep_), True)
            corr.dist["tsan/wrapper-stacks"] += 1
            for l in s.layers():
                corr.dist["tsan/wrapper-layer/" + l.label] += 1
            bad = o != "conc 0 0"
            corr.add_obl("tsan_run", 1, 1 if bad else 0)
            if bad:
                why = ("ThreadSanitizer reports a data race between concurrent lookups" if "tsan" in o else
                       f"concurrent lookups returned other bits than the same lookups one after the other (`{o}`: threads differing with a "
                       "shared view, with own views)" if o.startswith("conc ") else f"the concurrent run died: {o}")
                corr.violation("tsan_run", f"field<{s.desc()[:170]}>, {it['T']} threads x {it['K']} read-only lookups: {why}",
                               {"part": "wrappers", "stack": s.to_json(), "coords": [[G.jv(x) for x in c] for c, _, _ in it["coords"]],
                                "T": it["T"], "K": it["K"]},
                               impl=o, model="conc 0 0", oracle_fails=True, key={"kind": "wrappers", "stack": s.desc()}, cfg="tsan")
                break


def part_life(ctx, corr, exes):
    """threads that share nothing: construction, conversion, dump, load, rejection, iteration of per-thread objects"""
    runs = [(4, 3), (8, 2), (2, 6)] if ctx.quick else [(T, r) for T in (2, 3, 4, 8, 16) for r in (2, 4, 8)]
    for T, reps in runs:
        for attempt in range(2 if ctx.quick else 4):
            o, _ = C.run_lines(exes[("life", 0)], [f"life {T} {reps}"], env={"TSAN_OPTIONS": "exitcode=96:halt_on_error=1"}, min_timeout=120)
            o = o[0]
            corr.configs["tsan"] += 1
            corr.case(("life", T, reps, attempt), True)
            corr.dist["tsan/lifecycle-of-unshared-objects"] += 1
            bad = o != "life ok"
            corr.add_obl("tsan_run", 1, 1 if bad else 0)
            if bad:
                why = ("ThreadSanitizer reports a data race" if "tsan" in o else "a thread obtained other values than the same work done alone"
                       if o.startswith("life mismatch") else "the run died")
                corr.violation("tsan_run", f"{T} threads, each constructing / converting / dumping / loading / rejecting / iterating objects of its own "
                               f"(nothing shared by the caller): {why}: {o[:300]}", {"part": "life", "T": T, "reps": reps}, impl=o, model="life ok",
                               oracle_fails=True, key={"kind": "life"}, cfg="tsan")
                return


def finish(corr):
    def size(v):
        c = v["case"] or {}
        if c.get("part") == "tsan" and "run" in c:
            return sum(len(p) for p in c["run"]["progs"])
        return L.prod(c.get("sz", [1]))
    corr.violations.sort(key=lambda v: (not v["oracle_fails"], size(v)))
    return corr


def run(ctx):
    corr = Corr()
    exes = build_all(ctx, ("fp", "conc", "statics", "life"))
    part_footprint(ctx, corr, exes, fp_cases(ctx))
    part_statics(ctx, corr, exes)
    part_tsan(ctx, corr, exes, tsan_runs(ctx))
    part_life(ctx, corr, exes)
    part_wrappers(ctx, corr, wrapper_items(ctx))
    return finish(corr)


def replay(ctx):
    c = ctx.replay["case"]
    corr = Corr()
    part = c.get("part")
    if part == "footprint":
        exes = build_all(ctx, ("fp",))
        part_footprint(ctx, corr, exes, [(c["interp"], c["lay"], c["sz"], c["co"])])
    elif part == "statics":
        exes = build_all(ctx, ("statics",))
        part_statics(ctx, corr, exes)
    elif part == "life":
        exes = build_all(ctx, ("life",))
        part_life(ctx, corr, exes)
    elif part == "wrappers":
        from harness import stackgen as G
        s = G.from_json(c["stack"])
        co = [(tuple(G.vj(x) for x in cc), None, None) for cc in c["coords"]]
        part_wrappers(ctx, corr, [{"stack": s, "coords": co, "T": c["T"], "K": c["K"]}])
    else:
        exes = build_all(ctx, ("conc",))
        r = dict(c["run"])
        r["progs"] = [[(a[0], tuple(a[1])) if a[0] == "r" else (a[0], tuple(a[1]), a[2]) for a in p] for p in r["progs"]]
        part_tsan(ctx, corr, exes, [r], shrink=False)
    return finish(corr)
