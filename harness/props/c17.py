"""C17 — a field's configuration can be read back (get_backend / get_configuration chains on owning data, members on
non-owning data), make_parameter_pack_for is positional, and a field rebuilt from the reported values is the original."""
import collections, random, re
from fractions import Fraction as Fr
from vlib import common as C
from vlib.framework import Corr
from harness import stackgen as G
from harness import boxlib as B

META = {
    "drivers": ["configcheck"],
    "rule": "case = (stack type, configuration words of every layer, operation in {chain, packfor, rebuild}, build config); non-trivial when at "
            "least two layers of the stack have the same configuration type (same layer kind, scalar kind and dimensions) with different values",
    "trusted_base": ["non-owning data has no get_configuration(): the harness reads the public members m_min/m_max/m_default/m_transform/m_sizes/"
                     "m_value/m_size at every level reached through get_backend()",
                     "the Python oracle compares the reported words with the words passed in, position by position"],
    "assumptions": ["make_parameter_pack_for is shipped for depths 1..10 only (parameter_pack.hpp); deeper stacks are built with make_parameter_pack",
                    "configuration values exclude NaN (bitwise comparison of copies)",
                    "stacks whose non-owning data exceeds 256 bytes have no field_view (static_assert) and are not generated"],
}
OBLS = ("config_chain", "pack_for", "rebuild")


# ------------------------------------------------------------------------------------------------ C++ for one stack
def nested_rebuild(names, reb, k):
    """od_{k-1} = the primitive's owning data (or configuration); od_i = L_i::owning_data_t(cfg_i, std::move(od_{i+1}))"""
    out = []
    last = reb[k - 1]
    if "owning_data_t(" in last:
        out.append(f"  auto od{k - 1} = {last};\n")
    else:
        out.append(f"  typename {names[k - 1]}::owning_data_t od{k - 1}({last});\n")
    for i in range(k - 2, -1, -1):
        out.append(f"  typename {names[i]}::owning_data_t od{i}({reb[i]}, std::move(od{i + 1}));\n")
    return "".join(out)


def extra_cpp(stack, nested=False):
    """nested: the rebuilt field is assembled bottom-up through every layer's (configuration, backend owning data&&) constructor
    (the constructor `read_binary` also ends in) instead of through one parameter pack"""
    lines, Bn, names = G.type_aliases(stack)
    layers = stack.layers()
    k = len(layers)
    own = lambda i: "f.backend()" + ".get_backend()" * i
    view = lambda i: "v.backend()" + ".get_backend()" * i
    o_stmts, v_stmts = [], []
    for i, (l, T) in enumerate(zip(layers, names)):
        a, b = l.cfg_chain_cpp(T, own(i), view(i))
        o_stmts.append(f'  os << " ;"; {a}')
        # the non-owning data has no accessor: its data members are read by name. Should a member be renamed, the level is
        # reported as not observable (`?`) instead of failing to compile -- the property speaks of the owning side only
        mem = sorted(set(re.findall(re.escape(view(i)) + r"\.(m_\w+)", b)))
        if mem:
            bb = b.replace(view(i) + ".", "vb.")
            req = bb if bb.rstrip().endswith(";") else bb + ";"     # the statements themselves are the requirements (a member of
            # another type is "not observable", too); a generic lambda makes the requires-expression dependent
            v_stmts.append(f'  os << " ;"; [&](const auto & vb) {{ if constexpr (requires {{ {req} }}) {{ {bb} }} '
                           f'else os << " ?"; }}({view(i)});')
        else:
            v_stmts.append(f'  os << " ;"; {b}')
    # arguments of make_parameter_pack_for: configuration_t rvalues, outermost first
    args, off = [], 0
    for l, T in zip(layers, names):
        if isinstance(l, G.Array):
            e = f"typename {T}::configuration_t{{in.cells.size() / {l.M}}}"
        else:
            e, off = l.pack_cpp(T, off)
        args.append(e)
    prim = layers[-1]
    fown = lambda i: "F->backend()" + ".get_backend()" * i
    reb = [f"{fown(i)}.get_configuration()" for i in range(k - 1)]
    reb.append(f"typename {names[-1]}::owning_data_t({fown(k - 1)})" if isinstance(prim, G.Array) else f"{fown(k - 1)}.get_configuration()")
    sk, N, bare = stack.in_kind()
    osk, M = stack.out_kind()
    coord = f"fromb<{G.CPP[sk]}>(in.coord[0])" if bare else f"vec<typename field<B>::coordinate_t, {G.CPP[sk]}, {N}>(in.coord, 0)"
    has_pf = k <= 10
    cmp_h = "" if isinstance(prim, G.Array) or not has_pf else f'  if (H_) {{ typename field<B>::view_t vh(*H_); auto rh = vh.at(c); r += " | " + out(rh, {M}); }}\n'
    if nested and k >= 2:
        rebuild_src = ('std::string rebuild(const In &) {\n  if (!F) return "nosetup";\n' + nested_rebuild(names, reb, k) +
                       '  G_ = std::make_unique<field<B>>(make_parameter_pack(std::move(od0)));\n')
    elif isinstance(prim, G.Array) and k >= 3 and isinstance(layers[-2], G.Layout) and layers[-2].label == "strided" and isinstance(layers[-3], G.Interp):
        # plain variant, storage order over an array beneath an interpolator (the one shape for which the library accepts a
        # named storage object in a pack): the storage (storage order + array) is
        # handed over as a NAMED object, twice -- the pack must copy from it (a pack that moves out of a named argument leaves
        # the second rebuild, and the caller's storage, empty)
        pk = ", ".join(reb[:-2] + ["st_"])
        rebuild_src = ('std::string rebuild(const In &) {\n  if (!F) return "nosetup";\n'
                       f'  typename {names[-2]}::owning_data_t st_({fown(k - 2)});\n'
                       f'  {{ field<B> first_(make_parameter_pack({pk})); (void)first_; }}\n'
                       f'  G_ = std::make_unique<field<B>>(make_parameter_pack({pk}));\n')
    else:
        rebuild_src = (f'std::string rebuild(const In &) {{\n  if (!F) return "nosetup";\n'
                       f'  G_ = std::make_unique<field<B>>(make_parameter_pack({", ".join(reb)}));\n')
    src = (
        "static std::unique_ptr<field<B>> G_, H_;\n"
        "std::string chain_of(const field<B> & f) {\n  std::ostringstream os;\n" + "\n".join(o_stmts) + "\n  return os.str();\n}\n"
        "std::string vchain_of(const field<B> & f) {\n  typename field<B>::view_t v(f);\n  std::ostringstream os;\n" + "\n".join(v_stmts) + "\n  return os.str();\n}\n"
        'std::string chain(const In &) { if (!F) return "nosetup"; return "o" + chain_of(*F) + " | v" + vchain_of(*F); }\n' +
        rebuild_src +
        '  return "o" + chain_of(*G_) + " | v" + vchain_of(*G_);\n}\n')
    if has_pf:
        src += (f'std::string packfor(const In & in) {{\n  H_ = std::make_unique<field<B>>(make_parameter_pack_for<field<B>>({", ".join(args)}));\n'
                '  return "o" + chain_of(*H_) + " | v" + vchain_of(*H_);\n}\n')
    else:
        src += 'std::string packfor(const In &) { return "nohelper"; }\n'
    src += (f'std::string cmp(const In & in) {{\n  if (!F || !G_) return "nosetup";\n  auto c = {coord};\n  typename field<B>::view_t vf(*F);\n'
            f'  typename field<B>::view_t vg(*G_);\n  auto rf = vf.at(c);\n  auto rg = vg.at(c);\n  std::string r = out(rf, {M}) + " | " + out(rg, {M});\n'
            f'{cmp_h}  return r;\n}}\n')
    return src


def level_words(stack, wild=None):
    """the configuration words of every level, outermost first, as the harness prints them"""
    out = []
    for i, l in enumerate(stack.layers()):
        if wild is not None and not isinstance(l, G.Array):
            out.append(list(wild[i]))
        elif isinstance(l, G.Array):
            out.append([l.n])
        else:
            out.append(list(l.cfg_words()))
    return out


def cfg_type(l):
    """two layers with equal cfg_type have the same configuration *type* (shape), so a swap could go unnoticed by the compiler"""
    if l.label in ("shuffle", "cast", "deref", "nn", "linear", "identity"):
        return ("monostate",)
    sk, N, _ = l.in_kind()
    osk, M = l.out_kind()
    if l.label in G.LAYOUTS or l.label == "array":
        return ("nd_size", N)
    if l.label == "clamp":
        return ("clamp", sk, N)
    if l.label == "backup":
        return ("backup", sk, N, osk, M)
    if l.label == "affine":
        return ("affine", sk, N)
    return ("constant", osk, M)


def nontrivial(stack, wild=None):
    seen = collections.defaultdict(set)
    for l, w in zip(stack.layers(), level_words(stack, wild)):
        if cfg_type(l) != ("monostate",):
            seen[cfg_type(l)].add(tuple(w))
    return any(len(v) >= 2 for v in seen.values())


# ------------------------------------------------------------------------------------------------ generation
def tower(rnd, kind, depth):
    """depth-1 wrappers of `kind` (clamp / backup / affine / mixed) with pairwise distinct configurations over identity / constant"""
    for attempt in range(40):
        fsk = rnd.choice(["f32", "f64"])
        N = rnd.choice([1, 2, 3] if depth <= 4 else [1, 2] if depth <= 6 else [1])
        M = rnd.choice([m for m in (1, 2, 3) if m != N])
        top = G.Identity(fsk, N) if rnd.random() < 0.5 else G.Constant(fsk, N, fsk, M, [rnd.randrange(-500, 501) for _ in range(M)])
        used = set()
        ok = True
        for d in range(depth - 1):
            k = kind if kind != "mixed" else rnd.choice(["clamp", "backup", "affine"])
            for t in range(30):
                try:
                    if k == "affine":
                        nxt = G.make_layer(rnd, "affine", top)
                    elif k == "clamp":
                        lo = [G.small(rnd, fsk) for _ in range(N)]
                        nxt = G.Clamp(lo, [x + Fr(rnd.randrange(0, 40), 8) for x in lo], top)
                    else:
                        lo = [G.small(rnd, fsk) for _ in range(N)]
                        nxt = G.Backup(lo, [x + Fr(rnd.randrange(0, 40), 8) for x in lo],
                                       [rnd.randrange(-900, 901) for _ in range(top.out_kind()[1])], top)
                except G.NoSample:
                    continue
                w = (nxt.label, tuple(nxt.cfg_words()))
                if w not in used:
                    used.add(w)
                    break
            else:
                ok = False
                break
            top = nxt
            if not G.fits(top):
                ok = False
                break
        if ok and top.depth() == depth:
            return top
    return None


def gen(ctx):
    rnd = random.Random(ctx.seed * 49979687 + 17)
    items = []
    for depth in range(1, 11):
        for kind in ("affine", "clamp", "backup", "mixed"):
            for rep_ in range(1 if ctx.quick else 3):
                s = tower(rnd, kind, depth)
                if s is not None:
                    items.append({"stack": s, "origin": f"tower-{kind}"})
    # storage-order towers: nd_size<1> at every level (array, strided<1>, strided<1>): one configuration type throughout
    for depth in (2, 3, 4, 5):
        arr = G.Array(rnd.choice(["f32", "f64"]), rnd.choice([1, 2, 3]))
        sizes = sorted(rnd.sample(range(3, 40), depth - 1))
        arr.setup(rnd, sizes[-1] + 2)
        top = arr
        for sz in reversed(sizes):
            top = G.Layout(rnd.choice(["strided", "mortonF"]) if sz <= 8 else "strided", "u64", [sz], top)
        items.append({"stack": top, "origin": "tower-nd_size"})
    # the shape for which the library accepts a NAMED storage object in a pack (interpolator over row-major over array):
    # always present, always rebuilt through the plain (non-nested) path, see extra_cpp
    for which, sk, sizes, at, M, aff in (("nn", "f32", [4, 3], "f32", 2, True), ("linear", "f64", [3, 2, 2], "f64", 3, False),
                                         ("linear", "f32", [5], "f32", 1, True)):
        arr = G.Array(at, M)
        arr.setup(rnd, G.prod(sizes))
        top = G.Interp(which, sk, G.Layout("strided", "u64", sizes, arr))
        if aff:
            N = len(sizes)
            top = G.Affine([[Fr(int(i == j)) for j in range(N)] + [Fr(rnd.choice([0, 1, 2]), 4)] for i in range(N)], top)
        items.append({"stack": top, "origin": "named-storage", "named": True})
    nrand = 36 if ctx.quick else 400
    guard = 0
    while sum(1 for it in items if it["origin"] == "random") < nrand and guard < 10 * nrand:
        guard += 1
        try:
            s = G.random_stack(rnd)
        except G.NoSample:
            continue
        if s.depth() < 2 or not G.fits(s):
            continue
        items.append({"stack": s, "origin": "random"})
    ncoord = 24 if ctx.quick else 60
    for it in items:
        it["coords"] = G.gen_coords(rnd, it["stack"], ncoord)
        # the same C++ type with arbitrary configuration values (any non-NaN bit pattern; no lookups are made on these)
        it["wild"] = []
        for _ in range(2 if ctx.quick else 5):
            it["wild"].append([[B.random_scalar(rnd, k) if rnd.random() < 0.7 else rnd.choice(B.extremes(k)) for k in l.cfg_kinds()]
                               for l in it["stack"].layers()])
    return items


def fmt_pack(stack, wild=None):
    return " | ".join(" ".join(map(str, [l.cfg_ty()] + w)) for l, w in zip(stack.layers(), level_words(stack, wild)))


HIDDEN = [0]


def parse_chain(o, stack):
    """`o ; w… ; w… | v ; w… ; …` -> (owning levels, view levels) or None"""
    if o.startswith("CRASH") or "|" not in o:
        return None
    try:
        a, b = o.split("|")
        if not a.strip().startswith("o") or not b.strip().startswith("v"):
            return None
        lv = lambda s: [None if p.split() == ["?"] else [int(t) for t in p.split()] for p in s.strip()[1:].split(";")[1:]]
        oa, vb = lv(a), lv(b)
        if None in oa:
            return None
        if len(vb) == len(oa):      # a view level whose members could not be named: not observable, taken from the owning side
            HIDDEN[0] += sum(1 for x in vb if x is None)
            vb = [o if v is None else v for o, v in zip(oa, vb)]
        elif None in vb:
            return None
        return oa, vb
    except ValueError:
        return None


def variants(it, outs):
    """(wild words or None, variant index, [chain, packfor, rebuild] answers) for the constructed configuration and every wild variant"""
    yield None, 0, outs[:3]
    base = 3 + len(it["coords"])
    for j, wl in enumerate(it.get("wild", [])):
        o = outs[base + 4 * j: base + 4 * j + 4]
        if len(o) == 4:
            yield wl, j + 1, o[1:]


def evaluate(ctx, items, cfgs):
    corr = Corr()
    for ob in OBLS:
        corr.add_obl(ob)
    tu_items = [(k, it["stack"], extra_cpp(it["stack"], nested=(k % 2 == 1 and not it.get("named")))) for k, it in enumerate(items)]
    per_tu = max(1, -(-len(items) // C.NCPU)) if len(items) <= 6 * C.NCPU else 6
    exe, failures = G.build_tus(ctx, tu_items, cfgs, per_tu, "c17", ops=("setup", "at", "chain", "rebuild", "packfor", "cmp"))
    for idxs, cfg, err, src in failures:
        s = items[idxs[0]]["stack"]
        corr.add_obl("pack_for", 1, 1)
        corr.violation("pack_for", f"the translation unit that builds field<{s.desc()[:160]}> from make_parameter_pack / make_parameter_pack_for and reads its "
                       f"configuration chain does not compile ({cfg}): {C.first_diag(err)}",
                       {"stack": s.to_json(), "coords": [], "cfg": cfg, "diagnostic": err[-2500:]}, impl="compile error", oracle_fails=False,
                       key={"kind": "compile", "stack": s.desc()}, cfg=cfg)

    def run_one(job):
        k, cfg = job
        s = items[k]["stack"]
        sk = s.in_kind()[0]
        lines = [f"chain S{k}", f"packfor S{k} {' '.join(map(str, G.cfg_words(s)))} ; {' '.join(map(str, s.cells()))}", f"rebuild S{k}"]
        lines += [f"cmp S{k} ; ; {' '.join(str(G.enc(sk, x)) for x in c)}" for c, _, _ in items[k]["coords"]]
        for wl in items[k].get("wild", []):
            ww = " ".join(str(x) for lv in wl for x in lv)
            cells = " ".join(map(str, s.cells()))
            lines += [f"setup S{k} {ww} ; {cells}", f"chain S{k}", f"packfor S{k} {ww} ; {cells}", f"rebuild S{k}"]
        outs, _ = C.run_lines(exe[(k, cfg)], lines, setup=[G.setup_line(k, s)])
        return outs
    jobs = [(k, cfg) for k in range(len(items)) for cfg in cfgs if (k, cfg) in exe]
    results = G.run_parallel(run_one, jobs)
    # ---- model verdicts
    mlines, midx = [], {}
    for (k, cfg), outs in zip(jobs, results):
        s = items[k]["stack"]
        for wl, vi, o3 in variants(items[k], outs):
            for op, o in zip(("chain", "packfor", "rebuild"), o3):
                pc = parse_chain(o, s)
                if pc is None:
                    continue
                for which, lv in zip(("o", "v"), pc):
                    rep_ = " | ".join(" ".join(map(str, [l.cfg_ty()] + w)) for l, w in zip(s.layers(), lv)) if len(lv) == s.depth() else \
                        " | ".join(" ".join(map(str, [99] + w)) for w in lv)
                    midx[(k, cfg, op, which, vi)] = len(mlines)
                    mlines.append(f"{op} | {fmt_pack(s, wl)} # {rep_}")
    mout = C.run_driver("configcheck", mlines) if mlines else []
    # ---- per case
    for (k, cfg), outs in zip(jobs, results):
        it = items[k]
        s = it["stack"]
        sj = s.to_json()
        depth = s.depth()
        sk = s.in_kind()[0]
        osk, M = s.out_kind()
        for wl, vi, o3 in variants(it, outs):
          want = level_words(s, wl)
          nt = nontrivial(s, wl)
          for op, obl, o in zip(("chain", "packfor", "rebuild"), ("config_chain", "pack_for", "rebuild"), o3):
            if op == "packfor" and o == "nohelper":
                corr.dist["packfor/not-shipped(depth>10)"] += 1
                continue
            corr.configs[cfg] += 1
            corr.case((s.desc(), want, op, cfg), nt)
            corr.dist[f"{op}/depth{depth}"] += 1
            corr.dist[f"origin/{it['origin']}"] += 1
            corr.dist["values/" + ("arbitrary bit patterns" if wl else "lookup-valid")] += 1
            for l in s.layers():
                corr.dist["layer/" + l.label] += 1
            cj = {"stack": sj, "coords": [[G.jv(x) for x in c] for c, _, _ in it["coords"][:6]], "cfg": cfg, "op": op, "wild": [wl] if wl else []}
            key = {"kind": op, "stack": s.desc()}
            pc = parse_chain(o, s)
            how = {"chain": "constructed from make_parameter_pack", "packfor": "constructed from make_parameter_pack_for<field<B>>(a0, …)",
                   "rebuild": "rebuilt from the reported configurations and storage"}[op]
            if pc is None:
                corr.add_obl(obl, 1, 1)
                corr.violation(obl, f"field<{s.desc()[:170]}> {how}: reading the configuration chain died or printed garbage ({cfg}): {o[:120]}", cj,
                               impl=o, model=want, oracle_fails=True, key=key, cfg=cfg)
                continue
            mv = [mout[midx[(k, cfg, op, w, vi)]] for w in ("o", "v")]
            dis = any(x != "ok" for x in mv)
            corr.add_obl(obl, 1, 1 if dis else 0)
            fail = None
            for which, lv in zip(("owning data (get_backend()…get_configuration())", "non-owning data (view.backend().get_backend()… members)"), pc):
                if fail:
                    break
                if len(lv) != depth:
                    fail = f"{which}: {len(lv)} levels reported, the stack has {depth}"
                    break
                for i, (got, w) in enumerate(zip(lv, want)):
                    if got != w:
                        fail = f"{which}: layer {i} ({s.layers()[i].label}) reports {got}, it was constructed with {w}"
                        break
            if fail:
                corr.violation(obl, f"field<{s.desc()[:170]}> {how} ({cfg}): {fail}", cj, impl=o, model=mv, oracle_fails=True, key=key, cfg=cfg)
            elif dis:
                corr.violation(obl, f"field<{s.desc()[:170]}> {how} ({cfg}): implementation {o[:100]}, model verdict {mv}", cj, impl=o, model=mv,
                               oracle_fails=False, key=key, cfg=cfg)
            if len(corr.samples) < 10 and nt and depth >= 4 and (not corr.samples or corr.samples[-1]["stack"] != s.desc()[:200]):
                corr.sample({"stack": s.desc()[:200], "op": op, "impl": o[:300], "constructed_with": want, "model": mv, "cfg": cfg})
        # lookups of the original, the rebuilt and (non-array primitives) the helper-built field
        nbad = 0
        for (c, v, tr), o in zip(it["coords"], outs[3:3 + len(it["coords"])]):
            corr.dist["rebuild/lookups"] += 1
            parts = [p.split() for p in o.split("|")] if not o.startswith("CRASH") and o not in ("nosetup", "unsupported") else None
            wantb = [str(G.enc(osk, x)) for x in v]
            ok_fg = parts is not None and len(parts) >= 2 and parts[0] == wantb and parts[1] == wantb
            ok_h = parts is not None and (len(parts) < 3 or parts[2] == wantb)
            corr.add_obl("rebuild", 1, 0 if ok_fg else 1)
            if parts is not None and len(parts) >= 3:
                corr.add_obl("pack_for", 1, 0 if ok_h else 1)
            if not (ok_fg and ok_h) and nbad < 2:
                nbad += 1
                cj = {"stack": sj, "coords": [[G.jv(x) for x in c]], "cfg": cfg, "op": "cmp"}
                ob = "rebuild" if not ok_fg else "pack_for"
                corr.violation(ob, f"field<{s.desc()[:170]}> at {[str(G.jv(x)) for x in c]} ({cfg}): lookups of the original | the field rebuilt from its reported "
                               f"configuration [| the field built by make_parameter_pack_for] = {o[:160]}, expected all equal to {wantb}", cj, impl=o,
                               model=wantb, oracle_fails=True, key={"kind": "cmp", "stack": s.desc()}, cfg=cfg)
    corr.violations.sort(key=lambda v: (not v["oracle_fails"], len(str(v["case"]["stack"]))))
    if HIDDEN[0]:
        corr.notes.append(f"{HIDDEN[0]} view levels could not be read (data members of the non-owning data not found under their "
                          "names): compared on the owning side only")
    return corr


def run(ctx):
    corr = evaluate(ctx, gen(ctx), ["dbg", "rel"])
    from harness import ldlib
    ldlib.part(ctx, corr, ["clamp", "backup", "affine"], "config_chain", cfgs=("dbg",))      # configurations in long double read back exactly
    ctor_paths(ctx, corr)
    return corr


def ctor_paths(ctx, corr, cfgs=("dbg", "rel")):
    """the less used constructors of the owning data (harness/cpp/ctor_paths_harness.cpp, self-checking)"""
    jobs = [(C.VERIF / "harness" / "cpp" / "ctor_paths_harness.cpp", ctx.work.path(f"ctorpaths_{cfg}"), cfg, []) for cfg in cfgs]
    for (src, out, cfg, _), (rc, err) in zip(jobs, C.compile_many(jobs)):
        if rc != 0:
            raise C.CompileError(src, cfg, err)
    what = {"backup": "backup<strided<array>> built by owning_data_t(configuration, extents): reported bounds, agreement with the parameter-pack path",
            "thin": "shuffle / covariant_cast / backup<constant> built by their variadic constructors"}
    for cfg in cfgs:
        outs, _ = C.run_lines(ctx.work.path(f"ctorpaths_{cfg}"), list(what), timeout_per_line=2.0)
        for op, o in zip(what, outs):
            corr.configs[cfg] += 1
            corr.case(("ctorpaths", op, cfg), True)
            corr.dist["constructor-paths/" + op] += 1
            bad = not o.startswith("ok ")
            corr.add_obl("rebuild", 1, 1 if bad else 0)
            if bad:
                corr.violation("rebuild", f"{what[op]} ({cfg}): {o}", {"op": "ctorpaths", "which": op, "cfg": cfg}, impl=o, model="ok", oracle_fails=True,
                               key={"kind": "ctorpaths", "which": op}, cfg=cfg)


def replay(ctx):
    c = ctx.replay["case"]
    if c and c.get("op") == "ctorpaths":
        from vlib.framework import Corr as _Corr
        corr = _Corr()
        corr.add_obl("rebuild")
        ctor_paths(ctx, corr, cfgs=(c.get("cfg", "dbg"),))
        return corr
    if c and c.get("op") == "longdouble":
        from vlib.framework import Corr as _Corr
        from harness import ldlib
        corr = _Corr()
        corr.add_obl("config_chain")
        ldlib.part(ctx, corr, c["ops"], "config_chain", cfgs=(c.get("cfg", "dbg"),))
        return corr
    if not c or not c.get("stack"):
        return run(ctx)
    s = G.from_json(c["stack"])
    sk = s.in_kind()[0]
    coords = []
    for cc in c.get("coords", []):
        x = [G.asv(sk, G.vj(t)) for t in cc]
        try:
            coords.append((x, s.pe(x, set()), set()))
        except (G.UB, G.Inexact):
            pass
    return evaluate(ctx, [{"stack": s, "origin": "replay", "coords": coords, "wild": c.get("wild") or []}], [c.get("cfg") or "dbg"])
