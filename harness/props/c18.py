"""C18 — round_pow2 / ipow exact at every unsigned width; curve storage suffices."""
import random
from vlib import common as C
from vlib.framework import Corr
from harness import layoutlib as L
from harness import bigalloc as BIG
from harness import translib as T

META = {
    "drivers": ["driver", "impcheck"],
    "rule": "case = (template, width, arguments); non-trivial: round_pow2 with i >= 3, ipow with b >= 2 and e >= 2; curve_len: box with >= 2 cells. "
            "Exhaustive ranges (np2rle, ipowall8) evaluate every value of the type and count one case per value",
    "trusted_base": ["integer promotion semantics of g++ for uint8_t/uint16_t arithmetic"],
    "assumptions": ["round_pow2 domain 0 <= i <= 2^(w-1) (beyond it the loop provably never terminates: Covfie.C18.roundPow2_diverges)"],
}
WIDTHS = (8, 16, 32, 64)


def least_pow2(i):
    r = 1
    while r < i:
        r *= 2
    return r


# (layout, coordinate type, extents) with prod(extents) <= 2^bits(coordinate type)
NARROW = [("hilbert", "u8", (9, 3)), ("hilbert", "u8", (17, 2)), ("hilbert", "u8", (65, 2)), ("hilbert", "u8", (128, 2)), ("hilbert", "u8", (16, 16)),
          ("hilbert", "u16", (129, 3)), ("hilbert", "u16", (200, 200)), ("hilbert", "u16", (256, 256)), ("hilbert", "u16", (300, 2)), ("hilbert", "u16", (2, 300)),
          ("mortonF", "u8", (9, 3)), ("mortonF", "u8", (5, 6, 2)), ("mortonT", "u8", (16, 16)), ("mortonF", "u8", (17, 3)), ("mortonT", "u8", (100, 2)),
          ("mortonF", "u16", (300, 2)), ("mortonT", "u16", (129, 129)), ("mortonF", "u16", (40, 40, 40)), ("mortonT", "u16", (3, 300, 5)),
          ("hilbert", "u32", (300, 300)), ("mortonT", "u32", (70, 3, 70))]


NARROW_IX = [("mortonF", "u8", (16, 16)), ("mortonT", "u8", (9, 3)), ("hilbert", "u8", (16, 9)), ("mortonF", "u8", (3, 4, 2, 1)), ("mortonF", "u8", (5, 3)),
             ("hilbert", "u16", (129, 200)), ("mortonF", "u16", (256, 256)), ("mortonT", "u16", (17, 2, 30)), ("hilbert", "u32", (40, 40))]


def evaluate(ctx, lines, rle, all8, allocs, cfgs, big=False):
    corr = Corr()
    for o in ("round_pow2", "ipow", "curve_len"):
        corr.add_obl(o)
    exes = L.build(ctx, cfgs, what=("numeric", "layout") if allocs else ("numeric",))
    drv = []
    for ln in lines:
        t = ln.split()
        drv.append(f"roundpow2 {t[1]} {t[2]}" if t[0] in ("np2", "np2s") else f"ipow {t[1]} {t[2]} {t[3]}")
    for (w, lo, hi) in rle:        # segment end points through the model (monotone: constant in between, by roundPow2_spec)
        pass
    mout = C.run_driver("driver", drv) if drv else []
    for cfg in cfgs:
        exe = exes[("numeric", cfg)]
        outs, _ = C.run_lines(exe, lines)
        for ln, o, m in zip(lines, outs, mout):
            t = ln.split(); w = int(t[1])
            corr.configs[cfg] += 1
            if t[0] in ("np2", "np2s"):
                i = int(t[2]); ob = "round_pow2"
                ww = w if t[0] == "np2" else w - 1
                spec = least_pow2(i) % (1 << w)
                corr.case((ln, cfg), i >= 3)
            else:
                b, e = int(t[2]), int(t[3]); ob = "ipow"
                spec = pow(b, e, 1 << w)
                corr.case((ln, cfg), b >= 2 and e >= 2)
            corr.dist[f"{t[0]}/w{w}"] += 1
            cj = {"line": ln, "cfg": cfg}
            key = {"kind": t[0], "line": ln}
            dis = o != m
            corr.add_obl(ob, 1, 1 if dis else 0)
            if o != str(spec):
                corr.violation(ob, f"`{ln}` returned {o}, specification value {spec} ({cfg})", cj, impl=o, model=m, oracle_fails=True, key=key, cfg=cfg)
            elif dis:
                corr.violation(ob, f"`{ln}` returned {o}, model {m} ({cfg})", cj, impl=o, model=m, oracle_fails=False, key=key, cfg=cfg)
            if len(corr.samples) < 6 and ((ob == "ipow" and pow(int(t[2]), int(t[3])) >= 1 << w) or (ob == "round_pow2" and int(t[2]) > 40)) \
                    and (not corr.samples or corr.samples[-1]["line"].split()[:2] != t[:2]):
                corr.sample({"line": ln, "impl": o, "model": m, "cfg": cfg})
        # exhaustive: every value of the type in [lo, hi], run-length encoded by the harness
        rl, _ = C.run_lines(exe, [f"np2rle {w} {lo} {hi}" for (w, lo, hi) in rle], min_timeout=600)
        for (w, lo, hi), o in zip(rle, rl):
            segs = [tuple(map(int, s.split())) for s in o.split(";") if s.strip()] if not o.startswith("CRASH") else []
            cj = {"rle": [w, lo, hi], "cfg": cfg}
            bad = None
            pos = lo
            q = []
            for (a, b, v) in segs:
                if a != pos:
                    bad = f"segments do not tile the range at {pos}"; break
                if v != least_pow2(a) % (1 << w) or v != least_pow2(b) % (1 << w):
                    bad = f"round_pow2<uint{w}> on [{a},{b}] = {v}; least power of two is {least_pow2(a)}..{least_pow2(b)}"
                    cj["line"] = f"np2 {w} {a if v != least_pow2(a) % (1 << w) else b}"
                    break
                q += [f"roundpow2 {w} {a}", f"roundpow2 {w} {b}"]
                pos = b + 1
            if not bad and (not segs or pos != hi + 1):
                bad = f"harness answered `{o[:80]}`"
            mm = C.run_driver("driver", q) if q and not bad else []
            dis = any(int(x) != segs[k // 2][2] for k, x in enumerate(mm) if x.isdigit()) or any(not x.isdigit() for x in mm)
            n = hi - lo + 1
            corr.evaluations += n
            corr.configs[cfg] += n
            corr.nontrivial.add(C.chash(("rle", w, lo, hi, cfg)))
            corr.dist[f"np2-exhaustive/w{w}"] += n
            corr.add_obl("round_pow2", n, 1 if (bad or dis) else 0)
            if bad:
                corr.violation("round_pow2", f"exhaustive uint{w} range [{lo},{hi}] ({cfg}): {bad}", cj, impl=o[:300], oracle_fails=True,
                               key={"kind": "rle", "w": w}, cfg=cfg)
            elif dis:
                corr.violation("round_pow2", f"exhaustive uint{w} range: model differs at a segment end", cj, impl=o[:300], model=mm[:8], oracle_fails=False,
                               key={"kind": "rle", "w": w}, cfg=cfg)
        if all8:
            o8, _ = C.run_lines(exe, ["ipowall8"])
            vals = o8[0].split()
            bad = None
            if len(vals) != 65536:
                bad = ("harness answered " + o8[0][:60], None)
            else:
                for b in range(256):
                    for e in range(256):
                        if int(vals[b * 256 + e]) != pow(b, e, 256):
                            bad = (f"ipow<uint8_t>({b},{e}) = {vals[b * 256 + e]}, b^e mod 256 = {pow(b, e, 256)}", f"ipow 8 {b} {e}")
                            break
                    if bad:
                        break
            corr.evaluations += 65536
            corr.configs[cfg] += 65536
            corr.nontrivial.add(C.chash(("ipowall8", cfg)))
            corr.dist["ipow-exhaustive/w8"] += 65536
            corr.add_obl("ipow", 65536, 1 if bad else 0)
            if bad:
                corr.violation("ipow", f"all 8-bit pairs ({cfg}): {bad[0]}", {"line": bad[1] or "ipowall8", "cfg": cfg}, impl=bad[0], oracle_fails=True,
                               key={"kind": "ipowall8"}, cfg=cfg)
        # the utilities where the language evaluates constants if it can (initialisers of namespace-scope constants)
        if all8:
            co, _ = C.run_lines(exe, ["np2const 8", "np2const 16", "np2const 32", "np2const 64", "ipowconst 8", "ipowconst 64"])
            for ln, o in zip(["np2const 8", "np2const 16", "np2const 32", "np2const 64", "ipowconst 8", "ipowconst 64"], co):
                w = int(ln.split()[1]); isnp = ln.startswith("np2")
                ob = "round_pow2" if isnp else "ipow"
                ents = [e.split(":") for e in o.split(";") if e] if not o.startswith("CRASH") else []
                bad = None if ents else f"harness answered `{o[:80]}`"
                for e in ents:
                    if isnp:
                        i, cst, rt = map(int, e); spec = least_pow2(i) % (1 << w); what = f"round_pow2<uint{w}>({i})"
                    else:
                        b, x, cst, rt = map(int, e); spec = pow(b, x, 1 << w); what = f"ipow<uint{w}>({b},{x})"
                    if cst != spec or rt != spec:
                        bad = f"{what}: {cst} as the initialiser of a namespace-scope constant, {rt} at run time, specification value {spec}"
                        break
                corr.configs[cfg] += len(ents)
                corr.evaluations += len(ents)
                corr.nontrivial.add(C.chash((ln, cfg)))
                corr.dist[f"{ln.split()[0]}/w{w}"] += len(ents)
                corr.add_obl(ob, max(1, len(ents)), 1 if bad else 0)
                if bad:
                    corr.violation(ob, f"{bad} ({cfg})", {"line": ln, "cfg": cfg, "constinit": True}, impl=bad, oracle_fails=True, key={"kind": ln.split()[0], "w": w}, cfg=cfg)
        # curve storage: allocation of the converting constructors = ipow(round_pow2(max), N) and covers the largest curve position
        if allocs:
            am = C.run_driver("driver", [L.model_line(lay, "u64", sz, [s - 1 for s in sz]) for lay, sz in allocs])
            ao, _ = C.run_lines(exes[("layout", cfg)], [L.impl_line("alloc", lay, "u64", sz) for lay, sz in allocs])
            io, _ = C.run_lines(exes[("layout", cfg)], [L.impl_line("idx", lay, "u64", sz, [s - 1 for s in sz]) for lay, sz in allocs])
            for (lay, sz), a, i, m in zip(allocs, ao, io, am):
                corr.configs[cfg] += 1
                corr.case(("alloc", lay, sz, cfg), L.prod(sz) >= 2)
                corr.dist[f"curve_len/{lay}/N{len(sz)}"] += 1
                mlen = int(m.split()[1])
                cj = {"alloc": [lay, sz], "cfg": cfg}
                key = {"kind": "alloc", "lay": lay, "sz": sz}
                if not a.isdigit():
                    corr.add_obl("curve_len", 1, 1)
                    corr.violation("curve_len", f"conversion to {lay} {sz}: {a}", cj, impl=a, model=mlen, oracle_fails=True, key=key, cfg=cfg)
                    continue
                dis = int(a) != mlen
                corr.add_obl("curve_len", 1, 1 if dis else 0)
                if int(a) < L.curve_bound(lay, sz) or (i.split()[-1].isdigit() and int(i.split()[-1]) >= int(a)):
                    corr.violation("curve_len", f"{lay} {sz}: {a} cells allocated, but the curve position of the last cell is {i.split()[-1]} "
                                   f"(needs {L.curve_bound(lay, sz)})", cj, impl=a, model=mlen, oracle_fails=True, key=key, cfg=cfg)
                elif dis:
                    corr.violation("curve_len", f"{lay} {sz}: {a} cells allocated, model {mlen}", cj, impl=a, model=mlen, oracle_fails=False, key=key, cfg=cfg)
                if len(corr.samples) < 9 and L.prod(sz) > 20:
                    corr.sample({"alloc": [lay, sz], "impl": a, "model": mlen, "last_index": i})
            # the same consequence with narrow coordinate types (cell count within the coordinate type, as the row-major source
            # needs): the curve storage is sized in size_t, never in the coordinate type, and every cell is found again
            # ... and beneath an array whose INDEX type is narrow, padded to exactly 2^bits cells
            nix = [(lay, ct, list(sz)) for lay, ct, sz in NARROW_IX if any(lay == a_[0] for a_ in allocs)]
            if nix:
                xm = C.run_driver("driver", [L.model_line(lay, "u64", sz, [s - 1 for s in sz]) for lay, ct, sz in nix])
                xo, _ = C.run_lines(exes[("layout", cfg)], [f"allocix {lay} {ct} {len(sz)} {' '.join(map(str, sz))}" for lay, ct, sz in nix],
                                    timeout_per_line=2.0)
                for (lay, ct, sz), o, m in zip(nix, xo, xm):
                    corr.configs[cfg] += 1
                    corr.case(("allocix", lay, ct, sz, cfg), True)
                    corr.dist[f"curve_len/{lay}/index-{ct}"] += 1
                    mlen = int(m.split()[1])
                    dis = o != f"{mlen} 0"
                    corr.add_obl("curve_len", 1, 1 if dis else 0)
                    if dis:
                        corr.violation("curve_len", f"{lay} {sz} over an array with a {ct} index: answer `{o}` (cells allocated, cells lost), model {mlen} 0",
                                       {"allocix": [lay, ct, sz], "cfg": cfg}, impl=o, model=f"{mlen} 0", oracle_fails=True,
                                       key={"kind": "allocix", "lay": lay, "ct": ct, "sz": sz}, cfg=cfg)
            nar = [(lay, ct, list(sz)) for lay, ct, sz in NARROW if any(lay == a_[0] for a_ in allocs)]
            if nar:
                nm = C.run_driver("driver", [L.model_line(lay, "u64", sz, [s - 1 for s in sz]) for lay, ct, sz in nar])
                no, _ = C.run_lines(exes[("layout", cfg)], [f"allocct {lay} {ct} {len(sz)} {' '.join(map(str, sz))}" for lay, ct, sz in nar],
                                    timeout_per_line=2.0)
                for (lay, ct, sz), o, m in zip(nar, no, nm):
                    corr.configs[cfg] += 1
                    corr.case(("allocct", lay, ct, sz, cfg), True)
                    corr.dist[f"curve_len/{lay}/{ct}"] += 1
                    mlen = int(m.split()[1])
                    t = o.split()
                    ok = len(t) == 2 and t[0].isdigit() and t[1].isdigit()
                    dis = not ok or int(t[0]) != mlen or t[1] != "0"
                    corr.add_obl("curve_len", 1, 1 if dis else 0)
                    if dis:
                        fails = (not ok) or int(t[0]) < L.curve_bound(lay, sz) or t[1] != "0"
                        corr.violation("curve_len", f"{lay} {sz} with {ct} coordinates: answer `{o}` (cells allocated, cells lost), model {mlen} 0 "
                                       f"(needs {L.curve_bound(lay, sz)})", {"allocct": [lay, ct, sz], "cfg": cfg}, impl=o, model=f"{mlen} 0",
                                       oracle_fails=fails, key={"kind": "allocct", "lay": lay, "ct": ct, "sz": sz}, cfg=cfg)
    if big:   # Morton / Hilbert storage of fields too large to allocate
        BIG.run(ctx, corr, "curve_len", ["mortonT", "mortonF", "hilbert"], 12 if ctx.quick else 150, seed_salt=18)
    return corr


def gen(ctx):
    rnd = random.Random(ctx.seed * 31337 + 18)
    lines = []
    for w in WIDTHS:
        half = 1 << (w - 1)
        pts = {0, 1, 2, 3, half, half - 1}
        for k in range(w):
            for d in (-1, 0, 1):
                v = (1 << k) + d
                if 0 <= v <= half:
                    pts.add(v)
        for _ in range(60 if ctx.quick else 2000):
            pts.add(rnd.randrange(0, half + 1)); pts.add(rnd.getrandbits(rnd.randrange(1, w)))
        for i in sorted(pts):
            lines.append(f"np2 {w} {i}")
            if i <= (1 << (w - 2)):
                lines.append(f"np2s {w} {i}")
        top = (1 << w) - 1
        bs = [0, 1, 2, 3, 5, 7, 10, 255 & top, top, top - 1, 1 << (w // 2), (1 << (w // 2)) + 1, (1 << (w // 2)) - 1]
        es = [0, 1, 2, 3, 4, 5, 7, 8, 15, 16, 31, 63, 64, 65, w, w - 1, top, top - 1]
        for b in bs:
            for e in es:
                lines.append(f"ipow {w} {b & top} {e & top}")
        for _ in range(150 if ctx.quick else 5000):
            lines.append(f"ipow {w} {rnd.getrandbits(rnd.randrange(1, w + 1))} {rnd.choice([rnd.getrandbits(rnd.randrange(1, w + 1)), rnd.randrange(0, 70)])}")
    rle = [(8, 0, 128), (16, 0, 32768)]
    if not ctx.quick:
        rle += [(32, 0, 1 << 31)]
    allocs = []
    for N in (1, 2, 3, 4):
        for sz in L.boxes(N, 40 if ctx.quick else 300):
            for lay in ("mortonT", "mortonF", "hilbert"):
                if lay == "hilbert" and N != 2:
                    continue
                if L.curve_bound(lay, sz) <= (1 << 18):
                    allocs.append((lay, list(sz)))
    if ctx.quick:
        allocs = [a for a in allocs if rnd.random() < 0.35 or L.prod(a[1]) <= 8]
    return lines, rle, True, allocs


def run(ctx):
    lines, rle, all8, allocs = gen(ctx)
    # the tie through translation: round_pow2 / ipow as written are the terms the theorems Covfie.Imp.*_translated are about
    tie = T.Tie(ctx, ["round_pow2", "ipow"])
    if tie.changed():
        class Deep:      # the thorough tier's inputs for a kernel whose text changed
            quick, seed = False, ctx.seed
        dl, drle, _, _ = gen(Deep)
        for k, kinds in (("round_pow2", ("np2", "np2s")), ("ipow", ("ipow",))):
            if not tie.changed(k):
                continue
            lines += [l for l in dl if l.split()[0] in kinds]
            for (w, sc, ar), new, ref in tie.counterexamples(k):
                lines.append(f"np2 {w} {sc['i']}" if k == "round_pow2" else f"ipow {w} {sc['i']} {sc['p']}")
        if tie.changed("round_pow2"):
            rle = drle
        lines = list(dict.fromkeys(lines))
    corr = evaluate(ctx, lines, rle, all8, allocs, ["dbg", "rel"], big=True)
    tie.merge(corr)
    return corr


def replay(ctx):
    c = ctx.replay["case"]
    cfg = [c.get("cfg", "dbg")]
    if "bigalloc" in c:
        return evaluate(ctx, [], [], False, [], [], big=True)
    if "alloc" in c:
        return evaluate(ctx, [], [], False, [tuple(c["alloc"])], cfg)
    if "allocix" in c:
        return evaluate(ctx, [], [], False, [(c["allocix"][0], [2, 2])], cfg)
    if "allocct" in c:        # the fixed narrow-coordinate list runs whenever an allocation of that layout is checked
        return evaluate(ctx, [], [], False, [(c["allocct"][0], [2, 2])], cfg)
    if c.get("constinit"):
        return evaluate(ctx, [], [], True, [], cfg)
    if "line" in c and c["line"] and not c["line"].startswith("ipowall"):
        return evaluate(ctx, [c["line"]], [], False, [], cfg)
    if "rle" in c:
        return evaluate(ctx, [], [tuple(c["rle"])], False, [], cfg)
    return evaluate(ctx, [], [], True, [], cfg)
