"""C19 — nd_map visits every index tuple of the box exactly once."""
import itertools, random, collections
from vlib import common as C
from vlib.framework import Corr
from harness import layoutlib as L

META = {
    "drivers": ["driver"],
    "rule": "case = (dimensionality, extents, build config); non-trivial when dimensionality >= 2",
    "trusted_base": ["std::function call order is the loop order"],
    "assumptions": [],
}


def evaluate(ctx, boxes, cfgs, big=()):
    corr = Corr()
    corr.add_obl("nd_map_set"); corr.add_obl("nd_map_seq")
    exes = L.build(ctx, cfgs, what=("numeric",))
    boxes = [b if isinstance(b, tuple) else ("u64", b) for b in boxes]
    mout = C.run_driver("driver", ["ndmap " + " ".join(map(str, sz)) for ty, sz in boxes], timeout_per_line=0.2)
    for cfg in cfgs:
        outs, _ = C.run_lines(exes[("numeric", cfg)], [(f"ndmap {len(sz)} " if ty == "u64" else f"ndmapt {ty} {len(sz)} ") + " ".join(map(str, sz))
                                                       for ty, sz in boxes], timeout_per_line=0.03,
                              env={"OMP_NUM_THREADS": "4"} if cfg == "omp" else None)
        prev = None
        for (ty, sz), o, m in zip(boxes, outs, mout):
            before, prev = prev, [ty, sz]
            corr.configs[cfg] += 1
            corr.case((ty, sz, cfg), len(sz) >= 2)
            corr.dist[f"{ty}/dim{len(sz)}/" + ("empty" if L.prod(sz) == 0 else "one" if L.prod(sz) == 1 else "many")] += 1
            cj = {"ty": ty, "sz": sz, "cfg": cfg, "previous_call_in_same_process": before}
            key = {"kind": "ndmap", "ty": ty, "sz": sz}
            if o.startswith("CRASH") or o == "unsupported":
                corr.add_obl("nd_map_set", 1, 1)
                corr.violation("nd_map_set", f"nd_map over {sz}: {o}", cj, impl=o, oracle_fails=True, key=key, cfg=cfg)
                continue
            try:
                got = [] if o == "-" else [tuple(map(int, t.split(","))) for t in o.split(";")]
            except ValueError:        # the harness's own message (callback forms disagree / a callback died) or garbled output
                corr.add_obl("nd_map_set", 1, 1)
                corr.violation("nd_map_set", f"nd_map over {sz} ({cfg}): {o[:300]}", cj, impl=o[:600], oracle_fails=True, key=key, cfg=cfg)
                continue
            want = list(itertools.product(*[range(s) for s in sz]))
            # property oracle: exactly the tuples of the box, each once (multiset equality)
            cg, cw = collections.Counter(got), collections.Counter(want)
            mm = [] if m == "-" else [tuple(map(int, t.split(","))) for t in m.split(";")]
            dis_set = collections.Counter(mm) != cg
            corr.add_obl("nd_map_set", 1, 1 if dis_set else 0)
            corr.add_obl("nd_map_seq", 1, 0 if mm == got else 1)      # order: reported separately (information)
            if cg != cw:
                extra = list((cg - cw).elements())[:3]; missing = list((cw - cg).elements())[:3]
                corr.violation("nd_map_set", f"nd_map over {sz} ({cfg}): callback invocations are not the box: extra/repeated {extra}, missing {missing}",
                               cj, impl=o[:300], model=m[:300], oracle_fails=True, key=key, cfg=cfg)
            elif dis_set:
                corr.violation("nd_map_set", f"nd_map over {sz}: differs from the model", cj, impl=o[:300], model=m[:300], oracle_fails=False, key=key, cfg=cfg)
            elif mm != got:
                corr.notes.append(f"order differs from the model's lexicographic order for {sz} ({cfg}) — not part of the property")
            if len(corr.samples) < 5 and len(sz) >= 2 and 2 <= L.prod(sz) <= 12 and 0 not in sz:
                corr.sample({"sz": sz, "cfg": cfg, "impl": o, "model": m})
    # large boxes (an extent beyond 2^16 resp. 2^24): every tuple ticked off in a bitmap by the harness; release build only
    if big:
        cfg = "rel" if "rel" in cfgs else cfgs[0]
        bouts, _ = C.run_lines(exes[("numeric", cfg)], [f"ndbig {len(sz)} " + " ".join(map(str, sz)) for sz in big], timeout_per_line=20, min_timeout=240)
        for sz, o in zip(big, bouts):
            corr.configs[cfg] += 1
            corr.case(("big", sz, cfg), True)
            corr.dist["big/dim%d" % len(sz)] += 1
            want = f"{L.prod(sz)} 0 0 0"
            bad = o != want
            corr.add_obl("nd_map_set", 1, 1 if bad else 0)
            if bad:
                corr.violation("nd_map_set", f"nd_map over {sz} ({cfg}): `calls, cells never visited, visited more than once, outside the box` = "
                               f"`{o}`, the box has {L.prod(sz)} cells", {"big": sz, "cfg": cfg}, impl=o, model=want, oracle_fails=True,
                               key={"kind": "ndbig", "sz": sz}, cfg=cfg)
    # boxes too large to walk (2^32 tuples and more): the callback stops the iteration after K calls; until then every call
    # must be a new tuple of the box, and nd_map must not return before it has made K calls (the box has more tuples than that)
    if big:
        K = 150000
        huge = [[65536, 65536], [65536, 65537], [2 ** 32 + 3], [256, 256, 256, 256, 1], [3, 2 ** 31], [2 ** 20, 2 ** 20, 2], [5, 2 ** 32], [2 ** 33, 1, 2]]
        for cfg in [c for c in cfgs if c in ("dbg", "rel")][:2]:
            houts, _ = C.run_lines(exes[("numeric", cfg)], [f"ndhuge {K} {len(sz)} " + " ".join(map(str, sz)) for sz in huge], timeout_per_line=30, min_timeout=240)
            for sz, o in zip(huge, houts):
                corr.configs[cfg] += 1
                corr.case(("huge", sz, cfg), True)
                corr.dist["huge/dim%d" % len(sz)] += 1
                want = f"{K} 0 0 threw"
                bad = o != want
                corr.add_obl("nd_map_set", 1, 1 if bad else 0)
                if bad:
                    corr.violation("nd_map_set", f"nd_map over {sz} ({cfg}, {L.prod(sz)} tuples), stopped by the callback after {K} calls: "
                                   f"`calls, outside the box, seen twice, how it ended` = `{o}`", {"huge": sz, "cfg": cfg}, impl=o, model=want,
                                   oracle_fails=True, key={"kind": "ndhuge", "sz": sz}, cfg=cfg)
    corr.obl["nd_map_seq"]["note"] = "information only: call order equals the model's (lexicographic) order"
    # order is not part of the property: never let it fail the check
    corr.obl["nd_map_seq"]["disagreements_info"] = corr.obl["nd_map_seq"]["disagreements"]
    corr.obl["nd_map_seq"]["disagreements"] = 0
    szof = lambda v: v["case"].get("sz") or v["case"].get("big") or v["case"].get("huge") or []
    corr.violations.sort(key=lambda v: (not v["oracle_fails"], len(szof(v)), L.prod([s + 1 for s in szof(v)])))
    return corr


def run(ctx):
    rnd = random.Random(ctx.seed * 991 + 19)
    boxes = []
    for N in (1, 2, 3, 4, 5):
        top = (3 if N > 3 else 6) if ctx.quick else 5 if N > 3 else 9
        if N == 5 and not ctx.quick:
            top = 4
        boxes += [list(t) for t in itertools.product(range(top + 1), repeat=N)]
    for _ in range(200 if ctx.quick else 1500):
        N = rnd.choice([1, 2, 3, 4, 5])
        cap = 4000 if ctx.quick else 200000
        sz = [rnd.choice([0, 1, 2, 3, 5, 8, 13, 31, rnd.randrange(0, 40)]) for _ in range(N)]
        while L.prod(sz) > cap:
            sz[rnd.randrange(N)] = rnd.choice([1, 2])
        boxes.append(sz)
    # the same boxes once more in a shuffled order within one process: nd_map must not carry state from call to call
    again = [b for b in boxes if len(b) >= 2 and L.prod(b) <= 2000]
    rnd.shuffle(again)
    boxes += again[: (2500 if ctx.quick else 20000)]
    # tuple types with a narrower value type: every extent fits the type, the box volume need not
    for ty, top in (("u8", 255), ("u16", 65535), ("u32", 2 ** 32 - 1), ("i32", 2 ** 31 - 1)):
        for N in (1, 2, 3, 4):
            for _ in range(6 if ctx.quick else 40):
                pool = [0, 1, 2, 3, 7, 15, 16, 17, 20, 31, 40, 255, 256, 300, 1000]
                sz = [min(top, rnd.choice(pool)) for _ in range(N)]
                cap = 70000 if ctx.quick else 400000
                while L.prod(sz) > cap:
                    k = max(range(N), key=lambda j: sz[j]); sz[k] = rnd.choice([1, 2, 16, 20])
                boxes.append((ty, sz))
        boxes.append((ty, [16, 16])); boxes.append((ty, [20, 20])); boxes.append((ty, [255] if ty == "u8" else [300, 300] if ctx.quick else [300, 300]))
    big = [[(1 << 24) + 1, 1], [1, (1 << 24) + 1], [1, 1, (1 << 24) + 1], [(1 << 16) + 1, 33], [3, (1 << 16) + 1, 2], [(1 << 20) + 3],
           [2, (1 << 22) + 1], [257, 257, 3], [65537, 1, 1, 2]]
    if not ctx.quick:
        big += [[(1 << 25) + 1, 2], [5, 7, (1 << 18) + 1], [4097, 4097]]
    return evaluate(ctx, boxes, ["dbg", "rel", "omp"], big)


def replay(ctx):
    c = ctx.replay["case"]
    if "big" in c:
        return evaluate(ctx, [], [c.get("cfg", "rel")], [c["big"]])
    if "huge" in c:        # the fixed list of unwalkable boxes runs whenever large boxes are checked
        return evaluate(ctx, [], [c.get("cfg", "rel")], [[2, 2]])
    seq = [(c.get("ty", "u64"), c["sz"])]
    if c.get("previous_call_in_same_process"):
        seq.insert(0, tuple(c["previous_call_in_same_process"]))     # the failure may depend on the call before it
    return evaluate(ctx, seq, [c.get("cfg", "dbg")])
