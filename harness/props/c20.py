"""C20 — compile-time sort and permutation test: generated translation units instantiate the real templates."""
import itertools, random, collections
from vlib import common as C
from vlib.framework import Corr

META = {
    "drivers": ["driver", "impcheck"],
    "rule": "case = sequence (sort) or ordered pair of sequences (permutation test); non-trivial: sort of length >= 2 not already sorted; "
            "pair of equal-length sequences of length >= 2",
    "trusted_base": ["g++ template instantiation (the values printed at run time are the compile-time results)"],
    "assumptions": [],
}
C.CONFIGS.setdefault("plain", ["-O0"])

HDR = """#include <covfie/core/utility/static_permutation.hpp>
#include <cstdio>
#include <type_traits>
#include <utility>
using namespace covfie::utility;
template <std::size_t... Is> void ps(std::index_sequence<Is...>) { if (sizeof...(Is) == 0) std::printf("-"); ((std::printf("%zu ", Is)), ...); std::printf("\\n"); }
template <std::size_t... Is> using S = std::index_sequence<Is...>;
// the predicate asked in every way a standard trait can be asked: ::value, ::type::value, conversion to bool, the call operator,
// derivation from true_type -- 0 / 1 when they all agree, 2 + value otherwise
template <typename P> constexpr int ask() {
  constexpr bool v = P::value, t = P::type::value, c = P{}, f = P{}(), b = std::is_base_of_v<std::true_type, P>;
  return (v == t && v == c && v == f && v == b) ? int(v) : 2 + int(v);
}
int main() {
"""


def seqs(alpha, maxlen):
    out = []
    for n in range(maxlen + 1):
        out += [list(t) for t in itertools.product(range(alpha), repeat=n)]
    return out


def cs(s):
    return "S<" + ", ".join(f"{x}ul" for x in s) + ">"


def evaluate(ctx, sorts, pairs, cfgs=("plain", "clang")):
    corr = Corr()
    corr.add_obl("static_sort"); corr.add_obl("static_perm"); corr.add_obl("tu_compiles")
    for cfg in cfgs:          # g++ and clang++: the same templates through two front ends (different builtins, e.g. __type_pack_element)
        evaluate_cfg(ctx, corr, sorts, pairs, cfg)
    corr.violations.sort(key=lambda v: (not v["oracle_fails"], len(str(v["case"]))))
    return corr


def evaluate_cfg(ctx, corr, sorts, pairs, cfg):
    items = [("s", s) for s in sorts] + [("p", p) for p in pairs]
    nt = max(1, min(C.NCPU, len(items) // 400 + 1))
    chunks = [items[k::nt] for k in range(nt)]
    jobs = []
    for k, ch in enumerate(chunks):
        body = []
        for kind, it in ch:
            if kind == "s":
                body.append(f"  ps(sort_index_sequence<{cs(it)}>::type{{}});")
            else:
                body.append(f"  std::printf(\"%d\\n\", ask<is_permutation<{cs(it[0])}, {cs(it[1])}>>());")
        src = ctx.work.path(f"perm_{cfg}_{k}.cpp")
        src.write_text(HDR + "\n".join(body) + "\n}\n")
        jobs.append((src, ctx.work.path(f"perm_{cfg}_{k}"), cfg, ["-ftemplate-depth=4000"]))
    res = C.compile_many(jobs, timeout=1500)
    outs = []
    for (src, exe, _, _), (rc, err), ch in zip(jobs, res, chunks):
        corr.add_obl("tu_compiles", 1, 0 if rc == 0 else 1)
        if rc != 0:
            corr.violation("tu_compiles", "a translation unit instantiating sort_index_sequence / is_permutation does not compile: " + C.first_diag(err),
                           {"tu": src.read_text()[:4000], "diagnostic": err[-2000:]}, oracle_fails=True, key={"kind": "compile"})
            outs.append(["CRASH compile"] * len(ch))
            continue
        rc2, so, se = C.sh([str(exe)], 120)
        lines = so.splitlines()
        outs.append(lines if len(lines) == len(ch) else ["CRASH run"] * len(ch))
    flat = [(kind, it, o) for ch, os_ in zip(chunks, outs) for (kind, it), o in zip(ch, os_)]
    mlines = [("sort " + " ".join(map(str, it))) if kind == "s" else ("isperm " + " ".join(map(str, it[0])) + " | " + " ".join(map(str, it[1])))
              for kind, it, _ in flat]
    mout = C.run_driver("driver", mlines)
    for (kind, it, o), m in zip(flat, mout):
        corr.configs[cfg] += 1
        if kind == "s":
            corr.case(("s", it), len(it) >= 2 and it != sorted(it))
            corr.dist[f"sort/len{len(it)}"] += 1
            got = o.strip()
            want = " ".join(map(str, sorted(it))) or "-"          # oracle: ascending rearrangement of the same multiset
            dis = got != m.strip()
            corr.add_obl("static_sort", 1, 1 if dis else 0)
            cj = {"sort": it}
            if got != want:
                corr.violation("static_sort", f"sort_index_sequence<{it}> = [{got}], ascending rearrangement is [{want}]", cj, impl=got, model=m,
                               oracle_fails=True, key={"kind": "sort", "seq": it}, cfg=cfg)
            elif dis:
                corr.violation("static_sort", f"sort_index_sequence<{it}> = [{got}], model [{m}]", cj, impl=got, model=m, oracle_fails=False, key={"kind": "sort", "seq": it})
            if len(corr.samples) < 4 and len(it) >= 4 and it != sorted(it) and len(set(it)) < len(it):
                corr.sample({"sort": it, "impl": got, "model": m})
        else:
            a, b = it
            corr.case(("p", it), len(a) == len(b) and len(a) >= 2)
            corr.dist[f"perm/len{len(a)},{len(b)}"] += 1
            want = "1" if collections.Counter(a) == collections.Counter(b) else "0"
            dis = o.strip() != m.strip()
            corr.add_obl("static_perm", 1, 1 if dis else 0)
            cj = {"perm": [a, b]}
            if o.strip() != want:
                corr.violation("static_perm", f"is_permutation<{a}, {b}> = {o.strip()}, multisets are {'equal' if want == '1' else 'different'}", cj,
                               impl=o, model=m, oracle_fails=True, key={"kind": "perm", "a": a, "b": b}, cfg=cfg)
            elif dis:
                corr.violation("static_perm", f"is_permutation<{a}, {b}> = {o.strip()}, model {m}", cj, impl=o, model=m, oracle_fails=False, key={"kind": "perm", "a": a, "b": b})
            if len(corr.samples) < 8 and len(a) == len(b) >= 3 and want == "1" and a != b:
                corr.sample({"perm": [a, b], "impl": o, "model": m})


def run(ctx):
    # the tie through translation (DESIGN.md §11.6): every specialisation of static_permutation.hpp as written is one of the equations
    # `Covfie.Tmpl.as_written` is about; if the header's text changed, the thorough tier's sequences run
    from harness import translib as T
    tie = T.Tie(ctx, ["static_permutation"])
    deepened = bool(tie.changed()) and ctx.quick
    rnd = random.Random(ctx.seed * 613 + 20)
    if ctx.quick and not deepened:
        sorts = seqs(4, 4)
        base = seqs(4, 3)
        pairs = [(a, b) for a in base for b in base]          # every ordered pair of sequences of length <= 3 over {0..3}
        l4 = [list(t) for t in itertools.product(range(4), repeat=4)]
        for b in ([0, 1, 2, 3], [3, 2, 1, 0], [1, 1, 1, 1], [0, 0, 3, 3], [2, 0, 3, 1]):
            pairs += [(a, b) for a in l4]                      # distinguished second arguments against every length-4 first argument
            pairs += [(b, a) for a in l4 if rnd.random() < 0.25]
        nlong = 60
    else:
        sorts = seqs(5, 6)
        base = seqs(4, 3)
        pairs = [(a, b) for a in base for b in base]
        l4 = seqs(4, 4)[len(seqs(4, 3)):]
        for _ in range(12000):
            a = rnd.choice(l4); b = a[:]; rnd.shuffle(b)
            if rnd.random() < 0.5:
                b[rnd.randrange(4)] = rnd.randrange(4)
            pairs.append((a, b))
        nlong = 2000
    # boundary values of std::size_t in every position of short sequences (always run)
    MAXV = 2 ** 64 - 1
    for pool in ([MAXV, 1], [MAXV, MAXV, 3], [0, MAXV, MAXV - 1], [MAXV - 1, MAXV, 0, MAXV], [2 ** 63, 2 ** 63 - 1, 2 ** 32, 2 ** 32 - 1]):
        for perm in itertools.permutations(pool):
            sorts.append(list(perm))
            pairs.append((list(pool), list(perm)))
        pairs.append((list(pool), list(pool[:-1]) + [pool[0]]))
    # exact powers of 256 as the largest element (a byte-wise sort must look at every byte of the maximum) ...
    for k in range(1, 8):
        top = 256 ** k
        for other in ([7], [top - 1, 1], [3, top, 5], [top + 1, 2], [0, 9, top, top]):
            a = [top] + other
            for perm in ([a, a[::-1], a[1:] + a[:1]]):
                sorts.append(list(perm))
                pairs.append((list(a), list(perm)))
    # ... and sequences that differ from a permutation by multiples of 2^62 / 2^63 adding up to 0 modulo 2^64 (power sums agree
    # modulo 2^64 although the multisets differ)
    for base_ in ([1, 3], [1, 3, 5], [0, 2], [7, 7, 2], [1, 2, 3, 4], [5, 9]):
        for offs in ([1 << 63, 1 << 63], [1 << 62, 1 << 62, 1 << 63], [1 << 62] * 4, [1 << 63, 0, 1 << 63], [1 << 63]):
            if len(offs) > len(base_):
                continue
            b = [(x + o) % 2 ** 64 for x, o in zip(base_, offs + [0] * len(base_))]
            pairs.append((list(base_), b)); pairs.append((b, list(base_)))
            sorts.append(b)
    # high multiplicities over a tiny alphabet: K copies of one value against one copy of its successor (counters packed into a
    # machine word overflow into their neighbour at K = 16 or 256), the lengths kept equal
    for K in ((16, 17, 32) if (ctx.quick and not deepened) else (15, 16, 17, 31, 32, 33, 48, 64)):      # (beyond that, compilers give up on the fold expressions)
        for v, y in ((0, 2), (1, 3), (2, 0)):
            a = [v] * K + [y + 1]
            b = [v + 1] + [y] * K
            pairs.append((a, b)); pairs.append((b, a)); pairs.append((a, a[::-1]))
            sorts.append(a[::-1] + [v])
    for _ in range(4 if (ctx.quick and not deepened) else 40):
        n = rnd.randrange(17, 40)
        a = [rnd.randrange(0, 4) for _ in range(n)]
        b = a[:]; rnd.shuffle(b)
        if rnd.random() < 0.6:
            k = rnd.randrange(n); b[k] = (b[k] + 1) % 4
        pairs.append((a, b))
    for _ in range(nlong):
        n = rnd.randrange(5, 24)
        a = [rnd.choice([rnd.randrange(0, 6), rnd.getrandbits(64), 2 ** 64 - 1, rnd.randrange(0, 1000)]) for _ in range(n)]
        sorts.append(a)
        b = a[:]; rnd.shuffle(b)
        if rnd.random() < 0.4:
            b[rnd.randrange(n)] = rnd.choice(a)
        pairs.append((a, b))
    corr = evaluate(ctx, sorts, pairs)
    tie.merge(corr)
    if deepened:
        corr.info["deepened"] = True
    return corr


def replay(ctx):
    c = ctx.replay["case"]
    if "sort" in c:
        return evaluate(ctx, [c["sort"]], [])
    if "perm" in c:
        return evaluate(ctx, [], [tuple(c["perm"])])
    return run(ctx)
