// HOST SHIM (see cuda_runtime_api.h in this directory)
#pragma once
#include "cuda_runtime_api.h"
#include <stdexcept>
