// HOST SHIM of the CUDA runtime API for the covfie verification harness (C05/C13 reduced-assurance sub-check).
// "Device" memory is host memory: cudaMalloc/cudaMemcpy/cudaFree are malloc/memcpy/free. This is NOT the CUDA runtime and
// says nothing about real devices; it only lets cuda_device_array's host-side code be type-checked and executed.
#pragma once
#include <cstddef>
#include <cstdlib>
#include <cstring>
enum cudaError_t { cudaSuccess = 0, cudaErrorInvalidValue = 1, cudaErrorMemoryAllocation = 2 };
using cudaError = cudaError_t;
enum cudaMemcpyKind { cudaMemcpyHostToHost = 0, cudaMemcpyHostToDevice = 1, cudaMemcpyDeviceToHost = 2, cudaMemcpyDeviceToDevice = 3, cudaMemcpyDefault = 4 };
inline const char * cudaGetErrorString(cudaError_t e) {
  return e == cudaSuccess ? "no error" : e == cudaErrorMemoryAllocation ? "out of memory" : "invalid value";
}
inline cudaError_t cudaMalloc(void ** p, std::size_t n) {
  *p = std::malloc(n ? n : 1);
  return *p ? cudaSuccess : cudaErrorMemoryAllocation;
}
template <typename T> inline cudaError_t cudaMalloc(T ** p, std::size_t n) { return cudaMalloc(reinterpret_cast<void **>(p), n); }
inline cudaError_t cudaFree(void * p) { std::free(p); return cudaSuccess; }
inline cudaError_t cudaMemcpy(void * dst, const void * src, std::size_t n, cudaMemcpyKind) {
  if (n && (!dst || !src)) return cudaErrorInvalidValue;
  if (n) std::memcpy(dst, src, n);
  return cudaSuccess;
}
