"""A direct tie between the source text and the model: the format's magic numbers and layer tags are extracted from
/repo's headers on every run (regular expressions over the `static constexpr uint32_t … = 0x…;` definitions) and compared
with the constants the Lean model — and therefore every IO theorem — uses (printed by the `iocheck consts` command)."""
import re
from vlib import common as C

FILES = {
    "field": "field.hpp", "array": "backend/primitive/array.hpp", "constant": "backend/primitive/constant.hpp",
    "identity": "backend/primitive/identity.hpp", "affine": "backend/transformer/affine.hpp", "backup": "backend/transformer/backup.hpp",
    "clamp": "backend/transformer/clamp.hpp", "hilbert": "backend/transformer/hilbert.hpp", "morton": "backend/transformer/morton.hpp",
    "strided": "backend/transformer/strided.hpp",
}


def from_source():
    root = C.INC / "covfie" / "core"
    out = {}
    for k, f in FILES.items():
        m = re.search(r"IO_MAGIC_HEADER\s*=\s*(0x[0-9A-Fa-f]+)", (root / f).read_text())
        out[k] = int(m.group(1), 16) if m else None
    b = (root / "utility" / "binary_io.hpp").read_text()
    for name in ("MAGIC_HEADER", "MAGIC_FOOTER"):
        m = re.search(name + r"\s*=\s*(0x[0-9A-Fa-f]+)", b)
        out[name] = int(m.group(1), 16) if m else None
    offs = set(re.findall(r"ftr\s*\+=\s*(0x[0-9A-Fa-f]+)", b))
    out["FOOTER_OFFSET"] = int(next(iter(offs)), 16) if len(offs) == 1 else None
    return out


def from_model():
    o = C.run_driver("iocheck", ["consts"])[0]
    return {kv.split("=")[0]: int(kv.split("=")[1]) for kv in o.split()}


def check(corr, obligation="tag_table"):
    src, mod = from_source(), from_model()
    corr.add_obl(obligation)
    for k in sorted(mod):
        if src.get(k) is None:
            # the definition is no longer where the extractor looks (a refactoring): not a behavioural difference;
            # the byte-level obligations (io_bytes, golden) still pin the value
            corr.notes.append(f"format constant `{k}` could not be located in the source text; relying on io_bytes/golden for it")
            continue
        same = src.get(k) == mod[k]
        corr.add_obl(obligation, 1, 0 if same else 1)
        corr.dist["tag_table"] += 1
        if not same:
            got = hex(src[k]) if src.get(k) is not None else "not found"
            corr.violation(obligation, f"format constant `{k}` is {got} in the source and {hex(mod[k])} in the model (the value the pinned revision wrote)",
                           {"constant": k, "source": src.get(k), "model": mod[k]}, impl=got, model=hex(mod[k]), oracle_fails=False,
                           key={"kind": "const", "name": k})
    corr.info["format_constants_from_source"] = {k: (hex(v) if v is not None else None) for k, v in src.items()}
