"""Kind- and domain-tracking generator of covfie stacks (C02, C17; pieces reused by C10, C11).

Every node of a stack knows
  * its C++ type, how its configuration is built from the run-time word list, and the tokens of the Lean model;
  * its kind (coordinate scalar / dimension / bare, value scalar / dimension) and the size of its non-owning data
    (port of `Covfie.Kinds.viewSize`: `field_view` asserts sizeof <= 256);
  * `pe`: an independent reference evaluation in exact rational arithmetic (the property oracle: the one-line
    definition of each layer), which also refuses inputs outside the documented domain (`UB`) and inputs for which
    some floating-point intermediate would not be exactly representable (`Inexact`) -- the exactness policy of
    DESIGN section 3;
  * `sample`: a heuristic proposal of in-domain coordinates (validated by `pe`).
"""
import itertools, random, struct
from fractions import Fraction as Fr

CPP = {"f32": "float", "f64": "double", "u64": "std::size_t", "u32": "unsigned int", "i32": "int", "i64": "long"}
MANT = {"f32": 24, "f64": 53}
BYTES = {"f32": 4, "f64": 8, "u64": 8, "u32": 4, "i32": 4, "i64": 8}
IRANGE = {"i32": (-2 ** 31, 2 ** 31 - 1), "u32": (0, 2 ** 32 - 1), "i64": (-2 ** 63, 2 ** 63 - 1), "u64": (0, 2 ** 64 - 1)}
INF = float("inf")
LAYOUTS = ("strided", "mortonT", "mortonF", "hilbert")
LABELS = ("array", "constant", "identity") + LAYOUTS + ("clamp", "backup", "shuffle", "affine", "cast", "deref", "nn", "linear")


def isf(sk):
    return sk in ("f32", "f64")


def vd(sk, n):
    return f"vector::vector_d<{CPP[sk]}, {n}>"


class UB(Exception):
    """coordinate outside the documented domain of the stack"""


class Inexact(Exception):
    """some intermediate would not be exactly representable (case is outside the exactness policy)"""


class NoSample(Exception):
    pass


def is_inf(x):
    return isinstance(x, float)


def rep(sk, x):
    """is the exact value x representable in scalar kind sk"""
    if is_inf(x):
        return isf(sk)
    if not isf(sk):
        return Fr(x).denominator == 1 and IRANGE[sk][0] <= x <= IRANGE[sk][1]
    x = Fr(x)
    if x == 0:
        return True
    d = x.denominator
    if d & (d - 1):
        return False
    n = abs(x.numerator)
    while n % 2 == 0:
        n //= 2
    if n.bit_length() > MANT[sk]:
        return False
    e = abs(x.numerator).bit_length() - d.bit_length()
    return -120 < e < 120 if sk == "f32" else -1000 < e < 1000


def need(sk, x):
    if not rep(sk, x):
        raise Inexact(f"{x} not representable in {sk}")
    return x


def enc(sk, x):
    """bit pattern of the (representable) value x"""
    if sk == "f32":
        return struct.unpack("<I", struct.pack("<f", float(x)))[0]
    if sk == "f64":
        return struct.unpack("<Q", struct.pack("<d", float(x)))[0]
    return int(x) & ((1 << (8 * BYTES[sk])) - 1)


def dec(sk, b):
    """exact value of a bit pattern (Fraction / int / +-inf; NaN -> None)"""
    if sk == "f32":
        f = struct.unpack("<f", struct.pack("<I", b & 0xFFFFFFFF))[0]
    elif sk == "f64":
        f = struct.unpack("<d", struct.pack("<Q", b))[0]
    else:
        w = 8 * BYTES[sk]
        b &= (1 << w) - 1
        return b - (1 << w) if sk[0] == "i" and b >= 1 << (w - 1) else b
    if f != f:
        return None
    return f if f in (INF, -INF) else Fr(f)


def L(xs):
    xs = list(xs)
    return f"{len(xs)} " + " ".join(map(str, xs)) if xs else "0"


def align(a, n):
    return (n + a - 1) // a * a


def pow2ge(n):
    p = 1
    while p < n:
        p *= 2
    return p


def prod(xs):
    p = 1
    for x in xs:
        p *= x
    return p


def small(rnd, sk, lo=None, hi=None):
    """a small exactly representable scalar"""
    if isf(sk):
        return Fr(rnd.randrange(-64 if lo is None else lo * 8, (65 if hi is None else hi * 8 + 1)), 8)
    if sk[0] == "u":
        return rnd.randrange(0 if lo is None else max(0, lo), 13 if hi is None else hi + 1)
    return rnd.randrange(-8 if lo is None else lo, 9 if hi is None else hi + 1)


# ------------------------------------------------------------------------------------------------------------ nodes
class Node:
    label = "?"
    child = None

    def layers(self):
        return [self] + (self.child.layers() if self.child else [])

    def depth(self):
        return len(self.layers())

    def in_kind(self):
        return self.child.in_kind()

    def out_kind(self):
        return self.child.out_kind()

    def cfg_words(self):
        return []

    def cfg_kinds(self):
        """scalar kind of every configuration word (same length as cfg_words)"""
        return []

    def cells(self):
        return self.child.cells() if self.child else []

    def view_size(self):
        return self.child.view_size()

    def dom1(self):
        """exclusive upper bound of the valid 1-D coordinates (None: unbounded)"""
        return self.child.dom1()

    def mdata(self):
        return "thin " + self.child.mdata()

    def pack_cpp(self, T, off):
        return f"typename {T}::configuration_t{{}}", off

    def cfg_chain_cpp(self, T, own, view):
        """C++ statements appending this layer's configuration words (owning: get_configuration(); non-owning: members)"""
        return "", ""

    def cfg_ty(self):
        return LABELS.index(self.label)

    def desc(self):
        return self.tag() + ("<" + self.child.desc() + ">" if self.child else "")

    def tag(self):
        return self.label

    def params(self):
        return {}

    def to_json(self):
        d = {"l": self.label}
        d.update(self.params())
        if self.child:
            d["c"] = self.child.to_json()
        return d


def jv(x):
    """JSON form of an exact value"""
    if is_inf(x):
        return "inf" if x > 0 else "-inf"
    x = Fr(x)
    return int(x) if x.denominator == 1 else f"{x.numerator}/{x.denominator}"


def vj(x):
    if x == "inf":
        return INF
    if x == "-inf":
        return -INF
    if isinstance(x, str):
        return Fr(x)
    return x


def asv(sk, x):
    """normalise a value for kind sk (ints for integer kinds, Fractions for floating kinds)"""
    if is_inf(x):
        return x
    return Fr(x) if isf(sk) else int(x)


class Array(Node):
    label = "array"

    def __init__(self, sk, M, n=None, vals=None):
        self.sk, self.M, self.n, self.vals = sk, M, n, vals

    def setup(self, rnd, n, wide=False):
        self.n = n
        lim = 512
        self.vals = [asv(self.sk, rnd.randrange(0 if self.sk[0] == "u" else -lim, lim + 1)) for _ in range(n * self.M)]

    def cpp(self, inner=None):
        return f"backend::array<{vd(self.sk, self.M)}>"

    def in_kind(self):
        return ("u64", 1, True)

    def out_kind(self):
        return (self.sk, self.M)

    def cells(self):
        return [enc(self.sk, v) for v in self.vals]

    def view_size(self):
        return (16, 8)

    def dom1(self):
        return self.n

    def pack_cpp(self, T, off):
        return f"mkArr<{CPP[self.sk]}, {self.M}>(in.cells)", off

    def cfg_chain_cpp(self, T, own, view):
        return f"os << \" \" << {own}.get_configuration()[0];", f"os << \" \" << {view}.m_size;"

    def cfg_words_model(self):
        return [self.n]

    def mstack(self):
        return "array"

    def mdata(self):
        return f"array {self.sk} {self.M} {L(self.cells())}"

    def pe(self, c, tr):
        i = c[0]
        if is_inf(i) or Fr(i).denominator != 1 or not 0 <= i < self.n:
            raise UB(f"array index {i} outside [0,{self.n})")
        i = int(i)
        return list(self.vals[i * self.M:(i + 1) * self.M])

    def sample(self, rnd, room):
        if self.n - room < 1:
            raise NoSample()
        return [rnd.randrange(0, self.n - room)]

    def tag(self):
        return f"array:{self.sk}x{self.M}[{self.n}]"

    def params(self):
        return {"sk": self.sk, "M": self.M, "n": self.n, "vals": [jv(v) for v in self.vals]}


class Constant(Node):
    label = "constant"

    def __init__(self, in_sk, N, out_sk, M, val):
        self.in_sk, self.N, self.out_sk, self.M, self.val = in_sk, N, out_sk, M, [asv(out_sk, v) for v in val]

    def cpp(self):
        return f"backend::constant<{vd(self.in_sk, self.N)}, {vd(self.out_sk, self.M)}>"

    def in_kind(self):
        return (self.in_sk, self.N, False)

    def out_kind(self):
        return (self.out_sk, self.M)

    def cfg_words(self):
        return [enc(self.out_sk, v) for v in self.val]

    def cfg_kinds(self):
        return [self.out_sk] * self.M

    def view_size(self):
        return (BYTES[self.out_sk] * self.M, BYTES[self.out_sk])

    def dom1(self):
        return None

    def pack_cpp(self, T, off):
        return f"vec<typename {T}::configuration_t, {CPP[self.out_sk]}, {self.M}>(in.cfg, {off})", off + self.M

    def cfg_chain_cpp(self, T, own, view):
        return f"words(os, {own}.get_configuration(), {self.M});", f"words(os, {view}.m_value, {self.M});"

    def mstack(self):
        return "constant"

    def mdata(self):
        return f"constant {self.out_sk} {L(self.cfg_words())}"

    def pe(self, c, tr):
        return list(self.val)

    def sample(self, rnd, room):
        return [small(rnd, self.in_sk) for _ in range(self.N)]

    def tag(self):
        return f"constant:{self.in_sk}x{self.N}->{self.out_sk}x{self.M}"

    def params(self):
        return {"in_sk": self.in_sk, "N": self.N, "out_sk": self.out_sk, "M": self.M, "val": [jv(v) for v in self.val]}


class Identity(Node):
    label = "identity"

    def __init__(self, sk, N):
        self.sk, self.N = sk, N

    def cpp(self):
        return f"backend::identity<{vd(self.sk, self.N)}>"

    def in_kind(self):
        return (self.sk, self.N, False)

    def out_kind(self):
        return (self.sk, self.N)

    def view_size(self):
        return (1, 1)

    def dom1(self):
        return None

    def mstack(self):
        return "identity"

    def mdata(self):
        return "identity"

    def pe(self, c, tr):
        return list(c)

    def sample(self, rnd, room):
        return [small(rnd, self.sk) for _ in range(self.N)]

    def tag(self):
        return f"identity:{self.sk}x{self.N}"

    def params(self):
        return {"sk": self.sk, "N": self.N}


class Probe1(Node):
    """harness/cpp/probe.hpp: 1-D index -> reference to a dummy cell; records the flat indices it is asked for.
    Model: an array of `n` zero cells (the trace of the model is the list of flat indices)."""
    label = "array"
    probe = "q"

    def __init__(self, sk, M, n):
        self.sk, self.M, self.n = sk, M, n
        self.trace = []

    def cpp(self):
        return f"vf::probe<{vd(self.sk, self.M)}>"

    def in_kind(self):
        return ("u64", 1, True)

    def out_kind(self):
        return (self.sk, self.M)

    def view_size(self):
        return (8, 8)

    def dom1(self):
        return self.n

    def pack_cpp(self, T, off):
        return f"typename {T}::configuration_t{{&LOG}}", off

    def mstack(self):
        return "array"

    def mdata(self):
        return f"array {self.sk} {self.M} {L([0] * (self.n * self.M))}"

    def pe(self, c, tr):
        i = c[0]
        if is_inf(i) or Fr(i).denominator != 1 or not 0 <= i < self.n:
            raise UB(f"flat index {i} outside the storage of {self.n} cells")
        self.trace.append(int(i))
        return [asv(self.sk, 0)] * self.M

    def sample(self, rnd, room):
        if self.n - room < 1:
            raise NoSample()
        return [rnd.randrange(0, self.n - room)]

    def tag(self):
        return f"probe:{self.sk}x{self.M}[{self.n}]"

    def params(self):
        return {"l": "probe1", "sk": self.sk, "M": self.M, "n": self.n}


class NProbe(Node):
    """harness/cpp/nprobe.hpp: N-dimensional coordinate -> M values echoing coordinate components; counts its queries.
    Model: `Covfie.probeB M`."""
    label = "nprobe"
    probe = "n"

    def __init__(self, sk, N, M):
        self.sk, self.N, self.M = sk, N, M
        self.count = 0

    def cpp(self):
        return f"vf::nprobe<{vd(self.sk, self.N)}, {vd(self.sk, self.M)}>"

    def in_kind(self):
        return (self.sk, self.N, False)

    def out_kind(self):
        return (self.sk, self.M)

    def view_size(self):
        return (8, 8)

    def dom1(self):
        return None

    def pack_cpp(self, T, off):
        return f"typename {T}::configuration_t{{&LOG}}", off

    def mstack(self):
        return "nprobe"

    def mdata(self):
        return f"nprobe {self.M}"

    def pe(self, c, tr):
        self.count += 1
        return [c[(q + 1) % self.N] for q in range(self.M)]

    def sample(self, rnd, room):
        return [small(rnd, self.sk) for _ in range(self.N)]

    def tag(self):
        return f"nprobe:{self.sk}x{self.N}->x{self.M}"

    def params(self):
        return {"l": "nprobe", "sk": self.sk, "N": self.N, "M": self.M}


def strided_idx(sizes, c):
    idx = 0
    for k in range(len(sizes)):
        idx += c[k] * prod(sizes[k + 1:])
    return idx


def morton_idx(c):
    N = len(c)
    idx = 0
    for j, x in enumerate(c):
        b = 0
        while x >> b:
            if (x >> b) & 1:
                idx |= 1 << (b * N + j)
            b += 1
    return idx


def hilbert_idx(sizes, c):
    n = pow2ge(max(sizes))
    x, y = c
    d = 0
    s = n // 2
    while s > 0:
        rx = 1 if x & s else 0
        ry = 1 if y & s else 0
        d += s * s * ((3 * rx) ^ ry)
        if ry == 0:
            if rx == 1:
                x, y = n - 1 - x, n - 1 - y
            x, y = y, x
        s //= 2
    return d


class Layout(Node):
    def __init__(self, which, in_sk, sizes, child):
        self.label, self.in_sk, self.sizes, self.child = which, in_sk, list(sizes), child
        self.N = len(sizes)

    def storage_need(self):
        return prod(self.sizes) if self.label == "strided" else pow2ge(max(self.sizes)) ** self.N

    def cpp(self):
        t = {"strided": "strided<%s, %s>", "mortonT": "morton<%s, %s, true>", "mortonF": "morton<%s, %s, false>",
             "hilbert": "hilbert<%s, %s>"}[self.label]
        return "backend::" + t % (vd(self.in_sk, self.N), "%s")

    def in_kind(self):
        return (self.in_sk, self.N, False)

    def cfg_words(self):
        return list(self.sizes)

    def cfg_kinds(self):
        return ["u64"] * self.N

    def view_size(self):
        s, a = self.child.view_size()
        return (align(max(8, a), align(a, 8 * self.N) + s), max(8, a))

    def dom1(self):
        return self.sizes[0] if self.N == 1 else 0

    def pack_cpp(self, T, off):
        return f"typename {T}::configuration_t{{" + ", ".join(f"in.cfg[{off + k}]" for k in range(self.N)) + "}", off + self.N

    def cfg_chain_cpp(self, T, own, view):
        return f"words(os, {own}.get_configuration(), {self.N});", f"words(os, {view}.m_sizes, {self.N});"

    def mstack(self):
        w = 8 * BYTES[self.in_sk]
        return {"strided": f"strided {w}", "mortonT": "mortonT", "mortonF": "mortonF", "hilbert": "hilbert"}[self.label] + " " + self.child.mstack()

    def mdata(self):
        return f"sized {L(self.sizes)} " + self.child.mdata()

    def pe(self, c, tr):
        for x, s in zip(c, self.sizes):
            if is_inf(x) or Fr(x).denominator != 1 or not 0 <= x < s:
                raise UB(f"coordinate {x} outside extent {s}")
        c = [int(x) for x in c]
        idx = strided_idx(self.sizes, c) if self.label == "strided" else hilbert_idx(self.sizes, c) if self.label == "hilbert" else morton_idx(c)
        if self.N > 1 or self.label != "strided":
            tr.add(self.label)
        return self.child.pe([idx], tr)

    def sample(self, rnd, room):
        c = []
        for s in self.sizes:
            hi = s - 1 - room
            if hi < 0:
                raise NoSample()
            c.append(rnd.choice([0, hi, rnd.randrange(0, hi + 1), rnd.randrange(0, hi + 1)]))
        return c

    def tag(self):
        return f"{self.label}:{self.in_sk}{self.sizes}"

    def params(self):
        return {"in_sk": self.in_sk, "sizes": self.sizes}


class Wrapper(Node):
    def cpp(self):
        return f"backend::{self.cppname}<%s>"


def edge_values(rnd, sk, lo, hi):
    """values equal and adjacent to the bounds, inside, and far away"""
    step = Fr(1, 8) if isf(sk) else 1
    cand = [lo, hi, lo - step, hi + step, lo + step, hi - step, lo - 1, hi + 1, lo - 3, hi + 5]
    if hi > lo:
        cand += [lo + (hi - lo) // 2 if not isf(sk) else lo + (hi - lo) / 2]
        cand += [lo + rnd.randrange(0, int((hi - lo) / step) + 1) * step for _ in range(3)]
    return cand


def far_values(rnd, sk):
    if isf(sk):
        return [Fr(2) ** rnd.randrange(4, 40), -Fr(2) ** rnd.randrange(4, 40), Fr(rnd.randrange(-4000, 4000), 8), INF, -INF]
    lo, hi = IRANGE[sk]
    return [lo, hi, hi - 1, hi // 2, rnd.randrange(lo, hi + 1), rnd.randrange(max(lo, -1000), 1000)]


def box_sample(self, rnd, room):
    sk, N, _ = self.in_kind()
    r = rnd.random()
    if r < 0.25:
        try:
            return self.child.sample(rnd, room)
        except NoSample:
            pass
    c = []
    for k in range(N):
        if r > 0.9 and rnd.random() < 0.6:
            x = rnd.choice(far_values(rnd, sk))
        else:
            x = rnd.choice(edge_values(rnd, sk, self.lo[k], self.hi[k]))
        if not isf(sk):
            x = min(max(int(x), IRANGE[sk][0]), IRANGE[sk][1])
        c.append(x)
    return c


class Clamp(Wrapper):
    label = "clamp"
    cppname = "clamp"

    def __init__(self, lo, hi, child):
        sk = child.in_kind()[0]
        self.lo, self.hi, self.child = [asv(sk, x) for x in lo], [asv(sk, x) for x in hi], child

    def cfg_words(self):
        sk = self.in_kind()[0]
        if getattr(self, "lo_b", None):                      # exact bit patterns (keeps the sign of zero)
            return list(self.lo_b) + list(self.hi_b)
        return [enc(sk, x) for x in self.lo] + [enc(sk, x) for x in self.hi]

    def cfg_kinds(self):
        sk, N, _ = self.in_kind()
        return [sk] * (2 * N)

    def view_size(self):
        s, a = self.child.view_size()
        sk, N, _ = self.in_kind()
        c = BYTES[sk]
        return (align(max(c, a), align(a, 2 * c * N) + s), max(c, a))

    def dom1(self):
        return None

    def pack_cpp(self, T, off):
        sk, N, _ = self.in_kind()
        V = f"typename {T}::contravariant_input_t::vector_t"
        return (f"typename {T}::configuration_t{{vec<{V}, {CPP[sk]}, {N}>(in.cfg, {off}), vec<{V}, {CPP[sk]}, {N}>(in.cfg, {off + N})}}",
                off + 2 * N)

    def cfg_chain_cpp(self, T, own, view):
        N = self.in_kind()[1]
        return (f"{{ auto c = {own}.get_configuration(); words(os, c.min, {N}); words(os, c.max, {N}); }}",
                f"words(os, {view}.m_min, {N}); words(os, {view}.m_max, {N});")

    def mstack(self):
        return "clamp " + self.child.mstack()

    def mdata(self):
        sk, N, _ = self.in_kind()
        w = self.cfg_words()
        return f"box {sk} {L(w[:N])} {L(w[N:])} " + self.child.mdata()

    def pe(self, c, tr):
        nc = [max(l, min(h, x)) for l, h, x in zip(self.lo, self.hi, c)]
        if nc != list(c):
            tr.add("clamp")
        return self.child.pe(nc, tr)

    sample = box_sample

    def tag(self):
        return f"clamp[{[jv(x) for x in self.lo]},{[jv(x) for x in self.hi]}]"

    def params(self):
        return {"lo": [jv(x) for x in self.lo], "hi": [jv(x) for x in self.hi]}


class Backup(Wrapper):
    label = "backup"
    cppname = "backup"

    def __init__(self, lo, hi, df, child):
        sk = child.in_kind()[0]
        osk = child.out_kind()[0]
        self.lo, self.hi, self.df, self.child = [asv(sk, x) for x in lo], [asv(sk, x) for x in hi], [asv(osk, x) for x in df], child

    def cfg_words(self):
        sk = self.in_kind()[0]
        osk = self.out_kind()[0]
        if getattr(self, "lo_b", None):
            return list(self.lo_b) + list(self.hi_b) + list(self.df_b)
        return [enc(sk, x) for x in self.lo] + [enc(sk, x) for x in self.hi] + [enc(osk, x) for x in self.df]

    def cfg_kinds(self):
        sk, N, _ = self.in_kind()
        osk, M = self.out_kind()
        return [sk] * (2 * N) + [osk] * M

    def view_size(self):
        s, a = self.child.view_size()
        sk, N, _ = self.in_kind()
        osk, M = self.out_kind()
        c, o = BYTES[sk], BYTES[osk]
        m = max(c, o, a)
        return (align(m, align(a, align(o, 2 * c * N) + o * M) + s), m)

    def dom1(self):
        return None

    def pack_cpp(self, T, off):
        sk, N, _ = self.in_kind()
        osk, M = self.out_kind()
        V = f"typename {T}::contravariant_input_t::vector_t"
        O = f"typename {T}::covariant_output_t::vector_t"
        return (f"typename {T}::configuration_t{{vec<{V}, {CPP[sk]}, {N}>(in.cfg, {off}), vec<{V}, {CPP[sk]}, {N}>(in.cfg, {off + N}), "
                f"vec<{O}, {CPP[osk]}, {M}>(in.cfg, {off + 2 * N})}}"), off + 2 * N + M

    def cfg_chain_cpp(self, T, own, view):
        N = self.in_kind()[1]
        M = self.out_kind()[1]
        return (f"{{ auto c = {own}.get_configuration(); words(os, c.min, {N}); words(os, c.max, {N}); words(os, c.default_value, {M}); }}",
                f"words(os, {view}.m_min, {N}); words(os, {view}.m_max, {N}); words(os, {view}.m_default, {M});")

    def mstack(self):
        return "backup " + self.child.mstack()

    def mdata(self):
        sk, N, _ = self.in_kind()
        osk, M = self.out_kind()
        w = self.cfg_words()
        return f"boxd {sk} {osk} {L(w[:N])} {L(w[N:2 * N])} {L(w[2 * N:])} " + self.child.mdata()

    def pe(self, c, tr):
        if any(x < l or x > h for l, h, x in zip(self.lo, self.hi, c)):
            tr.add("backup")
            return list(self.df)
        return self.child.pe(c, tr)

    sample = box_sample

    def tag(self):
        return f"backup[{[jv(x) for x in self.lo]},{[jv(x) for x in self.hi]};{[jv(x) for x in self.df]}]"

    def params(self):
        return {"lo": [jv(x) for x in self.lo], "hi": [jv(x) for x in self.hi], "df": [jv(x) for x in self.df]}


class Shuffle(Wrapper):
    label = "shuffle"

    def __init__(self, perm, child):
        self.p, self.child = list(perm), child

    def cpp(self):
        return f"backend::shuffle<%s, std::index_sequence<{', '.join(map(str, self.p))}>>"

    def mstack(self):
        return f"shuffle {L(self.p)} " + self.child.mstack()

    def pe(self, c, tr):
        nc = [c[i] for i in self.p]
        if nc != list(c):
            tr.add("shuffle")
        return self.child.pe(nc, tr)

    def sample(self, rnd, room):
        y = self.child.sample(rnd, room)
        x = [None] * len(y)
        for k, pk in enumerate(self.p):
            x[pk] = y[k]
        return x

    def tag(self):
        return f"shuffle{self.p}"

    def params(self):
        return {"p": self.p}


def conv_value(src, dst, x):
    """static_cast<dst>(x) for x of kind src, on exact values (exactness policy: floating results must be representable)"""
    if isf(dst):
        if src == "f64" and dst == "f32" and not is_inf(x) and not rep("f32", x):
            # a genuine narrowing: round to nearest, ties to even (x is a double, so float(x) is exact and the C conversion
            # done by struct is the machine's own double -> float rounding)
            try:
                return Fr(struct.unpack("<f", struct.pack("<f", float(x)))[0])
            except OverflowError:
                raise UB(f"{x} overflows float")
        return need(dst, x if is_inf(x) else Fr(x))
    if is_inf(x):
        raise UB("non-finite value converted to an integer")
    x = Fr(x)
    t = x.numerator // x.denominator if x >= 0 else -((-x.numerator) // x.denominator)
    if not IRANGE[dst][0] <= t <= IRANGE[dst][1]:
        raise UB(f"{x} outside the range of {dst}")
    return int(t)


class Cast(Wrapper):
    label = "cast"

    def __init__(self, t, child):
        self.t, self.child = t, child

    def cpp(self):
        return f"backend::covariant_cast<{CPP[self.t]}, %s>"

    def out_kind(self):
        return (self.t, self.child.out_kind()[1])

    def mstack(self):
        return f"cast.{self.t} " + self.child.mstack()

    def pe(self, c, tr):
        src = self.child.out_kind()[0]
        v = self.child.pe(c, tr)
        if src != self.t:
            tr.add("cast")
        return [conv_value(src, self.t, x) for x in v]

    def sample(self, rnd, room):
        return self.child.sample(rnd, room)

    def tag(self):
        return f"cast:{self.t}"

    def params(self):
        return {"t": self.t}


class Deref(Wrapper):
    label = "deref"
    cppname = "dereference"

    def mstack(self):
        return "deref " + self.child.mstack()

    def __init__(self, child):
        self.child = child

    def pe(self, c, tr):
        return self.child.pe(c, tr)

    def sample(self, rnd, room):
        return self.child.sample(rnd, room)


class Interp(Wrapper):
    def __init__(self, which, in_sk, child):
        self.label, self.in_sk, self.child = which, in_sk, child

    def cpp(self):
        n = {"nn": "nearest_neighbour", "linear": "linear"}[self.label]
        return f"backend::{n}<%s, {vd(self.in_sk, self.child.in_kind()[1])}>"

    def in_kind(self):
        return (self.in_sk, self.child.in_kind()[1], False)

    def dom1(self):
        return 0

    def mstack(self):
        return self.label + " " + self.child.mstack()

    def pe(self, c, tr):
        csk = self.child.in_kind()[0]
        if any(is_inf(x) for x in c):
            raise UB("non-finite coordinate into an interpolator")
        if self.label == "nn":
            nc = []
            for x in c:
                r = round(Fr(x))                      # round half to even = lrint in the default rounding mode
                if r < 0:       # (the Lean model of nearest_neighbour converts to an unsigned index: negative indices are outside the modelled domain)
                    raise UB(f"lrint({x}) = {r} is a negative index")
                if not IRANGE[csk][0] <= r <= IRANGE[csk][1] or abs(r) >= 2 ** 63:
                    raise UB(f"lrint({x}) outside the index type")
                nc.append(r)
                if r != x:
                    tr.add("nn")
            return self.child.pe(nc, tr)
        # linear
        isk = self.in_sk
        osk, M = self.out_kind()
        if not isf(osk):
            raise UB("linear over non-floating values")
        ints, fr = [], []
        for x in c:
            x = Fr(x)
            if x < 0 or x >= 2 ** 63:
                raise UB(f"coordinate {x} into linear")
            i = x.numerator // x.denominator
            if i > IRANGE[csk][1] - 1:
                raise UB("index overflow")
            ints.append(i)
            fr.append(x - i)
        N = len(c)
        acc = [Fr(0)] * M
        fbits = sum((a.denominator.bit_length() - 1) for a in fr)
        vmax, vbits = 0, 0
        for bs in itertools.product((0, 1), repeat=N):
            v = self.child.pe([i + b for i, b in zip(ints, bs)], tr)
            w = Fr(1)
            for a, b in zip(fr, bs):
                w *= a if b else 1 - a
            for q in range(M):
                x = v[q]
                if is_inf(x):
                    raise Inexact("non-finite value beneath linear")
                x = need(isk, Fr(x))
                vmax = max(vmax, abs(x))
                vbits = max(vbits, x.denominator.bit_length() - 1)
                acc[q] += w * x
        # every intermediate product / partial sum is a multiple of 2^-(fbits+vbits) bounded by max|v|
        # (the generic branch, N >= 4, accumulates `rv[q] += f * v` in the *value* scalar type; N <= 3 evaluate the whole sum in the
        #  coordinate scalar type and convert once)
        mant = MANT[isk] if N <= 3 else min(MANT[isk], MANT[osk])
        if fbits + vbits + int(vmax).bit_length() + 1 > mant:
            raise Inexact("interpolation sum not exact in the working precision")
        if any(a != 0 for a in fr):
            tr.add("linear")
        return [need(osk, a) for a in acc]

    def sample(self, rnd, room):
        if self.label == "nn":
            p = self.child.sample(rnd, 0)
            return [Fr(x) + rnd.choice([0, 0, Fr(1, 8), Fr(-1, 8), Fr(1, 4), Fr(-1, 4), Fr(3, 8), Fr(-3, 8), Fr(1, 2), Fr(-1, 2)]) for x in p]
        p = self.child.sample(rnd, 1)
        z = rnd.random() < 0.15
        return [Fr(x) + (0 if z else Fr(rnd.choice([0, 1, 2, 3, 4, 5, 6, 7, 4, 2]), 8)) for x in p]

    def tag(self):
        return f"{self.label}:{self.in_sk}"

    def params(self):
        return {"in_sk": self.in_sk}


def mat_inv(A):
    """exact inverse of a square matrix of Fractions (None if singular)"""
    n = len(A)
    M = [list(map(Fr, row)) + [Fr(int(i == j)) for j in range(n)] for i, row in enumerate(A)]
    for col in range(n):
        piv = next((r for r in range(col, n) if M[r][col] != 0), None)
        if piv is None:
            return None
        M[col], M[piv] = M[piv], M[col]
        pv = M[col][col]
        M[col] = [x / pv for x in M[col]]
        for r in range(n):
            if r != col and M[r][col] != 0:
                f = M[r][col]
                M[r] = [x - f * y for x, y in zip(M[r], M[col])]
    return [row[n:] for row in M]


class Affine(Wrapper):
    label = "affine"
    cppname = "affine"

    def __init__(self, mat, child):
        sk = child.in_kind()[0]
        self.mat, self.child = [[asv(sk, x) for x in row] for row in mat], child
        N = len(mat)
        self.inv = mat_inv([row[:N] for row in self.mat])

    def cfg_words(self):
        sk = self.in_kind()[0]
        return [enc(sk, x) for row in self.mat for x in row]

    def cfg_kinds(self):
        sk, N, _ = self.in_kind()
        return [sk] * (N * (N + 1))

    def view_size(self):
        s, a = self.child.view_size()
        sk, N, _ = self.in_kind()
        c = BYTES[sk]
        return (align(max(c, a), align(a, c * N * (N + 1)) + s), max(c, a))

    def dom1(self):
        sk, N, _ = self.in_kind()
        if N != 1 or isf(sk):
            return 0
        b = self.child.dom1()
        a, t = self.mat[0]
        if b is None:
            return None
        return max(0, (b - 1 - t) // a + 1) if a > 0 and b - 1 - t >= 0 else 0

    def pack_cpp(self, T, off):
        sk, N, _ = self.in_kind()
        return f"typename {T}::configuration_t(mkMat<{N}, {CPP[sk]}>(in.cfg, {off}))", off + N * (N + 1)

    def cfg_chain_cpp(self, T, own, view):
        sk, N, _ = self.in_kind()
        return (f"matWords<{N}, {CPP[sk]}>(os, {own}.get_configuration());", f"matWords<{N}, {CPP[sk]}>(os, {view}.m_transform);")

    def mstack(self):
        return "affine " + self.child.mstack()

    def mdata(self):
        sk, N, _ = self.in_kind()
        return f"aff {sk} {N} {L(self.cfg_words())} " + self.child.mdata()

    def pe(self, c, tr):
        sk = self.in_kind()[0]
        if any(is_inf(x) for x in c):
            raise UB("non-finite coordinate into affine")
        r = [Fr(x) for x in c] + [Fr(1)]
        nc = []
        for row in self.mat:
            t = Fr(0)
            for a, x in zip(row, r):
                t = need(sk, t + need(sk, Fr(a) * x))
            nc.append(asv(sk, t))
        if nc != [asv(sk, x) for x in c]:
            tr.add("affine")
        return self.child.pe(nc, tr)

    def sample(self, rnd, room):
        sk, N, _ = self.in_kind()
        if self.inv is None:
            raise NoSample()
        for _ in range(6):
            y = self.child.sample(rnd, room)
            if any(is_inf(v) for v in y):
                continue
            d = [Fr(v) - Fr(row[N]) for v, row in zip(y, self.mat)]
            x = [sum(self.inv[i][j] * d[j] for j in range(N)) for i in range(N)]
            if all(rep(sk, v) for v in x):
                return [asv(sk, v) for v in x]
        raise NoSample()

    def tag(self):
        return "affine[" + ";".join(",".join(str(jv(x)) for x in row) for row in self.mat) + "]"

    def params(self):
        return {"mat": [[jv(x) for x in row] for row in self.mat]}


def from_json(d):
    l = d["l"]
    ch = from_json(d["c"]) if "c" in d else None
    if l == "array":
        return Array(d["sk"], d["M"], d["n"], [asv(d["sk"], vj(v)) for v in d["vals"]])
    if l == "constant":
        return Constant(d["in_sk"], d["N"], d["out_sk"], d["M"], [vj(v) for v in d["val"]])
    if l == "identity":
        return Identity(d["sk"], d["N"])
    if l == "probe1":
        return Probe1(d["sk"], d["M"], d["n"])
    if l == "nprobe":
        return NProbe(d["sk"], d["N"], d["M"])
    if l in LAYOUTS:
        return Layout(l, d["in_sk"], d["sizes"], ch)
    if l == "clamp":
        return Clamp([vj(x) for x in d["lo"]], [vj(x) for x in d["hi"]], ch)
    if l == "backup":
        return Backup([vj(x) for x in d["lo"]], [vj(x) for x in d["hi"]], [vj(x) for x in d["df"]], ch)
    if l == "shuffle":
        return Shuffle(d["p"], ch)
    if l == "cast":
        return Cast(d["t"], ch)
    if l == "deref":
        return Deref(ch)
    if l in ("nn", "linear"):
        return Interp(l, d["in_sk"], ch)
    if l == "affine":
        return Affine([[vj(x) for x in row] for row in d["mat"]], ch)
    raise ValueError(l)


# ------------------------------------------------------------------------------------------- kind rules (layerKind)
def can_place(label, top):
    """port of Covfie.Kinds.layerKind: may a layer `label` be put on `top`"""
    sk, N, bare = top.in_kind()
    osk, M = top.out_kind()
    if label in LAYOUTS:
        return N == 1 and not isf(sk)
    if label in ("clamp", "backup", "shuffle", "affine"):
        return not bare
    if label in ("cast", "deref"):
        return True
    if label == "nn":
        return not isf(sk) and not bare
    if label == "linear":
        return not isf(sk) and not bare and isf(osk)
    return False


def allowed_pairs():
    """every ordered pair (outer, inner) of layer names for which some well-kinded instance exists"""
    inner1d_int = ["array", "constant", "identity", "strided", "mortonT", "mortonF", "clamp", "backup", "shuffle", "affine", "cast", "deref"]
    vec_inner = ["constant", "identity"] + list(LAYOUTS) + ["clamp", "backup", "shuffle", "affine", "cast", "deref", "nn", "linear"]
    int_vec_inner = ["constant", "identity"] + list(LAYOUTS) + ["clamp", "backup", "shuffle", "affine", "cast", "deref"]
    P = set()
    for lay in LAYOUTS:
        P |= {(lay, i) for i in inner1d_int}
    for w in ("clamp", "backup", "shuffle", "affine"):
        P |= {(w, i) for i in vec_inner}
    for w in ("cast", "deref"):
        P |= {(w, i) for i in ["array"] + vec_inner}
    P |= {("nn", i) for i in int_vec_inner}
    P |= {("linear", i) for i in int_vec_inner if i != "identity"}
    return P


# ----------------------------------------------------------------------------------------- random construction
def valid_box(rnd, child, tries=4):
    """a box lo <= hi (possibly degenerate) all of whose corners lie in the child's domain"""
    sk, N, _ = child.in_kind()
    for t in range(tries):
        try:
            a = child.sample(rnd, 0)
            b = child.sample(rnd, 0) if rnd.random() < 0.8 else a
        except NoSample:
            break
        if any(is_inf(x) for x in a + b):
            continue
        lo = [min(x, y) for x, y in zip(a, b)]
        hi = [max(x, y) for x, y in zip(a, b)]
        if not all(rep(sk, x) for x in lo + hi):
            continue
        ok = True
        for cor in itertools.product(*[(l, h) if l != h else (l,) for l, h in zip(lo, hi)]):
            try:
                child.pe(list(cor), set())
            except (UB, Inexact):
                ok = False
                break
        if ok:
            return lo, hi
        try:
            child.pe(a, set())
            if all(rep(sk, x) for x in a):
                return list(a), list(a)
        except (UB, Inexact):
            pass
    raise NoSample()


def make_layer(rnd, label, top, opts=None):
    """put a randomly configured layer `label` on `top` (raises NoSample when no sensible configuration exists)"""
    opts = opts or {}
    sk, N, bare = top.in_kind()
    osk, M = top.out_kind()
    if label in LAYOUTS:
        n = 2 if label == "hilbert" else opts.get("N") or rnd.choice([1, 2, 2, 3, 3, 4])
        in_sk = "u64" if label != "strided" else rnd.choice(["u64", "u64", "u64", "u32"])
        cap = {1: rnd.choice([9, 9, 16, 40]), 2: 6, 3: 4, 4: 3}[n]
        sizes = [rnd.randrange(2 if rnd.random() < 0.9 else 1, cap + 1) for _ in range(n)]
        lay = Layout(label, in_sk, sizes, top)
        if isinstance(top, Array) and top.n is None:
            top.setup(rnd, lay.storage_need())
        else:
            bound = top.dom1()
            guard = 0
            while bound is not None and lay.storage_need() > bound:
                k = max(range(n), key=lambda j: lay.sizes[j])
                if lay.sizes[k] == 1:
                    raise NoSample()
                lay.sizes[k] -= 1
                guard += 1
        return lay
    if isinstance(top, Array) and top.n is None:
        top.setup(rnd, rnd.choice([5, 8, 16, 27, 64]))
    if label == "clamp":
        lo, hi = valid_box(rnd, top)
        return Clamp(lo, hi, top)
    if label == "backup":
        lo, hi = valid_box(rnd, top)
        df = [asv(osk, rnd.randrange(0 if osk[0] == "u" else -900, 901)) for _ in range(M)]
        return Backup(lo, hi, df, top)
    if label == "shuffle":
        p = list(range(N))
        for _ in range(5):
            rnd.shuffle(p)
            if N < 3 or [p[p[i]] for i in range(N)] != list(range(N)):      # prefer a non-involution (inverse != itself)
                break
        return Shuffle(p, top)
    if label == "cast":
        pool = ["f32", "f64", "f64", "i32", "i64", "u64"] if not opts.get("float_only") else ["f32", "f64"]
        pool = [t for t in pool if t != osk] or ["f64"]
        return Cast(rnd.choice(pool), top)
    if label == "deref":
        return Deref(top)
    if label in ("nn", "linear"):
        return Interp(label, rnd.choice(["f32", "f64"]), top)
    if label == "affine":
        if isf(sk):
            A = [[Fr(int(i == j)) for j in range(N)] for i in range(N)]
            # shape of the linear part: anything / lower triangular / upper triangular (a "fast path" for special shapes
            # must agree with the general product): triangular shapes only use shears on one side of the diagonal
            shape = rnd.choice(["any", "any", "lower", "upper"]) if N > 1 else "any"
            for _ in range(rnd.randrange(0, 3) if shape == "any" else rnd.randrange(1, 4)):   # unimodular part: shears and swaps
                i, j = rnd.randrange(N), rnd.randrange(N)
                if i == j:
                    continue
                if shape != "any":
                    i, j = (max(i, j), min(i, j)) if shape == "lower" else (min(i, j), max(i, j))
                if shape == "any" and rnd.random() < 0.5:
                    A[i], A[j] = A[j], A[i]
                else:
                    s = rnd.choice([1, -1])
                    A[i] = [a + s * b for a, b in zip(A[i], A[j])]
            for i in range(N):                                          # dyadic scaling
                s = rnd.choice([1, 1, 2, Fr(1, 2), -1, 4, Fr(1, 4), -2])
                A[i] = [s * a for a in A[i]]
            mat = [A[i] + [rnd.choice([0, 0, Fr(1, 2), Fr(1, 4), 1, -1, Fr(3, 8), 2, Fr(-5, 4)])] for i in range(N)]
        else:
            p = list(range(N))
            rnd.shuffle(p)
            mat = [[int(j == p[i]) for j in range(N)] + [rnd.choice([0, 0, 1, 2]) if sk[0] == "u" or True else 0] for i in range(N)]
        return Affine(mat, top)
    raise ValueError(label)


WEIGHTS_INT = {"clamp": 3, "backup": 3, "shuffle": 3, "deref": 2, "cast": 2, "affine": 1, "nn": 5, "linear": 5,
               "strided": 0.4, "mortonT": 0.3, "mortonF": 0.3, "hilbert": 0.3}
WEIGHTS_REAL = {"clamp": 3, "backup": 3, "shuffle": 3, "affine": 4, "deref": 1, "cast": 2}


def random_primitive(rnd, want=None):
    kind = want or rnd.choice(["array"] * 6 + ["constant"] * 2 + ["identity"] * 2)
    M = rnd.choice([1, 2, 3, 4])
    N = rnd.choice([n for n in (1, 2, 3, 4) if n != M] * 4 + [M])
    if kind == "array":
        return Array(rnd.choice(["f32", "f32", "f64", "f64", "f64", "i32"]), M)
    in_sk = rnd.choice(["u64", "u64", "u64", "i32", "i64", "u32", "f32", "f64", "f32", "f64"])
    if kind == "constant":
        out_sk = rnd.choice(["f32", "f64", "f64", "i32", "u64"])
        return Constant(in_sk, N, out_sk, M, [rnd.randrange(0 if out_sk[0] == "u" else -500, 501) for _ in range(M)])
    return Identity(in_sk, N)


def fits(node):
    return node.view_size()[0] <= 256


def random_stack(rnd, maxdepth=5, prim=None, first=None, script=None):
    """a random well-kinded stack of at most `maxdepth` layers whose view fits; `script`: list of layer names to try to
    place in order (used by the covering-set construction)"""
    top = prim or random_primitive(rnd)
    depth = rnd.choice([2, 3, 3, 4, 4, 5, 5, 5]) if script is None else 1 + len(script)
    depth = min(depth, maxdepth)
    step = 0
    while top.depth() < depth:
        sk = top.in_kind()[0]
        if script is not None:
            label = script[step]
            step += 1
            if not can_place(label, top):
                raise NoSample()
        else:
            if isinstance(top, Array):
                label = rnd.choice(list(LAYOUTS) * 6 + ["strided"] * 10 + ["deref", "cast"])
            else:
                W = WEIGHTS_REAL if isf(sk) else WEIGHTS_INT
                cands = [(l, w) for l, w in W.items() if can_place(l, top)]
                if not cands:
                    break
                label = rnd.choices([l for l, _ in cands], [w for _, w in cands])[0]
        opts = {}
        if label in LAYOUTS:
            M = top.out_kind()[1]
            opts["N"] = rnd.choice([n for n in (1, 2, 3, 4) if n != M] * 3 + [M])
        nxt = make_layer(rnd, label, top, opts)
        if not fits(nxt):
            if script is not None:
                raise NoSample()
            break
        top = nxt
    if isinstance(top, Array) and top.n is None:
        top.setup(rnd, rnd.choice([1, 3, 8, 20]))
    widen_values(rnd, top)
    return top


def widen_values(rnd, stack):
    """stacks without `linear` do no arithmetic on the stored values: give double storage beneath a cast to float values
    with ~45 significant bits, so that the cast really rounds (the model rounds to nearest-even)"""
    ls = stack.layers()
    prim = ls[-1]
    if not isinstance(prim, Array) or prim.sk != "f64" or any(l.label == "linear" for l in ls):
        return False
    if not any(isinstance(l, Cast) and l.t == "f32" and l.child.out_kind()[0] == "f64" for l in ls):
        return False
    prim.vals = [Fr(rnd.getrandbits(45) - (1 << 44), 1 << 35) if rnd.random() < 0.8 else Fr(rnd.choice([2 ** 24 + 1, 2 ** 25 + 3, -(2 ** 24) - 1, 3 * 2 ** 23 + 1]), 2 ** 15)
                 for _ in prim.vals]
    return True


def gen_coords(rnd, stack, n, attempts=None):
    """up to n distinct in-domain, exactness-respecting coordinates with their reference values:
    list of (coordinate, values, set of layers that acted non-trivially)"""
    out, seen = [], set()
    sk, N, bare = stack.in_kind()
    attempts = attempts or 12 * n + 40
    top_inf_ok = stack.label in ("clamp", "backup")
    for _ in range(attempts):
        if len(out) >= n:
            break
        try:
            c = stack.sample(rnd, 0)
            c = [asv(sk, x) for x in c]
            if any(is_inf(x) for x in c) and not top_inf_ok:
                continue
            if not all(rep(sk, x) for x in c):
                continue
            key = tuple(enc(sk, x) for x in c)
            if key in seen:
                continue
            tr = set()
            v = stack.pe(c, tr)
        except (UB, Inexact, NoSample):
            continue
        seen.add(key)
        out.append((c, v, tr))
    return out


def adjacencies(stack):
    ls = stack.layers()
    return [(a.label, b.label) for a, b in zip(ls, ls[1:])]


def prim_variant(rnd, name):
    """primitives by role: `const1`/`ident1` have a 1-D integer input (can carry a storage order), `constI`/`identI`
    an integer vector input (can carry an interpolator)"""
    M = rnd.choice([1, 2, 3, 4])
    N = rnd.choice([n for n in (1, 2, 3, 4) if n != M])
    val = lambda sk: [rnd.randrange(0 if sk[0] == "u" else -500, 501) for _ in range(M)]
    if name == "array":
        return Array(rnd.choice(["f32", "f64"]), M)
    if name == "const1":
        sk = rnd.choice(["f32", "f64", "i32"])
        return Constant("u64", 1, sk, rnd.choice([2, 3, 4]), val(sk) + [7, 8, 9])
    if name == "ident1":
        return Identity("u64", 1)
    if name == "constI":
        sk = rnd.choice(["f32", "f64"])
        return Constant(rnd.choice(["u64", "u64", "u32"]), N, sk, M, val(sk))
    if name == "identI":
        return Identity(rnd.choice(["u64", "u64", "u32"]), rnd.choice([2, 3, 4]))
    return random_primitive(rnd, name)


def chain_to(rnd, inner, pred, tries=80):
    """a short stack whose outermost layer is named `inner` and satisfies pred"""
    prims = {"array": ["array"], "constant": ["constant", "const1", "constI"], "identity": ["identity", "ident1", "identI"]}
    for _ in range(tries):
        try:
            if inner in prims:
                top = prim_variant(rnd, rnd.choice(prims[inner]))
                if isinstance(top, Constant) and len(top.val) != top.M:
                    top = Constant(top.in_sk, top.N, top.out_sk, top.M, top.val[:top.M])
            else:
                base = rnd.choice(["array", "array", "array", "constant", "identity", "const1", "ident1", "constI", "identI"])
                top = prim_variant(rnd, base)
                if isinstance(top, Constant) and len(top.val) != top.M:
                    top = Constant(top.in_sk, top.N, top.out_sk, top.M, top.val[:top.M])
                script = []
                if base == "array":
                    lay = rnd.choice(list(LAYOUTS) + ["strided", "strided", "strided1", "strided1"])
                    if inner in LAYOUTS:
                        lay = rnd.choice([inner, inner + "1"]) if inner != "hilbert" else inner
                    if inner in ("cast", "deref") and rnd.random() < 0.25:
                        script = []
                    elif inner in LAYOUTS:
                        script = [lay]
                    else:
                        script = [lay] + ([rnd.choice(["nn", "linear"])] if rnd.random() < 0.45 and inner not in ("nn", "linear") else [])
                if inner not in LAYOUTS:
                    script.append(inner)
                top = scripted(rnd, top, script)
            if top.label == inner and pred(top):
                return top
        except NoSample:
            continue
    raise NoSample()


def scripted(rnd, prim, script):
    top = prim
    for label in script:
        opts = {}
        if label.endswith("1"):
            label = label[:-1]
            opts["N"] = 1
        if not can_place(label, top):
            raise NoSample()
        if label in LAYOUTS and "N" not in opts:
            M = top.out_kind()[1]
            opts["N"] = rnd.choice([n for n in (1, 2, 3, 4) if n != M])
        nxt = make_layer(rnd, label, top, opts)
        if not fits(nxt):
            raise NoSample()
        top = nxt
    if isinstance(top, Array) and top.n is None:
        top.setup(rnd, 8)
    return top


def covering_set(seed=20240917, tries=40):
    """a fixed set of stacks (depth <= 5) in which every allowed ordered pair (outer, inner) appears; N != M wherever
    the pair allows. Returns (stacks, uncovered pairs)."""
    rnd = random.Random(seed)
    need_pairs = sorted(allowed_pairs())
    covered = set()
    stacks = []
    for (o, i) in need_pairs:
        if (o, i) in covered:
            continue
        got = None
        for t in range(tries):
            try:
                s = chain_to(rnd, i, lambda top: can_place(o, top) and top.depth() <= 4)
                s = make_layer(rnd, o, s, {"float_only": True} if o == "cast" and rnd.random() < 0.5 else {})
            except NoSample:
                continue
            if not fits(s) or not gen_coords(rnd, s, 6, attempts=200):
                continue
            # extend upwards with layers that cover still-uncovered pairs while depth allows
            while s.depth() < 5:
                cands = [oo for (oo, ii) in need_pairs if ii == s.label and (oo, ii) not in covered and (oo, ii) != (o, i) and can_place(oo, s)]
                if not cands:
                    break
                try:
                    nxt = make_layer(rnd, rnd.choice(cands), s)
                except NoSample:
                    break
                if not fits(nxt) or not gen_coords(rnd, nxt, 4, attempts=150):
                    break
                s = nxt
            N, M = s.in_kind()[1], s.out_kind()[1]
            if N == M and t < tries // 2 and not any(l.label == "identity" for l in s.layers()):
                continue
            got = s
            break
        if got is not None:
            widen_values(rnd, got)
            stacks.append(got)
            covered |= set(adjacencies(got))
    # two fixed stacks in which a cast really rounds (double storage with ~45 significant bits narrowed to float)
    for build in (lambda a: Cast("f32", Deref(Layout("strided", "u64", [3, 4], a))),
                  lambda a: Cast("f32", Interp("nn", "f64", Layout("mortonF", "u64", [3, 3, 2], a)))):
        a = Array("f64", 3)
        top = build(a)
        a.setup(rnd, top.layers()[-2].storage_need())
        widen_values(rnd, top)
        stacks.append(top)
    return stacks, [p for p in need_pairs if p not in covered]


# ------------------------------------------------------------------------------------------------ C++ emission
def type_aliases(stack, prefix="T"):
    """`using T0 = <primitive>; using T1 = <layer><T0>; …` innermost first; returns (lines, name of outermost, names outermost-first)"""
    ls = stack.layers()[::-1]
    lines, names = [], []
    for k, l in enumerate(ls):
        name = f"{prefix}{k}"
        t = l.cpp()
        if k > 0:
            t = t % names[-1]
        lines.append(f"using {name} = {t};")
        names.append(name)
    return lines, names[-1], names[::-1]


def pack_exprs(stack, names):
    parts, off = [], 0
    for l, T in zip(stack.layers(), names):
        e, off = l.pack_cpp(T, off)
        parts.append(e)
    return parts


def cfg_words(stack):
    return [w for l in stack.layers() for w in l.cfg_words()]


def emit_stack(i, stack, extra=""):
    lines, B, names = type_aliases(stack)
    sk, N, bare = stack.in_kind()
    osk, M = stack.out_kind()
    parts = pack_exprs(stack, names)
    ct = CPP[sk]
    pk = getattr(stack.layers()[-1], "probe", None)          # "q": flat-index recorder, "n": counting N-d probe
    log = {"q": "static vf::probe_log LOG;\n", "n": "static vf::nprobe_log LOG;\n", None: ""}[pk]
    reset = {"q": "LOG.idx.clear(); ", "n": "LOG.count = 0; ", None: ""}[pk]
    tail1 = {"q": '  std::ostringstream t1; t1 << " | q"; for (auto x : LOG.idx) t1 << " " << x;\n',
             "n": '  std::ostringstream t1; t1 << " | n " << LOG.count; for (auto x : LOG.last) t1 << " " << x;\n', None: ""}[pk]
    tail2 = {"q": '  t1 << " | q"; for (auto x : LOG.idx) t1 << " " << x;\n',
             "n": '  t1 << " | n " << LOG.count; for (auto x : LOG.last) t1 << " " << x;\n', None: ""}[pk]
    ext = " + t1.str()" if pk else ""
    # a view has no memory: after a lookup somewhere else (the previous line's coordinate) the same coordinate gets the same answer
    again = ("  static std::vector<u64> prev_;\n  if (prev_.size() == in.coord.size()) {\n    @@MKPREV@@\n    (void)v.at(cp); auto rb = v.at(c);\n"
             f"    if (out(rb, {M}) != out(r1, {M})) {{ std::cerr << \"Assertion `a view answers a coordinate the same way after another lookup' failed: \" "
             f"<< out(rb, {M}) << \" vs \" << out(r1, {M}) << std::endl; std::abort(); }}\n  }}\n  prev_ = in.coord;\n")
    if bare:
        again = again.replace("@@MKPREV@@", f"auto cp = fromb<{ct}>(prev_[0]);")
        at = (f"  auto c = fromb<{ct}>(in.coord[0]);\n  {reset}auto r1 = v.at(c);\n{tail1}{again}  return out(r1, {M}){ext};\n")
    else:
        again = again.replace("@@MKPREV@@", f"auto cp = vec<typename field<B>::coordinate_t, {ct}, {N}>(prev_, 0);")
        args = ", ".join(f"fromb<{ct}>(in.coord[{k}])" for k in range(N))
        # the variadic form with arguments of DIFFERENT arithmetic types (each converts to the coordinate scalar on its own): only
        # when every component is a small integer, so that int / unsigned / long / double all hold it exactly
        mixed = ""
        if N >= 2:
            conds = " && ".join(f"small_int(c[{k}])" for k in range(N))
            margs = ", ".join([f"static_cast<int>(c[{k}])", f"(c[{k}] >= 0 ? 0 : 0) + (c[{k}] >= 0 ? static_cast<long>(static_cast<unsigned>(c[{k}])) : static_cast<long>(c[{k}]))",
                               f"static_cast<double>(c[{k}])"][k % 3] for k in range(N))
            uargs = ", ".join([f"static_cast<int>(c[{k}])", f"static_cast<unsigned>(c[{k}])", f"static_cast<double>(c[{k}])"][k % 3] for k in range(N))
            nonneg = " && ".join(f"c[{k}] >= 0" for k in range(N))
            # an all-integer pack in which a (possibly negative) int sits next to unsigned values: each argument converts on its own,
            # never through a common type
            iargs = ", ".join([f"static_cast<int>(c[{k}])" if k == 0 else f"static_cast<unsigned>(c[{k}])" for k in range(N)])
            icond = " && ".join(f"c[{k}] >= 0" for k in range(1, N))
            jargs = ", ".join([f"static_cast<int>(c[{k}])" if k == N - 1 else f"static_cast<unsigned>(c[{k}])" for k in range(N)])
            jcond = " && ".join(f"c[{k}] >= 0" for k in range(0, N - 1))
            mixed = (f"  if ({conds} && {icond}) {{ auto ri = v.at({iargs}); if (out(ri, {M}) != out(r1, {M})) {{ std::cerr << "
                     f"\"Assertion `at(int, unsigned...) == at(vector)' failed: \" << out(ri, {M}) << \" vs \" << out(r1, {M}) << std::endl; std::abort(); }} }}\n"
                     f"  if ({conds} && {jcond}) {{ auto rj = v.at({jargs}); if (out(rj, {M}) != out(r1, {M})) {{ std::cerr << "
                     f"\"Assertion `at(unsigned..., int) == at(vector)' failed: \" << out(rj, {M}) << \" vs \" << out(r1, {M}) << std::endl; std::abort(); }} }}\n")
            mixed += (f"  if ({conds}) {{\n    auto rm = ({nonneg}) ? v.at({uargs}) : v.at({margs});\n"
                     f"    if (out(rm, {M}) != out(r1, {M})) {{ std::cerr << \"Assertion `at(scalars of mixed arithmetic types) == at(vector)' failed: \" "
                     f"<< out(rm, {M}) << \" vs \" << out(r1, {M}) << std::endl; std::abort(); }}\n  }}\n")
        at = (f"  auto c = vec<typename field<B>::coordinate_t, {ct}, {N}>(in.coord, 0);\n  {reset}auto r1 = v.at(c);\n{tail1}"
              f"  {reset}auto r2 = v.at({args});\n{tail2}{mixed}{again}  return out(r1, {M}) + \" | \" + out(r2, {M}){ext};\n")
    return (f"namespace s{i} {{\n{log}" + "\n".join(lines) + f"\nusing B = {B};\nstatic std::unique_ptr<field<B>> F;\n"
            f"std::string setup(const In & in) {{\n  F = std::make_unique<field<B>>(make_parameter_pack({', '.join(parts)}));\n  return \"ok\";\n}}\n"
            f"std::string at(const In & in) {{\n  if (!F) return \"nosetup\";\n  typename field<B>::view_t v(*F);\n"
            # a view is a self-contained snapshot (it is what gets copied to a device): the owning field object is relocated
            # after the view was taken -- its storage travels with it -- and the old object is freed, so that a view that
            # borrows anything from the field object itself is reported by ASan / shows as a wrong value
            f"  struct Reloc {{ std::unique_ptr<field<B>> g; Reloc() : g(std::make_unique<field<B>>(std::move(*F))) {{ F.reset(); }}"
            f" ~Reloc() {{ F = std::move(g); }} }} reloc;\n{at}}}\n{extra}}}\n")


def parse_out(o, M, bare):
    """answer of an `at` line -> (forms: list of value-bit lists (vector form, variadic form), extras: list of token lists)
    or None when the harness died / printed something else"""
    if o.startswith("CRASH") or o in ("nosetup", "unsupported"):
        return None
    forms, extras = [], []
    for p in o.split("|"):
        t = p.split()
        if t and t[0] in ("q", "n"):
            if not all(x.isdigit() for x in t[1:]):
                return None
            extras.append([t[0]] + [int(x) for x in t[1:]])
        else:
            if len(t) != M or not all(x.isdigit() for x in t):
                return None
            forms.append([int(x) for x in t])
    if len(forms) != (1 if bare else 2):
        return None
    return forms, extras


def type_key(stack):
    """stacks with the same key share one C++ instantiation (configurations are run-time data)"""
    return type_aliases(stack)[0][-1].split("=", 1)[1] + "|" + "|".join(type_aliases(stack)[0])


def emit_tu(items, ops=("setup", "at")):
    """items: list of (index, stack, extra C++). One translation unit."""
    src = '#include "stack_tu.hpp"\n#include "probe.hpp"\n#include "nprobe.hpp"\n' + "".join(emit_stack(i, s, extra) for i, s, extra in items)
    src += "std::string run(const std::string & op, const std::string & name, const In & in) {\n"
    for i, s, extra in items:
        for op in ops:
            src += f'  if (name == "S{i}" && op == "{op}") return s{i}::{op}(in);\n'
    src += '  return "unsupported";\n}\nVF_MAIN\n'
    return src


def setup_line(i, stack):
    return f"setup S{i} {' '.join(map(str, cfg_words(stack)))} ; {' '.join(map(str, stack.cells()))}"


def at_line(i, stack, c):
    sk = stack.in_kind()[0]
    return f"at S{i} {' '.join(str(enc(sk, x)) for x in c)}"


# ------------------------------------------------------------------------------------------------ build and run
def build_tus(ctx, items, cfgs, per_tu, tag, ops=("setup", "at")):
    """items: list of (index, stack, extra C++). Compiles ceil(len/per_tu) translation units per configuration from
    C.INC. Returns (exe: dict (index, cfg) -> path, failures: list of (indices, cfg, diagnostic, src path)).
    A TU that fails to compile is split into single-stack TUs so that the other stacks still run."""
    from vlib import common as C
    chunks = [items[k:k + per_tu] for k in range(0, len(items), per_tu)]
    jobs, meta = [], []
    for k, ch in enumerate(chunks):
        src = ctx.work.path(f"{tag}_{k}.cpp")
        src.write_text(emit_tu(ch, ops))
        for cfg in cfgs:
            jobs.append((src, ctx.work.path(f"{tag}_{k}_{cfg}"), cfg, []))
            meta.append((ch, cfg))
    res = C.compile_many(jobs)
    exe, failures, retry, rmeta = {}, [], [], []
    for (src, out, cfg, _), (ch, _), (rc, err) in zip(jobs, meta, res):
        if rc == 0:
            for it in ch:
                exe[(it[0], cfg)] = out
        elif len(ch) == 1:
            failures.append(([ch[0][0]], cfg, err, src))
        else:
            for it in ch:
                s1 = ctx.work.path(f"{tag}_single_{it[0]}.cpp")
                s1.write_text(emit_tu([it], ops))
                retry.append((s1, ctx.work.path(f"{tag}_single_{it[0]}_{cfg}"), cfg, []))
                rmeta.append((it, cfg))
    if retry:
        for (src, out, cfg, _), (it, _), (rc, err) in zip(retry, rmeta, C.compile_many(retry)):
            if rc == 0:
                exe[(it[0], cfg)] = out
            else:
                failures.append(([it[0]], cfg, err, src))
    return exe, failures


def run_parallel(fn, args):
    from concurrent.futures import ThreadPoolExecutor
    from vlib import common as C
    with ThreadPoolExecutor(max_workers=C.NCPU) as ex:
        return list(ex.map(fn, args))


def judge_model(groups):
    """groups: list of (stack, [(coordinate bits, output bits, trace or None)]). Feeds the implementation's outputs to the
    `evalcheck` driver (def + at lines), in parallel chunks. Returns list of lists of verdict strings."""
    from vlib import common as C
    idx = [k for k, g in enumerate(groups) if g[1]]
    nchunk = max(1, min(C.NCPU, len(idx)))
    parts = [idx[k::nchunk] for k in range(nchunk)]

    def one(part):
        lines = []
        for k in part:
            s, cases = groups[k]
            sk = s.in_kind()[0]
            osk = s.out_kind()[0]
            lines.append(f"def {s.mstack()} | {s.mdata()}")
            for cb, ob, q in cases:
                ln = f"at {sk} {' '.join(map(str, cb))} | {osk} {' '.join(map(str, ob))}"
                if q is not None:
                    ln += " | q " + " ".join(map(str, q))
                lines.append(ln)
        out = C.run_driver("evalcheck", lines, timeout_per_line=0.02, min_timeout=120) if lines else []
        res, p = {}, 0
        for k in part:
            n = len(groups[k][1])
            hd = out[p]
            res[k] = [o if hd == "ok" else "bad-def " + hd for o in out[p + 1:p + 1 + n]]
            p += 1 + n
        return res
    merged = {}
    for r in run_parallel(one, parts):
        merged.update(r)
    return [merged.get(k, []) for k in range(len(groups))]
