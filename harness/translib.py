"""The tie through translation (DESIGN.md §11.6).

For each integer kernel the check re-translates the *current* source text (harness/cxx2imp.py) and compares it with the
term the Lean theorems `Covfie.Imp.*_translated` are about (printed by the `impcheck` driver from the compiled library).

  identical      -> obligation `translated_<kernel>` is discharged: the theorems speak about the code as written
  differs        -> the obligation is not discharged; the changed program is executed by the Lean interpreter next to the
                    reference program on a boundary-heavy input set, and every input on which the two differ is handed to
                    the property's behavioural correspondence as an additional case (so that a violation is reported with a
                    failing input observed on the real code); the property's thorough-tier inputs for that kernel are added too
  untranslatable -> as `differs`, without the interpreter search

A kernel whose text changed while its behaviour did not (a refactoring) therefore raises no alarm: the behavioural tie,
which every property keeps, still holds; the evidence records that the translation tie is lost.
"""
import random
from vlib import common as C
from harness import cxx2imp as X

FUEL = {"round_pow2": lambda w: w + 1, "ipow": lambda w: 2 ** 20, "hilbert_index": lambda w: 65, "morton_index": lambda w: 65,
        "morton_index_bmi2_off": lambda w: 65, "strided_index": lambda w: 65}


def references():
    rc, so, se = C.sh([str(C.driver("impcheck"))], 120, input="print\n")
    if rc != 0:
        raise RuntimeError("impcheck print failed: " + se[-300:])
    refs = {}
    for l in so.splitlines():
        t = l.split(" ", 2)
        if len(t) == 3 and t[0] == "K":
            refs[t[1]] = t[2].strip()
    return refs


LIN = {"lin1": 1, "lin2": 2, "lin3": 3}     # formula kernels (harness/cxx2lin.py): the specialised branches of linear.hpp


RIMP = ("matmul", "identity", "affine_apply", "affine_compose", "translation", "scaling")
RIMP_ALL = RIMP + ("lin_generic",)     # lin_generic (the N >= 4 branch of linear.hpp) belongs to C03     # harness/cxx2rimp.py


OWN = ("copy_assign", "copy_ctor", "members")     # harness/cxx2own.py


IOL = ("io_array", "io_field", "io_constant", "io_identity", "io_strided", "io_morton", "io_hilbert", "io_clamp", "io_backup", "io_affine", "io_linear",
       "io_nearest_neighbour", "io_shuffle", "io_covariant_cast", "io_dereference")     # harness/cxx2io.py


BIN = ("read_io_header", "read_io_footer", "write_io_header", "write_io_footer", "read_binary", "magic")     # harness/cxx2bin.py


# function-level sentences (harness/cxx2sent.py) and the properties whose model clauses were written from them
PROP_SENT = {
    "C02": ["at_clamp", "at_clamp_adjust", "at_backup", "at_shuffle", "at_shuffle_helper", "at_cast", "at_cast_helper", "at_dereference",
            "at_constant", "at_identity", "at_affine", "at_array", "at_morton", "at_hilbert", "field_view_at"],
    "C04": ["at_nearest_neighbour"],
    "C10": ["at_clamp", "at_clamp_adjust"],
    "C11": ["at_backup"],
    "C05": ["conv_strided", "conv_morton", "conv_hilbert"],
    "C19": ["nd_map", "nd_map_equations"],
    "C17": None,      # filled below: get_configuration and the parameter-pack constructor of every layer
}
from harness import cxx2sent as _cs
PROP_SENT["C17"] = list(_cs.CFG_KEYS)
SENT = tuple(sorted({k for v in PROP_SENT.values() if v for k in v if k != "nd_map_equations"}))


def sentence_obligations(ctx, prop, corr):
    """adds the obligations `translated_<sentence>` of a property (recorded; a lost tie is no violation: the escalation pass of
    vlib/framework.py looks harder when the file changed)"""
    keys = PROP_SENT.get(prop)
    if not keys:
        return
    tie = Tie(ctx, keys)
    tie.merge(corr)


def _translate(k):
    if k in SENT:
        from harness import cxx2sent
        return cxx2sent.translate(str(C.REPO), k), {"scalars": [], "arrays": []}
    if k == "static_permutation":
        from harness import cxx2tmpl
        return cxx2tmpl.translate(str(C.REPO)), {"scalars": [], "arrays": []}
    if k == "nd_map_equations":
        from harness import cxx2tmpl
        return cxx2tmpl.translate_ndmap(str(C.REPO)), {"scalars": [], "arrays": []}
    if k in ("context", "morton_pdep"):
        from harness import cxx2ctx
        return cxx2ctx.translate(str(C.REPO), k), {"scalars": [], "arrays": []}
    if k in BIN:
        from harness import cxx2bin
        return cxx2bin.translate(str(C.REPO), k), {"scalars": [], "arrays": []}
    if k in IOL:
        from harness import cxx2io
        return cxx2io.translate(str(C.REPO), k), {"scalars": [], "arrays": []}
    if k in OWN:
        from harness import cxx2own
        return cxx2own.translate(str(C.REPO), k), {"scalars": [], "arrays": []}
    if k in RIMP_ALL:
        from harness import cxx2rimp
        return cxx2rimp.translate(str(C.REPO), k)
    if k in LIN:
        from harness import cxx2lin
        return cxx2lin.translate(str(C.REPO), LIN[k]), {"scalars": [], "arrays": []}
    return X.translate(str(C.REPO), k)


def _where(k):
    if k in SENT:
        from harness import cxx2sent
        return cxx2sent.SENTENCES[k][0] + " " + k + " (model clause: " + cxx2sent.SENTENCES[k][3] + ")"
    if k == "static_permutation":
        return "utility/static_permutation.hpp: every template specialisation"
    if k == "nd_map_equations":
        return "utility/nd_map.hpp: tail, cat and the three branches of nd_map"
    if k == "context":
        return "array.hpp / algebra/matrix.hpp / algebra/vector.hpp / utility/nd_size.hpp element accessors"
    if k == "morton_pdep":
        return "backend/transformer/morton.hpp morton_pdep_mask (BMI2 path)"
    if k in BIN:
        from harness import cxx2bin
        return cxx2bin.KERNELS[k]
    if k in IOL:
        from harness import cxx2io
        return cxx2io.LAYERS.get(k, "field.hpp" if k == "io_field" else "backend/primitive/array.hpp") + " write_binary / read_binary"
    if k in OWN:
        from harness import cxx2own
        return cxx2own.KERNELS[k]
    if k in RIMP_ALL:
        from harness import cxx2rimp
        return cxx2rimp.KERNELS[k][1]
    return f"backend/transformer/linear.hpp at(), {LIN[k]}-D branch" if k in LIN else _where(k)


def status(ctx, corr, kernels):
    """-> {kernel: {"state": identical|differs|untranslatable, "sexp": ..., "names": ..., "why": ...}}"""
    refs = references()
    res = {}
    for k in kernels:
        ob = f"translated_{k}"
        try:
            sexp, names = _translate(k)
        except X.Untranslatable as e:
            res[k] = {"state": "untranslatable", "why": str(e)[:200]}
            corr.add_obl(ob, 1, 1, f"the source text of {_where(k)} is outside the translator's subset ({str(e)[:120]}): "
                                   "tie through translation lost, behavioural tie decides")
            continue
        if k not in refs:
            res[k] = {"state": "untranslatable", "why": "no reference term"}
            corr.add_obl(ob, 1, 1, "the Lean library has no reference term for this kernel")
            continue
        if sexp == refs[k]:
            res[k] = {"state": "identical", "sexp": sexp, "names": names}
            corr.add_obl(ob, 1, 0)
        else:
            res[k] = {"state": "differs", "sexp": sexp, "names": names}
            corr.add_obl(ob, 1, 1, f"the translation of {_where(k)} differs from the term the theorems are about: "
                                   "tie through translation lost, behavioural tie decides")
    corr.info["translation"] = {k: (v["state"] + (": " + v["why"] if "why" in v else "")) for k, v in res.items()}
    changed = [k for k, v in res.items() if v["state"] != "identical"]
    if changed:
        corr.notes.append("translation tie lost for " + ", ".join(changed) + " (source text changed); additional inputs were explored for these kernels")
    return res


# ------------------------------------------------------------------------------------------ inputs per kernel
def _np2_inputs(rnd, big):
    out = []
    for w in (8, 16):
        out += [(w, {"i": i}, {}) for i in range(0, (1 << (w - 1)) + 1)]
    for w in (32, 64):
        half = 1 << (w - 1)
        pts = {0, 1, 2, 3, half, half - 1}
        for k in range(w):
            for d in (-1, 0, 1, 2, 3):
                pts.add((1 << k) + d)
            for j in range(k):
                pts.add((1 << k) + (1 << j)); pts.add((1 << k) + (1 << j) + 1)
        for _ in range(20000 if big else 4000):
            pts.add(rnd.getrandbits(rnd.randrange(1, w)))
        out += [(w, {"i": i}, {}) for i in sorted(pts) if 0 <= i <= half]
    return out


def _ipow_inputs(rnd, big):
    out = [(8, {"i": b, "p": e}, {}) for b in range(256) for e in range(256)]
    for w in (16, 32, 64):
        top = (1 << w) - 1
        bs = [0, 1, 2, 3, 4, 5, 7, 8, 10, 16, 255, 256, top, top - 1, 1 << (w // 2), (1 << (w // 2)) + 1, (1 << (w // 2)) - 1] + [1 << k for k in range(w)]
        es = list(range(0, 70)) + [w, w - 1, 127, 128, 255, 256, 1000, top, top - 1, 1 << (w - 1)]
        out += [(w, {"i": b & top, "p": e & top}, {}) for b in bs for e in es]
        for _ in range(20000 if big else 3000):
            out.append((w, {"i": rnd.getrandbits(rnd.randrange(1, w + 1)), "p": rnd.choice([rnd.getrandbits(rnd.randrange(1, w + 1)), rnd.randrange(0, 200)])}, {}))
    return out


def _strided_inputs(rnd, big):
    out = []
    exts = [1, 2, 3, 4, 5, 7, 8, 9, 16, 17, 31, 33, 100, 255, 256, 257, 1000, 65535, 65536, 65537]
    for w in (64, 32, 16):
        for _ in range(6000 if big else 1500):
            N = rnd.choice([1, 2, 3, 4])
            sz = [rnd.choice(exts) for _ in range(N)]
            prod = 1
            for s in sz:
                prod *= s
            if prod > (1 << w):
                continue
            co = [rnd.choice([0, s - 1, rnd.randrange(s)]) for s in sz]
            out.append((w, {"N": N}, {"c": co, "m_sizes": sz}))
    for sz, co in (([2, 65537, 65536], [1, 65536, 65535]), ([3, (1 << 31) + 1], [2, 1 << 31]), ([3, 3, 1 << 16, 1 << 16], [2, 2, 65535, 65535]),
                   ([7, (1 << 40) + 3], [6, 1 << 40]), ([5, 1 << 20, (1 << 12) + 1], [4, (1 << 20) - 1, 1 << 12])):
        out.append((64, {"N": len(sz)}, {"c": co, "m_sizes": sz}))
    return out


def _morton_inputs(rnd, big):
    out = []
    for N in (1, 2, 3, 4):
        w = 64 // N
        top = (1 << w) - 1
        pats = [0, 1, top, top - 1, 1 << (w - 1), (1 << (w - 1)) - 1, 0x5555555555555555 & top, 0xAAAAAAAAAAAAAAAA & top, 255, 256, 65535, 65536] + [1 << b for b in range(w)]
        for j in range(N):
            for v in pats:
                co = [0] * N; co[j] = v & top
                out.append((64, {"N": N, "OBITS": 64}, {"c": co}))
        for _ in range(8000 if big else 1500):
            out.append((64, {"N": N, "OBITS": 64}, {"c": [rnd.choice(pats + [rnd.getrandbits(w), rnd.getrandbits(rnd.randrange(1, w + 1))]) & top for _ in range(N)]}))
    return out


def _hilbert_inputs(rnd, big):
    out = []
    for k in range(0, 7 if big else 6):
        n = 1 << k
        out += [(64, {}, {"c": [x, y], "sizes": [n, n]}) for x in range(n) for y in range(n)]
    for _ in range(8000 if big else 2000):
        sx = rnd.choice([1, 2, 3, 5, 6, 7, 9, 12, 17, 33, 100, 1000, 65537, (1 << 20) + 1, 1 << 31, (1 << 31) + 1])
        sy = rnd.choice([1, 2, 3, 4, 5, 7, 8, 31, 64, 65, 777, 65536, 1 << 20, 1 << 32])
        out.append((64, {}, {"c": [rnd.choice([0, sx - 1, rnd.randrange(sx)]), rnd.choice([0, sy - 1, rnd.randrange(sy)])], "sizes": [sx, sy]}))
    return out


INPUTS = {"round_pow2": _np2_inputs, "ipow": _ipow_inputs, "strided_index": _strided_inputs, "morton_index": _morton_inputs,
          "morton_index_bmi2_off": _morton_inputs, "hilbert_index": _hilbert_inputs}


def _line(names, w, fuel, sc, ar):
    if any(n not in names["scalars"] for n in sc) or any(n not in names["arrays"] for n in ar) or "ret" not in names["scalars"]:
        return None
    svals = [str(sc.get(n, 0)) for n in names["scalars"]]
    parts = [" ".join(svals)] + [" ".join(str(v) for v in ar.get(n, [])) for n in names["arrays"]]
    return f"run {w} {fuel} {names['scalars'].index('ret')} " + " | ".join(parts)


def diff_search(ctx, kernel, st, big=False, cap=40):
    """runs the changed program and the reference program in the Lean interpreter; -> inputs on which they differ"""
    if st.get("state") != "differs":
        return [], 0, 0
    rnd = random.Random(ctx.seed * 7919 + len(kernel))
    inputs = INPUTS[kernel](rnd, big)
    # variable layout of the reference term: the translator's own output on the tree the proofs were written against is
    # not available at run time, so the reference runs through the same names (parameters keep their indices as long
    # as the parameter list is unchanged, which the translator checks)
    ref_names = REF_NAMES[kernel]
    new_lines, ref_lines, kept = [f"prog {st['sexp']}"], [f"ref {kernel}"], []
    for (w, sc, ar) in inputs:
        a = _line(st["names"], w, FUEL[kernel](w), sc, ar)
        b = _line(ref_names, w, FUEL[kernel](w), sc, ar)
        if a is None or b is None:
            return [], 0, 0
        new_lines.append(a); ref_lines.append(b); kept.append((w, sc, ar))
    new_out = C.run_driver("impcheck", new_lines)[1:]
    ref_out = C.run_driver("impcheck", ref_lines)[1:]
    bad = [(inp, n, r) for inp, n, r in zip(kept, new_out, ref_out) if n != r]
    return bad[:cap], len(kept), len(bad)


REF_NAMES = {
    "round_pow2": {"scalars": ["i", "ret", "j"], "arrays": []},
    "ipow": {"scalars": ["i", "p", "ret", "r"], "arrays": []},
    "hilbert_index": {"scalars": ["ret", "rx", "ry", "s", "d", "x", "y", "n", "rot.t"], "arrays": ["c", "sizes"]},
    "morton_index": {"scalars": ["N", "OBITS", "ret", "idx", "i", "j"], "arrays": ["c"]},
    "morton_index_bmi2_off": {"scalars": ["N", "OBITS", "ret", "idx", "i", "j"], "arrays": ["c"]},
    "strided_index": {"scalars": ["N", "ret", "idx", "k", "tmp", "l"], "arrays": ["c", "m_sizes"]},
}


class Tie:
    """status of the translation tie for a set of kernels + the additional inputs a lost tie asks for"""

    def __init__(self, ctx, kernels):
        from vlib.framework import Corr
        self.ctx, self.kernels = ctx, list(kernels)
        self.scratch = Corr()
        self.counter = {}
        try:
            self.res = status(ctx, self.scratch, self.kernels)
        except Exception as e:  # the driver is missing or the translator itself failed: the tie is not established
            self.res = {k: {"state": "untranslatable", "why": f"{type(e).__name__}: {e}"[:200]} for k in self.kernels}
            for k in self.kernels:
                self.scratch.add_obl(f"translated_{k}", 1, 1, "translation tie could not be evaluated: " + str(e)[:120])
            self.scratch.info["translation"] = {k: "not evaluated" for k in self.kernels}

    def changed(self, kernel=None):
        ks = [kernel] if kernel else self.kernels
        return [k for k in ks if self.res.get(k, {}).get("state") != "identical"]

    def counterexamples(self, kernel, big=True):
        """inputs on which the changed text, executed by the Lean interpreter, differs from the reference term"""
        if kernel in self.counter:
            return self.counter[kernel][0]
        try:
            bad, n, nbad = diff_search(self.ctx, kernel, self.res.get(kernel, {}), big=big)
        except Exception as e:
            bad, n, nbad = [], 0, 0
            self.scratch.notes.append(f"interpreter search for {kernel} failed: {str(e)[:150]}")
        self.counter[kernel] = (bad, n, nbad)
        if n:
            self.scratch.notes.append(f"{kernel}: changed text executed by the Lean interpreter on {n} inputs next to the reference term: {nbad} differ"
                                      + (f", e.g. {bad[0][0]} -> {bad[0][1]} (reference {bad[0][2]})" if bad else ""))
        return bad

    def merge(self, corr):
        for name, o in self.scratch.obl.items():
            corr.add_obl(name, o["cases"], o["disagreements"], o["note"])
        corr.notes += self.scratch.notes
        corr.info.update(self.scratch.info)
