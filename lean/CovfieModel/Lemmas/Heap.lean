import CovfieModel.Model.Heap
namespace Covfie.Heap

@[simp] theorem upd_same {α} (f : Nat → Option α) (i : Nat) (v : Option α) : upd f i v i = v := by simp [upd]
theorem upd_other {α} (f : Nat → Option α) (i j : Nat) (v : Option α) (h : j ≠ i) : upd f i v j = f j := by simp [upd, h]
@[simp] theorem zeros_length (n : Nat) : (zeros n).length = n := by simp [zeros]

theorem fresh_unowned (s : CState) (h : HInv s) : s.heap s.next = none := by
  cases hh : s.heap s.next with
  | none => rfl
  | some b => have := h.fresh s.next (by simp [hh]); exact absurd this (Nat.lt_irrefl _)

theorem fresh_not_ptr (s : CState) (h : HInv s) (i n : Nat) : s.slots i ≠ some ⟨n, some s.next⟩ := by
  intro e
  obtain ⟨buf, hb, _⟩ := h.live i n s.next e
  rw [fresh_unowned s h] at hb; simp at hb

theorem free_live (s : CState) (h : HInv s) (i n a : Nat) (hs : s.slots i = some ⟨n, some a⟩) :
    free s (some a) = { s with heap := upd s.heap a none } := by
  obtain ⟨buf, hb, _⟩ := h.live i n a hs
  simp [free, hb]

theorem srcBuf_length (s : CState) (h : HInv s) (j : Nat) (o : Own) (hs : s.slots j = some o) :
    (srcBuf s o).length = o.size := by
  obtain ⟨n, p⟩ := o
  cases p with
  | none => simp [srcBuf]
  | some a =>
    obtain ⟨buf, hb, hl⟩ := h.live j n a hs
    simp [srcBuf, hb, hl]

/-- allocate a fresh buffer of the right length into an empty slot (constructor, copy constructor) -/
theorem inv_alloc (s : CState) (h : HInv s) (i n : Nat) (buf : List Nat) (hs : s.slots i = none) (hl : buf.length = n) :
    HInv { s with heap := upd s.heap s.next (some buf), next := s.next + 1,
                  slots := upd s.slots i (some ⟨n, some s.next⟩) } := by
  have hf := fresh_unowned s h
  have hnp := fresh_not_ptr s h
  constructor
  · intro i' j' ni nj a h1 h2
    simp only [upd] at h1 h2
    by_cases e1 : i' = i <;> by_cases e2 : j' = i <;> simp [e1, e2] at h1 h2
    · omega
    · obtain ⟨_, rfl⟩ := h1; exact absurd h2 (hnp _ _)
    · obtain ⟨_, rfl⟩ := h2; exact absurd h1 (hnp _ _)
    · exact h.noalias _ _ _ _ _ h1 h2
  · intro a ha
    simp only [upd] at ha ⊢
    by_cases e : a = s.next
    · exact ⟨i, n, by simp [e]⟩
    · simp [e] at ha
      obtain ⟨j, m, hj⟩ := h.owned a ha
      refine ⟨j, m, ?_⟩
      have : j ≠ i := by intro e'; rw [e', hs] at hj; simp at hj
      simp [this, hj]
  · intro j m a hj
    simp only [upd] at hj ⊢
    by_cases e : j = i
    · simp [e] at hj; obtain ⟨rfl, rfl⟩ := hj; simp [hl]
    · simp [e] at hj
      obtain ⟨b, hb, hbl⟩ := h.live j m a hj
      have : a ≠ s.next := by intro e'; rw [e', hf] at hb; simp at hb
      exact ⟨b, by simp [this, hb], hbl⟩
  · intro a ha
    simp only [upd] at ha
    by_cases e : a = s.next
    · simp [e]
    · simp [e] at ha; have := h.fresh a ha; exact Nat.lt_succ_of_lt this
  · exact h.good

/-- destroy the object in a slot -/
theorem inv_release (s : CState) (h : HInv s) (i : Nat) (o : Own) (hs : s.slots i = some o) :
    HInv { free s o.ptr with slots := upd s.slots i none } := by
  obtain ⟨n, p⟩ := o
  cases p with
  | none =>
    simp only [free]
    constructor
    · intro i' j' ni nj a h1 h2
      simp only [upd] at h1 h2
      by_cases e1 : i' = i <;> by_cases e2 : j' = i <;> simp [e1, e2] at h1 h2
      exact h.noalias _ _ _ _ _ h1 h2
    · intro a ha
      obtain ⟨j, m, hj⟩ := h.owned a ha
      have : j ≠ i := by intro e'; rw [e', hs] at hj; simp at hj
      exact ⟨j, m, by simp [upd, this, hj]⟩
    · intro j m a hj
      simp only [upd] at hj
      by_cases e : j = i
      · simp [e] at hj
      · simp [e] at hj; exact h.live j m a hj
    · exact h.fresh
    · exact h.good
  | some a =>
    rw [free_live s h i n a hs]
    constructor
    · intro i' j' ni nj b h1 h2
      simp only [upd] at h1 h2
      by_cases e1 : i' = i <;> by_cases e2 : j' = i <;> simp [e1, e2] at h1 h2
      exact h.noalias _ _ _ _ _ h1 h2
    · intro b hb
      simp only [upd] at hb
      by_cases e : b = a
      · simp [e] at hb
      · simp [e] at hb
        obtain ⟨j, m, hj⟩ := h.owned b hb
        have : j ≠ i := by
          intro e'; rw [e', hs] at hj; simp at hj; exact e hj.2.symm
        exact ⟨j, m, by simp [upd, this, hj]⟩
    · intro j m b hj
      simp only [upd] at hj
      by_cases e : j = i
      · simp [e] at hj
      · simp [e] at hj
        obtain ⟨buf, hb, hl⟩ := h.live j m b hj
        have : b ≠ a := by
          intro e'; subst e'
          exact e (h.noalias j i m n b hj hs)
        exact ⟨buf, by simp [upd, this, hb], hl⟩
    · intro b hb
      simp only [upd] at hb
      by_cases e : b = a
      · simp [e] at hb
      · simp [e] at hb; exact h.fresh b hb
    · exact h.good


/-- move construction into an empty slot: the pointer changes owner, the source keeps its size and a null pointer -/
theorem inv_move (s : CState) (h : HInv s) (dst src : Nat) (o : Own) (hd : s.slots dst = none) (hs : s.slots src = some o) :
    HInv { s with slots := upd (upd s.slots src (some ⟨o.size, none⟩)) dst (some o) } := by
  have hne : dst ≠ src := by intro e; rw [e, hs] at hd; simp at hd
  have hne' : src ≠ dst := fun e => hne e.symm
  obtain ⟨n, p⟩ := o
  constructor
  · intro i j ni nj a h1 h2
    simp only [upd] at h1 h2
    by_cases e1 : i = dst <;> by_cases e2 : j = dst
    · omega
    · simp [e1] at h1
      by_cases e3 : j = src
      · simp [e2, e3, hne'] at h2
      · simp [e2, e3, hne'] at h2
        obtain ⟨rfl, rfl⟩ := h1
        exact absurd (h.noalias j src nj n a h2 hs) e3
    · simp [e2] at h2
      by_cases e3 : i = src
      · simp [e1, e3, hne'] at h1
      · simp [e1, e3, hne'] at h1
        obtain ⟨rfl, rfl⟩ := h2
        exact absurd (h.noalias i src ni n a h1 hs) e3
    · by_cases e3 : i = src
      · simp [e1, e3, hne'] at h1
      · by_cases e4 : j = src
        · simp [e2, e4, hne'] at h2
        · simp [e1, e3, hne'] at h1; simp [e2, e4, hne'] at h2
          exact h.noalias _ _ _ _ _ h1 h2
  · intro a ha
    obtain ⟨j, m, hj⟩ := h.owned a ha
    by_cases e : j = src
    · subst e; rw [hs] at hj; simp at hj
      obtain ⟨e1, e2⟩ := hj
      subst e1 e2
      exact ⟨dst, n, by simp [upd]⟩
    · have : j ≠ dst := by intro e'; rw [e', hd] at hj; simp at hj
      exact ⟨j, m, by simp [upd, this, e, hj]⟩
  · intro j m a hj
    simp only [upd] at hj
    by_cases e1 : j = dst
    · simp [e1] at hj; obtain ⟨e3, e4⟩ := hj; subst e3 e4; exact h.live src n a hs
    · by_cases e2 : j = src
      · simp [e1, e2, hne'] at hj
      · simp [e1, e2] at hj; exact h.live j m a hj
  · exact h.fresh
  · exact h.good

/-- a view write replaces a live buffer by one of the same length -/
theorem inv_write (s : CState) (h : HInv s) (a : Addr) (buf' : List Nat) (old : List Nat)
    (ho : s.heap a = some old) (hl : buf'.length = old.length) :
    HInv { s with heap := upd s.heap a (some buf') } := by
  constructor
  · exact h.noalias
  · intro b hb
    simp only [upd] at hb
    by_cases e : b = a
    · subst e; exact h.owned b (by simp [ho])
    · simp [e] at hb; exact h.owned b hb
  · intro j m b hj
    obtain ⟨bf, hb, hbl⟩ := h.live j m b hj
    by_cases e : b = a
    · subst e; rw [ho] at hb; injection hb with hb; subst hb
      exact ⟨buf', by simp [upd], by omega⟩
    · exact ⟨bf, by simp [upd, e, hb], hbl⟩
  · intro b hb
    simp only [upd] at hb
    by_cases e : b = a
    · subst e; exact h.fresh b (by simp [ho])
    · simp [e] at hb; exact h.fresh b hb
  · exact h.good


theorem CState.ext' (a b : CState) (h1 : a.heap = b.heap) (h2 : a.next = b.next) (h3 : a.slots = b.slots)
    (h4 : a.bad = b.bad) : a = b := by
  cases a; cases b; simp_all

theorem free_next (s : CState) (p : Option Addr) : (free s p).next = s.next := by
  unfold free; cases p with
  | none => rfl
  | some a => simp only []; cases hh : s.heap a <;> simp [hh]

/-- copy assignment (allocate, release the old buffer, adopt the new one) = release, then allocate -/
theorem copyAssign_eq (s : CState) (h : HInv s) (dst : Nat) (d : Own) (hd : s.slots dst = some d) (n : Nat) (B : List Nat) :
    ({ free ({ s with heap := upd s.heap s.next (some B), next := s.next + 1 } : CState) d.ptr with
        slots := upd s.slots dst (some ⟨n, some s.next⟩) } : CState) =
    (let s' : CState := { free s d.ptr with slots := upd s.slots dst none }
     { s' with heap := upd s'.heap s'.next (some B), next := s'.next + 1,
               slots := upd s'.slots dst (some ⟨n, some s'.next⟩) }) := by
  obtain ⟨m, p⟩ := d
  cases p with
  | none =>
    apply CState.ext' <;> simp [free]
    funext j; by_cases e : j = dst <;> simp [upd, e]
  | some a =>
    obtain ⟨old, ho, _⟩ := h.live dst m a hd
    have hne : a ≠ s.next := by intro e; rw [e, fresh_unowned s h] at ho; simp at ho
    have h1 : (upd s.heap s.next (some B)) a = some old := by simp [upd, hne, ho]
    apply CState.ext'
    · simp only [free, h1, ho]
      funext x
      by_cases e1 : x = a <;> by_cases e2 : x = s.next <;> simp [upd, e1, e2, hne]
      exact fun e => hne e.symm
    · simp [free, h1, ho]
    · simp only [free, h1, ho]
      funext j; by_cases e : j = dst <;> simp [upd, e]
    · simp [free, h1, ho]

theorem inv_copyAssign (s : CState) (h : HInv s) (dst src : Nat) (d o : Own)
    (hd : s.slots dst = some d) (hs : s.slots src = some o) :
    HInv ({ free ({ s with heap := upd s.heap s.next (some (srcBuf s o)), next := s.next + 1 } : CState) d.ptr with
        slots := upd s.slots dst (some ⟨o.size, some s.next⟩) } : CState) := by
  rw [copyAssign_eq s h dst d hd]
  have h' := inv_release s h dst d hd
  have := inv_alloc _ h' dst o.size (srcBuf s o) (by simp) (srcBuf_length s h src o hs)
  simpa [free_next] using this


theorem moveAssign_eq (s : CState) (dst src : Nat) (d o : Own) :
    ({ free s d.ptr with slots := upd (upd s.slots src (some ⟨o.size, none⟩)) dst (some o) } : CState) =
      { ({ free s d.ptr with slots := upd s.slots dst none } : CState) with
        slots := upd (upd ({ free s d.ptr with slots := upd s.slots dst none } : CState).slots src (some ⟨o.size, none⟩)) dst (some o) } := by
  apply CState.ext' <;> simp
  funext j
  by_cases e1 : j = dst <;> by_cases e2 : j = src <;> simp [upd, e1, e2]

theorem inv_moveAssign (s : CState) (h : HInv s) (dst src : Nat) (d o : Own) (hne : dst ≠ src)
    (hd : s.slots dst = some d) (hs : s.slots src = some o) :
    HInv ({ free s d.ptr with slots := upd (upd s.slots src (some ⟨o.size, none⟩)) dst (some o) } : CState) := by
  have h' := inv_release s h dst d hd
  have hs' : ({ free s d.ptr with slots := upd s.slots dst none } : CState).slots src = some o := by
    have hne' : src ≠ dst := fun e => hne e.symm
    simp [upd, hne', hs]
  have := inv_move _ h' dst src o (by simp) hs'
  have e : ({ free s d.ptr with slots := upd (upd s.slots src (some ⟨o.size, none⟩)) dst (some o) } : CState) =
      { ({ free s d.ptr with slots := upd s.slots dst none } : CState) with
        slots := upd (upd ({ free s d.ptr with slots := upd s.slots dst none } : CState).slots src (some ⟨o.size, none⟩)) dst (some o) } := by
    apply CState.ext' <;> simp
    funext j
    by_cases e1 : j = dst <;> by_cases e2 : j = src <;> simp [upd, e1, e2]
  rw [e]; exact this

/-- **every operation preserves the invariant** -/
theorem inv_step (s : CState) (h : HInv s) (op : Op) : HInv (cstep s op) := by
  cases op with
  | ctor i n =>
    simp only [cstep]
    cases hs : s.slots i with
    | some o => simpa [hs] using h
    | none => simpa [hs] using inv_alloc s h i n (zeros n) hs (by simp)
  | dtor i =>
    simp only [cstep]
    cases hs : s.slots i with
    | none => simpa [hs] using h
    | some o => simpa [hs] using inv_release s h i o hs
  | copyCtor dst src =>
    simp only [cstep]
    cases hd : s.slots dst with
    | some d => simpa [hd] using h
    | none =>
      cases hs : s.slots src with
      | none => simpa [hd, hs] using h
      | some o => simpa [hd, hs] using inv_alloc s h dst o.size (srcBuf s o) hd (srcBuf_length s h src o hs)
  | moveCtor dst src =>
    simp only [cstep]
    cases hd : s.slots dst with
    | some d => simpa [hd] using h
    | none =>
      cases hs : s.slots src with
      | none => simpa [hd, hs] using h
      | some o => simpa [hd, hs] using inv_move s h dst src o hd hs
  | copyAssign dst src =>
    simp only [cstep]
    cases hd : s.slots dst with
    | none => simpa [hd] using h
    | some d =>
      cases hs : s.slots src with
      | none => simpa [hd, hs] using h
      | some o =>
        by_cases e : dst = src
        · simpa [hd, hs, e] using h
        · simpa [hd, hs, e] using inv_copyAssign s h dst src d o hd hs
  | moveAssign dst src =>
    simp only [cstep]
    cases hd : s.slots dst with
    | none => simpa [hd] using h
    | some d =>
      cases hs : s.slots src with
      | none => simpa [hd, hs] using h
      | some o =>
        by_cases e : dst = src
        · simpa [hd, hs, e] using h
        · simpa [hd, hs, e] using inv_moveAssign s h dst src d o e hd hs
  | write i k v =>
    simp only [cstep]
    cases hs : s.slots i with
    | none => simpa [hs] using h
    | some o =>
      obtain ⟨n, p⟩ := o
      cases p with
      | none => simpa [hs] using h
      | some a =>
        obtain ⟨buf, hb, hl⟩ := h.live i n a hs
        by_cases hk : k < buf.length
        · simpa [hs, hb, hk] using inv_write s h a (buf.set k v) buf hb (by simp)
        · simpa [hs, hb, hk] using h
  | convert dst src =>
    simp only [cstep]
    cases hd : s.slots dst with
    | some d => simpa [hd] using h
    | none =>
      cases hs : s.slots src with
      | none => simpa [hd, hs] using h
      | some o =>
        by_cases hr : o.readable
        · simpa [hd, hs, hr] using inv_alloc s h dst o.size (srcBuf s o) hd (srcBuf_length s h src o hs)
        · simpa [hd, hs, hr] using h
  | dumpLoad dst src =>
    simp only [cstep]
    cases hs : s.slots src with
    | none => simpa [hs] using h
    | some o =>
      by_cases hr : o.readable
      · cases hd : s.slots dst with
        | none => simpa [hs, hr, hd] using inv_alloc s h dst o.size (srcBuf s o) hd (srcBuf_length s h src o hs)
        | some d => simpa [hs, hr, hd] using inv_copyAssign s h dst src d o hd hs
      · simpa [hs, hr] using h

theorem inv_cinit : HInv cinit := by constructor <;> simp [cinit]

/-- the invariant holds after every history -/
theorem inv_history (ops : List Op) : HInv (ops.foldl cstep cinit) := by
  suffices ∀ s, HInv s → HInv (ops.foldl cstep s) from this _ inv_cinit
  induction ops with
  | nil => intro s h; exact h
  | cons op ops ih => intro s h; exact ih _ (inv_step s h op)

end Covfie.Heap
