import CovfieModel.Lemmas.Heap
namespace Covfie.Heap

/-- the abstract value of one owning record -/
def absOwn (heap : Addr → Option (List Nat)) : Own → AVal
  | ⟨_, some a⟩ => .live ((heap a).getD [])
  | ⟨n, none⟩ => if n = 0 then .live [] else .moved n

theorem abs_eq (s : CState) (i : Nat) : abs s i = (s.slots i).map (absOwn s.heap) := by
  unfold abs absOwn
  cases h : s.slots i with
  | none => rfl
  | some o => obtain ⟨n, p⟩ := o; cases p <;> rfl

/-- changing the heap at an address a record does not point to leaves its abstract value unchanged -/
theorem absOwn_upd_other (heap : Addr → Option (List Nat)) (a : Addr) (v : Option (List Nat)) (o : Own)
    (h : o.ptr ≠ some a) : absOwn (upd heap a v) o = absOwn heap o := by
  obtain ⟨n, p⟩ := o
  cases p with
  | none => rfl
  | some b =>
    have : b ≠ a := fun e => h (by simp [e])
    simp [absOwn, upd, this]

theorem absOwn_size (s : CState) (h : HInv s) (i : Nat) (o : Own) (hs : s.slots i = some o) :
    (absOwn s.heap o).size = o.size := by
  obtain ⟨n, p⟩ := o
  cases p with
  | none => by_cases e : n = 0 <;> simp [absOwn, AVal.size, e]
  | some a =>
    obtain ⟨buf, hb, hl⟩ := h.live i n a hs
    simp [absOwn, AVal.size, hb, hl]

theorem absOwn_copy (s : CState) (h : HInv s) (i : Nat) (o : Own) (hs : s.slots i = some o) :
    AVal.live (srcBuf s o) = (absOwn s.heap o).copyOf := by
  obtain ⟨n, p⟩ := o
  cases p with
  | none => by_cases e : n = 0 <;> simp [absOwn, AVal.copyOf, srcBuf, e, zeros]
  | some a =>
    obtain ⟨buf, hb, hl⟩ := h.live i n a hs
    simp [absOwn, AVal.copyOf, srcBuf, hb]


/-- a readable record abstracts to the live value holding exactly the cells a copy reads; any other record is
    a moved-from object -/
theorem absOwn_readable (s : CState) (h : HInv s) (i : Nat) (o : Own) (hs : s.slots i = some o) :
    absOwn s.heap o = if o.readable then .live (srcBuf s o) else .moved o.size := by
  obtain ⟨n, p⟩ := o
  cases p with
  | none => by_cases e : n = 0 <;> simp [absOwn, Own.readable, srcBuf, zeros, e]
  | some a =>
    obtain ⟨buf, hb, hl⟩ := h.live i n a hs
    simp [absOwn, Own.readable, srcBuf, hb]

theorem abs_alloc (s : CState) (h : HInv s) (i n : Nat) (buf : List Nat) (hs : s.slots i = none) :
    abs ({ s with heap := upd s.heap s.next (some buf), next := s.next + 1,
                  slots := upd s.slots i (some ⟨n, some s.next⟩) } : CState) = upd (abs s) i (some (.live buf)) := by
  funext j
  rw [abs_eq]
  by_cases e : j = i
  · subst e; simp [upd, absOwn]
  · simp only [upd, e, if_false]
    rw [abs_eq]
    cases hj : s.slots j with
    | none => rfl
    | some o =>
      simp only [Option.map_some]
      congr 1
      apply absOwn_upd_other
      intro hp
      obtain ⟨m, p⟩ := o
      simp at hp; subst hp
      exact fresh_not_ptr s h j m hj

theorem abs_release (s : CState) (h : HInv s) (i : Nat) (o : Own) (hs : s.slots i = some o) :
    abs ({ free s o.ptr with slots := upd s.slots i none } : CState) = upd (abs s) i none := by
  obtain ⟨n, p⟩ := o
  funext j
  rw [abs_eq]
  by_cases e : j = i
  · subst e; simp [upd]
  · simp only [upd, e, if_false]
    rw [abs_eq]
    cases hj : s.slots j with
    | none => rfl
    | some oj =>
      simp only [Option.map_some]
      congr 1
      cases p with
      | none => simp [free]
      | some a =>
        rw [free_live s h i n a hs]
        apply absOwn_upd_other
        intro hp
        obtain ⟨m, q⟩ := oj
        simp at hp; subst hp
        exact e (h.noalias j i m n a hj hs)

theorem movedOf_eq (s : CState) (h : HInv s) (i : Nat) (o : Own) (hs : s.slots i = some o) :
    absOwn s.heap ⟨o.size, none⟩ = (absOwn s.heap o).movedOf := by
  simp only [AVal.movedOf, absOwn_size s h i o hs]
  rfl

theorem abs_move (s : CState) (h : HInv s) (dst src : Nat) (o : Own) (hd : s.slots dst = none) (hs : s.slots src = some o) :
    abs ({ s with slots := upd (upd s.slots src (some ⟨o.size, none⟩)) dst (some o) } : CState) =
      upd (upd (abs s) src (some (absOwn s.heap o).movedOf)) dst (some (absOwn s.heap o)) := by
  funext j
  rw [abs_eq]
  by_cases e1 : j = dst
  · subst e1; simp [upd]
  · by_cases e2 : j = src
    · subst e2; simp only [upd, e1, if_false, if_true, Option.map_some]
      rw [movedOf_eq s h j o hs]
    · simp only [upd, e1, e2, if_false]; rw [abs_eq]

theorem abs_write (s : CState) (h : HInv s) (i n : Nat) (a : Addr) (buf buf' : List Nat)
    (hs : s.slots i = some ⟨n, some a⟩) :
    abs ({ s with heap := upd s.heap a (some buf') } : CState) = upd (abs s) i (some (.live buf')) := by
  funext j
  rw [abs_eq]
  by_cases e : j = i
  · subst e; simp [upd, hs, absOwn]
  · simp only [upd, e, if_false]
    rw [abs_eq]
    cases hj : s.slots j with
    | none => rfl
    | some oj =>
      simp only [Option.map_some]
      congr 1
      apply absOwn_upd_other
      intro hp
      obtain ⟨m, q⟩ := oj
      simp at hp; subst hp
      exact e (h.noalias j i m n a hj hs)

theorem upd_upd_same {α} (f : Nat → Option α) (i : Nat) (v w : Option α) : upd (upd f i v) i w = upd f i w := by
  funext j; by_cases e : j = i <;> simp [upd, e]

/-- **refinement**: one concrete operation is one operation of the plain value model -/
theorem refine_step (s : CState) (h : HInv s) (op : Op) : abs (cstep s op) = astep (abs s) op := by
  cases op with
  | ctor i n =>
    simp only [cstep, astep]
    cases hs : s.slots i with
    | some o => simp [abs_eq, hs]
    | none => simp only [abs_eq s i, hs, Option.map_none]; exact abs_alloc s h i n (zeros n) hs
  | dtor i =>
    simp only [cstep, astep]
    cases hs : s.slots i with
    | none =>
      simp only []
      funext j; by_cases e : j = i
      · subst e; simp [upd, abs_eq, hs]
      · simp [upd, e]
    | some o => exact abs_release s h i o hs
  | copyCtor dst src =>
    simp only [cstep, astep]
    cases hd : s.slots dst with
    | some d => simp [abs_eq, hd]
    | none =>
      cases hs : s.slots src with
      | none => simp [abs_eq, hd, hs]
      | some o =>
        simp only [abs_eq s dst, abs_eq s src, hd, hs, Option.map_none, Option.map_some]
        rw [abs_alloc s h dst o.size (srcBuf s o) hd, absOwn_copy s h src o hs]
  | moveCtor dst src =>
    simp only [cstep, astep]
    cases hd : s.slots dst with
    | some d => simp [abs_eq, hd]
    | none =>
      cases hs : s.slots src with
      | none => simp [abs_eq, hd, hs]
      | some o =>
        simp only [abs_eq s dst, abs_eq s src, hd, hs, Option.map_none, Option.map_some]
        rw [abs_move s h dst src o hd hs]
        cases absOwn s.heap o <;> rfl
  | copyAssign dst src =>
    simp only [cstep, astep]
    cases hd : s.slots dst with
    | none => simp [abs_eq, hd]
    | some d =>
      cases hs : s.slots src with
      | none => simp [abs_eq, hd, hs]
      | some o =>
        simp only [abs_eq s dst, abs_eq s src, hd, hs, Option.map_some]
        by_cases e : dst = src
        · simp [e]
        · simp only [e, if_false]
          rw [copyAssign_eq s h dst d hd]
          have h' := inv_release s h dst d hd
          exact (abs_alloc _ h' dst o.size (srcBuf s o) (by simp)).trans
            (by rw [abs_release s h dst d hd, upd_upd_same, absOwn_copy s h src o hs])
  | moveAssign dst src =>
    simp only [cstep, astep]
    cases hd : s.slots dst with
    | none => simp [abs_eq, hd]
    | some d =>
      cases hs : s.slots src with
      | none => simp [abs_eq, hd, hs]
      | some o =>
        simp only [abs_eq s dst, abs_eq s src, hd, hs, Option.map_some]
        by_cases e : dst = src
        · simp [e]
        · simp only [e, if_false]
          have hne' : src ≠ dst := fun x => e x.symm
          rw [moveAssign_eq s dst src d o]
          have h' := inv_release s h dst d hd
          have hs' : ({ free s d.ptr with slots := upd s.slots dst none } : CState).slots src = some o := by
            simp [upd, hne', hs]
          have hm := abs_move _ h' dst src o (by simp) hs'
          -- the released state has the same abstract value for `o` (its buffer is not the one released)
          have hval : absOwn ({ free s d.ptr with slots := upd s.slots dst none } : CState).heap o = absOwn s.heap o := by
            obtain ⟨m, p⟩ := d
            cases p with
            | none => simp [free]
            | some a =>
              rw [free_live s h dst m a hd]
              apply absOwn_upd_other
              intro hp
              obtain ⟨n, q⟩ := o
              simp at hp; subst hp
              exact e (h.noalias dst src m n a hd hs)
          rw [hval] at hm
          refine hm.trans ?_
          rw [abs_release s h dst d hd]
          funext j
          by_cases e1 : j = dst <;> by_cases e2 : j = src <;> simp [upd, e1, e2, hne']
  | write i k v =>
    simp only [cstep, astep]
    cases hs : s.slots i with
    | none => simp [abs_eq, hs]
    | some o =>
      obtain ⟨n, p⟩ := o
      cases p with
      | none =>
        simp only [abs_eq s i, hs, Option.map_some, absOwn]
        by_cases e : n = 0 <;> simp [e]
      | some a =>
        obtain ⟨buf, hb, hl⟩ := h.live i n a hs
        simp only [abs_eq s i, hs, Option.map_some, absOwn, hb, Option.getD_some]
        by_cases hk : k < buf.length
        · simp only [hk, if_true]; exact abs_write s h i n a buf _ hs
        · simp [hk]
  | convert dst src =>
    simp only [cstep, astep]
    cases hd : s.slots dst with
    | some d => simp [abs_eq, hd]
    | none =>
      cases hs : s.slots src with
      | none => simp [abs_eq, hd, hs]
      | some o =>
        simp only [abs_eq s dst, abs_eq s src, hd, hs, Option.map_none, Option.map_some]
        rw [absOwn_readable s h src o hs]
        by_cases hr : o.readable
        · simp only [hr, if_true]; exact abs_alloc s h dst o.size (srcBuf s o) hd
        · simp [hr]
  | dumpLoad dst src =>
    simp only [cstep, astep]
    cases hs : s.slots src with
    | none => simp [abs_eq, hs]
    | some o =>
      simp only [abs_eq s src, hs, Option.map_some]
      rw [absOwn_readable s h src o hs]
      by_cases hr : o.readable
      · simp only [hr, if_true]
        cases hd : s.slots dst with
        | none => exact abs_alloc s h dst o.size (srcBuf s o) hd
        | some d =>
          simp only []
          rw [copyAssign_eq s h dst d hd]
          have h' := inv_release s h dst d hd
          exact (abs_alloc _ h' dst o.size (srcBuf s o) (by simp)).trans
            (by rw [abs_release s h dst d hd, upd_upd_same])
      · simp [hr]

end Covfie.Heap
