import CovfieModel.Model.Layout
set_option linter.unusedSimpArgs false
namespace Covfie

theorem sq_two_pow (l : Nat) : 2^l * 2^l = 4^l := by
  rw [← Nat.mul_pow]

theorem quad_cases (rx ry : Nat) (hx : rx < 2) (hy : ry < 2) :
    (rx = 0 ∧ ry = 0 ∧ quad rx ry = 0) ∨ (rx = 0 ∧ ry = 1 ∧ quad rx ry = 1) ∨
    (rx = 1 ∧ ry = 1 ∧ quad rx ry = 2) ∨ (rx = 1 ∧ ry = 0 ∧ quad rx ry = 3) := by
  have : rx = 0 ∨ rx = 1 := by omega
  have : ry = 0 ∨ ry = 1 := by omega
  rcases ‹rx = 0 ∨ rx = 1› with h | h <;> rcases ‹ry = 0 ∨ ry = 1› with g | g <;> subst h <;> subst g <;> simp [quad]

theorem tr_lt (s rx ry xl yl : Nat) (hx : xl < s) (hy : yl < s) :
    (tr s rx ry xl yl).1 < s ∧ (tr s rx ry xl yl).2 < s := by
  unfold tr
  by_cases h1 : ry = 0 <;> by_cases h2 : rx = 1 <;> simp [h1, h2] <;> omega

theorem hilR_lt (l x y : Nat) : hilR l x y < 4^l := by
  induction l generalizing x y with
  | zero => simp [hilR]
  | succ l ih =>
    simp only [hilR]
    have hq : quad (x / 2^l % 2) (y / 2^l % 2) ≤ 3 := by
      rcases quad_cases (x / 2^l % 2) (y / 2^l % 2) (Nat.mod_lt _ (by omega)) (Nat.mod_lt _ (by omega)) with h | h | h | h <;> omega
    have := ih (tr (2^l) (x / 2^l % 2) (y / 2^l % 2) (x % 2^l) (y % 2^l)).1 (tr (2^l) (x / 2^l % 2) (y / 2^l % 2) (x % 2^l) (y % 2^l)).2
    rw [sq_two_pow, Nat.pow_succ]
    have : 4^l * quad (x / 2^l % 2) (y / 2^l % 2) ≤ 4^l * 3 := Nat.mul_le_mul_left _ hq
    omega

theorem split_eq (S q e q' e' : Nat) (he : e < S) (he' : e' < S) (h : S*q+e = S*q'+e') :
    q = q' ∧ e = e' := by
  have hS : 0 < S := by omega
  have h1 : (S*q+e)/S = q := by rw [Nat.mul_add_div hS, Nat.div_eq_of_lt he]; simp
  have h2 : (S*q'+e')/S = q' := by rw [Nat.mul_add_div hS, Nat.div_eq_of_lt he']; simp
  have h3 : (S*q+e)%S = e := by rw [Nat.mul_add_mod]; exact Nat.mod_eq_of_lt he
  have h4 : (S*q'+e')%S = e' := by rw [Nat.mul_add_mod]; exact Nat.mod_eq_of_lt he'
  rw [h] at h1 h3
  exact ⟨by omega, by omega⟩

theorem decomp (s x : Nat) (hs : 0 < s) (hx : x < 2*s) :
    x = (x / s % 2) * s + x % s ∧ x % s < s ∧ x / s % 2 < 2 := by
  have h1 : x / s < 2 := Nat.div_lt_of_lt_mul (by omega)
  have h2 : x / s % 2 = x / s := Nat.mod_eq_of_lt h1
  have h3 := Nat.div_add_mod x s
  have h4 := Nat.mod_lt x hs
  rw [h2, Nat.mul_comm]
  exact ⟨by omega, h4, h1⟩

/-- unfolded step: everything about one level in terms of rx ry xl yl -/
theorem hilR_succ (l x y : Nat) :
    hilR (l+1) x y = 4^l * quad (x / 2^l % 2) (y / 2^l % 2) +
      hilR l (tr (2^l) (x / 2^l % 2) (y / 2^l % 2) (x % 2^l) (y % 2^l)).1
             (tr (2^l) (x / 2^l % 2) (y / 2^l % 2) (x % 2^l) (y % 2^l)).2 := by
  simp only [hilR, sq_two_pow]

theorem hilR_zero_iff (l x y : Nat) (hx : x < 2^l) (hy : y < 2^l) :
    hilR l x y = 0 ↔ x = 0 ∧ y = 0 := by
  induction l generalizing x y with
  | zero => simp [hilR]; omega
  | succ l ih =>
    have hs : 0 < 2^l := Nat.two_pow_pos l
    have hS : 0 < 4^l := Nat.pow_pos (by omega)
    rw [Nat.pow_succ] at hx hy
    obtain ⟨ex, hxl, hrx⟩ := decomp (2^l) x hs (by omega)
    obtain ⟨ey, hyl, hry⟩ := decomp (2^l) y hs (by omega)
    rw [hilR_succ]
    generalize hrxd : x / 2^l % 2 = rx at *
    generalize hryd : y / 2^l % 2 = ry at *
    generalize hxld : x % 2^l = xl at *
    generalize hyld : y % 2^l = yl at *
    have htl := tr_lt (2^l) rx ry xl yl hxl hyl
    have ih' := ih (tr (2^l) rx ry xl yl).1 (tr (2^l) rx ry xl yl).2 htl.1 htl.2
    constructor
    · intro h
      have hq : 4^l * quad rx ry = 0 := by omega
      have he : hilR l (tr (2^l) rx ry xl yl).1 (tr (2^l) rx ry xl yl).2 = 0 := by omega
      have hq0 : quad rx ry = 0 := by
        rcases Nat.mul_eq_zero.mp hq with h | h <;> omega
      have := ih'.mp he
      rcases quad_cases rx ry hrx hry with c | c | c | c <;> obtain ⟨c1, c2, c3⟩ := c <;> try omega
      subst c1; subst c2
      simp [tr] at this
      omega
    · intro ⟨h1, h2⟩
      have : rx = 0 ∧ xl = 0 := by
        subst h1; constructor
        · rcases Nat.eq_zero_or_pos rx with h | h; exact h
          have : rx * 2^l ≥ 2^l := Nat.le_mul_of_pos_left _ h
          omega
        · omega
      have : ry = 0 ∧ yl = 0 := by
        subst h2; constructor
        · rcases Nat.eq_zero_or_pos ry with h | h; exact h
          have : ry * 2^l ≥ 2^l := Nat.le_mul_of_pos_left _ h
          omega
        · omega
      obtain ⟨a, b⟩ := ‹rx = 0 ∧ xl = 0›
      obtain ⟨c, d⟩ := ‹ry = 0 ∧ yl = 0›
      subst a b c d
      have : hilR l (tr (2^l) 0 0 0 0).1 (tr (2^l) 0 0 0 0).2 = 0 := by
        apply ih'.mpr; simp [tr]
      simp [quad, this]

theorem lvl (l x : Nat) (hx : x < 2^(l+1)) :
    ∃ rx xl, rx < 2 ∧ xl < 2^l ∧ x = rx * 2^l + xl ∧ x / 2^l % 2 = rx ∧ x % 2^l = xl := by
  rw [Nat.pow_succ] at hx
  obtain ⟨e, h1, h2⟩ := decomp (2^l) x (Nat.two_pow_pos l) (by omega)
  exact ⟨_, _, h2, h1, e, rfl, rfl⟩

theorem hilR_last_iff (l x y : Nat) (hx : x < 2^l) (hy : y < 2^l) :
    hilR l x y + 1 = 4^l ↔ x + 1 = 2^l ∧ y = 0 := by
  induction l generalizing x y with
  | zero => simp [hilR]; omega
  | succ l ih =>
    have hs : 0 < 2^l := Nat.two_pow_pos l
    have hS : 0 < 4^l := Nat.pow_pos (by omega)
    obtain ⟨rx, xl, hrx, hxl, ex, e1, e2⟩ := lvl l x hx
    obtain ⟨ry, yl, hry, hyl, ey, e3, e4⟩ := lvl l y hy
    rw [hilR_succ, e1, e2, e3, e4]
    have htl := tr_lt (2^l) rx ry xl yl hxl hyl
    have ih' := ih (tr (2^l) rx ry xl yl).1 (tr (2^l) rx ry xl yl).2 htl.1 htl.2
    have hlt := hilR_lt l (tr (2^l) rx ry xl yl).1 (tr (2^l) rx ry xl yl).2
    have p1 : (2:Nat)^(l+1) = 2 * 2^l := by rw [Nat.pow_succ]; omega
    have p2 : (4:Nat)^(l+1) = 4 * 4^l := by rw [Nat.pow_succ]; omega
    rw [p1, p2]
    rcases quad_cases rx ry hrx hry with c | c | c | c <;> obtain ⟨c1, c2, c3⟩ := c <;> subst c1 <;> subst c2 <;> rw [c3]
    · constructor <;> intro h <;> omega
    · constructor <;> intro h <;> omega
    · constructor <;> intro h <;> omega
    · -- rx = 1, ry = 0
      simp only [tr] at ih' hlt ⊢
      simp at ih' hlt ⊢
      constructor
      · intro h
        have : hilR l (2^l - 1 - yl) (2^l - 1 - xl) + 1 = 4^l := by omega
        have := ih'.mp this
        omega
      · intro h
        have : hilR l (2^l - 1 - yl) (2^l - 1 - xl) + 1 = 4^l := by apply ih'.mpr; omega
        omega

theorem quad_inj (rx ry rx' ry' : Nat) (h1 : rx < 2) (h2 : ry < 2) (h3 : rx' < 2) (h4 : ry' < 2)
    (h : quad rx ry = quad rx' ry') : rx = rx' ∧ ry = ry' := by
  rcases quad_cases rx ry h1 h2 with c | c | c | c <;>
  rcases quad_cases rx' ry' h3 h4 with d | d | d | d <;> omega

theorem hilR_inj (l x y x' y' : Nat) (hx : x < 2^l) (hy : y < 2^l) (hx' : x' < 2^l) (hy' : y' < 2^l)
    (h : hilR l x y = hilR l x' y') : x = x' ∧ y = y' := by
  induction l generalizing x y x' y' with
  | zero => simp at hx hy hx' hy'; omega
  | succ l ih =>
    obtain ⟨rx, xl, hrx, hxl, ex, e1, e2⟩ := lvl l x hx
    obtain ⟨ry, yl, hry, hyl, ey, e3, e4⟩ := lvl l y hy
    obtain ⟨rx', xl', hrx', hxl', ex', e1', e2'⟩ := lvl l x' hx'
    obtain ⟨ry', yl', hry', hyl', ey', e3', e4'⟩ := lvl l y' hy'
    rw [hilR_succ, hilR_succ, e1, e2, e3, e4, e1', e2', e3', e4'] at h
    have htl := tr_lt (2^l) rx ry xl yl hxl hyl
    have htl' := tr_lt (2^l) rx' ry' xl' yl' hxl' hyl'
    obtain ⟨hq, he⟩ := split_eq _ _ _ _ _ (hilR_lt l _ _) (hilR_lt l _ _) h
    obtain ⟨r1, r2⟩ := quad_inj _ _ _ _ hrx hry hrx' hry' hq
    subst r1 r2
    have := ih _ _ _ _ htl.1 htl.2 htl'.1 htl'.2 he
    unfold tr at this
    by_cases a : ry = 0 <;> by_cases b : rx = 1 <;> simp [a, b] at this <;> omega


theorem hilR_adj (l x y x' y' : Nat) (hx : x < 2^l) (hy : y < 2^l) (hx' : x' < 2^l) (hy' : y' < 2^l)
    (h : hilR l x y + 1 = hilR l x' y') : adj x y x' y' := by
  induction l generalizing x y x' y' with
  | zero => simp [hilR] at h
  | succ l ih =>
    have hS : 0 < 4^l := Nat.pow_pos (by omega)
    obtain ⟨rx, xl, hrx, hxl, ex, e1, e2⟩ := lvl l x hx
    obtain ⟨ry, yl, hry, hyl, ey, e3, e4⟩ := lvl l y hy
    obtain ⟨rx', xl', hrx', hxl', ex', e1', e2'⟩ := lvl l x' hx'
    obtain ⟨ry', yl', hry', hyl', ey', e3', e4'⟩ := lvl l y' hy'
    rw [hilR_succ, hilR_succ, e1, e2, e3, e4, e1', e2', e3', e4'] at h
    have htl := tr_lt (2^l) rx ry xl yl hxl hyl
    have htl' := tr_lt (2^l) rx' ry' xl' yl' hxl' hyl'
    have hlt := hilR_lt l (tr (2^l) rx ry xl yl).1 (tr (2^l) rx ry xl yl).2
    have hlt' := hilR_lt l (tr (2^l) rx' ry' xl' yl').1 (tr (2^l) rx' ry' xl' yl').2
    have hz' := hilR_zero_iff l _ _ htl'.1 htl'.2
    have hlast := hilR_last_iff l _ _ htl.1 htl.2
    by_cases hc : hilR l (tr (2^l) rx ry xl yl).1 (tr (2^l) rx ry xl yl).2 + 1 < 4^l
    · -- same quadrant
      have h' : 4^l * quad rx ry + (hilR l (tr (2^l) rx ry xl yl).1 (tr (2^l) rx ry xl yl).2 + 1)
              = 4^l * quad rx' ry' + hilR l (tr (2^l) rx' ry' xl' yl').1 (tr (2^l) rx' ry' xl' yl').2 := by omega
      obtain ⟨hq, he⟩ := split_eq _ _ _ _ _ hc hlt' h'
      obtain ⟨r1, r2⟩ := quad_inj _ _ _ _ hrx hry hrx' hry' hq
      subst r1 r2
      have := ih _ _ _ _ htl.1 htl.2 htl'.1 htl'.2 he
      unfold tr adj at this
      unfold adj
      by_cases a : ry = 0 <;> by_cases b : rx = 1 <;> simp [a, b] at this <;> omega
    · -- crossing into the next quadrant
      have hE : hilR l (tr (2^l) rx ry xl yl).1 (tr (2^l) rx ry xl yl).2 + 1 = 4^l := by omega
      have h' : 4^l * (quad rx ry + 1) + 0
              = 4^l * quad rx' ry' + hilR l (tr (2^l) rx' ry' xl' yl').1 (tr (2^l) rx' ry' xl' yl').2 := by
        rw [Nat.mul_add]; omega
      obtain ⟨hq, he⟩ := split_eq _ _ _ _ _ hS hlt' h'
      have hend := hlast.mp hE
      have hstart := hz'.mp he.symm
      unfold adj
      rcases quad_cases rx ry hrx hry with c | c | c | c <;> obtain ⟨c1, c2, c3⟩ := c <;>
      rcases quad_cases rx' ry' hrx' hry' with d | d | d | d <;> obtain ⟨d1, d2, d3⟩ := d <;>
      (try omega) <;> subst c1 c2 d1 d2 <;> simp [tr] at hend hstart <;> omega

theorem and_pow_pos (x l : Nat) : (if x &&& 2^l > 0 then 1 else 0) = x / 2^l % 2 := by
  have h : x &&& 2^l = if x.testBit l then 2^l else 0 := by
    apply Nat.eq_of_testBit_eq; intro i
    rw [Nat.testBit_and, Nat.testBit_two_pow]
    by_cases hi : l = i
    · subst hi; by_cases hb : x.testBit l <;> simp [hb, Nat.testBit_two_pow]
    · by_cases hb : x.testBit l <;> simp [hb, hi, Nat.testBit_two_pow]
  rw [h, Nat.testBit_eq_decide_div_mod_eq (x := x)]
  have : x / 2^l % 2 = 0 ∨ x / 2^l % 2 = 1 := by omega
  rcases this with h | h <;> simp [h, Nat.two_pow_pos]

theorem flip_mod (s m x : Nat) (hs : 0 < s) (hx : x < s * m) :
    (s * m - 1 - x) % s = s - 1 - x % s ∧ s * m - 1 - x < s * m := by
  have h1 := Nat.div_add_mod x s
  have h2 := Nat.mod_lt x hs
  have hq : x / s < m := Nat.div_lt_of_lt_mul hx
  obtain ⟨t, ht⟩ : ∃ t, m = x / s + t + 1 := ⟨m - x / s - 1, by omega⟩
  have e : s * m = s * (x / s) + s * t + s := by rw [ht, Nat.mul_add, Nat.mul_add, Nat.mul_one]
  have e2 : s * m - 1 - x = s * t + (s - 1 - x % s) := by omega
  constructor
  · rw [e2, Nat.mul_add_mod]; exact Nat.mod_eq_of_lt (by omega)
  · omega

theorem loop_eq (k : Nat) : ∀ (l fuel x y d : Nat), l ≤ k → x < 2^k → y < 2^k → l < fuel →
    hilLoop (2^k) fuel (2^l / 2) x y d = d + hilR l (x % 2^l) (y % 2^l) := by
  intro l
  induction l with
  | zero =>
    intro fuel x y d _ _ _ hf
    obtain ⟨f, rfl⟩ : ∃ f, fuel = f + 1 := ⟨fuel - 1, by omega⟩
    simp [hilLoop, hilR]
  | succ l ih =>
    intro fuel x y d hl hx hy hf
    obtain ⟨f, rfl⟩ : ∃ f, fuel = f + 1 := ⟨fuel - 1, by omega⟩
    have hs : 0 < 2^l := Nat.two_pow_pos l
    have hhalf : 2^(l+1) / 2 = 2^l := by rw [Nat.pow_succ]; omega
    have hne : ¬ (2^l = 0) := by omega
    simp only [hilLoop, hhalf, hne, if_false, and_pow_pos]
    -- facts about the reduced coordinates
    have hxm : x % 2^(l+1) / 2^l % 2 = x / 2^l % 2 := by
      rw [Nat.pow_succ, Nat.mod_mul_right_div_self]; exact Nat.mod_mod _ _
    have hym : y % 2^(l+1) / 2^l % 2 = y / 2^l % 2 := by
      rw [Nat.pow_succ, Nat.mod_mul_right_div_self]; exact Nat.mod_mod _ _
    have hxl : x % 2^(l+1) % 2^l = x % 2^l := by
      rw [Nat.pow_succ]; exact Nat.mod_mul_right_mod _ _ _
    have hyl : y % 2^(l+1) % 2^l = y % 2^l := by
      rw [Nat.pow_succ]; exact Nat.mod_mul_right_mod _ _ _
    -- 2^k = 2^l * 2^(k-l)
    have hk : (2:Nat)^k = 2^l * 2^(k-l) := by rw [← Nat.pow_add]; congr 1; omega
    generalize hrx : x / 2^l % 2 = rx at *
    generalize hry : y / 2^l % 2 = ry at *
    have hrx2 : rx < 2 := by rw [← hrx]; exact Nat.mod_lt _ (by omega)
    have hry2 : ry < 2 := by rw [← hry]; exact Nat.mod_lt _ (by omega)
    -- rot result: in range, and its low bits are `tr`
    have hrot : (rot (2^k) x y rx ry).1 < 2^k ∧ (rot (2^k) x y rx ry).2 < 2^k ∧
        (rot (2^k) x y rx ry).1 % 2^l = (tr (2^l) rx ry (x % 2^l) (y % 2^l)).1 ∧
        (rot (2^k) x y rx ry).2 % 2^l = (tr (2^l) rx ry (x % 2^l) (y % 2^l)).2 := by
      have fx := flip_mod (2^l) (2^(k-l)) x hs (by rw [← hk]; exact hx)
      have fy := flip_mod (2^l) (2^(k-l)) y hs (by rw [← hk]; exact hy)
      rw [← hk] at fx fy
      unfold rot tr
      by_cases a : ry = 0 <;> by_cases b : rx = 1 <;> simp [a, b, hx, hy, fx.1, fx.2, fy.1, fy.2]
    obtain ⟨r1, r2, r3, r4⟩ := hrot
    rw [ih f _ _ _ (by omega) r1 r2 (by omega), r3, r4]
    simp only [hilR, hxm, hym, hxl, hyl, hrx, hry, quad]
    omega

end Covfie
