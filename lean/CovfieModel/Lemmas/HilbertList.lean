import CovfieModel.Lemmas.Hilbert
import CovfieModel.Lemmas.Numeric
namespace Covfie

/-- the side length used by the (repaired) Hilbert layer is a power of two covering both extents -/
theorem hilN_spec (sx sy : Nat) (h : max sx sy ≤ 2^63) :
    ∃ k, hilN sx sy = 2^k ∧ sx ≤ 2^k ∧ sy ≤ 2^k ∧ k ≤ 63 ∧ (∀ m, max sx sy ≤ 2^m → k ≤ m) := by
  obtain ⟨r, e, h1, h2, h3⟩ := roundPow2_spec' 64 (max sx sy) (by omega) (by simpa using h)
  refine ⟨r, ?_, ?_, ?_, by omega, h2⟩
  · simp [hilN, e]
  · exact Nat.le_trans (Nat.le_max_left _ _) h1
  · exact Nat.le_trans (Nat.le_max_right _ _) h1

/-- on in-range coordinates the code's loop computes the recursive Hilbert curve of order `k` -/
theorem hilbertIdx_eq (sx sy x y k : Nat) (hk : hilN sx sy = 2^k) (hk63 : k ≤ 63)
    (hx : x < 2^k) (hy : y < 2^k) : hilbertIdx [sx, sy] [x, y] = hilR k x y := by
  unfold hilbertIdx
  simp only [List.getD_cons_zero, List.getD_cons_succ, hk]
  rw [loop_eq k k 65 x y 0 (Nat.le_refl _) hx hy (by omega)]
  simp [Nat.mod_eq_of_lt hx, Nat.mod_eq_of_lt hy]

end Covfie
