import CovfieModel.Model.IO
namespace Covfie.IO

theorem le_length (k w : Nat) : (le k w).length = k := by
  induction k generalizing w with
  | zero => rfl
  | succ k ih => simp [le, ih]

theorem rd_le (k w : Nat) (rest : List Byte) (h : w < 256^k) : rd k (le k w ++ rest) = .ok (w, rest) := by
  induction k generalizing w with
  | zero => simp at h; subst h; rfl
  | succ k ih =>
    have : w / 256 < 256^k := by
      rw [Nat.pow_succ] at h; exact Nat.div_lt_of_lt_mul (by omega)
    simp only [le, List.cons_append, rd, ih _ this]
    have := Nat.div_add_mod w 256
    congr 2; omega

/-- prefix-locality: success only depends on the consumed prefix -/
def PL {α} (p : Parser α) : Prop :=
  ∀ bs a r, p bs = .ok (a, r) → ∃ pre, bs = pre ++ r ∧ ∀ r', p (pre ++ r') = .ok (a, r')

theorem PL_pure {α} (a : α) : PL (pureP a) := by
  intro bs a' r h; simp [pureP] at h; obtain ⟨h1, h2⟩ := h; subst h1 h2
  exact ⟨[], by simp, by intro r'; simp [pureP]⟩

theorem PL_fail {α} (e : IOErr) : PL (failP e : Parser α) := by
  intro bs a r h; simp [failP] at h

theorem PL_bind {α β} (p : Parser α) (q : α → Parser β) (hp : PL p) (hq : ∀ a, PL (q a)) : PL (bindP p q) := by
  intro bs b r h
  unfold bindP at h
  cases hpb : p bs with
  | error e => rw [hpb] at h; simp at h
  | ok ar =>
    obtain ⟨a, r1⟩ := ar
    rw [hpb] at h; simp at h
    obtain ⟨pre1, e1, f1⟩ := hp bs a r1 hpb
    obtain ⟨pre2, e2, f2⟩ := hq a r1 b r h
    refine ⟨pre1 ++ pre2, by rw [e1, e2, List.append_assoc], ?_⟩
    intro r'
    unfold bindP
    rw [List.append_assoc, f1 (pre2 ++ r')]
    simp [f2 r']

theorem PL_rd (k : Nat) : PL (rd k) := by
  induction k with
  | zero => intro bs a r h; simp [rd] at h; obtain ⟨h1, h2⟩ := h; subst h1 h2; exact ⟨[], by simp, by intro r'; simp [rd]⟩
  | succ k ih =>
    intro bs a r h
    cases bs with
    | nil => simp [rd] at h
    | cons b bs =>
      simp only [rd] at h
      cases hk : rd k bs with
      | error e => rw [hk] at h; simp at h
      | ok vr =>
        obtain ⟨v, r1⟩ := vr
        rw [hk] at h; simp at h
        obtain ⟨h1, h2⟩ := h; subst h1 h2
        obtain ⟨pre, e, f⟩ := ih bs v r1 hk
        exact ⟨b :: pre, by simp [e], by intro r'; simp [rd, f r']⟩

theorem PL_expect (k w : Nat) (e : IOErr) : PL (expect k w e) := by
  apply PL_bind _ _ (PL_rd k)
  intro v; split
  · exact PL_pure ()
  · exact PL_fail e

theorem PL_readN {α} (p : Parser α) (hp : PL p) (n : Nat) : PL (readN p n) := by
  induction n with
  | zero => exact PL_pure _
  | succ n ih =>
    apply PL_bind _ _ hp; intro a
    apply PL_bind _ _ ih; intro as
    exact PL_pure _

theorem PL_pHdr (t : Nat) : PL (pHdr t) := PL_bind _ _ (PL_expect _ _ _) (fun _ => PL_expect _ _ _)
theorem PL_pFtr (t : Nat) : PL (pFtr t) := PL_bind _ _ (PL_expect _ _ _) (fun _ => PL_expect _ _ _)

theorem PL_wrapP {α} (t : Nat) (body : Parser α) (hb : PL body) : PL (wrapP t body) := by
  unfold wrapP
  apply PL_bind _ _ (PL_pHdr _); intro _
  apply PL_bind _ _ hb; intro a
  apply PL_bind _ _ (PL_pFtr _); intro _; exact PL_pure _

theorem PL_loadB (ty : Ty) : PL (loadB ty) := by
  induction ty with
  | array M =>
    unfold loadB; apply PL_wrapP
    apply PL_bind _ _ (PL_rd 4); intro wd
    split
    · apply PL_bind _ _ (PL_rd 8); intro n
      apply PL_bind _ _ (PL_readN _ (PL_rd wd) _); intro cells; exact PL_pure _
    · exact PL_fail _
  | constant sz M =>
    unfold loadB; apply PL_wrapP
    apply PL_bind _ _ (PL_readN _ (PL_rd sz) _); intro v; exact PL_pure _
  | identity => unfold loadB; apply PL_wrapP; exact PL_pure _
  | sized t N b ih =>
    unfold loadB; apply PL_wrapP
    apply PL_bind _ _ (PL_readN _ (PL_rd 8) N); intro cfg
    apply PL_bind _ _ ih; intro d; exact PL_pure _
  | clamp sz N b ih =>
    unfold loadB; apply PL_wrapP
    apply PL_bind _ _ (PL_readN _ (PL_rd sz) N); intro lo
    apply PL_bind _ _ (PL_readN _ (PL_rd sz) N); intro hi
    apply PL_bind _ _ ih; intro d; exact PL_pure _
  | backup sz N osz M b ih =>
    unfold loadB; apply PL_wrapP
    apply PL_bind _ _ (PL_readN _ (PL_rd sz) N); intro lo
    apply PL_bind _ _ (PL_readN _ (PL_rd sz) N); intro hi
    apply PL_bind _ _ (PL_readN _ (PL_rd osz) M); intro df
    apply PL_bind _ _ ih; intro d; exact PL_pure _
  | affine sz N b ih =>
    unfold loadB; apply PL_wrapP
    apply PL_bind _ _ (PL_readN _ (PL_rd sz) _); intro m
    apply PL_bind _ _ ih; intro d; exact PL_pure _
  | thin b ih =>
    unfold loadB
    apply PL_bind _ _ ih; intro d; exact PL_pure _

theorem PL_load (ty : Ty) : PL (load ty) := PL_wrapP _ _ (PL_loadB ty)

/-- if a parser accepts `D` completely, it accepts no proper prefix of `D` -/
theorem prefix_rejected {α} (p : Parser α) (hp : PL p) (D : List Byte) (f : α)
    (hrt : p D = .ok (f, [])) (n : Nat) (hn : n < D.length) :
    ∀ a r, p (D.take n) ≠ .ok (a, r) := by
  intro a r h
  obtain ⟨pre, e, g⟩ := hp _ a r h
  have h2 := g (r ++ D.drop n)
  rw [← List.append_assoc, ← e, List.take_append_drop] at h2
  rw [hrt] at h2
  simp at h2
  omega

/-! ### round trip -/
theorem bindP_ok {α β} (p : Parser α) (q : α → Parser β) (bs r : List Byte) (a : α) (h : p bs = .ok (a, r)) :
    bindP p q bs = q a r := by simp [bindP, h]

theorem expect_ok (k w : Nat) (e : IOErr) (rest : List Byte) (h : w < 256^k) :
    expect k w e (le k w ++ rest) = .ok ((), rest) := by
  unfold expect; rw [bindP_ok _ _ _ _ _ (rd_le k w rest h)]; simp [pureP]

theorem expect_ne (k w w' : Nat) (e : IOErr) (rest : List Byte) (h : w' < 256^k) (hne : w' ≠ w) :
    expect k w e (le k w' ++ rest) = .error e := by
  unfold expect; rw [bindP_ok _ _ _ _ _ (rd_le k w' rest h)]; simp [hne, failP]

theorem readN_words (k : Nat) (xs : List Nat) (rest : List Byte) (h : allLt (256^k) xs) :
    readN (rd k) xs.length (words k xs ++ rest) = .ok (xs, rest) := by
  unfold words
  induction xs with
  | nil => simp [readN, pureP]
  | cons x xs ih =>
    simp only [List.flatMap_cons, List.length_cons, readN, List.append_assoc]
    rw [bindP_ok _ _ _ _ _ (rd_le k x _ (h x List.mem_cons_self))]
    rw [bindP_ok _ _ _ _ _ (ih (fun y hy => h y (List.mem_cons_of_mem _ hy)))]
    rfl

theorem pHdr_ok (t : Nat) (rest : List Byte) (ht : t < 256^4) : pHdr t (hdr t ++ rest) = .ok ((), rest) := by
  unfold pHdr hdr
  rw [List.append_assoc, bindP_ok _ _ _ _ _ (expect_ok 4 MAGH _ _ (by decide))]
  exact expect_ok 4 t _ _ ht
theorem pFtr_ok (t : Nat) (rest : List Byte) (ht : t + FOOT < 256^4) : pFtr t (ftr t ++ rest) = .ok ((), rest) := by
  unfold pFtr ftr
  rw [List.append_assoc, bindP_ok _ _ _ _ _ (expect_ok 4 MAGF _ _ (by decide))]
  exact expect_ok 4 _ _ _ ht

/-- a wrapped parser accepts header · body · footer when its body parser accepts the body -/
theorem wrapP_ok {α} (t : Nat) (body : Parser α) (B rest : List Byte) (a : α) (ht : t + FOOT < 256^4)
    (hb : body (B ++ (ftr t ++ rest)) = .ok (a, ftr t ++ rest)) :
    wrapP t body (wrapD t B ++ rest) = .ok (a, rest) := by
  unfold wrapP wrapD
  simp only [List.append_assoc]
  rw [bindP_ok _ _ _ _ _ (pHdr_ok t _ (by simp [FOOT] at ht ⊢; omega))]
  rw [bindP_ok _ _ _ _ _ hb]
  rw [bindP_ok _ _ _ _ _ (pFtr_ok t _ ht)]
  rfl

theorem loadB_dumpB (ty : Ty) (d : Dat) (rest : List Byte) (h : WF ty d) :
    loadB ty (dumpB ty d ++ rest) = .ok (d, rest) := by
  induction ty generalizing d rest with
  | array M =>
    cases d <;> try (simp [WF] at h)
    rename_i wd count cells
    obtain ⟨hw, hl, hlen, hc⟩ := h
    simp only [loadB, dumpB]
    apply wrapP_ok _ _ _ _ _ (by decide)
    simp only [List.append_assoc]
    have hw4 : wd < 256^4 := by rcases hw with h | h <;> subst h <;> decide
    rw [bindP_ok _ _ _ _ _ (rd_le 4 wd _ hw4)]
    simp only [hw, if_true]
    rw [bindP_ok _ _ _ _ _ (rd_le 8 _ _ hl)]
    rw [← hlen, bindP_ok _ _ _ _ _ (readN_words wd cells _ hc)]
    rfl
  | constant sz M =>
    cases d <;> try (simp [WF] at h)
    rename_i v
    obtain ⟨hl, hc⟩ := h
    simp only [loadB, dumpB]
    apply wrapP_ok _ _ _ _ _ (by decide)
    rw [← hl, bindP_ok _ _ _ _ _ (readN_words sz v _ hc)]
    rfl
  | identity =>
    cases d <;> try (simp [WF] at h)
    simp only [loadB, dumpB]
    apply wrapP_ok _ _ _ _ _ (by decide)
    rfl
  | sized t N b ih =>
    cases d <;> try (simp [WF] at h)
    rename_i cfg d
    obtain ⟨ht, hl, hc, hwf⟩ := h
    simp only [loadB, dumpB]
    apply wrapP_ok _ _ _ _ _ ht
    simp only [List.append_assoc]
    rw [← hl, bindP_ok _ _ _ _ _ (readN_words 8 cfg _ hc)]
    rw [bindP_ok _ _ _ _ _ (ih d _ hwf)]
    rfl
  | clamp sz N b ih =>
    cases d <;> try (simp [WF] at h)
    rename_i lo hi d
    obtain ⟨hl1, hl2, hc1, hc2, hwf⟩ := h
    simp only [loadB, dumpB]
    apply wrapP_ok _ _ _ _ _ (by decide)
    simp only [List.append_assoc]
    rw [← hl1, bindP_ok _ _ _ _ _ (readN_words sz lo _ hc1)]
    rw [hl1, ← hl2, bindP_ok _ _ _ _ _ (readN_words sz hi _ hc2)]
    rw [bindP_ok _ _ _ _ _ (ih d _ hwf)]
    rfl
  | backup sz N osz M b ih =>
    cases d <;> try (simp [WF] at h)
    rename_i lo hi df d
    obtain ⟨hl1, hl2, hl3, hc1, hc2, hc3, hwf⟩ := h
    simp only [loadB, dumpB]
    apply wrapP_ok _ _ _ _ _ (by decide)
    simp only [List.append_assoc]
    rw [← hl1, bindP_ok _ _ _ _ _ (readN_words sz lo _ hc1)]
    rw [hl1, ← hl2, bindP_ok _ _ _ _ _ (readN_words sz hi _ hc2)]
    rw [← hl3, bindP_ok _ _ _ _ _ (readN_words osz df _ hc3)]
    rw [bindP_ok _ _ _ _ _ (ih d _ hwf)]
    rfl
  | affine sz N b ih =>
    cases d <;> try (simp [WF] at h)
    rename_i m d
    obtain ⟨hl, hc, hwf⟩ := h
    simp only [loadB, dumpB]
    apply wrapP_ok _ _ _ _ _ (by decide)
    simp only [List.append_assoc]
    rw [← hl, bindP_ok _ _ _ _ _ (readN_words sz m _ hc)]
    rw [bindP_ok _ _ _ _ _ (ih d _ hwf)]
    rfl
  | thin b ih =>
    cases d <;> try (simp [WF] at h)
    rename_i d
    simp only [loadB, dumpB]
    rw [bindP_ok _ _ _ _ _ (ih d _ h)]
    rfl

theorem load_dump (ty : Ty) (d : Dat) (rest : List Byte) (h : WF ty d) :
    load ty (dump ty d ++ rest) = .ok (d, rest) := by
  unfold load dump
  apply wrapP_ok _ _ _ _ _ (by decide)
  exact loadB_dumpB ty d _ h

end Covfie.IO
