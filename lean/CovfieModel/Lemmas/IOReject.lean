import CovfieModel.Lemmas.IO
namespace Covfie.IO

def IsErr {α} (r : Except IOErr α) : Prop := ∃ e, r = .error e

theorem bindP_err {α β} (p : Parser α) (q : α → Parser β) (bs : List Byte) (h : IsErr (p bs)) :
    IsErr (bindP p q bs) := by
  obtain ⟨e, he⟩ := h; exact ⟨e, by simp [bindP, he]⟩

theorem bindP_ok_err {α β} (p : Parser α) (q : α → Parser β) (bs r : List Byte) (a : α)
    (h : p bs = .ok (a, r)) (hq : IsErr (q a r)) : IsErr (bindP p q bs) := by
  rw [bindP_ok _ _ _ _ _ h]; exact hq

/-- one of the four words of a header·body·footer bracket has been replaced by a different 32-bit value -/
inductive AltW (t : Nat) (body : List Byte) : List Byte → Prop
  | h1 (w' : Nat) : w' ≠ MAGH → w' < 256^4 → AltW t body (le 4 w' ++ le 4 t ++ body ++ ftr t)
  | h2 (t' : Nat) : t' ≠ t → t' < 256^4 → AltW t body (le 4 MAGH ++ le 4 t' ++ body ++ ftr t)
  | f1 (w' : Nat) : w' ≠ MAGF → w' < 256^4 → AltW t body (hdr t ++ body ++ (le 4 w' ++ le 4 (t + FOOT)))
  | f2 (t' : Nat) : t' ≠ t + FOOT → t' < 256^4 → AltW t body (hdr t ++ body ++ (le 4 MAGF ++ le 4 t'))

theorem pHdr_alt1 (t w' : Nat) (rest : List Byte) (h : w' ≠ MAGH) (hw : w' < 256^4) :
    IsErr (pHdr t (le 4 w' ++ rest)) := by
  unfold pHdr; apply bindP_err; exact ⟨_, expect_ne 4 MAGH w' _ rest hw h⟩
theorem pHdr_alt2 (t t' : Nat) (rest : List Byte) (h : t' ≠ t) (hw : t' < 256^4) :
    IsErr (pHdr t (le 4 MAGH ++ (le 4 t' ++ rest))) := by
  unfold pHdr
  apply bindP_ok_err _ _ _ _ _ (expect_ok 4 MAGH _ _ (by decide))
  exact ⟨_, expect_ne 4 t t' _ rest hw h⟩
theorem pFtr_alt1 (t w' : Nat) (rest : List Byte) (h : w' ≠ MAGF) (hw : w' < 256^4) :
    IsErr (pFtr t (le 4 w' ++ rest)) := by
  unfold pFtr; apply bindP_err; exact ⟨_, expect_ne 4 MAGF w' _ rest hw h⟩
theorem pFtr_alt2 (t t' : Nat) (rest : List Byte) (h : t' ≠ t + FOOT) (hw : t' < 256^4) :
    IsErr (pFtr t (le 4 MAGF ++ (le 4 t' ++ rest))) := by
  unfold pFtr
  apply bindP_ok_err _ _ _ _ _ (expect_ok 4 MAGF _ _ (by decide))
  exact ⟨_, expect_ne 4 _ t' _ rest hw h⟩

/-- altering any of the four bracket words makes the wrapped parser fail -/
theorem wrapP_alt {α} (t : Nat) (body : Parser α) (B bs rest : List Byte) (a : α) (ht : t + FOOT < 256^4)
    (hb : ∀ r, body (B ++ r) = .ok (a, r)) (h : AltW t B bs) : IsErr (wrapP t body (bs ++ rest)) := by
  have ht4 : t < 256^4 := by simp [FOOT] at ht ⊢; omega
  unfold wrapP
  cases h with
  | h1 w' hne hw =>
    apply bindP_err; simp only [List.append_assoc]; exact pHdr_alt1 t w' _ hne hw
  | h2 t' hne hw =>
    apply bindP_err; simp only [List.append_assoc]; exact pHdr_alt2 t t' _ hne hw
  | f1 w' hne hw =>
    simp only [List.append_assoc]
    apply bindP_ok_err _ _ _ _ _ (pHdr_ok t _ ht4)
    apply bindP_ok_err _ _ _ _ _ (hb _)
    apply bindP_err; exact pFtr_alt1 t w' _ hne hw
  | f2 t' hne hw =>
    simp only [List.append_assoc]
    apply bindP_ok_err _ _ _ _ _ (pHdr_ok t _ ht4)
    apply bindP_ok_err _ _ _ _ _ (hb _)
    apply bindP_err; exact pFtr_alt2 t t' _ hne hw

/-- an error inside the body propagates through the bracket -/
theorem wrapP_body_err {α} (t : Nat) (body : Parser α) (B' rest : List Byte) (ht : t + FOOT < 256^4)
    (hb : IsErr (body (B' ++ (ftr t ++ rest)))) : IsErr (wrapP t body (wrapD t B' ++ rest)) := by
  have ht4 : t < 256^4 := by simp [FOOT] at ht ⊢; omega
  unfold wrapP wrapD
  simp only [List.append_assoc]
  apply bindP_ok_err _ _ _ _ _ (pHdr_ok t _ ht4)
  exact bindP_err _ _ _ hb

/-- the body bytes (between header and footer) of a non-`thin` layer -/
def bodyOf : Ty → Dat → List Byte
  | .array _, .array wd count cells => le 4 wd ++ le 8 count ++ words wd cells
  | .constant sz _, .constant v => words sz v
  | .identity, .identity => []
  | .sized _ _ b, .sized cfg d => words 8 cfg ++ dumpB b d
  | .clamp sz _ b, .clamp lo hi d => words sz lo ++ words sz hi ++ dumpB b d
  | .backup sz _ osz _ b, .backup lo hi df d => words sz lo ++ words sz hi ++ words osz df ++ dumpB b d
  | .affine sz _ b, .affine m d => words sz m ++ dumpB b d
  | _, _ => []

/-- `bs` is the dump of `d` with exactly one checked word altered: a header or footer word of some layer,
    or the float-width word replaced by a value other than 4 and 8 -/
inductive Alt : Ty → Dat → List Byte → Prop
  | array (M wd n : Nat) (cells : List Nat) (bs) :
      AltW T_ARRAY (bodyOf (.array M) (.array wd n cells)) bs → Alt (.array M) (.array wd n cells) bs
  | width (M wd n : Nat) (cells : List Nat) (w' : Nat) : w' ≠ 4 → w' ≠ 8 → w' < 256^4 →
      Alt (.array M) (.array wd n cells) (wrapD T_ARRAY (le 4 w' ++ le 8 n ++ words wd cells))
  | constant (sz M : Nat) (v bs) : AltW T_CONST (words sz v) bs → Alt (.constant sz M) (.constant v) bs
  | identity (bs) : AltW T_IDENT [] bs → Alt .identity .identity bs
  | sizedOwn (t N b cfg d bs) : AltW t (words 8 cfg ++ dumpB b d) bs → Alt (.sized t N b) (.sized cfg d) bs
  | sizedIn (t N b cfg d bs) : Alt b d bs → Alt (.sized t N b) (.sized cfg d) (wrapD t (words 8 cfg ++ bs))
  | clampOwn (sz N b lo hi d bs) : AltW T_CLAMP (words sz lo ++ words sz hi ++ dumpB b d) bs →
      Alt (.clamp sz N b) (.clamp lo hi d) bs
  | clampIn (sz N b lo hi d bs) : Alt b d bs →
      Alt (.clamp sz N b) (.clamp lo hi d) (wrapD T_CLAMP (words sz lo ++ words sz hi ++ bs))
  | backupOwn (sz N osz M b lo hi df d bs) :
      AltW T_BACKUP (words sz lo ++ words sz hi ++ words osz df ++ dumpB b d) bs →
      Alt (.backup sz N osz M b) (.backup lo hi df d) bs
  | backupIn (sz N osz M b lo hi df d bs) : Alt b d bs →
      Alt (.backup sz N osz M b) (.backup lo hi df d) (wrapD T_BACKUP (words sz lo ++ words sz hi ++ words osz df ++ bs))
  | affineOwn (sz N b m d bs) : AltW T_AFFINE (words sz m ++ dumpB b d) bs → Alt (.affine sz N b) (.affine m d) bs
  | affineIn (sz N b m d bs) : Alt b d bs → Alt (.affine sz N b) (.affine m d) (wrapD T_AFFINE (words sz m ++ bs))
  | thin (b d bs) : Alt b d bs → Alt (.thin b) (.thin d) bs

theorem loadB_alt (ty : Ty) (d : Dat) (bs : List Byte) (h : Alt ty d bs) (hwf : WF ty d) :
    ∀ rest, IsErr (loadB ty (bs ++ rest)) := by
  induction h with
  | array M wd n cells bs ha =>
    intro rest
    obtain ⟨hw, hl, hlen, hc⟩ := hwf
    simp only [loadB]
    apply wrapP_alt _ _ _ _ _ (.array wd n cells) (by decide) _ ha
    intro r
    simp only [bodyOf, List.append_assoc]
    have hw4 : wd < 256^4 := by rcases hw with h | h <;> subst h <;> decide
    rw [bindP_ok _ _ _ _ _ (rd_le 4 wd _ hw4)]
    simp only [hw, if_true]
    rw [bindP_ok _ _ _ _ _ (rd_le 8 _ _ hl)]
    rw [← hlen, bindP_ok _ _ _ _ _ (readN_words wd cells _ hc)]
    rfl
  | width M wd n cells w' h4 h8 hw' =>
    intro rest
    simp only [loadB]
    apply wrapP_body_err _ _ _ _ (by decide)
    simp only [List.append_assoc]
    apply bindP_ok_err _ _ _ _ _ (rd_le 4 w' _ hw')
    have : ¬ (w' = 4 ∨ w' = 8) := by omega
    simp only [this, if_false]
    exact ⟨_, rfl⟩
  | constant sz M v bs ha =>
    intro rest
    obtain ⟨hl, hc⟩ := hwf
    simp only [loadB]
    apply wrapP_alt _ _ _ _ _ (.constant v) (by decide) _ ha
    intro r
    rw [← hl, bindP_ok _ _ _ _ _ (readN_words sz v _ hc)]; rfl
  | identity bs ha =>
    intro rest
    simp only [loadB]
    exact wrapP_alt _ _ _ _ _ .identity (by decide) (fun r => rfl) ha
  | sizedOwn t N b cfg d bs ha =>
    intro rest
    obtain ⟨ht, hl, hc, hw⟩ := hwf
    simp only [loadB]
    apply wrapP_alt _ _ _ _ _ (.sized cfg d) ht _ ha
    intro r
    simp only [List.append_assoc]
    rw [← hl, bindP_ok _ _ _ _ _ (readN_words 8 cfg _ hc)]
    rw [bindP_ok _ _ _ _ _ (loadB_dumpB b d _ hw)]; rfl
  | sizedIn t N b cfg d bs _ ih =>
    intro rest
    obtain ⟨ht, hl, hc, hw⟩ := hwf
    simp only [loadB]
    apply wrapP_body_err _ _ _ _ ht
    simp only [List.append_assoc]
    rw [← hl]
    apply bindP_ok_err _ _ _ _ _ (readN_words 8 cfg _ hc)
    exact bindP_err _ _ _ (ih hw _)
  | clampOwn sz N b lo hi d bs ha =>
    intro rest
    obtain ⟨hl1, hl2, hc1, hc2, hw⟩ := hwf
    simp only [loadB]
    apply wrapP_alt _ _ _ _ _ (.clamp lo hi d) (by decide) _ ha
    intro r
    simp only [List.append_assoc]
    rw [← hl1, bindP_ok _ _ _ _ _ (readN_words sz lo _ hc1)]
    rw [hl1, ← hl2, bindP_ok _ _ _ _ _ (readN_words sz hi _ hc2)]
    rw [bindP_ok _ _ _ _ _ (loadB_dumpB b d _ hw)]; rfl
  | clampIn sz N b lo hi d bs _ ih =>
    intro rest
    obtain ⟨hl1, hl2, hc1, hc2, hw⟩ := hwf
    simp only [loadB]
    apply wrapP_body_err _ _ _ _ (by decide)
    simp only [List.append_assoc]
    rw [← hl1]
    apply bindP_ok_err _ _ _ _ _ (readN_words sz lo _ hc1)
    rw [hl1, ← hl2]
    apply bindP_ok_err _ _ _ _ _ (readN_words sz hi _ hc2)
    exact bindP_err _ _ _ (ih hw _)
  | backupOwn sz N osz M b lo hi df d bs ha =>
    intro rest
    obtain ⟨hl1, hl2, hl3, hc1, hc2, hc3, hw⟩ := hwf
    simp only [loadB]
    apply wrapP_alt _ _ _ _ _ (.backup lo hi df d) (by decide) _ ha
    intro r
    simp only [List.append_assoc]
    rw [← hl1, bindP_ok _ _ _ _ _ (readN_words sz lo _ hc1)]
    rw [hl1, ← hl2, bindP_ok _ _ _ _ _ (readN_words sz hi _ hc2)]
    rw [← hl3, bindP_ok _ _ _ _ _ (readN_words osz df _ hc3)]
    rw [bindP_ok _ _ _ _ _ (loadB_dumpB b d _ hw)]; rfl
  | backupIn sz N osz M b lo hi df d bs _ ih =>
    intro rest
    obtain ⟨hl1, hl2, hl3, hc1, hc2, hc3, hw⟩ := hwf
    simp only [loadB]
    apply wrapP_body_err _ _ _ _ (by decide)
    simp only [List.append_assoc]
    rw [← hl1]
    apply bindP_ok_err _ _ _ _ _ (readN_words sz lo _ hc1)
    rw [hl1, ← hl2]
    apply bindP_ok_err _ _ _ _ _ (readN_words sz hi _ hc2)
    rw [← hl3]
    apply bindP_ok_err _ _ _ _ _ (readN_words osz df _ hc3)
    exact bindP_err _ _ _ (ih hw _)
  | affineOwn sz N b m d bs ha =>
    intro rest
    obtain ⟨hl, hc, hw⟩ := hwf
    simp only [loadB]
    apply wrapP_alt _ _ _ _ _ (.affine m d) (by decide) _ ha
    intro r
    simp only [List.append_assoc]
    rw [← hl, bindP_ok _ _ _ _ _ (readN_words sz m _ hc)]
    rw [bindP_ok _ _ _ _ _ (loadB_dumpB b d _ hw)]; rfl
  | affineIn sz N b m d bs _ ih =>
    intro rest
    obtain ⟨hl, hc, hw⟩ := hwf
    simp only [loadB]
    apply wrapP_body_err _ _ _ _ (by decide)
    simp only [List.append_assoc]
    rw [← hl]
    apply bindP_ok_err _ _ _ _ _ (readN_words sz m _ hc)
    exact bindP_err _ _ _ (ih hw _)
  | thin b d bs _ ih =>
    intro rest
    simp only [loadB]
    exact bindP_err _ _ _ (ih hwf _)

end Covfie.IO
