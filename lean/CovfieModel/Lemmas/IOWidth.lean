import CovfieModel.Lemmas.IOReject
/-! Helper lemmas for the float-width word swapped between 8 and 4 (C08, `load_widthswap_partial`). -/
namespace Covfie.IO

theorem rd_append (k : Nat) (bs ys : List Byte) (v : Nat) (r : List Byte) (h : rd k bs = .ok (v, r)) :
    rd k (bs ++ ys) = .ok (v, r ++ ys) := by
  obtain ⟨pre, e, f⟩ := PL_rd k bs v r h
  rw [e, List.append_assoc]; exact f _

theorem rd_total (k : Nat) (bs : List Byte) (h : k ≤ bs.length) : ∃ v, rd k bs = .ok (v, bs.drop k) := by
  induction k generalizing bs with
  | zero => exact ⟨0, by simp [rd]⟩
  | succ k ih =>
    cases bs with
    | nil => simp at h
    | cons b bs =>
      obtain ⟨v, hv⟩ := ih bs (by simpa using h)
      exact ⟨b + 256 * v, by simp [rd, hv]⟩

theorem rd_short (k : Nat) (bs : List Byte) (h : bs.length < k) : IsErr (rd k bs) := by
  induction k generalizing bs with
  | zero => omega
  | succ k ih =>
    cases bs with
    | nil => exact ⟨_, rfl⟩
    | cons b bs =>
      obtain ⟨e, he⟩ := ih bs (by simpa using h)
      exact ⟨e, by simp [rd, he]⟩

/-- `j` reads of `k` bytes succeed on any stream that has `k*j` bytes, and consume exactly those -/
theorem readN_total (k j : Nat) (bs : List Byte) (h : k * j ≤ bs.length) :
    ∃ vs, readN (rd k) j bs = .ok (vs, bs.drop (k * j)) := by
  induction j generalizing bs with
  | zero => exact ⟨[], by simp [readN, pureP]⟩
  | succ j ih =>
    have hk : k ≤ bs.length := by rw [Nat.mul_succ] at h; omega
    obtain ⟨v, hv⟩ := rd_total k bs hk
    obtain ⟨vs, hvs⟩ := ih (bs.drop k) (by rw [List.length_drop, Nat.mul_succ] at *; omega)
    refine ⟨v :: vs, ?_⟩
    simp only [readN, bindP, hv, hvs, pureP, List.drop_drop]
    rw [Nat.mul_succ, Nat.add_comm]

/-- `j` reads of `k` bytes fail on a stream shorter than `k*j` bytes -/
theorem readN_short (k j : Nat) (bs : List Byte) (h : bs.length < k * j) : IsErr (readN (rd k) j bs) := by
  induction j generalizing bs with
  | zero => simp at h
  | succ j ih =>
    by_cases hk : k ≤ bs.length
    · obtain ⟨v, hv⟩ := rd_total k bs hk
      have := ih (bs.drop k) (by rw [List.length_drop, Nat.mul_succ] at *; omega)
      obtain ⟨e, he⟩ := this
      exact ⟨e, by simp [readN, bindP, hv, he]⟩
    · obtain ⟨e, he⟩ := rd_short k bs (by omega)
      exact ⟨e, by simp [readN, bindP, he]⟩

theorem words_len (k : Nat) (xs : List Nat) : (words k xs).length = k * xs.length := by
  induction xs with
  | nil => simp [words]
  | cons x xs ih =>
    simp only [words, List.flatMap_cons, List.length_append, le_length, List.length_cons] at ih ⊢
    rw [ih, Nat.mul_succ]; omega

end Covfie.IO
