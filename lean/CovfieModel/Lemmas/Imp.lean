import CovfieModel.Model.Imp
/-! Generic facts about `Covfie.Imp.exec`: simulation of a `while` by a fuel loop on an abstract state,
counting loops, fuel monotonicity. -/
namespace Covfie.Imp

@[simp] theorem b2n_ne_zero (b : Bool) : (b2n b ≠ 0) = (b = true) := by cases b <;> simp [b2n]
@[simp] theorem b2n_eq_zero (b : Bool) : (b2n b = 0) = (b = false) := by cases b <;> simp [b2n]

/-! Equations of `exec` on fully applied states only (so that `simp only` leaves loop bodies folded). -/
theorem exec_skip (w F : Nat) (env : Env) : exec w F .skip env = some env := rfl
theorem exec_assign (w F i : Nat) (wd : Wd) (e : Expr) (env : Env) :
    exec w F (.assign i wd e) env = some (env.set i (eval w env e % 2 ^ bits w wd)) := rfl
theorem exec_seq (w F : Nat) (a b : Stmt) (env : Env) :
    exec w F (.seq a b) env = (exec w F a env).bind (exec w F b) := rfl
theorem exec_ite (w F : Nat) (c : Expr) (t e : Stmt) (env : Env) :
    exec w F (.ite c t e) env = if eval w env c ≠ 0 then exec w F t env else exec w F e env := rfl
theorem exec_while (w F : Nat) (c : Expr) (b : Stmt) (env : Env) :
    exec w F (.while c b) env = whileLoop (fun env => eval w env c ≠ 0) (exec w F b) F env := rfl

/-- the abstract counterpart of `whileLoop` -/
def iter {α : Type} (c : α → Bool) (step : α → α) : Nat → α → Option α
  | 0, _ => none
  | f+1, a => if c a then iter c step f (step a) else some a

/-- A `while` whose condition and body act on the states `abs a` (with `P a`) like `c` / `step` is `iter c step`. -/
theorem whileLoop_sim {α : Type} (cond : Env → Bool) (body : Env → Option Env) (abs : α → Env)
    (P : α → Prop) (c : α → Bool) (step : α → α)
    (hc : ∀ a, P a → cond (abs a) = c a)
    (hb : ∀ a, P a → c a = true → body (abs a) = some (abs (step a)))
    (hP : ∀ a, P a → c a = true → P (step a)) :
    ∀ f a, P a → whileLoop cond body f (abs a) = (iter c step f a).map abs := by
  intro f
  induction f with
  | zero => intro a _; rfl
  | succ f ih =>
    intro a ha
    simp only [whileLoop, iter, hc a ha]
    cases h : c a with
    | false => simp
    | true => simp [hb a ha h, ih _ (hP a ha h)]

theorem iter_mono {α : Type} (c : α → Bool) (step : α → α) : ∀ f a r, iter c step f a = some r →
    ∀ g, f ≤ g → iter c step g a = some r := by
  intro f
  induction f with
  | zero => intro a r h; simp [iter] at h
  | succ f ih =>
    intro a r h g hg
    obtain ⟨g, rfl⟩ : ∃ g', g = g' + 1 := ⟨g - 1, by omega⟩
    simp only [iter] at h ⊢
    split
    · rename_i hc; rw [if_pos hc] at h; exact ih _ _ h _ (by omega)
    · rename_i hc; rw [if_neg hc] at h; exact h

theorem iter_inv {α : Type} (c : α → Bool) (step : α → α) (P : α → Prop)
    (hP : ∀ a, P a → c a = true → P (step a)) : ∀ f a r, P a → iter c step f a = some r → P r ∧ c r = false := by
  intro f
  induction f with
  | zero => intro a r _ h; simp [iter] at h
  | succ f ih =>
    intro a r ha h
    simp only [iter] at h
    cases hc : c a with
    | true => rw [hc] at h; exact ih _ _ (hP a ha hc) h
    | false => rw [hc] at h; simp at h; subst h; exact ⟨ha, hc⟩

theorem whileLoop_mono (cond : Env → Bool) (body : Env → Option Env) : ∀ f env r, whileLoop cond body f env = some r →
    ∀ g, f ≤ g → whileLoop cond body g env = some r := by
  intro f
  induction f with
  | zero => intro a r h; simp [whileLoop] at h
  | succ f ih =>
    intro a r h g hg
    obtain ⟨g, rfl⟩ : ∃ g', g = g' + 1 := ⟨g - 1, by omega⟩
    simp only [whileLoop] at h ⊢
    split
    · rename_i hc
      rw [if_pos hc] at h
      cases hb : body a with
      | none => simp [hb] at h
      | some e => simp only [hb, Option.bind_some] at h ⊢; exact ih _ _ h _ (by omega)
    · rename_i hc; rw [if_neg hc] at h; exact h

/-- `d`-fold application, innermost first -/
def iterN {α : Type} (step : α → α) : Nat → α → α
  | 0, a => a
  | d+1, a => iterN step d (step a)

theorem iterN_succ' {α : Type} (step : α → α) : ∀ d a, iterN step (d+1) a = step (iterN step d a) := by
  intro d
  induction d with
  | zero => intro a; rfl
  | succ d ih => intro a; rw [iterN, ih (step a)]; rfl

/-- A counting loop `for (k = k0; k < n; ++k)`: `step` must advance the counter `cnt` by one while `cnt < n`. -/
theorem iter_count {α : Type} (cnt : α → Nat) (n : Nat) (step : α → α)
    (hs : ∀ a, cnt a < n → cnt (step a) = cnt a + 1) :
    ∀ d a, n - cnt a = d → ∀ f, d < f →
      iter (fun a => decide (cnt a < n)) step f a = some (iterN step d a) := by
  intro d
  induction d with
  | zero =>
    intro a hd f hf
    obtain ⟨f, rfl⟩ : ∃ f', f = f' + 1 := ⟨f - 1, by omega⟩
    have : ¬ cnt a < n := by omega
    simp [iter, this, iterN]
  | succ d ih =>
    intro a hd f hf
    obtain ⟨f, rfl⟩ : ∃ f', f = f' + 1 := ⟨f - 1, by omega⟩
    have h : cnt a < n := by omega
    simp only [iter, h, decide_true, if_true, iterN]
    exact ih (step a) (by rw [hs a h]; omega) f (by omega)

end Covfie.Imp
