import CovfieModel.Model.Layout
namespace Covfie

theorem testBit_and_one_shl (x i p : Nat) :
    (x &&& (1 <<< i)).testBit p = (decide (p = i) && x.testBit i) := by
  rw [Nat.testBit_and, Nat.one_shiftLeft, Nat.testBit_two_pow]
  by_cases h : p = i
  · subst h; simp
  · have : ¬ i = p := fun e => h e.symm
    simp [h, this]

theorem mInner_testBit (N i : Nat) (c : Nat → Nat) (hN : 0 < N) (J : Nat) (hJ : J ≤ N) (p : Nat) :
    (mInner N i c J).testBit p = (decide (p / N = i ∧ p % N < J) && (c (p % N)).testBit i) := by
  induction J with
  | zero => simp [mInner]
  | succ j ih =>
    have ihj := ih (by omega)
    simp only [mInner, Nat.testBit_or, ihj, Nat.testBit_shiftLeft, testBit_and_one_shl]
    -- position of bit: i*(N-1)+j + i = i*N + j
    have key : i*(N-1)+j + i = i*N + j := by
      cases N with
      | zero => omega
      | succ n => simp [Nat.mul_succ]; omega
    by_cases hp : p = i*N + j
    · subst hp
      have h1 : (i*N+j) / N = i := by
        rw [Nat.mul_comm, Nat.mul_add_div hN]; simp [Nat.div_eq_of_lt (by omega : j < N)]
      have h2 : (i*N+j) % N = j := by
        rw [Nat.mul_comm, Nat.mul_add_mod]; exact Nat.mod_eq_of_lt (by omega)
      have h3 : i*N + j ≥ i*(N-1)+j := by omega
      have h4 : i*N + j - (i*(N-1)+j) = i := by omega
      simp [h1, h2, h3, h4]
    · -- not the new bit
      have hne : ¬ (p / N = i ∧ p % N = j) := by
        intro ⟨a, b⟩; apply hp
        have := Nat.div_add_mod p N
        rw [a, b, Nat.mul_comm] at this; omega
      by_cases hge : p ≥ i*(N-1)+j
      · have : p - (i*(N-1)+j) ≠ i := by omega
        have e : (decide (p / N = i ∧ p % N < j + 1)) = decide (p / N = i ∧ p % N < j) := by
          apply decide_eq_decide.mpr
          constructor
          · intro ⟨a, b⟩; exact ⟨a, by have : p % N ≠ j := fun h => hne ⟨a, h⟩; omega⟩
          · intro ⟨a, b⟩; exact ⟨a, by omega⟩
        simp [hge, this, e]
      · have e : (decide (p / N = i ∧ p % N < j + 1)) = decide (p / N = i ∧ p % N < j) := by
          apply decide_eq_decide.mpr
          constructor
          · intro ⟨a, b⟩; exact ⟨a, by have : p % N ≠ j := fun h => hne ⟨a, h⟩; omega⟩
          · intro ⟨a, b⟩; exact ⟨a, by omega⟩
        simp [hge, e]

theorem mOuter_testBit (N : Nat) (c : Nat → Nat) (hN : 0 < N) (B p : Nat) :
    (mOuter N c B).testBit p = (decide (p / N < B) && (c (p % N)).testBit (p / N)) := by
  induction B with
  | zero => simp [mOuter]
  | succ b ih =>
    simp only [mOuter, Nat.testBit_or, ih, mInner_testBit N b c hN N (Nat.le_refl _)]
    have hm : p % N < N := Nat.mod_lt _ hN
    by_cases h1 : p / N < b
    · have : ¬ p / N = b := by omega
      have : p / N < b + 1 := by omega
      simp [*]
    · by_cases h2 : p / N = b
      · simp [h2, hm]
      · have : ¬ p / N < b + 1 := by omega
        simp [*]

end Covfie
