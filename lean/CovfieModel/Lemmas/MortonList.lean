import CovfieModel.Lemmas.Morton
import CovfieModel.Lemmas.Pdep
namespace Covfie

/-- bit `p` of the Morton index is bit `p / N` of coordinate `p % N` (coordinate 0 least significant) -/
theorem mortonLoop_testBit (c : List Nat) (hN : 0 < c.length) (p : Nat) :
    (mortonLoop c).testBit p =
      (decide (p / c.length < 64 / c.length) && (c.getD (p % c.length) 0).testBit (p / c.length)) := by
  unfold mortonLoop
  rw [Nat.testBit_mod_two_pow, mOuter_testBit _ _ hN]
  by_cases h : p / c.length < 64 / c.length
  · have hp : p < 64 := by
      have h1 := Nat.div_add_mod p c.length
      have h2 := Nat.mod_lt p hN
      have h3 : c.length * (64 / c.length) ≤ 64 := Nat.mul_div_le 64 c.length
      have h4 : c.length * (p / c.length + 1) ≤ c.length * (64 / c.length) := Nat.mul_le_mul_left _ h
      rw [Nat.mul_add, Nat.mul_one] at h4
      omega
    simp [h, hp]
  · simp [h]

theorem testBit_false_of_lt (x k i : Nat) (hx : x < 2^k) (hi : k ≤ i) : x.testBit i = false := by
  apply Nat.testBit_lt_two_pow
  exact Nat.lt_of_lt_of_le hx (Nat.pow_le_pow_right (by omega) hi)

/-- in-range coordinates give an index below `2^(k·N)` -/
theorem mortonLoop_lt (c : List Nat) (k : Nat) (hN : 0 < c.length)
    (hc : ∀ j, j < c.length → c.getD j 0 < 2^k) : mortonLoop c < 2^(k * c.length) := by
  apply Nat.lt_pow_two_of_testBit
  intro p hp
  rw [mortonLoop_testBit c hN]
  have hk : k ≤ p / c.length := by
    rw [Nat.le_div_iff_mul_le hN]; exact hp
  have := testBit_false_of_lt _ k (p / c.length) (hc (p % c.length) (Nat.mod_lt _ hN)) hk
  rw [this, Bool.and_false]

/-- distinct in-range coordinates have distinct Morton indices -/
theorem mortonLoop_inj (c c' : List Nat) (hl : c.length = c'.length) (hN : 0 < c.length)
    (hc : ∀ j, j < c.length → c.getD j 0 < 2^(64 / c.length))
    (hc' : ∀ j, j < c'.length → c'.getD j 0 < 2^(64 / c'.length))
    (e : mortonLoop c = mortonLoop c') : c = c' := by
  apply List.ext_getElem hl
  intro j h1 h2
  have hj : c.getD j 0 = c'.getD j 0 := by
    apply Nat.eq_of_testBit_eq
    intro i
    by_cases hi : i < 64 / c.length
    · have hb := congrArg (fun x => x.testBit (i * c.length + j)) e
      have hN' : 0 < c'.length := by omega
      rw [mortonLoop_testBit c hN, mortonLoop_testBit c' hN'] at hb
      have d1 : (i * c.length + j) / c.length = i := by
        rw [Nat.mul_comm, Nat.mul_add_div hN, Nat.div_eq_of_lt h1]; simp
      have m1 : (i * c.length + j) % c.length = j := by
        rw [Nat.mul_comm, Nat.mul_add_mod]; exact Nat.mod_eq_of_lt h1
      rw [← hl] at hb
      rw [d1, m1] at hb
      simpa [hi] using hb
    · have a := testBit_false_of_lt _ _ i (hc j h1) (by omega)
      have b := testBit_false_of_lt _ _ i (hc' j h2) (by rw [← hl]; omega)
      rw [a, b]
  simpa [List.getD_eq_getElem?_getD, h1, h2] using hj

end Covfie
