import CovfieModel.Lemmas.MortonList
namespace Covfie

theorem foldl_or_testBit (L : List Nat) (f : Nat → Nat) (acc p : Nat) :
    (L.foldl (fun a j => a ||| f j) acc).testBit p = (acc.testBit p || L.any (fun j => (f j).testBit p)) := by
  induction L generalizing acc with
  | nil => simp
  | cons x xs ih => simp [List.foldl_cons, ih, Nat.testBit_or, Bool.or_assoc]

theorem mortonMask_testBit (N I p : Nat) : (mortonMask N I).testBit p = maskBit N I p := by
  unfold mortonMask maskBit
  rw [Nat.testBit_mod_two_pow, Nat.testBit_shiftLeft, foldl_or_testBit]
  simp only [Nat.zero_testBit, Bool.false_or, Nat.testBit_two_pow]
  by_cases h1 : p < 64 <;> by_cases h2 : I ≤ p <;> simp [h1, h2]
  apply Bool.eq_iff_iff.mpr
  simp only [List.any_eq_true, List.mem_range, Bool.and_eq_true, decide_eq_true_eq]
  constructor
  · rintro ⟨x, hx1, hx2, hx3⟩; subst hx3; exact hx2
  · intro h; exact ⟨p - I, by omega, h, rfl⟩

theorem mortonPdep_testBit (c : List Nat) (hN : 0 < c.length) (p : Nat) :
    (mortonPdep c).testBit p = (decide (p < 64) && (c.getD (p % c.length) 0).testBit (p / c.length)) := by
  unfold mortonPdep
  rw [foldl_or_testBit]
  simp only [Nat.zero_testBit, Bool.false_or]
  have key : ∀ i, i < c.length →
      (pdep (c.getD i 0 % 2^64) (mortonMask c.length i)).testBit p =
        (maskBit c.length i p && (c.getD i 0 % 2^64).testBit ((p - i) / c.length)) :=
    fun i _ => pdep_testBit _ _ c.length i hN (mortonMask_testBit c.length i) p
  by_cases hp : p < 64
  · -- the unique contributing coordinate is p % N
    have hm := Nat.mod_lt p hN
    have hdm := Nat.div_add_mod p c.length
    have hdiv : (p - p % c.length) / c.length = p / c.length := by
      have : p - p % c.length = c.length * (p / c.length) := by omega
      rw [this, Nat.mul_div_cancel_left _ hN]
    have hmask : maskBit c.length (p % c.length) p = true := by
      simp only [maskBit, decide_eq_true_eq]
      refine ⟨hp, Nat.mod_le _ _, ?_⟩
      have : p - p % c.length = c.length * (p / c.length) := by omega
      rw [this, Nat.mul_mod_right]
    have hlt64 : p / c.length < 64 := Nat.lt_of_le_of_lt (Nat.div_le_self _ _) hp
    simp only [hp, decide_true, Bool.true_and]
    apply Bool.eq_iff_iff.mpr
    simp only [List.any_eq_true, List.mem_range]
    constructor
    · rintro ⟨i, hi, hb⟩
      rw [key i hi] at hb
      simp only [Bool.and_eq_true, maskBit, decide_eq_true_eq] at hb
      obtain ⟨⟨_, hle, hmod⟩, hbit⟩ := hb
      -- i = p % N
      have : i = p % c.length := by
        have h1 : (p - i) % c.length = 0 := hmod
        obtain ⟨q, hq⟩ := Nat.dvd_of_mod_eq_zero h1
        have : p = c.length * q + i := by omega
        rw [this, Nat.mul_add_mod, Nat.mod_eq_of_lt hi]
      subst this
      rw [hdiv, Nat.testBit_mod_two_pow] at hbit
      simpa [hlt64] using hbit
    · intro hb
      refine ⟨p % c.length, hm, ?_⟩
      rw [key _ hm, hmask, hdiv, Nat.testBit_mod_two_pow]
      simpa [hlt64] using hb
  · simp only [hp, decide_false, Bool.false_and]
    apply Bool.eq_false_iff.mpr
    intro hb
    simp only [List.any_eq_true, List.mem_range] at hb
    obtain ⟨i, hi, hb⟩ := hb
    rw [key i hi] at hb
    simp [maskBit, hp] at hb

/-- the BMI2 implementation and the portable loop agree on every in-range coordinate -/
theorem mortonPdep_eq_loop (c : List Nat) (hN : 0 < c.length)
    (hc : ∀ j, j < c.length → c.getD j 0 < 2^(64 / c.length)) : mortonPdep c = mortonLoop c := by
  apply Nat.eq_of_testBit_eq
  intro p
  rw [mortonPdep_testBit c hN, mortonLoop_testBit c hN]
  by_cases h : p / c.length < 64 / c.length
  · have hp : p < 64 := by
      have h1 := Nat.div_add_mod p c.length
      have h2 := Nat.mod_lt p hN
      have h3 : c.length * (64 / c.length) ≤ 64 := Nat.mul_div_le 64 c.length
      have h4 : c.length * (p / c.length + 1) ≤ c.length * (64 / c.length) := Nat.mul_le_mul_left _ h
      rw [Nat.mul_add, Nat.mul_one] at h4
      omega
    simp [h, hp]
  · have := testBit_false_of_lt _ _ (p / c.length) (hc (p % c.length) (Nat.mod_lt _ hN)) (by omega)
    rw [this]; simp

end Covfie
