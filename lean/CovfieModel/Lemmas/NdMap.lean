import CovfieModel.Model.NdMap
namespace Covfie

theorem mem_ndMap (sz t : List Nat) : t ∈ ndMap sz ↔ InBox sz t := by
  induction sz generalizing t with
  | nil => cases t <;> simp [ndMap, InBox]
  | cons n ns ih =>
    cases t with
    | nil => simp [ndMap, InBox]
    | cons c cs =>
      simp only [ndMap, List.mem_flatMap, List.mem_range, List.mem_map, InBox]
      constructor
      · rintro ⟨i, hi, u, hu, e⟩
        injection e with e1 e2
        subst e1 e2
        exact ⟨hi, (ih _).mp hu⟩
      · rintro ⟨h1, h2⟩
        exact ⟨c, h1, cs, (ih _).mpr h2, rfl⟩

theorem ndMap_nodup (sz : List Nat) : (ndMap sz).Nodup := by
  induction sz with
  | nil => simp [ndMap]
  | cons n ns ih =>
    simp only [ndMap]
    rw [List.Nodup, List.pairwise_flatMap]
    constructor
    · intro i _
      exact List.Pairwise.map _ (fun a b h e => h (by injection e)) ih
    · have : (List.range n).Pairwise (· ≠ ·) := List.nodup_range
      apply List.Pairwise.imp _ this
      intro a b hab
      intro x hx1 y hx2 exy
      simp only [List.mem_map] at hx1 hx2
      obtain ⟨u, _, e1⟩ := hx1
      obtain ⟨v, _, e2⟩ := hx2
      rw [← e1, ← e2] at exy
      injection exy with e _
      exact hab e

def prodL : List Nat → Nat
  | [] => 1
  | s :: ss => s * prodL ss

theorem ndMap_length (sz : List Nat) : (ndMap sz).length = prodL sz := by
  induction sz with
  | nil => rfl
  | cons n ns ih =>
    simp only [ndMap, prodL]
    induction n with
    | zero => simp
    | succ n ihn =>
      rw [List.range_succ, List.flatMap_append]
      simp [ihn, ih, Nat.succ_mul]

theorem InBox_length (sz c : List Nat) (h : InBox sz c) : c.length = sz.length := by
  induction sz generalizing c with
  | nil => cases c <;> simp_all [InBox]
  | cons s ss ih => cases c with
    | nil => simp [InBox] at h
    | cons c cs => simp [ih cs h.2]

end Covfie
