import CovfieModel.Model.Numeric
namespace Covfie

theorem rp2Loop_spec (w i k fuel : Nat) (hi : i ≤ 2^(w-1)) (hw : 1 ≤ w)
    (hk : ∀ m, m < k → 2^m < i) (hfuel : w ≤ fuel + k) (hkw : k ≤ w - 1) :
    ∃ r, rp2Loop w i fuel (2^k) = some (2^r) ∧ i ≤ 2^r ∧ (∀ m, m < r → 2^m < i) ∧ r ≤ w - 1 := by
  induction fuel generalizing k with
  | zero => omega
  | succ fuel ih =>
    simp only [rp2Loop]
    by_cases hlt : 2^k < i
    · simp only [hlt, if_true]
      have hk1 : k + 1 ≤ w - 1 := by
        have : 2^k < 2^(w-1) := Nat.lt_of_lt_of_le hlt hi
        have := (Nat.pow_lt_pow_iff_right (by omega : 1 < 2)).mp this
        omega
      have hmod : (2^k * 2) % 2^w = 2^(k+1) := by
        rw [← Nat.pow_succ]
        apply Nat.mod_eq_of_lt
        apply Nat.pow_lt_pow_right (by omega) (by omega)
      rw [hmod]
      apply ih (k+1)
      · intro m hm
        by_cases h : m < k
        · exact hk m h
        · have : m = k := by omega
          subst this; exact hlt
      · omega
      · exact hk1
    · simp only [hlt, if_false]
      exact ⟨k, rfl, by omega, hk, hkw⟩

theorem roundPow2_spec' (w i : Nat) (hw : 1 ≤ w) (hi : i ≤ 2^(w-1)) :
    ∃ r, roundPow2 w i = some (2^r) ∧ i ≤ 2^r ∧ (∀ m, i ≤ 2^m → r ≤ m) ∧ r ≤ w - 1 := by
  have h1 : 1 % 2^w = 2^0 := by
    rw [Nat.pow_zero]; apply Nat.mod_eq_of_lt; exact Nat.one_lt_two_pow (by omega)
  unfold roundPow2
  rw [h1]
  obtain ⟨r, e, h2, h3, h4⟩ := rp2Loop_spec w i 0 (w+1) hi hw (by intro m hm; omega) (by omega) (by omega)
  refine ⟨r, e, h2, ?_, h4⟩
  intro m hm
  apply Nat.le_of_not_lt
  intro hlt
  have := h3 m hlt
  omega

/-- outside the domain (i > 2^(w-1)) the doubling wraps to 0 and the loop never ends -/
theorem rp2Loop_zero_diverges (w i fuel : Nat) (hi : 0 < i) : rp2Loop w i fuel 0 = none := by
  induction fuel with
  | zero => rfl
  | succ f ih => simp [rp2Loop, hi, ih]

theorem rp2Loop_diverges (w i : Nat) (hw : 1 ≤ w) (hi : 2^(w-1) < i) :
    ∀ fuel k, k ≤ w - 1 → rp2Loop w i fuel (2^k) = none := by
  intro fuel
  induction fuel with
  | zero => intro k _; rfl
  | succ f ih =>
    intro k hk
    have hlt : 2^k < i := Nat.lt_of_le_of_lt (Nat.pow_le_pow_right (by omega) hk) hi
    simp only [rp2Loop, hlt, if_true]
    by_cases hk1 : k + 1 ≤ w - 1
    · have hmod : (2^k * 2) % 2^w = 2^(k+1) := by
        rw [← Nat.pow_succ]; apply Nat.mod_eq_of_lt
        apply Nat.pow_lt_pow_right (by omega) (by omega)
      rw [hmod]; exact ih (k+1) hk1
    · have : k + 1 = w := by omega
      have hmod : (2^k * 2) % 2^w = 0 := by
        rw [← Nat.pow_succ]; show 2^(k+1) % 2^w = 0; rw [this]; exact Nat.mod_self _
      rw [hmod]
      exact rp2Loop_zero_diverges w i f (Nat.lt_of_le_of_lt (Nat.zero_le _) hi)

theorem mm (a b n : Nat) : (a % n * b) % n = (a * b) % n := by
  rw [Nat.mul_mod, Nat.mod_mod, ← Nat.mul_mod]
theorem mm' (a b n : Nat) : (a * (b % n)) % n = (a * b) % n := by
  rw [Nat.mul_mod, Nat.mod_mod, ← Nat.mul_mod]
theorem pm (a k n : Nat) : (a % n)^k % n = a^k % n := (Nat.pow_mod a k n).symm

theorem ipowLoop_spec (w fuel r i p : Nat) (hf : p < fuel ∨ p = 0) :
    ipowLoop w fuel r i p % 2^w = (r * i^p) % 2^w := by
  induction fuel generalizing r i p with
  | zero =>
    have : p = 0 := by omega
    subst this; simp [ipowLoop]
  | succ fuel ih =>
    simp only [ipowLoop]
    by_cases hp : p = 0
    · subst hp; simp
    · simp only [hp, if_false]
      have hp2 : p / 2 < fuel ∨ p / 2 = 0 := by omega
      rw [ih _ _ _ hp2]
      have hdm := Nat.div_add_mod p 2
      by_cases hodd : p % 2 = 1
      · simp only [hodd, if_true]
        have e : i^p = (i*i)^(p/2) * i := by
          have : p = 2 * (p/2) + 1 := by omega
          conv => lhs; rw [this, Nat.pow_succ, Nat.pow_mul, Nat.pow_two]
        rw [e, mm, ← mm' _ ((i * i % 2 ^ w) ^ (p / 2)), pm, mm']
        congr 1; ac_rfl
      · have hev : p % 2 = 0 := by omega
        simp only [hev]
        have e : i^p = (i*i)^(p/2) := by
          have : p = 2 * (p/2) := by omega
          conv => lhs; rw [this, Nat.pow_mul, Nat.pow_two]
        rw [e, ← mm' _ ((i * i % 2 ^ w) ^ (p / 2)), pm, mm']
        simp

/-- every intermediate `r` of the loop is reduced mod 2^w -/
theorem ipowLoop_lt (w fuel r i p : Nat) (hr : r < 2^w) : ipowLoop w fuel r i p < 2^w := by
  induction fuel generalizing r i p with
  | zero => simpa [ipowLoop]
  | succ fuel ih =>
    simp only [ipowLoop]
    split
    · exact hr
    · apply ih
      split
      · exact Nat.mod_lt _ (Nat.two_pow_pos w)
      · exact hr

end Covfie
