import CovfieModel.Model.Layout
namespace Covfie

theorem testBit_two_pow_or (b : Bool) (pos x p : Nat) :
    ((if b then 2^pos else 0) ||| x).testBit p = ((b && decide (p = pos)) || x.testBit p) := by
  rw [Nat.testBit_or]
  cases b <;> simp [Nat.testBit_two_pow, eq_comm]

/-- number of mask bits strictly below pos -/
def cnt (N I pos : Nat) : Nat := if pos ≤ I then 0 else (pos - I + N - 1) / N

theorem pdepAux_testBit (src mask N I : Nat) (hN : 0 < N)
    (hm : ∀ p, mask.testBit p = maskBit N I p) :
    ∀ fuel pos, pos + fuel = 64 → ∀ p,
      (pdepAux src mask fuel pos (cnt N I pos)).testBit p =
        (decide (pos ≤ p) && maskBit N I p && src.testBit ((p - I) / N)) := by
  intro fuel
  induction fuel with
  | zero =>
    intro pos hpos p
    simp only [pdepAux, Nat.zero_testBit]
    have : pos = 64 := by omega
    subst this
    by_cases h : 64 ≤ p
    · simp [maskBit]; intro h1; omega
    · simp [h]
  | succ f ih =>
    intro pos hpos p
    have hpos64 : pos < 64 := by omega
    simp only [pdepAux]
    by_cases hb : mask.testBit pos
    · -- a mask bit at pos: pos ≥ I, (pos-I)%N = 0, k = (pos-I)/N, next count = k+1
      have hb' := hb; rw [hm] at hb'; simp [maskBit] at hb'
      obtain ⟨_, hI, hmod⟩ := hb'
      have hk : cnt N I pos = (pos - I) / N := by
        unfold cnt
        by_cases e : pos ≤ I
        · have : pos = I := by omega
          subst this; simp
        · simp only [e, if_false]
          -- (d + N - 1)/N = d/N when N | d and d>0 ... d = N*q
          obtain ⟨q, hq⟩ := Nat.dvd_of_mod_eq_zero hmod
          rw [hq]
          rw [Nat.mul_div_cancel_left _ hN]
          have : N * q + N - 1 = N * q + (N - 1) := by omega
          rw [this, Nat.mul_add_div hN, Nat.div_eq_of_lt (by omega)]; simp
      have hk1 : cnt N I (pos+1) = (pos - I) / N + 1 := by
        unfold cnt
        have e : ¬ pos + 1 ≤ I := by omega
        simp only [e, if_false]
        obtain ⟨q, hq⟩ := Nat.dvd_of_mod_eq_zero hmod
        have : pos + 1 - I + N - 1 = N * q + N := by omega
        rw [this, hq, Nat.mul_div_cancel_left _ hN]
        have : N * q + N = N * (q + 1) := by rw [Nat.mul_add]; simp
        rw [this, Nat.mul_div_cancel_left _ hN]
      simp only [hb, if_true]
      rw [hk, ← hk1, testBit_two_pow_or, ih (pos+1) (by omega) p]
      by_cases hp : p = pos
      · subst hp
        have : maskBit N I p = true := by rw [← hm]; exact hb
        simp [this]
      · by_cases hlt : pos ≤ p
        · have : pos + 1 ≤ p := by omega
          simp [hp, hlt, this]
        · have : ¬ pos + 1 ≤ p := by omega
          simp [hp, hlt, this]
    · -- no mask bit at pos: count unchanged
      have hb' : maskBit N I pos = false := by rw [← hm]; simpa using hb
      have hk1 : cnt N I (pos+1) = cnt N I pos := by
        simp [maskBit, hpos64] at hb'
        unfold cnt
        by_cases e : pos < I
        · have e1 : pos + 1 ≤ I := by omega
          have e2 : pos ≤ I := by omega
          simp [e1, e2]
        · have hI : I ≤ pos := by omega
          have hmod := hb' hI
          have e1 : ¬ pos + 1 ≤ I := by omega
          by_cases e2 : pos ≤ I
          · have : pos = I := by omega
            subst this; simp at hmod
          · simp only [e1, e2, if_false]
            -- d = pos - I, d % N ≠ 0: ceil((d+1)/N) = ceil(d/N)
            have hd := Nat.div_add_mod (pos - I) N
            have hr := Nat.mod_lt (pos - I) hN
            generalize hq : (pos - I) / N = q at *
            generalize hrr : (pos - I) % N = r at *
            have hr1 : 1 ≤ r := by omega
            have e3 : pos + 1 - I + N - 1 = N * (q + 1) + r := by rw [Nat.mul_add]; omega
            have e4 : pos - I + N - 1 = N * (q + 1) + (r - 1) := by rw [Nat.mul_add]; omega
            rw [e3, e4, Nat.mul_add_div hN, Nat.mul_add_div hN]
            have a1 : r / N = 0 := Nat.div_eq_of_lt (by omega)
            have a2 : (r - 1) / N = 0 := Nat.div_eq_of_lt (by omega)
            rw [a1, a2]
      rw [if_neg hb, ← hk1, ih (pos+1) (by omega) p]
      by_cases hp : p = pos
      · subst hp; simp [hb']
      · by_cases hlt : pos ≤ p
        · have : pos + 1 ≤ p := by omega
          simp [hlt, this]
        · have : ¬ pos + 1 ≤ p := by omega
          simp [hlt, this]

theorem pdep_testBit (src mask N I : Nat) (hN : 0 < N) (hm : ∀ p, mask.testBit p = maskBit N I p) (p : Nat) :
    (pdep src mask).testBit p = (maskBit N I p && src.testBit ((p - I) / N)) := by
  unfold pdep
  have := pdepAux_testBit src mask N I hN hm 64 0 (by omega) p
  simp [cnt] at this
  exact this

end Covfie
