import CovfieModel.Model.Perm
namespace Covfie

theorem filter_split_perm (p : Nat) (xs : List Nat) :
    (xs.filter (· < p) ++ xs.filter (fun x => decide (x ≥ p))).Perm xs := by
  induction xs with
  | nil => simp
  | cons x xs ih =>
    by_cases h : x < p
    · have : ¬ x ≥ p := by omega
      simp [h, this]; exact ih
    · have : x ≥ p := by omega
      simp only [List.filter_cons, h, this, decide_true, decide_false, if_true]
      simp
      exact (List.perm_middle).trans (List.Perm.cons _ ih)

theorem sortFuel_perm (f : Nat) (l : List Nat) (h : l.length ≤ f) : (sortFuel f l).Perm l := by
  induction f generalizing l with
  | zero => have : l = [] := List.length_eq_zero_iff.mp (by omega); subst this; simp [sortFuel]
  | succ f ih =>
    cases l with
    | nil => simp [sortFuel]
    | cons p xs =>
      simp only [sortFuel]
      have l1 : (xs.filter (· < p)).length ≤ f := by have := List.length_filter_le (· < p) xs; simp at h; omega
      have l2 : (xs.filter (fun x => decide (x ≥ p))).length ≤ f := by have := List.length_filter_le (fun x => decide (x ≥ p)) xs; simp at h; omega
      have hh := (List.Perm.append (ih _ l1) (ih _ l2)).trans (filter_split_perm p xs)
      exact (List.perm_middle).trans (List.Perm.cons _ hh)

theorem sortFuel_sorted (f : Nat) (l : List Nat) (h : l.length ≤ f) : (sortFuel f l).Pairwise (· ≤ ·) := by
  induction f generalizing l with
  | zero => have : l = [] := List.length_eq_zero_iff.mp (by omega); subst this; simp [sortFuel]
  | succ f ih =>
    cases l with
    | nil => simp [sortFuel]
    | cons p xs =>
      simp only [sortFuel]
      have l1 : (xs.filter (· < p)).length ≤ f := by have := List.length_filter_le (· < p) xs; simp at h; omega
      have l2 : (xs.filter (fun x => decide (x ≥ p))).length ≤ f := by have := List.length_filter_le (fun x => decide (x ≥ p)) xs; simp at h; omega
      rw [List.pairwise_append]
      refine ⟨ih _ l1, ?_, ?_⟩
      · rw [List.pairwise_cons]
        refine ⟨?_, ih _ l2⟩
        intro a ha
        have := (sortFuel_perm f _ l2).mem_iff.mp ha
        simp at this; omega
      · intro a ha b hb
        have ha' := (sortFuel_perm f _ l1).mem_iff.mp ha
        simp at ha'
        rcases List.mem_cons.mp hb with rfl | hb
        · omega
        · have hb' := (sortFuel_perm f _ l2).mem_iff.mp hb
          simp at hb'; omega

end Covfie
