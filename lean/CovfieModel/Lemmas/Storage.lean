import CovfieModel.Model.Storage
namespace Covfie
variable {α : Type}

theorem Store.write_some (s : Store α) (i : Nat) (v : α) (h : i < s.cells.length) :
    ∃ s', s.write i v = some s' ∧ s'.cells.length = s.cells.length := by
  simp [Store.write, h]

theorem Store.read_write_same (s s' : Store α) (i : Nat) (v : α) (h : s.write i v = some s') :
    s'.read i = some v := by
  unfold Store.write at h
  split at h
  · injection h with h; subst h; simp [Store.read, *]
  · simp at h

theorem Store.read_write_other (s s' : Store α) (i j : Nat) (v : α) (h : s.write i v = some s') (hne : i ≠ j) :
    s'.read j = s.read j := by
  unfold Store.write at h
  split at h
  · injection h with h; subst h; simp [Store.read, List.getElem?_set_ne hne]
  · simp at h
end Covfie
