import CovfieModel.Model.Layout
import CovfieModel.Model.NdMap
namespace Covfie

theorem prod_pos_of_inBox (sz c : List Nat) (h : InBox sz c) : 0 < prod sz := by
  induction sz generalizing c with
  | nil => simp [prod]
  | cons s ss ih =>
    cases c with
    | nil => simp [InBox] at h
    | cons c cs =>
      have := ih cs h.2
      simp only [prod]
      exact Nat.mul_pos (by have := h.1; omega) this

theorem strided_lt (sz c : List Nat) (h : InBox sz c) : stridedIdx sz c < prod sz := by
  induction sz generalizing c with
  | nil => cases c <;> simp_all [InBox, stridedIdx, prod]
  | cons s ss ih =>
    cases c with
    | nil => simp [InBox] at h
    | cons c cs =>
      obtain ⟨h1, h2⟩ := h
      have := ih cs h2
      simp only [stridedIdx, prod]
      have : (c + 1) * prod ss ≤ s * prod ss := Nat.mul_le_mul_right _ h1
      rw [Nat.add_mul] at this
      omega

theorem split_eq' (S q e q' e' : Nat) (he : e < S) (he' : e' < S) (h : q*S+e = q'*S+e') :
    q = q' ∧ e = e' := by
  have hS : 0 < S := by omega
  have h1 : (q*S+e)/S = q := by rw [Nat.mul_comm, Nat.mul_add_div hS, Nat.div_eq_of_lt he]; simp
  have h2 : (q'*S+e')/S = q' := by rw [Nat.mul_comm, Nat.mul_add_div hS, Nat.div_eq_of_lt he']; simp
  have h3 : (q*S+e)%S = e := by rw [Nat.mul_comm, Nat.mul_add_mod]; exact Nat.mod_eq_of_lt he
  have h4 : (q'*S+e')%S = e' := by rw [Nat.mul_comm, Nat.mul_add_mod]; exact Nat.mod_eq_of_lt he'
  rw [h] at h1 h3
  exact ⟨by omega, by omega⟩

theorem strided_inj (sz c c' : List Nat) (h : InBox sz c) (h' : InBox sz c')
    (e : stridedIdx sz c = stridedIdx sz c') : c = c' := by
  induction sz generalizing c c' with
  | nil => cases c <;> cases c' <;> simp_all [InBox]
  | cons s ss ih =>
    cases c with
    | nil => simp [InBox] at h
    | cons a as =>
      cases c' with
      | nil => simp [InBox] at h'
      | cons b bs =>
        obtain ⟨h1, h2⟩ := h
        obtain ⟨h1', h2'⟩ := h'
        simp only [stridedIdx] at e
        obtain ⟨e1, e2⟩ := split_eq' _ _ _ _ _ (strided_lt ss as h2) (strided_lt ss bs h2') e
        rw [e1, ih as bs h2 h2' e2]

theorem stridedTmpW_zero (w : Nat) (ss : List Nat) : stridedTmpW w 0 ss = 0 := by
  induction ss with
  | nil => rfl
  | cons s ss ih => simp [stridedTmpW, ih]

/-- the inner loop `tmp *= sizes[l]` does not wrap when the full product fits -/
theorem stridedTmpW_eq (w tmp : Nat) (ss : List Nat) (h : tmp * prod ss < 2^w) (hp : 0 < prod ss) :
    stridedTmpW w tmp ss = tmp * prod ss := by
  induction ss generalizing tmp with
  | nil => simp [stridedTmpW, prod]
  | cons s ss ih =>
    by_cases ht : tmp = 0
    · subst ht; simp [stridedTmpW_zero]
    · simp only [prod] at h hp
      have hpp : 0 < prod ss := Nat.pos_of_ne_zero (by intro e; rw [e] at hp; simp at hp)
      have h1 : tmp * s * prod ss < 2^w := by rw [Nat.mul_assoc]; exact h
      have h2 : tmp * s < 2^w := Nat.lt_of_le_of_lt (Nat.le_mul_of_pos_right _ hpp) h1
      have h3 : s < 2^w := Nat.lt_of_le_of_lt (Nat.le_mul_of_pos_left _ (Nat.pos_of_ne_zero ht)) h2
      simp only [stridedTmpW, prod]
      rw [Nat.mod_eq_of_lt h3, Nat.mod_eq_of_lt h2, ih _ h1 hpp, Nat.mul_assoc]

/-- `strided::at` computes the unbounded row-major index whenever the number of cells fits the coordinate type -/
theorem strided_nowrap (w : Nat) (sz c : List Nat) (h : InBox sz c) (hfit : prod sz ≤ 2^w) :
    stridedIdxW w sz c = stridedIdx sz c := by
  induction sz generalizing c with
  | nil => cases c <;> simp_all [InBox, stridedIdxW, stridedIdx]
  | cons s ss ih =>
    cases c with
    | nil => simp [InBox] at h
    | cons c cs =>
      obtain ⟨h1, h2⟩ := h
      have hpp : 0 < prod ss := prod_pos_of_inBox ss cs h2
      simp only [prod] at hfit
      have hss : prod ss ≤ 2^w := Nat.le_trans (Nat.le_mul_of_pos_left _ (by omega)) hfit
      have hlt := strided_lt ss cs h2
      have hc1 : (c + 1) * prod ss ≤ s * prod ss := Nat.mul_le_mul_right _ h1
      rw [Nat.add_mul] at hc1
      have hcp : c * prod ss < 2^w := by omega
      have hcw : c < 2^w := Nat.lt_of_le_of_lt (Nat.le_mul_of_pos_right _ hpp) hcp
      simp only [stridedIdxW, stridedIdx]
      rw [Nat.mod_eq_of_lt hcw, stridedTmpW_eq w c ss hcp hpp, ih cs h2 hss]
      apply Nat.mod_eq_of_lt
      omega

end Covfie
