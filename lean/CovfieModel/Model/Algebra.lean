/-! Model of `covfie/core/algebra/{matrix,vector,affine}.hpp`: matrices as functions on `Fin`, loops as folds. -/
namespace Covfie

/-- `t = 0; for k: t += f k` -/
def sumFin {α : Type} [Add α] [OfNat α 0] (n : Nat) (f : Fin n → α) : α :=
  (List.finRange n).foldl (fun acc k => acc + f k) 0

/-- `matrix::operator*` -/
def matMul {α : Type} [Add α] [Mul α] [OfNat α 0] {n m p : Nat}
    (A : Fin n → Fin m → α) (B : Fin m → Fin p → α) : Fin n → Fin p → α :=
  fun i j => sumFin m (fun k => A i k * B k j)

/-- homogeneous embedding of an N×(N+1) affine matrix into (N+1)×(N+1): last row (0,…,0,1) -/
def embed {α : Type} [OfNat α 0] [OfNat α 1] {N : Nat} (A : Fin N → Fin (N+1) → α) : Fin (N+1) → Fin (N+1) → α :=
  fun i j => if h : i.val < N then A ⟨i.val, h⟩ j else (if j.val = N then 1 else 0)

/-- `affine::operator*(affine)`: embed both, multiply, drop the last row -/
def affMul {α : Type} [Add α] [Mul α] [OfNat α 0] [OfNat α 1] {N : Nat}
    (P Q : Fin N → Fin (N+1) → α) : Fin N → Fin (N+1) → α :=
  fun i j => matMul (embed P) (embed Q) (Fin.castSucc i) j

/-- `affine::operator*(vector)`: r = (v, 1); matrix * r -/
def affApply {α : Type} [Add α] [Mul α] [OfNat α 0] [OfNat α 1] {N : Nat}
    (A : Fin N → Fin (N+1) → α) (v : Fin N → α) : Fin N → α :=
  fun i => sumFin (N+1) (fun k => A i k * (if h : k.val < N then v ⟨k.val, h⟩ else 1))

/-- `matrix::identity()` on N×(N+1) -/
def affId {α : Type} [OfNat α 0] [OfNat α 1] (N : Nat) : Fin N → Fin (N+1) → α :=
  fun i j => if i.val = j.val then 1 else 0
/-- `affine::translation(t…)`: identity with column N set -/
def affTranslation {α : Type} [OfNat α 0] [OfNat α 1] {N : Nat} (t : Fin N → α) : Fin N → Fin (N+1) → α :=
  fun i j => if j.val = N then t i else affId N i j
/-- `affine::scaling(s…)`: identity with the diagonal set -/
def affScaling {α : Type} [OfNat α 0] [OfNat α 1] {N : Nat} (s : Fin N → α) : Fin N → Fin (N+1) → α :=
  fun i j => if i.val = j.val then s i else affId N i j

end Covfie
