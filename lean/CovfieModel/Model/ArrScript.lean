import CovfieModel.Model.IO
/-! The array layer's `write_binary` / `read_binary` as scripts of the statements they are written in (`harness/cxx2io.py`,
`io_array`): the width word chosen from the scalar type, the raw cell count, the loop over cells and components. -/
namespace Covfie.IO

inductive AW | hdr | widthOfType | rawWidth | rawSize | cellLoop | ftr
  deriving DecidableEq, Repr
inductive AR | hdr | readWidth | checkWidth | readSize | alloc | cellLoop | ftr | ret
  deriving DecidableEq, Repr

/-- `for i < count: for j < M: fs.write(&ptr[i][j], wd)` over the flat cell list -/
def cellBytes (wd M : Nat) (cells : List Nat) (count : Nat) : List Byte :=
  (List.range count).flatMap fun i => (List.range M).flatMap fun j => le wd (cells.getD (i * M + j) 0)

/-- the writer; `widthOfType` sets the local `float_width` (to the scalar's size `wd`) and writes nothing -/
def awr (M wd count : Nat) (cells : List Nat) : List AW → List Byte
  | [] => []
  | .hdr :: r => hdr T_ARRAY ++ awr M wd count cells r
  | .widthOfType :: r => awr M wd count cells r
  | .rawWidth :: r => le 4 wd ++ awr M wd count cells r
  | .rawSize :: r => le 8 count ++ awr M wd count cells r
  | .cellLoop :: r => cellBytes wd M cells count ++ awr M wd count cells r
  | .ftr :: r => ftr T_ARRAY ++ awr M wd count cells r

/-- one component: `if (float_width == 4) read<float> else if (float_width == 8) read<double> else throw` -/
def compP (wd : Nat) : Parser Nat := if wd = 4 then rd 4 else if wd = 8 then rd 8 else failP .badWidth

/-- `for i < n: for j < M: ptr[i][j] = …` -/
def loopP {α} (p : Parser (List α)) : Nat → Parser (List α)
  | 0 => pureP []
  | n+1 => bindP p fun a => bindP (loopP p n) fun as => pureP (a ++ as)

/-- the reader, over the locals `float_width`, `size` and the cells read so far -/
def ard (M : Nat) : List AR → Nat → Nat → List Nat → Parser Dat
  | [], _, _, _ => failP .truncated
  | .hdr :: r, wd, n, c => bindP (pHdr T_ARRAY) fun _ => ard M r wd n c
  | .readWidth :: r, _, n, c => bindP (rd 4) fun w => ard M r w n c
  | .checkWidth :: r, wd, n, c => if wd ≠ 4 ∧ wd ≠ 8 then failP .badWidth else ard M r wd n c
  | .readSize :: r, wd, _, c => bindP (rd 8) fun n => ard M r wd n c
  | .alloc :: r, wd, n, _ => ard M r wd n []
  | .cellLoop :: r, wd, n, _ => bindP (loopP (readN (compP wd) M) n) fun cells => ard M r wd n cells
  | .ftr :: r, wd, n, c => bindP (pFtr T_ARRAY) fun _ => ard M r wd n c
  | .ret :: _, wd, n, c => pureP (.array wd n c)

def AW.name : AW → String
  | .hdr => "hdr" | .widthOfType => "widthOfType" | .rawWidth => "rawWidth" | .rawSize => "rawSize" | .cellLoop => "cellLoop" | .ftr => "ftr"
def AR.name : AR → String
  | .hdr => "hdr" | .readWidth => "readWidth" | .checkWidth => "checkWidth" | .readSize => "readSize" | .alloc => "alloc"
  | .cellLoop => "cellLoop" | .ftr => "ftr" | .ret => "ret"

namespace ARef
def write : List AW := [.hdr, .widthOfType, .rawWidth, .rawSize, .cellLoop, .ftr]
def read : List AR := [.hdr, .readWidth, .checkWidth, .readSize, .alloc, .cellLoop, .ftr, .ret]
def text : String :=
  s!"(arrio {T_ARRAY} (write {" ".intercalate (write.map AW.name)}) (read {" ".intercalate (read.map AR.name)}))"
end ARef

end Covfie.IO
