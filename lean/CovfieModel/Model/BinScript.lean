import CovfieModel.Model.IO
/-! `utility/binary_io.hpp` as scripts: the statements of `read_io_header`, `read_io_footer`, `write_io_header`,
`write_io_footer` and `read_binary<T>` (`harness/cxx2bin.py` recognises each statement). -/
namespace Covfie.IO

/-- the two 32-bit words a header / footer function handles: the global magic and the layer's tag -/
inductive Wd32 | magicH | magicF | tag
  deriving DecidableEq, Repr

inductive BItem
  | bump                         -- ftr += 0x20000000;
  | read (k : Nat)               -- word_k = read_binary<uint32_t>(fs);     (throws on a short read)
  | check (k : Nat) (w : Wd32)   -- if (word_k != w) { … throw std::runtime_error(…); }
  | write (w : Wd32)             -- fs.write(reinterpret_cast<const char *>(&w), sizeof(decltype(w)));
  | ret                          -- return fs;
  deriving DecidableEq, Repr

def Wd32.val (t : Nat) : Wd32 → Nat
  | .magicH => MAGH
  | .magicF => MAGF
  | .tag => t

/-- reader script: state = the (possibly bumped) tag and the words read so far; `none` = an exception was thrown -/
def runR : List BItem → Nat → List Nat → List Byte → Option (List Byte)
  | [], _, _, bs => some bs
  | .bump :: is, t, ws, bs => runR is (t + FOOT) ws bs
  | .read _ :: is, t, ws, bs =>
      match rd 4 bs with
      | .error _ => none
      | .ok (v, r) => runR is t (ws ++ [v]) r
  | .check k w :: is, t, ws, bs => if ws.getD (k - 1) 0 ≠ w.val t then none else runR is t ws bs
  | .write _ :: is, t, ws, bs => runR is t ws bs
  | .ret :: _, _, _, bs => some bs

/-- writer script: the bytes written -/
def runW : List BItem → Nat → List Byte
  | [], _ => []
  | .bump :: is, t => runW is (t + FOOT)
  | .write w :: is, t => le 4 (w.val t) ++ runW is t
  | .ret :: _, _ => []
  | _ :: is, t => runW is t

def toOpt {α} : Except IOErr (α × List Byte) → Option (List Byte)
  | .ok (_, r) => some r
  | .error _ => none

namespace BRef
def read_io_header : List BItem := [.read 1, .read 2, .check 1 .magicH, .check 2 .tag, .ret]
def read_io_footer : List BItem := [.bump, .read 1, .read 2, .check 1 .magicF, .check 2 .tag, .ret]
def write_io_header : List BItem := [.write .magicH, .write .tag, .ret]
def write_io_footer : List BItem := [.bump, .write .magicF, .write .tag, .ret]
end BRef

def Wd32.name : Wd32 → String | .magicH => "MAGIC_HEADER" | .magicF => "MAGIC_FOOTER" | .tag => "tag"
def BItem.name : BItem → String
  | .bump => "bump" | .read k => s!"(read {k})" | .check k w => s!"(check {k} {w.name})" | .write w => s!"(write {w.name})" | .ret => "ret"
def bscriptSexp (l : List BItem) : String := "(bin " ++ " ".intercalate (l.map BItem.name) ++ ")"

def BRef.all : List (String × String) :=
  [("read_io_header", bscriptSexp BRef.read_io_header), ("read_io_footer", bscriptSexp BRef.read_io_footer),
   ("write_io_header", bscriptSexp BRef.write_io_header), ("write_io_footer", bscriptSexp BRef.write_io_footer),
   ("read_binary", "(read_binary local read-or-throw return)"),
   ("magic", s!"(magic {MAGH} {MAGF} {FOOT})")]

end Covfie.IO
