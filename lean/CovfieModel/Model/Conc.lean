/-! Concurrent lookups and view writes at the level of storage cells (the footprints of the evaluator's traces). -/
namespace Covfie.Conc

abbrev Mem := Nat → Nat

/-- an action of a thread: a lookup reading a set of cells, or a view write to one cell -/
inductive Act
  | read (cells : List Nat)
  | write (cell v : Nat)

def Act.reads : Act → List Nat | .read cs => cs | .write _ _ => []
def Act.writes : Act → List Nat | .read _ => [] | .write c _ => [c]

/-- execute one action: new memory and the values obtained -/
def exec (m : Mem) : Act → Mem × List Nat
  | .read cs => (m, cs.map m)
  | .write c v => (fun x => if x = c then v else m x, [])

/-- run a list of actions alone, collecting the values of every action -/
def solo (m : Mem) : List Act → Mem × List (List Nat)
  | [] => (m, [])
  | a :: as => let (m', o) := exec m a; let (m'', os) := solo m' as; (m'', o :: os)

structure State where
  mem : Mem
  rest : Nat → List Act          -- remaining actions per thread
  done : Nat → List Act          -- executed actions per thread (ghost)
  out : Nat → List (List Nat)    -- values obtained per thread so far

def upd {α} (f : Nat → α) (i : Nat) (v : α) : Nat → α := fun j => if j = i then v else f j

/-- thread `t` performs its next action (no-op when it has finished) -/
def step (s : State) (t : Nat) : State :=
  match s.rest t with
  | [] => s
  | a :: as =>
    let (m', o) := exec s.mem a
    { mem := m', rest := upd s.rest t as, done := upd s.done t (s.done t ++ [a]), out := upd s.out t (s.out t ++ [o]) }

def init (m : Mem) (prog : Nat → List Act) : State := ⟨m, prog, fun _ => [], fun _ => []⟩
def run (s : State) (sched : List Nat) : State := sched.foldl step s

/-- cells a thread ever touches -/
def footprint (as : List Act) : List Nat := as.flatMap fun a => a.reads ++ a.writes
def writeSet (as : List Act) : List Nat := as.flatMap Act.writes

/-- no cell written by one thread is read or written by another -/
def NoConflict (prog : Nat → List Act) : Prop :=
  ∀ t u, t ≠ u → ∀ x, x ∈ writeSet (prog u) → x ∉ footprint (prog t)

end Covfie.Conc
