/-! Construction from parameter packs and configuration read-back (owning data as a nest of (configuration, backend)). -/
namespace Covfie.Config

/-- a configuration value (sizes, box, matrix, …) as an opaque word list tagged by the layer's configuration type -/
structure Cfg where
  ty : Nat
  val : List Nat
  deriving DecidableEq, Repr

/-- owning data of a stack: the outermost layer's configuration and the owning data of what lies beneath -/
inductive Own
  | prim (cfg : Cfg)
  | layer (cfg : Cfg) (b : Own)
  deriving DecidableEq, Repr

/-- `owning_data_t(parameter_pack<configuration_t, Args...>&& args) : m_cfg(args.x), m_backend(std::move(args.xs))` -/
def construct : List Cfg → Option Own
  | [] => none
  | [c] => some (.prim c)
  | c :: c' :: cs => (construct (c' :: cs)).map (.layer c)

def getConfig : Own → Cfg | .prim c => c | .layer c _ => c
def getBackend : Own → Option Own | .prim _ => none | .layer _ b => some b
/-- `get_backend()` applied `i` times -/
def nthLayer : Own → Nat → Option Own
  | o, 0 => some o
  | o, i+1 => (getBackend o).bind (nthLayer · i)
/-- all configurations, outermost first -/
def configs : Own → List Cfg | .prim c => [c] | .layer c b => c :: configs b
def depth : Own → Nat | .prim _ => 1 | .layer _ b => depth b + 1

/-- `make_parameter_pack_for<F>(a0, …, a_{k-1})`: the generated overload for depth `k` forwards its arguments in order -/
def packFor : List Cfg → List Cfg
  | [] => []
  | a :: as => a :: packFor as

end Covfie.Config
