import CovfieModel.Model.NdMap
/-! Re-layout copies (`make_strided_copy`, `make_morton_copy`, `make_hilbert_copy`): a fold of writes over `nd_map`. -/
namespace Covfie

/-- sparse storage: what has been written where (unwritten cells keep their initial content) -/
def writeF {α} (st : Nat → Option α) (i : Nat) (v : α) : Nat → Option α := fun j => if j = i then some v else st j

/-- `nd_map([&](t){ res[idx(t)] = nother.at(t); }, sizes)` -/
def fill {α} (idx : List Nat → Nat) (src : List Nat → α) (ts : List (List Nat)) (st : Nat → Option α) : Nat → Option α :=
  ts.foldl (fun st t => writeF st (idx t) (src t)) st

/-- the converting constructor of a storage-order layer: same extents, storage rebuilt cell by cell -/
def convert {α} (idx : List Nat → Nat) (sizes : List Nat) (src : List Nat → α) : Nat → Option α :=
  fill idx src (ndMap sizes) (fun _ => none)

/-- the same fold over tabulated storage (what the driver runs; `C05.convertA_get` ties it to `convert`): writes
    outside the allocated length are dropped here — in the code they are out-of-bounds accesses (C01 `*_in_storage`) -/
def fillA {α} (idx : List Nat → Nat) (src : List Nat → α) (ts : List (List Nat)) (st : Array α) : Array α :=
  ts.foldl (fun st t => st.setIfInBounds (idx t) (src t)) st
def convertA {α} (idx : List Nat → Nat) (sizes : List Nat) (len : Nat) (zero : α) (src : List Nat → α) : Array α :=
  fillA idx src (ndMap sizes) (Array.replicate len zero)

end Covfie
