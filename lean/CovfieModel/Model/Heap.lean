/-! Ownership machine of `backend::array::owning_data_t` (as repaired) and the plain value model it must refine. -/
namespace Covfie.Heap

abbrev Addr := Nat
structure Own where
  size : Nat
  ptr : Option Addr
  deriving DecidableEq

/-- concrete state: a heap of buffers, a bump allocator, the owning record of every slot, an error flag -/
structure CState where
  heap : Addr → Option (List Nat)
  next : Addr
  slots : Nat → Option Own
  bad : Bool

inductive Op
  | ctor (i n : Nat)
  | dtor (i : Nat)
  | copyCtor (dst src : Nat)
  | moveCtor (dst src : Nat)
  | copyAssign (dst src : Nat)
  | moveAssign (dst src : Nat)
  | write (i k v : Nat)
  | convert (dst src : Nat)      -- layout conversion: construct `dst` (another storage order) from `src`, cell by cell
  | dumpLoad (dst src : Nat)     -- dump `src` to a stream; load it into `dst` (constructed, or move-assigned from the loaded temporary)

def upd {α} (f : Nat → Option α) (i : Nat) (v : Option α) : Nat → Option α := fun j => if j = i then v else f j
def zeros (n : Nat) : List Nat := List.replicate n 0

/-- what a copy reads from its source: the buffer, or value-initialised cells when the pointer is null -/
def srcBuf (s : CState) (o : Own) : List Nat :=
  match o.ptr with
  | some a => (s.heap a).getD (zeros o.size)
  | none => zeros o.size

/-- an object whose cells may be read one by one (conversion, dump): it owns a buffer, or it has no cells at all.
    Reading the cells of a moved-from object of non-zero size dereferences a null pointer; such programs are
    outside the property (the harness never runs them) and both machines treat them as no-ops. -/
def Own.readable (o : Own) : Bool := o.ptr.isSome || o.size == 0

/-- `unique_ptr` destructor / reset -/
def free (s : CState) (p : Option Addr) : CState :=
  match p with
  | none => s
  | some a => match s.heap a with
    | none => { s with bad := true }          -- double free
    | some _ => { s with heap := upd s.heap a none }

def cstep (s : CState) : Op → CState
  | .ctor i n => match s.slots i with
    | some _ => s
    | none => { s with heap := upd s.heap s.next (some (zeros n)), next := s.next + 1,
                       slots := upd s.slots i (some ⟨n, some s.next⟩) }
  | .dtor i => match s.slots i with
    | none => s
    | some o => { free s o.ptr with slots := upd s.slots i none }
  | .copyCtor dst src => match s.slots dst, s.slots src with
    | none, some o => { s with heap := upd s.heap s.next (some (srcBuf s o)), next := s.next + 1,
                               slots := upd s.slots dst (some ⟨o.size, some s.next⟩) }
    | _, _ => s
  | .moveCtor dst src => match s.slots dst, s.slots src with
    | none, some o => { s with slots := upd (upd s.slots src (some ⟨o.size, none⟩)) dst (some o) }
    | _, _ => s
  | .copyAssign dst src => match s.slots dst, s.slots src with
    | some d, some o =>
      if dst = src then s else
        let s1 : CState := { s with heap := upd s.heap s.next (some (srcBuf s o)), next := s.next + 1 }
        { free s1 d.ptr with slots := upd s.slots dst (some ⟨o.size, some s.next⟩) }
    | _, _ => s
  | .moveAssign dst src => match s.slots dst, s.slots src with
    | some d, some o =>
      if dst = src then s else
        { free s d.ptr with slots := upd (upd s.slots src (some ⟨o.size, none⟩)) dst (some o) }
    | _, _ => s
  | .write i k v => match s.slots i with
    | some ⟨_, some a⟩ => match s.heap a with
      | some buf => if k < buf.length then { s with heap := upd s.heap a (some (buf.set k v)) } else s
      | none => { s with bad := true }         -- use after free
    | _ => s
  -- Buffers are kept in coordinate (row-major) order, so a conversion is a cell-by-cell copy into a fresh buffer;
  -- that the storage orders are bijections onto their buffers is C01 / C05's business, not this machine's.
  | .convert dst src => match s.slots dst, s.slots src with
    | none, some o =>
      if o.readable then
        { s with heap := upd s.heap s.next (some (srcBuf s o)), next := s.next + 1,
                 slots := upd s.slots dst (some ⟨o.size, some s.next⟩) }
      else s
    | _, _ => s
  | .dumpLoad dst src => match s.slots src with
    | some o =>
      if o.readable then
        match s.slots dst with
        | none => { s with heap := upd s.heap s.next (some (srcBuf s o)), next := s.next + 1,
                           slots := upd s.slots dst (some ⟨o.size, some s.next⟩) }
        | some d =>      -- the loaded temporary owns a fresh buffer; move assignment releases `dst`'s and adopts it
          let s1 : CState := { s with heap := upd s.heap s.next (some (srcBuf s o)), next := s.next + 1 }
          { free s1 d.ptr with slots := upd s.slots dst (some ⟨o.size, some s.next⟩) }
      else s
    | none => s

def cinit : CState := ⟨fun _ => none, 0, fun _ => none, false⟩

/-! ### the plain value model -/
inductive AVal
  | live (cells : List Nat)
  | moved (n : Nat)           -- moved-from object of (stale) size n > 0: valid but holds no values
  deriving DecidableEq

def AVal.size : AVal → Nat | .live c => c.length | .moved n => n
def AVal.movedOf (v : AVal) : AVal := if v.size = 0 then .live [] else .moved v.size
def AVal.copyOf : AVal → AVal | .live c => .live c | .moved n => .live (zeros n)

abbrev AState := Nat → Option AVal

def astep (s : AState) : Op → AState
  | .ctor i n => match s i with | some _ => s | none => upd s i (some (.live (zeros n)))
  | .dtor i => upd s i none
  | .copyCtor dst src => match s dst, s src with
    | none, some v => upd s dst (some v.copyOf)
    | _, _ => s
  | .moveCtor dst src => match s dst, s src with
    | none, some v => upd (upd s src (some v.movedOf)) dst (some (match v with | .live c => .live c | .moved n => .moved n))
    | _, _ => s
  | .copyAssign dst src => match s dst, s src with
    | some _, some v => if dst = src then s else upd s dst (some v.copyOf)
    | _, _ => s
  | .moveAssign dst src => match s dst, s src with
    | some _, some v => if dst = src then s else upd (upd s src (some v.movedOf)) dst (some v)
    | _, _ => s
  | .write i k v => match s i with
    | some (.live c) => if k < c.length then upd s i (some (.live (c.set k v))) else s
    | _ => s
  | .convert dst src => match s dst, s src with
    | none, some (.live c) => upd s dst (some (.live c))
    | _, _ => s
  | .dumpLoad dst src => match s src with
    | some (.live c) => upd s dst (some (.live c))
    | _ => s

/-- abstraction of a concrete state -/
def abs (s : CState) : AState := fun i =>
  match s.slots i with
  | none => none
  | some ⟨n, some a⟩ => some (.live ((s.heap a).getD []))
  | some ⟨n, none⟩ => some (if n = 0 then .live [] else .moved n)

/-- no aliasing, no leak, no dangling pointer, sizes consistent, no error so far -/
structure HInv (s : CState) : Prop where
  noalias : ∀ i j ni nj a, s.slots i = some ⟨ni, some a⟩ → s.slots j = some ⟨nj, some a⟩ → i = j
  owned   : ∀ a, s.heap a ≠ none → ∃ i n, s.slots i = some ⟨n, some a⟩
  live    : ∀ i n a, s.slots i = some ⟨n, some a⟩ → ∃ buf, s.heap a = some buf ∧ buf.length = n
  fresh   : ∀ a, s.heap a ≠ none → a < s.next
  good    : s.bad = false

end Covfie.Heap
