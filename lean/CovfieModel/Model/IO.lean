/-! Byte-level model of covfie's binary format: writer `dump`, type-directed reader `load`. -/
namespace Covfie.IO

abbrev Byte := Nat

inductive IOErr | truncated | badMagic | badTag | badWidth
  deriving DecidableEq, Repr

abbrev Parser (α : Type) := List Byte → Except IOErr (α × List Byte)

/-- `k` bytes, little endian -/
def le : Nat → Nat → List Byte
  | 0, _ => []
  | k+1, w => (w % 256) :: le k (w / 256)

/-- `istream::read` of `k` bytes into an integer; a short read is an error (repaired `read_binary`) -/
def rd : Nat → Parser Nat
  | 0, bs => .ok (0, bs)
  | _+1, [] => .error .truncated
  | k+1, b :: bs => match rd k bs with
      | .error e => .error e
      | .ok (v, r) => .ok (b + 256 * v, r)

def pureP {α} (a : α) : Parser α := fun bs => .ok (a, bs)
def failP {α} (e : IOErr) : Parser α := fun _ => .error e
def bindP {α β} (p : Parser α) (q : α → Parser β) : Parser β := fun bs =>
  match p bs with
  | .error e => .error e
  | .ok (a, r) => q a r

def expect (k w : Nat) (e : IOErr) : Parser Unit :=
  bindP (rd k) (fun v => if v = w then pureP () else failP e)

def readN {α} (p : Parser α) : Nat → Parser (List α)
  | 0 => pureP []
  | n+1 => bindP p (fun a => bindP (readN p n) (fun as => pureP (a :: as)))

def MAGH : Nat := 0xC04F1EAB
def MAGF : Nat := 0xC04F1E70
def FOOT : Nat := 0x20000000
def hdr (t : Nat) : List Byte := le 4 MAGH ++ le 4 t
def ftr (t : Nat) : List Byte := le 4 MAGF ++ le 4 (t + FOOT)
def pHdr (t : Nat) : Parser Unit := bindP (expect 4 MAGH .badMagic) (fun _ => expect 4 t .badTag)
def pFtr (t : Nat) : Parser Unit := bindP (expect 4 MAGF .badMagic) (fun _ => expect 4 (t + FOOT) .badTag)

def T_FIELD : Nat := 0xAB000000
def T_ARRAY : Nat := 0xAB010000
def T_CONST : Nat := 0xAB010001
def T_IDENT : Nat := 0xAB010002
def T_AFFINE : Nat := 0xAB020000
def T_BACKUP : Nat := 0xAB020001
def T_CLAMP : Nat := 0xAB020002
def T_HILBERT : Nat := 0xAB020004
def T_MORTON : Nat := 0xAB020006
def T_STRIDED : Nat := 0xAB020010

/-- what the serialiser needs to know about a stack: scalar sizes in bytes and dimensions -/
inductive Ty
  | array (M : Nat)                         -- M scalars per cell; the width is in the file
  | constant (sz M : Nat)
  | identity
  | sized (tag N : Nat) (b : Ty)            -- strided / morton / hilbert: N extents as u64
  | clamp (sz N : Nat) (b : Ty)             -- min, max: N coordinate scalars of sz bytes
  | backup (sz N osz M : Nat) (b : Ty)      -- min, max, default
  | affine (sz N : Nat) (b : Ty)            -- N×(N+1) scalars
  | thin (b : Ty)                           -- interpolators, shuffle, cast, dereference: no footprint

inductive Dat
  | array (wd count : Nat) (cells : List Nat)
  | constant (v : List Nat)
  | identity
  | sized (cfg : List Nat) (b : Dat)
  | clamp (lo hi : List Nat) (b : Dat)
  | backup (lo hi dflt : List Nat) (b : Dat)
  | affine (m : List Nat) (b : Dat)
  | thin (b : Dat)
  deriving DecidableEq, Repr

def words (k : Nat) (xs : List Nat) : List Byte := xs.flatMap (le k)

/-- header · body · footer -/
def wrapD (t : Nat) (body : List Byte) : List Byte := hdr t ++ body ++ ftr t
/-- read header, run the body parser, read footer -/
def wrapP {α} (t : Nat) (body : Parser α) : Parser α :=
  bindP (pHdr t) fun _ => bindP body fun a => bindP (pFtr t) fun _ => pureP a

def tagOf : Ty → Nat
  | .array _ => T_ARRAY | .constant _ _ => T_CONST | .identity => T_IDENT
  | .sized t _ _ => t | .clamp _ _ _ => T_CLAMP | .backup _ _ _ _ _ => T_BACKUP
  | .affine _ _ _ => T_AFFINE | .thin _ => 0

def dumpB : Ty → Dat → List Byte
  | .array _, .array wd count cells => wrapD T_ARRAY (le 4 wd ++ le 8 count ++ words wd cells)
  | .constant sz _, .constant v => wrapD T_CONST (words sz v)
  | .identity, .identity => wrapD T_IDENT []
  | .sized t _ b, .sized cfg d => wrapD t (words 8 cfg ++ dumpB b d)
  | .clamp sz _ b, .clamp lo hi d => wrapD T_CLAMP (words sz lo ++ words sz hi ++ dumpB b d)
  | .backup sz _ osz _ b, .backup lo hi df d =>
      wrapD T_BACKUP (words sz lo ++ words sz hi ++ words osz df ++ dumpB b d)
  | .affine sz _ b, .affine m d => wrapD T_AFFINE (words sz m ++ dumpB b d)
  | .thin b, .thin d => dumpB b d
  | _, _ => []

/-- `field::dump` -/
def dump (ty : Ty) (d : Dat) : List Byte := wrapD T_FIELD (dumpB ty d)

def loadB : Ty → Parser Dat
  | .array M => wrapP T_ARRAY (bindP (rd 4) fun wd =>
      if wd = 4 ∨ wd = 8 then
        bindP (rd 8) fun n => bindP (readN (rd wd) (n * M)) fun cells => pureP (.array wd n cells)
      else failP .badWidth)
  | .constant sz M => wrapP T_CONST (bindP (readN (rd sz) M) fun v => pureP (.constant v))
  | .identity => wrapP T_IDENT (pureP .identity)
  | .sized t N b => wrapP t (bindP (readN (rd 8) N) fun cfg => bindP (loadB b) fun d => pureP (.sized cfg d))
  | .clamp sz N b => wrapP T_CLAMP (bindP (readN (rd sz) N) fun lo => bindP (readN (rd sz) N) fun hi =>
      bindP (loadB b) fun d => pureP (.clamp lo hi d))
  | .backup sz N osz M b => wrapP T_BACKUP (bindP (readN (rd sz) N) fun lo => bindP (readN (rd sz) N) fun hi =>
      bindP (readN (rd osz) M) fun df => bindP (loadB b) fun d => pureP (.backup lo hi df d))
  | .affine sz N b => wrapP T_AFFINE (bindP (readN (rd sz) (N * (N + 1))) fun m =>
      bindP (loadB b) fun d => pureP (.affine m d))
  | .thin b => bindP (loadB b) fun d => pureP (.thin d)

/-- `field(std::istream&)`; nothing after the global footer is consumed -/
def load (ty : Ty) : Parser Dat := wrapP T_FIELD (loadB ty)

def allLt (b : Nat) (xs : List Nat) : Prop := ∀ x ∈ xs, x < b

/-- well-formed content for a type (dimensions match, words in range) -/
def WF : Ty → Dat → Prop
  | .array M, .array wd count cells => (wd = 4 ∨ wd = 8) ∧ count < 256^8 ∧ cells.length = count * M ∧ allLt (256^wd) cells
  | .constant sz M, .constant v => v.length = M ∧ allLt (256^sz) v
  | .identity, .identity => True
  | .sized t N b, .sized cfg d => t + FOOT < 256^4 ∧ cfg.length = N ∧ allLt (256^8) cfg ∧ WF b d
  | .clamp sz N b, .clamp lo hi d => lo.length = N ∧ hi.length = N ∧ allLt (256^sz) lo ∧ allLt (256^sz) hi ∧ WF b d
  | .backup sz N osz M b, .backup lo hi df d =>
      lo.length = N ∧ hi.length = N ∧ df.length = M ∧ allLt (256^sz) lo ∧ allLt (256^sz) hi ∧ allLt (256^osz) df ∧ WF b d
  | .affine sz N b, .affine m d => m.length = N * (N + 1) ∧ allLt (256^sz) m ∧ WF b d
  | .thin b, .thin d => WF b d
  | _, _ => False

end Covfie.IO
