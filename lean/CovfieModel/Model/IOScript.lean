import CovfieModel.Model.IO
/-! The `write_binary` / `read_binary` members of the layers as scripts of the few statements they are written in
(`harness/cxx2io.py` recognises each statement): header, footer, one raw member write / one typed read, the inner layer. -/
namespace Covfie.IO

/-- kinds of serialised members -/
inductive FKind | coord | out | sizes | matrix | value
  deriving DecidableEq, Repr

inductive Item
  | hdr | ftr | field (k : FKind) | inner
  deriving DecidableEq, Repr

structure Script where
  tag : Nat
  write : List Item
  read : List Item
  deriving DecidableEq, Repr

/-- the writer: fields are consumed in the order the script names them -/
def wr (tag : Nat) : List Item → List (List Byte) → List Byte → List Byte
  | [], _, _ => []
  | .hdr :: is, fs, inn => hdr tag ++ wr tag is fs inn
  | .ftr :: is, fs, inn => ftr tag ++ wr tag is fs inn
  | .field _ :: is, f :: fs, inn => f ++ wr tag is fs inn
  | .field _ :: is, [], inn => wr tag is [] inn
  | .inner :: is, fs, inn => inn ++ wr tag is fs inn

/-- the reader: one parser per field, in the order the script names them; yields the fields read and the inner datum -/
def rdS (tag : Nat) : List Item → List (Parser (List Nat)) → Parser Dat → Parser (List (List Nat) × Option Dat)
  | [], _, _ => pureP ([], none)
  | .hdr :: is, ps, pin => bindP (pHdr tag) fun _ => rdS tag is ps pin
  | .ftr :: is, ps, pin => bindP (pFtr tag) fun _ => rdS tag is ps pin
  | .field _ :: is, p :: ps, pin => bindP p fun v => bindP (rdS tag is ps pin) fun r => pureP (v :: r.1, r.2)
  | .field _ :: is, [], pin => rdS tag is [] pin
  | .inner :: is, ps, pin => bindP pin fun d => bindP (rdS tag is ps pin) fun r => pureP (r.1, some d)

def FKind.name : FKind → String
  | .coord => "coord" | .out => "out" | .sizes => "sizes" | .matrix => "matrix" | .value => "value"
def Item.name : Item → String
  | .hdr => "H" | .ftr => "F" | .field k => s!"({k.name})" | .inner => "I"
def Script.toSexp (s : Script) : String :=
  s!"(io {s.tag} (write {" ".intercalate (s.write.map Item.name)}) (read {" ".intercalate (s.read.map Item.name)}))"

namespace Ref
def constant : Script := ⟨T_CONST, [.hdr, .field .value, .ftr], [.hdr, .field .value, .ftr]⟩
def identity : Script := ⟨T_IDENT, [.hdr, .ftr], [.hdr, .ftr]⟩
def strided : Script := ⟨T_STRIDED, [.hdr, .field .sizes, .inner, .ftr], [.hdr, .field .sizes, .inner, .ftr]⟩
def morton : Script := ⟨T_MORTON, [.hdr, .field .sizes, .inner, .ftr], [.hdr, .field .sizes, .inner, .ftr]⟩
def hilbert : Script := ⟨T_HILBERT, [.hdr, .field .sizes, .inner, .ftr], [.hdr, .field .sizes, .inner, .ftr]⟩
def clamp : Script := ⟨T_CLAMP, [.hdr, .field .coord, .field .coord, .inner, .ftr], [.hdr, .field .coord, .field .coord, .inner, .ftr]⟩
def backup : Script := ⟨T_BACKUP, [.hdr, .field .coord, .field .coord, .field .out, .inner, .ftr],
  [.hdr, .field .coord, .field .coord, .field .out, .inner, .ftr]⟩
def affine : Script := ⟨T_AFFINE, [.hdr, .field .matrix, .inner, .ftr], [.hdr, .field .matrix, .inner, .ftr]⟩
def thin : Script := ⟨0, [.inner], [.inner]⟩
/-- `field::dump` / `field(std::istream&)` in field.hpp: the global header, the whole stack, the global footer -/
def field : Script := ⟨T_FIELD, [.hdr, .inner, .ftr], [.hdr, .inner, .ftr]⟩
end Ref

/-- layer (as `harness/cxx2io.py` names it) -> its script -/
def Ref.all : List (String × Script) :=
  [("io_constant", Ref.constant), ("io_identity", Ref.identity), ("io_strided", Ref.strided), ("io_morton", Ref.morton),
   ("io_hilbert", Ref.hilbert), ("io_clamp", Ref.clamp), ("io_backup", Ref.backup), ("io_affine", Ref.affine),
   ("io_linear", Ref.thin), ("io_nearest_neighbour", Ref.thin), ("io_shuffle", Ref.thin), ("io_covariant_cast", Ref.thin),
   ("io_dereference", Ref.thin), ("io_field", Ref.field)]

end Covfie.IO
